"""C03  Estimates are quadratic in signal amplitude."""
import numpy as np

import proto
import classes as C
from common import rel

TRUSTED_BASE = [
    "the scaling theorems are about the model; each functional estimator is tied to the model by the correspondence of its own "
    "property, and here again on the SCALED input c*x (Burg, Yule-Walker, correlation, periodogram, adaptive multitaper)",
    "SVD-based decisions (MUSIC/EV subspace, threshold, AIC/MDL) are covered relative to the SVD contract; checked by the oracle",
    "the oracle compares the library on c*x with the stated multiple of the library on x (the property is a relation between two runs "
    "of one estimator; the reference side is the scaling law itself, written in the oracle)",
]
PARTIAL = ["MUSIC/EV: relative to the SVD parameter (singular values scale by |c|, right singular subspaces unchanged)",
           "adaptive multitaper: the whole 100-pass loop is proved scale-free in exact arithmetic (C03.mt_adapt_scale_data); a floating-point "
           "run whose distance sits exactly at the tolerance could stop one pass apart - outside the model",
           "bin-by-bin comparison: adaptive multitaper (data-dependent iteration), MUSIC / EV pseudo-spectra and parma (arma_estimate is ill-conditioned on narrow-band records: up to 3e-5 per bin on the unchanged library) are compared "
           "max-normalised only; the kinds hdr / hdrar are oracle-only (library on c*x against |c|^2 times the library on x); WelchPeriodogram "
           "(a wrapper of matplotlib's psd) has no Lean model"]
ASSUMPTIONS = ["1e-3 <= |c| <= 1e3; complex c for complex data; orders/lags/NFFT inside each estimator's documented domain",
               "integer-typed records are scaled by an integer c (the scaled record is again integer-typed); class detrend in {None, 'mean'}; "
               "eigen threshold >= 1, 0 <= NSIG < P",
               "every observation point is compared max-normalised at 1e-6 (1e-7 for the Burg / Levinson / correlation / periodogram "
               "recursions in the N=40 function form); the unchanged library stays below 1e-9 on every case family",
               "bin-by-bin kinds (hdr, hdrar): floating point cannot deliver a relative accuracy u in a bin that lies D dB below the strongest "
               "spectral component of the record: an FFT of the data loses D/2 dB (amplitudes), an FFT of the correlation sequence D dB (powers). "
               "The per-bin tolerance is that round-off model with a constant 39x above what the unchanged library needs (K = 200 against "
               "<= 5.1 measured; correlogram K = 150 against <= 3.7); for Daniell the 'strongest component' is taken from the periodogram the estimate is averaged from (bin 0 and "
               "the trailing bins are not part of the Daniell estimate), with detrending from the estimate without detrending",
               "hdrar: AR / MA classes are compared per bin only on records on which their normal equations are well conditioned "
               "(noise-driven AR(2)); a noise-free tone makes them singular to working precision (rho = 0 in exact arithmetic)"]
RULE = ("random data (real/complex; N = 40, 9, 256, 257, 300, 1024; float, int64 with integer c, list input) x scalars c in {1e-3, -3, 1e3, "
        "-0.37, -1000, 7.3, 2-1j, 1e-3j, random} x every functional estimator (default and explicit arguments, ARMA with P<=4 and P>4, "
        "P!=Q, auto and cross correlation forms, matrix periodogram, dpss-supplied tapers) and every class variant (14; default, random, "
        "boundary and explicit configurations; every window name; scale_by_freq False/True/class default) x all six Burg criteria x eigen "
        "criteria (aic, mdl, threshold, explicit NSIG incl. 0 and P-1); class observation points psd, ar, ma, rho, reflection, weights, "
        "eigenvalues; PLUS bin-by-bin comparisons (every bin against its own value, tolerance from the FFT round-off model "
        "2*K*u*sqrt(peak*bin) + (K*u)^2*peak, K = 200) on high-dynamic-range records (strong low / top-of-band line over a white floor 120-200 dB "
        "down, with a second weak line, noise-free windowed tones, gaussian low-pass pulse over a floor, int64 24-bit converter record, white "
        "noise, tone + 1e-3 noise; real/complex; N = 256 ... 2048; arrays, lists; overall amplitude 1e-6 ... 1e6) x scalars that are not powers "
        "of two (3, -0.7, 1e3/3, 1.7e-3, +-1e-3, 1e3, 7.3, random; 0.6-1.1j, 600-800j, 6e-4+8e-4j, random complex; integer c for the int64 "
        "records) x DaniellPeriodogram and pdaniell (P = 0, 1, 2, 3, 4, 5, 8, 16, random <= N/16; NFFT default, N, N+1, 2N, 2N+1, random; ten "
        "windows; detrend, sampling, scale_by_freq), speriodogram, Periodogram, MultiTapering unity / eigen, WelchPeriodogram (headless, "
        "NFFT 64 / 128 / default, noverlap, detrend), CORRELOGRAMPSD and pcorrelogram (|diff| <= K*u*peak, K = 150); per-bin relative "
        "comparison (1e-9) of pburg, pyule, pcovar, pmodcovar, pminvar, pma on narrow-band AR(2) records (pole radius 0.9 "
        "... 0.995)")

CRITS = ["AIC", "AICc", "KIC", "FPE", "AKICc", "MDL"]


def c_(v):
    return np.asarray(v).astype(complex).ravel()


def oracle_func(p):
    sp = C.sp()
    x = np.asarray(p["x"])
    c = p["c"]
    y = c * x
    s = abs(c) ** 2
    out = []
    tol = 1e-7
    cplx = np.iscomplexobj(x)

    def chk(name, got, exp, t=tol):
        r = rel(c_(got), c_(exp))
        if r > t:
            out.append("%s: not equivariant under x -> c*x with c=%r (%s data): rel err %.2e" % (name, c, "complex" if cplx else "real", r))

    a1, r1, k1 = sp.arburg(x, 5)
    a2, r2, k2 = sp.arburg(y, 5)
    chk("arburg coefficients", a2, a1); chk("arburg variance", [r2], [s * r1]); chk("arburg reflection", k2, k1)
    a1, r1, k1 = sp.aryule(x, 5)
    a2, r2, k2 = sp.aryule(y, 5)
    chk("aryule coefficients", a2, a1); chk("aryule variance", [r2], [s * r1]); chk("aryule reflection", k2, k1)
    a1, e1 = sp.arcovar(x, 4)
    a2, e2 = sp.arcovar(y, 4)
    chk("arcovar coefficients", a2, a1, 1e-6); chk("arcovar error", [e2], [s * e1], 1e-6)
    a1, e1 = sp.modcovar(x, 4)
    a2, e2 = sp.modcovar(y, 4)
    chk("modcovar coefficients", a2, a1, 1e-6); chk("modcovar error", [e2], [s * e1], 1e-6)
    r = sp.arcovar_marple(x, 4)
    q = sp.arcovar_marple(y, 4)
    chk("arcovar_marple coefficients", q[0][:4], r[0][:4], 1e-6); chk("arcovar_marple error", [q[1]], [s * r[1]], 1e-6)
    r = sp.modcovar_marple(x, 4)
    q = sp.modcovar_marple(y, 4)
    chk("modcovar_marple coefficients", q[0][:4], r[0][:4], 1e-6); chk("modcovar_marple error", [q[1]], [s * r[1]], 1e-6)
    b1, r1 = sp.ma(x, 3, 8)
    b2, r2 = sp.ma(y, 3, 8)
    chk("ma coefficients", b2, b1); chk("ma variance", [r2], [s * r1])
    A1, B1, r1 = sp.arma_estimate(x, 3, 3, 8)
    A2, B2, r2 = sp.arma_estimate(y, 3, 3, 8)
    chk("arma AR", A2, A1, 1e-6); chk("arma MA", B2, B1, 1e-6); chk("arma variance", [r2], [s * r1], 1e-6)
    # the P > 4 branch of arma_estimate (arcovar instead of arcovar_marple on the lag sequence), P != Q, largest lag
    N = len(x)
    for (P, Q, lag) in ((5, 3, 14), (6, 6, 20), (8, 2, 18), (5, 5, N - 5), (1, 3, 8)):
        if lag <= max(Q, 1) or lag - Q + P > N - P or lag >= N:
            continue
        A1, B1, r1 = sp.arma_estimate(x, P, Q, lag)
        A2, B2, r2 = sp.arma_estimate(y, P, Q, lag)
        nm = "arma_estimate(P=%d,Q=%d,lag=%d)" % (P, Q, lag)
        chk(nm + " AR", A2, A1, 1e-6); chk(nm + " MA", B2, B1, 1e-6); chk(nm + " variance", [r2], [s * r1], 1e-6)
    a1, r1, k1 = sp.aryule(x, 5, norm="unbiased")
    a2, r2, k2 = sp.aryule(y, 5, norm="unbiased")
    chk("aryule(unbiased) coefficients", a2, a1, 1e-6); chk("aryule(unbiased) variance", [r2], [s * r1], 1e-6)
    chk("aryule(unbiased) reflection", k2, k1, 1e-6)
    p1, A1, k1 = sp.minvar(x, 5, NFFT=32)
    p2, A2, k2 = sp.minvar(y, 5, NFFT=32)
    chk("minvar PSD", p2, s * p1); chk("minvar AR", A2, A1); chk("minvar reflection", k2, k1)
    for kw in (dict(NSIG=2), dict(), dict(criteria="mdl"), dict(threshold=2.0)):
        p1, s1 = sp.music(x, 6, NFFT=32, **kw)
        p2, s2 = sp.music(y, 6, NFFT=32, **kw)
        chk("music pseudo-spectrum %s" % kw, p2, p1, 1e-6); chk("music singular values", s2, abs(c) * s1)
        p1, s1 = sp.ev(x, 6, NFFT=32, **kw)
        p2, s2 = sp.ev(y, 6, NFFT=32, **kw)
        chk("ev pseudo-spectrum %s" % kw, p2, abs(c) * p1, 1e-6)
    p1 = sp.speriodogram(x, NFFT=64, detrend=False, scale_by_freq=False)
    p2 = sp.speriodogram(y, NFFT=64, detrend=False, scale_by_freq=False)
    chk("speriodogram", p2, s * p1)
    for m in ("xcorr", "CORRELATION"):
        p1 = sp.CORRELOGRAMPSD(x, lag=6, NFFT=32, correlation_method=m)
        p2 = sp.CORRELOGRAMPSD(y, lag=6, NFFT=32, correlation_method=m)
        chk("CORRELOGRAMPSD(%s)" % m, p2, s * p1)
    for norm in ("biased", "unbiased", None):
        chk("CORRELATION(%s)" % norm, sp.CORRELATION(y, maxlags=5, norm=norm), s * np.asarray(sp.CORRELATION(x, maxlags=5, norm=norm)))
    chk("CORRELATION(coeff)", sp.CORRELATION(y, maxlags=5, norm="coeff"), sp.CORRELATION(x, maxlags=5, norm="coeff"))
    for meth in ("unity", "eigen", "adapt"):
        S1, w1, e1 = sp.pmtm(x, NW=2.5, NFFT=64, method=meth, show=False)
        S2, w2, e2 = sp.pmtm(y, NW=2.5, NFFT=64, method=meth, show=False)
        chk("pmtm(%s) eigenspectra" % meth, S2, c * np.asarray(S1))
        chk("pmtm(%s) weights" % meth, w2, w1, 1e-6)
    for crit in CRITS:
        a1, r1, k1 = sp.arburg(x, 10, crit)
        a2, r2, k2 = sp.arburg(y, 10, crit)
        if len(a1) != len(a2):
            out.append("arburg criterion %s selects order %d for x and %d for c*x (c=%r)" % (crit, len(a1), len(a2), c))
        else:
            chk("arburg(%s) coefficients" % crit, a2, a1)
            chk("arburg(%s) variance" % crit, [r2], [s * r1]); chk("arburg(%s) reflection" % crit, k2, k1)
    # default arguments (detrend=True, scale_by_freq=True, hamming, NFFT=N) and an odd NFFT with a sampling frequency
    chk("speriodogram(defaults)", sp.speriodogram(y), s * np.asarray(sp.speriodogram(x)))
    chk("speriodogram(NFFT=65, sampling=3)", sp.speriodogram(y, NFFT=65, sampling=3.), s * np.asarray(sp.speriodogram(x, NFFT=65, sampling=3.)))
    if N >= 40:
        X = np.column_stack([x[0:16], x[12:28], x[24:40]])        # 16 x 3 matrix: one periodogram per column
        for det in (False, True):
            m1 = np.asarray(sp.speriodogram(X, detrend=det))
            m2 = np.asarray(sp.speriodogram(c * X, detrend=det))
            if m1.shape != m2.shape or m1.ndim != 2:
                out.append("speriodogram(16x3 matrix, detrend=%s): shapes %r / %r" % (det, m1.shape, m2.shape))
            else:
                chk("speriodogram(16x3 matrix, detrend=%s)" % det, m2, s * m1)
    # cross forms, BOTH records scaled: r_xy and the cross correlogram are sesquilinear, hence |c|^2 (coeff: unchanged)
    z = _second(p, x)
    w = c * z
    for norm in ("biased", "unbiased", None, "coeff"):
        f = 1.0 if norm == "coeff" else s
        chk("CORRELATION(x, y, %s)" % norm, sp.CORRELATION(y, w, maxlags=7, norm=norm), f * np.asarray(sp.CORRELATION(x, z, maxlags=7, norm=norm)))
        chk("xcorr(x, y, %s)" % norm, sp.xcorr(y, w, maxlags=7, norm=norm)[0], f * np.asarray(sp.xcorr(x, z, maxlags=7, norm=norm)[0]))
        chk("xcorr(x, %s)" % norm, sp.xcorr(y, maxlags=9, norm=norm)[0], f * np.asarray(sp.xcorr(x, maxlags=9, norm=norm)[0]))
        for m in ("xcorr", "CORRELATION"):
            chk("CORRELOGRAMPSD(X, Y, norm=%s, %s)" % (norm, m), sp.CORRELOGRAMPSD(y, w, lag=6, NFFT=33, norm=norm, correlation_method=m),
                f * np.asarray(sp.CORRELOGRAMPSD(x, z, lag=6, NFFT=33, norm=norm, correlation_method=m)))
    # tapers supplied by the caller (e=, v=) instead of NW
    from spectrum.mtm import dpss
    v, e = dpss(N, 3.0, 5)
    for meth in ("unity", "eigen", "adapt"):
        S1, w1, e1 = sp.pmtm(x, e=e, v=v, NFFT=2 * N + 1, method=meth, show=False)
        S2, w2, e2 = sp.pmtm(y, e=e, v=v, NFFT=2 * N + 1, method=meth, show=False)
        chk("pmtm(e=, v=, %s) eigenspectra" % meth, S2, c * np.asarray(S1))
        chk("pmtm(e=, v=, %s) weights" % meth, w2, w1, 1e-6)
        chk("pmtm(e=, v=, %s) eigenvalues" % meth, e2, e1)
    return out


def _second(p, x):
    """the second record of the cross forms: p['y'] when the case carries one (same length and kind as x), else derived from x"""
    z = p.get("y")
    if z is not None and len(z) == len(x):
        z = np.asarray(z)
        if np.iscomplexobj(x) and not np.iscomplexobj(z):
            z = z.astype(complex)
        if np.iscomplexobj(x) or not np.iscomplexobj(z):
            return z
    x = np.asarray(x)
    return 0.5 * x[::-1] + np.roll(x, 3)


def _record(p):
    """(x, c*x) as handed to the library: float / complex arrays, an integer-typed array with an integer c, or python lists"""
    x = np.asarray(p["x"])
    c = p["c"]
    y = c * x
    if p.get("aslist"):
        return [v.item() for v in x], [v.item() for v in y]
    return x, y


def oracle_funcx(p):
    """the functional estimators with orders / lags / NFFT taken from the case (long and very short records, boundary orders,
    integer-typed and list input)"""
    sp = C.sp()
    x, y = _record(p)
    c = p["c"]
    a = abs(c)
    s = a ** 2
    N = len(x)
    q = p["q"]
    tol = p.get("tol", 1e-6)
    out = []
    what = "%s%s N=%d" % ("complex" if np.iscomplexobj(np.asarray(x)) else "real", " list" if p.get("aslist") else " " + str(np.asarray(x).dtype), N)

    def run(name, f, facs, t=None):
        try:
            o1 = f(x)
        except Exception as e1:
            try:
                f(y)
            except Exception:
                out.append("%s (%s): raises on in-domain input: %r" % (name, what, e1))
                return
            out.append("%s (%s): raises on x but not on c*x (c=%r): %r" % (name, what, c, e1))
            return
        try:
            o2 = f(y)
        except Exception as e2:
            out.append("%s (%s): raises on c*x only (c=%r): %r" % (name, what, c, e2))
            return
        for i, fac in enumerate(facs):
            if fac is None:
                continue
            r = rel(c_(np.atleast_1d(o2[i])), fac * c_(np.atleast_1d(o1[i])))
            if r > (t or tol):
                out.append("%s output %d (%s): not equivariant under x -> c*x with c=%r: rel err %.2e" % (name, i, what, c, r))

    for od in q.get("burg", ()):
        run("arburg(%d)" % od, lambda d: sp.arburg(d, od), (1, s, 1))
    for od in q.get("yule", ()):
        run("aryule(%d)" % od, lambda d: sp.aryule(d, od), (1, s, 1))
        run("aryule(%d, unbiased)" % od, lambda d: sp.aryule(d, od, norm="unbiased"), (1, s, 1))
    for od in q.get("covar", ()):
        run("arcovar(%d)" % od, lambda d: sp.arcovar(d, od), (1, s))
        run("modcovar(%d)" % od, lambda d: sp.modcovar(d, od), (1, s))
        run("arcovar_marple(%d)" % od, lambda d: (sp.arcovar_marple(d, od)[0][:od], sp.arcovar_marple(d, od)[1]), (1, s))
        run("modcovar_marple(%d)" % od, lambda d: (sp.modcovar_marple(d, od)[0][:od], sp.modcovar_marple(d, od)[1]), (1, s))
    for (Q, M) in q.get("ma", ()):
        run("ma(%d,%d)" % (Q, M), lambda d: sp.ma(d, Q, M), (1, s))
    for (P, Q, lag) in q.get("arma", ()):
        run("arma_estimate(%d,%d,%d)" % (P, Q, lag), lambda d: sp.arma_estimate(d, P, Q, lag), (1, 1, s))
    for (od, nf) in q.get("minvar", ()):
        run("minvar(%d, NFFT=%d)" % (od, nf), lambda d: sp.minvar(d, od, NFFT=nf), (s, 1, 1))
    for (P, nf, kw) in q.get("eigen", ()):
        run("music(%d, NFFT=%d, %s)" % (P, nf, kw), lambda d: sp.music(d, P, NFFT=nf, **kw), (1, a))
        run("ev(%d, NFFT=%d, %s)" % (P, nf, kw), lambda d: sp.ev(d, P, NFFT=nf, **kw), (a, a))
    for crit in q.get("crit", ()):
        od = q["critorder"]
        run("arburg(%d, %s)" % (od, crit), lambda d: sp.arburg(d, od, crit), (1, s, 1))
    for lag in q.get("corr", ()):
        for norm in ("biased", "unbiased", None, "coeff"):
            f = 1.0 if norm == "coeff" else s
            run("CORRELATION(maxlags=%d, %s)" % (lag, norm), lambda d: (sp.CORRELATION(d, maxlags=lag, norm=norm),), (f,))
            run("xcorr(maxlags=%d, %s)" % (lag, norm), lambda d: (sp.xcorr(d, maxlags=lag, norm=norm)[0],), (f,))
    for (lag, nf) in q.get("correlogram", ()):
        for m in ("xcorr", "CORRELATION"):
            run("CORRELOGRAMPSD(lag=%d, NFFT=%d, %s)" % (lag, nf, m), lambda d: (sp.CORRELOGRAMPSD(d, lag=lag, NFFT=nf, correlation_method=m),), (s,))
    for kw in q.get("sper", ()):
        run("speriodogram(%s)" % kw, lambda d: (sp.speriodogram(d, **kw),), (s,))
    for (NW, k, nf) in q.get("mtm", ()):
        for meth in ("unity", "eigen", "adapt"):
            if meth == "adapt" and k is not None and k < 2:
                continue
            # eigenspectra are linear in the data (times c itself), weights and concentrations unchanged
            run("pmtm(NW=%g, k=%r, NFFT=%d, %s)" % (NW, k, nf, meth), lambda d: sp.pmtm(d, NW=NW, k=k, NFFT=nf, method=meth, show=False), (c, 1, 1))
    return out


def oracle_bigeigen(p):
    """subspace decisions (AIC / MDL / threshold) for a large order on a long record, under a small and a large amplitude"""
    sp = C.sp()
    x = np.asarray(p["x"])
    P = p["P"]
    out = []
    for crit in ("aic", "mdl"):
        p1, s1 = sp.music(x, P, NFFT=256, criteria=crit)
        e1, _ = sp.ev(x, P, NFFT=256, criteria=crit)
        for cc in p["cs"]:
            p2, s2 = sp.music(cc * x, P, NFFT=256, criteria=crit)
            if rel(np.asarray(p2), np.asarray(p1)) > 1e-5:
                out.append("music (P=%d, N=%d, criteria=%s): pseudo-spectrum changes under x -> %g*x (subspace decision depends on the "
                           "amplitude): rel err %.2e" % (P, len(x), crit, cc, rel(np.asarray(p2), np.asarray(p1))))
                break
            e2, _ = sp.ev(cc * x, P, NFFT=256, criteria=crit)
            if rel(np.asarray(e2), abs(cc) * np.asarray(e1)) > 1e-5:
                out.append("ev (P=%d, criteria=%s): pseudo-spectrum is not |c| times the original for c=%g" % (P, crit, cc))
                break
    return out


def _make(p, d):
    """the class instance of case p on the record d.  Plain configurations go through classes.make; the decision options of the
    constructors (opt: criteria / threshold / norm / detrend / dpss-supplied tapers) and the class-default scale_by_freq
    (scale == "default": the keyword is not passed) call the constructors here."""
    s = C.sp()
    cls = p["cls"]
    fs = p.get("fs", 1.0)
    scale = p.get("scale", False)
    opt = p.get("opt") or {}
    if not opt and scale != "default":
        return C.make(cls, d, p["nfft"], fs, scale, p.get("cfg"))
    cfg = p.get("cfg") or C.default_cfg(cls, len(d), np.iscomplexobj(np.asarray(d)))
    kw = dict(NFFT=p["nfft"], sampling=fs)
    if scale != "default":
        kw["scale_by_freq"] = scale
    if cls == "Periodogram":
        return s.Periodogram(d, window=cfg.get("window", "hann"), detrend=opt.get("detrend"), **kw)
    if cls == "pcorrelogram":
        return s.pcorrelogram(d, lag=cfg["lag"], window=cfg.get("window", "hamming"), **kw)
    if cls == "pburg":
        return s.pburg(d, cfg["order"], criteria=opt.get("criteria"), **kw)
    if cls == "pyule":
        return s.pyule(d, cfg["order"], norm=opt.get("norm", "biased"), **kw)
    if cls == "pcovar":
        return s.pcovar(d, cfg["order"], **kw)
    if cls == "pmodcovar":
        return s.pmodcovar(d, cfg["order"], **kw)
    if cls == "parma":
        return s.parma(d, cfg["order"], cfg["Q"], cfg["lag"], **kw)
    if cls == "pma":
        return s.pma(d, cfg["Q"], cfg["M"], **kw)
    if cls == "pminvar":
        return s.pminvar(d, cfg["order"], **kw)
    if cls in ("pmusic", "pev"):
        k2 = {}
        if "threshold" in opt:
            k2["threshold"] = opt["threshold"]
        if "criteria" in opt:
            k2["criteria"] = opt["criteria"]
        return getattr(s, cls)(d, cfg["order"], NSIG=cfg.get("nsig"), **dict(kw, **k2))
    if cls.startswith("MT-"):
        if opt.get("dpss"):
            from spectrum.mtm import dpss
            v, e = dpss(len(d), opt["dpss"][0], opt["dpss"][1])
            return s.MultiTapering(d, e=e, v=v, method=cls[3:], **kw)
        return s.MultiTapering(d, NW=cfg.get("NW", 2.5), k=cfg.get("k"), method=cls[3:], **kw)
    raise ValueError(cls)


def oracle_class(p):
    x, y = _record(p)
    c = p["c"]
    cls = p["cls"]
    tol = p.get("tol", 1e-6)
    o1 = _make(p, x)
    o2 = _make(p, y)
    a1, a2 = np.asarray(o1.psd), np.asarray(o2.psd)
    fac = 1.0 if cls == "pmusic" else (abs(c) if cls == "pev" else abs(c) ** 2)
    what = "c=%r, %s data, N=%d, cfg=%r, opt=%r" % (c, "complex" if np.iscomplexobj(np.asarray(x)) else "real", len(x), p.get("cfg"), p.get("opt"))
    if np.iscomplexobj(a2) or a1.shape != a2.shape or rel(a2, fac * a1) > tol:
        return ["%s PSD of c*x is not %s times the PSD of x (%s): rel err %.2e" % (
            cls, {1.0: "1"}.get(fac, "|c|" if cls == "pev" else "|c|^2"), what,
            rel(a2, fac * a1) if a1.shape == a2.shape and not np.iscomplexobj(a2) else float("inf"))]
    # the other observation points of the instance: noise variance x |c|^2; AR / MA / reflection coefficients, multitaper weights and
    # taper concentrations unchanged (same number of them: same order decision); singular values of the data matrix x |c|
    out = []
    eig = abs(c) if cls in ("pmusic", "pev") else 1.0
    for nm, f in (("rho", abs(c) ** 2), ("ar", 1.0), ("ma", 1.0), ("reflection", 1.0), ("weights", 1.0), ("eigenvalues", eig)):
        v1 = getattr(o1, nm, None)
        v2 = getattr(o2, nm, None)
        if v1 is None and v2 is None:
            continue
        if v1 is None or v2 is None:
            out.append("%s.%s is None for one of x, c*x only (%s)" % (cls, nm, what))
            continue
        v1, v2 = c_(v1), c_(v2)
        if v1.shape != v2.shape:
            out.append("%s.%s has %d entries for x and %d for c*x: the order / subspace decision depends on the amplitude (%s)" % (
                cls, nm, v1.size, v2.size, what))
        elif rel(v2, f * v1) > tol:
            law = "|c|^2 times" if nm == "rho" else ("|c| times" if nm == "eigenvalues" and cls in ("pmusic", "pev") else "equal to")
            out.append("%s.%s of c*x is not %s the one of x (%s): rel err %.2e" % (cls, nm, law, what, rel(v2, f * v1)))
    return out


# ---------------------------------------------------------------------------------------------------------------------------
# bin-by-bin comparison on records with a very large dynamic range
#
# The comparisons above are max-normalised: a bin that lies 160 dB below the strongest one may be completely wrong without moving
# rel() by more than 1e-16.  The kinds "hdr" / "hdrar" compare EVERY bin against its own value, on records whose spectrum spans
# 120 ... 300 dB (a strong line over a weak broadband floor, clean windowed tones, a strong smooth low-frequency component, a 24-bit
# converter record), with scalars that are not powers of two (a power of two scales every floating-point operation exactly and shows
# nothing).  What a correct implementation can deliver per bin depends on how the estimate is computed:
#   "amp"  the estimate is a sum of squared moduli of FFTs of the (tapered) data: periodogram, Daniell (function and class), Welch,
#          multitaper unity / eigen.  The FFT works on AMPLITUDES: its round-off is ~u*sqrt(peak) in every bin (u = 2^-52), hence
#              | sqrt(PSD(c x)[k]) - |c| sqrt(PSD(x)[k]) |  <=  K u sqrt(|c|^2 peak)          i.e.
#              | PSD(c x)[k] - |c|^2 PSD(x)[k] |            <=  2 K u sqrt(want[k] peak) + (K u)^2 peak
#          (a per-bin relative tolerance 2 K u sqrt(peak / want[k]): 4e-14 at the peak, 4e-6 in a bin 160 dB down, and the floor
#          (K u)^2 peak - 267 dB below the peak - for bins that are round-off only, exact zeros included).
#          Measured on the unchanged tree (sweep of the generator below: 40 seeds of the quick tier and 8 of the thorough tier, every
#          case also run in every variant of vcheck.vary: 4258 cases, ~50000 estimator pairs): K <= 5.08 (speriodogram; Periodogram <= 3.5,
#          Daniell function / class <= 3.3, Welch <= 1.8, multitaper <= 2.6); K_AMP = 200 is 39x that.  A Daniell smoothing written as a
#          difference of running sums needs K ~ 1e3 ... 1e10 on the line / clean / low-pass records.
#          "peak" is the largest value of the estimate, or of what it is computed from when that is not visible in it: _hdr_level.
#   "pow"  correlogram (function and class): an FFT of the lag-windowed CORRELATION sequence, i.e. of powers; its round-off is u*peak
#          in every bin (the estimate is not even non-negative), so the honest per-bin statement is |diff| <= K u peak.  Measured
#          K <= 3.61 on the same sweep; K_POW = 150 (41x; the max-normalised comparisons above allow 1e-6 = 4.5e9 u).
#   "bin"  AR / MA / minimum-variance classes (rho |B|^2 / |A|^2 from arma2psd): plain per-bin relative error on narrow-band AR(2)
#          records (pole radius 0.9 ... 0.995, spectra spanning 50 ... 100 dB): measured <= 2.0e-11 (pburg, pyule, pcovar, pmodcovar, pma,
#          pminvar; orders 2, 4, 8; N = 128, 256, 300; 40 seeds) -> RTOL_AR = 1e-9 (50x).  parma is NOT compared per bin: arma_estimate is
#          ill-conditioned on these records (up to 2.5e-5 per bin on the unchanged tree, heavy-tailed); a noise-free or nearly noise-free
#          tone makes every one of these estimators singular to working precision (pburg raises "negative value" for one of x, c*x).
U_ = 2.0 ** -52
K_AMP = 200.0
K_POW = 150.0
RTOL_AR = 1e-9

HDR_METRIC = {"daniell": "amp", "pdaniell": "amp", "sper": "amp", "Periodogram": "amp", "MT": "amp", "welch": "amp",
              "correlogram": "pow", "pcorrelogram": "pow",
              "pburg": "bin", "pyule": "bin", "pcovar": "bin", "pmodcovar": "bin", "pma": "bin", "pminvar": "bin"}


def _hdr_eval(fam, kw, d):
    """the PSD estimate of estimator `fam` (keyword arguments kw, JSON-able) on the record d, as a float array"""
    sp = C.sp()
    kw = dict(kw)
    if fam == "daniell":
        P = kw.pop("P")
        return np.asarray(sp.DaniellPeriodogram(d, P, **kw)[0], dtype=float)
    if fam == "pdaniell":
        P = kw.pop("P")
        return np.asarray(sp.pdaniell(d, P, **kw).psd, dtype=float)
    if fam == "sper":
        return np.asarray(sp.speriodogram(d, **kw), dtype=float)
    if fam == "Periodogram":
        return np.asarray(sp.Periodogram(d, **kw).psd, dtype=float)
    if fam == "MT":
        return np.asarray(sp.MultiTapering(d, **kw).psd, dtype=float)
    if fam == "welch":
        import pylab                                    # WelchPeriodogram wraps pylab.psd (draws on the current axes; Agg backend)
        nfft = kw.pop("NFFT")
        try:
            P, s_ = sp.WelchPeriodogram(d, nfft, **kw)
            return np.asarray(P[0], dtype=float)
        finally:
            pylab.close("all")
    if fam == "correlogram":
        return np.asarray(sp.CORRELOGRAMPSD(d, **kw), dtype=float)
    if fam == "pcorrelogram":
        return np.asarray(sp.pcorrelogram(d, **kw).psd, dtype=float)
    if fam in ("pburg", "pyule", "pcovar", "pmodcovar", "pminvar"):
        od = kw.pop("order")
        return np.asarray(getattr(sp, fam)(d, od, **kw).psd, dtype=float)
    if fam == "pma":
        return np.asarray(sp.pma(d, kw.pop("Q"), kw.pop("M"), **kw).psd, dtype=float)
    raise ValueError(fam)


def _hdr_name(fam, kw):
    nm = {"daniell": "DaniellPeriodogram", "sper": "speriodogram", "MT": "MultiTapering", "welch": "WelchPeriodogram",
          "correlogram": "CORRELOGRAMPSD"}.get(fam, fam)
    return "%s(%s)" % (nm, ", ".join("%s=%r" % (k, kw[k]) for k in sorted(kw)))


def _hdr_level(fam, kw, x):
    """the power level that sets the round-off of the estimate when it is NOT the largest value of the estimate itself:
    (a) the Daniell estimate is a DECIMATED average of the periodogram - bin 0 and the last (number of bins) mod (2P+1) bins are never
        used - so the strongest periodogram bin (whose amplitude sets the FFT round-off of every bin) need not be visible in it;
    (b) with detrending, the round-off is that of the record BEFORE the trend is removed (a Welch segment that is almost constant has a
        tiny detrended spectrum computed from large samples): the same estimator without detrending gives that level."""
    lev = 0.0

    def top(a):
        a = np.abs(np.asarray(a, dtype=float))
        a = a[np.isfinite(a)]
        return float(a.max()) if a.size else 0.0

    if fam in ("daniell", "pdaniell"):
        dflt = {"daniell": dict(detrend="mean", window="hamming"), "pdaniell": dict(detrend=None, window="hann")}[fam]
        kq = {k: kw.get(k, dflt.get(k)) for k in ("NFFT", "detrend", "window")}
        kq.update({k: kw[k] for k in ("sampling", "scale_by_freq") if k in kw})
        lev = top(C.sp().speriodogram(x, **kq))
        if kq["detrend"]:
            lev = max(lev, top(C.sp().speriodogram(x, **dict(kq, detrend=False))))
    elif fam in ("sper", "Periodogram", "welch") and kw.get("detrend", fam == "sper") not in (None, False, "none"):
        kr = dict(kw)
        if fam == "welch":
            kr.pop("detrend")
        else:
            kr["detrend"] = False if fam == "sper" else None
        lev = top(_hdr_eval(fam, kr, x))
    return lev


def hdr_measure(p):
    """[(estimator, metric, worst normalised error (in units of the allowed one), bin, got, want, per-bin relative error, message|None)]
    -- also used by the sweep that measured the constants above"""
    x, y = _record(p)
    c = p["c"]
    s = abs(c) ** 2
    res = []
    for fam, kw in p["ests"]:
        metric = HDR_METRIC[fam]
        name = _hdr_name(fam, kw)
        try:
            ref = _hdr_eval(fam, kw, x)
        except Exception as e1:
            try:
                _hdr_eval(fam, kw, y)
            except Exception:
                res.append((name, metric, float("inf"), -1, None, None, None, "raises on in-domain input: %r" % (e1,)))
                continue
            res.append((name, metric, float("inf"), -1, None, None, None, "raises on x but not on c*x: %r" % (e1,)))
            continue
        try:
            got = _hdr_eval(fam, kw, y)
        except Exception as e2:
            res.append((name, metric, float("inf"), -1, None, None, None, "raises on c*x only: %r" % (e2,)))
            continue
        want = s * ref
        if got.shape != want.shape:
            res.append((name, metric, float("inf"), -1, None, None, None, "%d values for x, %d for c*x" % (want.size, got.size)))
            continue
        fin = np.isfinite(want)
        if not np.array_equal(np.isfinite(got), fin):
            k = int(np.argmax(np.isfinite(got) != fin))
            res.append((name, metric, float("inf"), k, float(got.ravel()[k]), float(want.ravel()[k]), float("inf"),
                        "finite / non-finite pattern differs"))
            continue
        g, w = got[fin], want[fin]
        if g.size == 0:
            continue
        idx = np.flatnonzero(fin.ravel())
        peak = float(np.max(np.abs(w)))
        if metric != "bin":
            peak = max(peak, s * _hdr_level(fam, kw, x))
        if metric == "amp":
            allowed = 2 * K_AMP * U_ * np.sqrt(np.abs(w) * peak) + (K_AMP * U_) ** 2 * peak
        elif metric == "pow":
            allowed = np.full(w.shape, K_POW * U_ * peak)
        else:
            allowed = RTOL_AR * np.abs(w)
        d = np.abs(g - w)
        with np.errstate(divide="ignore", invalid="ignore"):
            q = np.where(allowed > 0, d / np.where(allowed > 0, allowed, 1.0), np.where(d == 0, 0.0, np.inf))
            r =np.where(w != 0, d / np.abs(w), np.where(d == 0, 0.0, np.inf))
        j = int(np.argmax(q))
        res.append((name, metric, float(q[j]), int(idx[j]), float(g[j]), float(w[j]), float(r[j]), None))
    return res


def oracle_hdr(p):
    x = np.asarray(p["x"])
    what = "[%s] %s N=%d, c=%r" % (p.get("rec", "?"), ("complex" if np.iscomplexobj(x) else "real") + (" int" if x.dtype.kind in "iu" else "")
                                  + (" list" if p.get("aslist") else ""), len(x), p["c"])
    out = []
    for name, metric, q, k, g, w, r, msg in hdr_measure(p):
        if msg is not None and g is None:
            out.append("%s on %s: %s" % (name, what, msg))
        elif msg is not None:
            out.append("%s on %s: PSD(c*x) vs |c|^2*PSD(x): %s at bin %d (got %r, |c|^2*ref %r)" % (name, what, msg, k, g, w))
        elif not (q <= 1.0):
            law = {"amp": "2*K*u*sqrt(peak*bin) + (K*u)^2*peak, K=%g" % K_AMP, "pow": "K*u*peak, K=%g" % K_POW,
                   "bin": "per-bin rtol %g" % RTOL_AR}[metric]
            out.append("%s on %s: PSD(c*x) != |c|^2*PSD(x) at bin %d: got %.6e, |c|^2*ref %.6e (rel.err of this bin %.2e = %.3g x allowed [%s])" % (
                name, what, k, g, w, r, q, law))
    return out



# correspondence on the scaled input: model(c*x) vs impl(c*x)

def impl_scaled(p):
    sp = C.sp()
    y = p["c"] * np.asarray(p["x"])
    if p["fn"] == "burg":
        a, rho, k = sp.arburg(y, p["order"], p.get("crit"))
        return [c_(a), c_([rho]), c_(k)]
    if p["fn"] == "aryule":
        a, rho, k = sp.aryule(y, p["order"])
        return [c_(a), c_([rho]), c_(k)]
    if p["fn"] == "sper":
        return [np.asarray(sp.speriodogram(y, NFFT=p["nfft"], detrend=False, scale_by_freq=False, window="hann"))]
    if p["fn"] == "mtm":
        from spectrum.mtm import dpss
        Sk, w, e = sp.pmtm(y, NW=2.5, k=4, NFFT=p["nfft"], method="adapt", show=False)
        return [np.asarray(w).ravel()]
    raise ValueError(p["fn"])


def model_scaled(p):
    y = p["c"] * np.asarray(p["x"])
    if p["fn"] == "burg":
        return ("F", proto.request("burg", "F", [p["order"], p.get("crit") or "none"], [y]))
    if p["fn"] == "aryule":
        return ("F", proto.request("aryule", "F", [p["order"], "biased"], [y]))
    if p["fn"] == "sper":
        from spectrum.window import Window
        w = np.asarray(Window(len(y), "hann").data)
        return ("F", proto.request("sper", "F", [1 if np.isrealobj(y) else 0, p["nfft"]], [y, w]))
    if p["fn"] == "mtm":
        from spectrum.mtm import dpss
        v, e = dpss(len(y), 2.5, 4)
        return ("F", proto.request("mtm", "F", ["adapt", p["nfft"]], [y, e, [0.0005]] + [v[:, i] for i in range(v.shape[1])]))
    raise ValueError(p["fn"])


def post_scaled(p, iv, mv):
    if p["fn"] == "mtm":
        return iv, [mv[-2]]
    return iv, mv


def _key(p):
    x = np.asarray(p["x"])
    extra = ""
    for k in ("cfg", "opt", "scale", "fs", "nfft", "aslist", "q"):
        if p.get(k) is not None and k in p:
            extra += "|%s=%r" % (k, p[k])
    if extra:
        extra = "|%d" % (hash(extra) & 0xFFFFFF) if len(extra) > 120 else extra
    return "%s|%s|%s|%r|%d%s" % (p.get("cls"), p.get("fn"), p.get("crit"), p["c"], hash(x.tobytes()) & 0xFFFFF, extra)


def _tags(p):
    c = p["c"]
    x = np.asarray(p["x"])
    t = ["complex" if np.iscomplexobj(x) else "real", "c:" + ("complex" if isinstance(c, complex) else ("small" if abs(c) < 1 else "large")),
         "cls:%s" % p.get("cls", "-"), "fn:%s" % p.get("fn", "-"), "N:%d" % len(x)]
    if x.dtype.kind in "iu":
        t.append("dtype:int")
    if p.get("aslist"):
        t.append("input:list")
    if "cls" in p:
        t.append("cfg:" + ("explicit" if p.get("explicit") else ("random" if p.get("cfg") else "default")))
        for k in sorted(p.get("opt") or {}):
            t.append("opt:%s" % k)
        if p.get("scale", False) is not False:
            t.append("scale:%s" % p["scale"])
    return t


KINDS = {
    "bigeigen": {"oracle": oracle_bigeigen, "key": _key, "tags": lambda p: ["bigeigen:P=%d" % p["P"]]},
    "func": {"oracle": oracle_func, "key": _key, "tags": _tags},
    "funcx": {"oracle": oracle_funcx, "key": _key, "tags": _tags},
    "class": {"oracle": oracle_class, "key": _key, "tags": _tags},
    "scaled": {"impl": impl_scaled, "model": model_scaled, "post": post_scaled, "rtol": 1e-6, "atol": 1e-300, "key": _key, "tags": _tags},
}


# ---- Daniell periodogram: implementation vs Model/Daniell.lean (theorems daniell_scale, daniell_periodogram_scale, daniell_bin_mean)

def impl_daniell(p):
    from spectrum.periodogram import DaniellPeriodogram, pdaniell
    x = np.asarray(p["x"])
    if p.get("cls"):
        o = pdaniell(x, p["P"], NFFT=p["nfft"], window=p["window"], scale_by_freq=False, detrend=None)
        return [np.asarray(o.psd)]
    return [np.asarray(DaniellPeriodogram(x, p["P"], NFFT=p["nfft"], detrend=None, scale_by_freq=False, window=p["window"])[0])]


def model_daniell(p):
    from spectrum.window import create_window
    x = np.asarray(p["x"])
    w = np.asarray(create_window(len(x), p["window"]))     # the window's shape is C20's business: taken from the implementation
    return ("F", proto.request("daniellpg", "F", [0 if np.iscomplexobj(x) else 1, p["nfft"], p["P"]], [x, w]))


def oracle_daniell(p):
    """the scaling law itself on the same case (c not a power of two), in max-norm (per-bin: kind hdr)"""
    from spectrum.periodogram import DaniellPeriodogram
    x = np.asarray(p["x"])
    c = p["c"]
    kw = dict(NFFT=p["nfft"], detrend=None, scale_by_freq=False, window=p["window"])
    a = np.asarray(DaniellPeriodogram(x, p["P"], **kw)[0])
    b = np.asarray(DaniellPeriodogram(c * x, p["P"], **kw)[0])
    if a.shape != b.shape:
        return ["DaniellPeriodogram: %d values for x, %d for c*x" % (a.size, b.size)]
    if a.size == 0:
        return []           # fewer bins than one averaging window and an even count: the code returns no value at all
    if not np.max(np.abs(b - abs(c) ** 2 * a)) <= 1e-9 * abs(c) ** 2 * np.max(np.abs(a)):
        return ["DaniellPeriodogram(c*x) != |c|^2 DaniellPeriodogram(x), c=%r, P=%d, NFFT=%d, window=%s: %.2e" % (
            c, p["P"], p["nfft"], p["window"], np.max(np.abs(b - abs(c) ** 2 * a)) / (abs(c) ** 2 * np.max(np.abs(a))))]
    return []


KINDS["daniell"] = {"impl": impl_daniell, "model": model_daniell, "oracle": oracle_daniell, "rtol": 1e-9, "atol": 0,
                    "key": lambda p: "daniell|%d|%d|%s|%s|%d" % (p["P"], p["nfft"], p["window"], bool(p.get("cls")),
                                                             hash(np.asarray(p["x"]).tobytes()) & 0xFFFFFF),
                    "tags": lambda p: ["daniell", "daniell:" + ("class" if p.get("cls") else "function"),
                                       "complex" if np.iscomplexobj(np.asarray(p["x"])) else "real"]}
KINDS["hdr"] = {"oracle": oracle_hdr, "key": lambda p: _hdr_key(p), "tags": lambda p: _hdr_tags(p)}
KINDS["hdrar"] = {"oracle": oracle_hdr, "key": lambda p: _hdr_key(p), "tags": lambda p: _hdr_tags(p)}


def _hdr_key(p):
    x = np.asarray(p["x"])
    return "hdr|%s|%r|%d|%d|%s" % (p.get("rec"), p["c"], hash(x.tobytes()) & 0xFFFFFF, hash(repr(p["ests"])) & 0xFFFFFF, p.get("aslist"))


def _hdr_tags(p):
    x = np.asarray(p["x"])
    c = p["c"]
    t = ["complex" if np.iscomplexobj(x) else "real", "c:" + ("complex" if isinstance(c, complex) else ("small" if abs(c) < 1 else "large")),
         "N:%d" % len(x), "hdr-record:%s" % p.get("fam", "?")]
    if x.dtype.kind in "iu":
        t.append("dtype:int")
    if p.get("aslist"):
        t.append("input:list")
    for fam, kw in p["ests"]:
        t.append("hdr-est:%s" % fam)
        if "P" in kw:
            t.append("daniell-P:%s" % ("0" if kw["P"] == 0 else ("1-5" if kw["P"] <= 5 else ">5")))
    return t


# the degenerate variants of vcheck.vary (exact zeros, one dominant tone) make the boundary-order / long-order normal equations of funcx
# singular to working precision; funcx keeps the amplitude and stride variants
NO_DEGEN = {"funcx", "hdrar"}
# zero-inserted records give the forward-backward data matrix of MUSIC / EV singular values in exactly equal PAIRS: a signal dimension
# that cuts a pair leaves the subspace undetermined (any rotation inside the pair), so the pseudo-spectrum of x and of c*x are two
# arbitrary members of a family - not an input on which the clause can be evaluated (thorough tier, seed 0, raised it).  The exact-zero
# reflection coefficients this variant is meant for are covered by C13 / C16 (kind zerok).
NO_DEGEN_TYPES = {"zstuff"}


def _data(nrng, N, cplx):
    n = np.arange(N)
    x = nrng.standard_normal(N)
    x[5:20] += np.cos(0.7 * np.arange(15))
    if cplx:
        x = x + 1j * nrng.standard_normal(N)
    return x


def _data2(nrng, N, cplx):
    """noise plus a tone, any length"""
    n = np.arange(N)
    x = nrng.standard_normal(N) + np.cos(0.7 * n + nrng.uniform(0, 6))
    if cplx:
        x = x + 1j * nrng.standard_normal(N) + 0.7 * np.exp(-2j * np.pi * 0.31 * n)
    return x


def _scalars(nrng, cplx, i):
    rnd = float(10 ** nrng.uniform(-3, 3))
    if cplx:
        rc = complex(10 ** nrng.uniform(-3, 3) * np.exp(1j * nrng.uniform(0, 6)))
        base = [2 - 1j, 0.001, 1e-3j, -3.0, rc, 1000.0, -0.37, rnd, -1000.0, 7.3]
    else:
        base = [0.001, -3.0, 1000.0, rnd, -0.37, -1000.0, 7.3]
    return base[i % len(base)]


def _class_specs(N):
    """explicit (class, cfg, opt, extra) configurations for a record of length N >= 40: fixed small / middle / boundary orders, P != Q
    and P > 4 for ARMA, extreme subspace sizes, every window name, every decision option of the constructors"""
    from spectrum.window import window_names
    S = []
    for od in (1, 9, N - 2):
        S.append(("pburg", {"order": od}, None, {}))
    for od in (1, 9, N - 1):
        S.append(("pyule", {"order": od}, None, {}))
    for od in (1, 9, N // 2 - 1):
        S.append(("pcovar", {"order": od}, None, {}))
        S.append(("pmodcovar", {"order": od}, None, {}))
    for od in (2, 12, N // 2):
        S.append(("pminvar", {"order": od}, None, {}))
    for (P, Q, lag) in ((5, 2, 14), (1, 3, 8), (6, 6, 20), (8, 2, 18)):
        S.append(("parma", {"order": P, "Q": Q, "lag": lag}, None, {}))
    for (Q, M) in ((1, 2), (5, 12), (3, N - 1)):
        S.append(("pma", {"Q": Q, "M": M}, None, {}))
    for cls in ("pmusic", "pev"):
        for (P, ns) in ((8, 7), (3, 1), (6, 0), (6, 5)):
            S.append((cls, {"order": P, "nsig": ns}, None, {}))
        for th in (1.5, 10.0, 1.0):
            S.append((cls, {"order": 6, "nsig": None}, {"threshold": th}, {}))
        for cr in ("aic", "mdl"):
            S.append((cls, {"order": 6, "nsig": None}, {"criteria": cr}, {}))
            S.append((cls, {"order": 12, "nsig": None}, {"criteria": cr}, {}))
    for m in ("eigen", "unity", "adapt"):
        S.append(("MT-" + m, {"NW": 4, "k": 8}, None, {}))
        S.append(("MT-" + m, {"NW": 1.5, "k": 1 if m != "adapt" else 2}, None, {}))
        S.append(("MT-" + m, {"NW": 2.5, "k": 4}, {"dpss": (2.5, 4)}, {}))
        S.append(("MT-" + m, {"NW": 3.0, "k": 5}, {"dpss": (3.0, 5)}, {"scale": "default", "fs": 3.0}))
    for w in sorted(window_names):
        S.append(("Periodogram", {"window": w}, None, {}))
    S.append(("Periodogram", {"window": "hann"}, {"detrend": "mean"}, {}))
    S.append(("Periodogram", {"window": "hamming"}, {"detrend": "mean"}, {"scale": True, "fs": 5.0}))
    for cr in CRITS:
        S.append(("pburg", {"order": 10}, {"criteria": cr}, {}))
    S.append(("pyule", {"order": 4}, {"norm": "unbiased"}, {}))
    S.append(("pyule", {"order": 9}, {"norm": "unbiased"}, {"scale": "default", "fs": 7.0}))
    for cls in C.CLASSES:                      # scale_by_freq: True and the class's own default, with a sampling frequency
        S.append((cls, None, None, {"scale": True, "fs": 7.0}))
        S.append((cls, None, None, {"scale": "default", "fs": 7.0}))
    return S


def _long_specs(N):
    S = [("Periodogram", {"window": "hamming"}, None, {}), ("pcorrelogram", {"lag": 20, "window": "hamming"}, None, {}),
         ("pcorrelogram", {"lag": 40, "window": "bartlett"}, None, {}), ("pburg", {"order": 12}, None, {}), ("pyule", {"order": 12}, None, {}),
         ("pcovar", {"order": 12}, None, {}), ("pmodcovar", {"order": 12}, None, {}), ("parma", {"order": 6, "Q": 6, "lag": 30}, None, {}),
         ("pma", {"Q": 6, "M": 20}, None, {}), ("pminvar", {"order": 12}, None, {}),
         ("pmusic", {"order": 30, "nsig": None}, {"criteria": "mdl"}, {}), ("pev", {"order": 30, "nsig": None}, {"threshold": 3.0}, {}),
         ("pmusic", {"order": 30, "nsig": None}, {"threshold": 3.0}, {}), ("pev", {"order": 30, "nsig": None}, {"criteria": "aic"}, {}),
         ("pburg", {"order": 20}, {"criteria": "AKICc"}, {}), ("pburg", {"order": 20}, {"criteria": "MDL"}, {}),
         ("MT-unity", {"NW": 4, "k": 7}, None, {}), ("MT-eigen", {"NW": 4, "k": 8}, None, {}), ("MT-adapt", {"NW": 4, "k": 8}, None, {})]
    return S


def _short_specs(N):
    """N = 9: every class at its smallest and its largest admissible order"""
    S = [("Periodogram", {"window": "hann"}, None, {}), ("Periodogram", {"window": "rectangular"}, {"detrend": "mean"}, {}),
         ("pcorrelogram", {"lag": N - 1, "window": "hamming"}, None, {}), ("pcorrelogram", {"lag": 1, "window": "hamming"}, None, {}),
         ("pburg", {"order": N - 2}, None, {}), ("pburg", {"order": 1}, None, {}), ("pyule", {"order": N - 1}, None, {}),
         ("pyule", {"order": 1}, None, {}), ("pcovar", {"order": N // 2 - 1}, None, {}), ("pcovar", {"order": 1}, None, {}),
         ("pmodcovar", {"order": N // 2 - 1}, None, {}), ("pmodcovar", {"order": 1}, None, {}),
         ("parma", {"order": 1, "Q": 1, "lag": 3}, None, {}), ("parma", {"order": 2, "Q": 1, "lag": 5}, None, {}),
         ("pma", {"Q": 1, "M": 2}, None, {}), ("pma", {"Q": 2, "M": N - 1}, None, {}),
         ("pminvar", {"order": 2}, None, {}), ("pminvar", {"order": N // 2}, None, {}),
         ("pmusic", {"order": 2, "nsig": 1}, None, {}), ("pev", {"order": 5, "nsig": None}, {"criteria": "aic"}, {}),
         ("pmusic", {"order": 5, "nsig": None}, {"threshold": 2.0}, {}), ("pev", {"order": 4, "nsig": 3}, None, {}),
         ("pburg", {"order": 5}, {"criteria": "AIC"}, {}), ("pburg", {"order": 5}, {"criteria": "FPE"}, {}),
         ("MT-unity", {"NW": 1.5, "k": 1}, None, {}), ("MT-eigen", {"NW": 1.5, "k": 3}, None, {}), ("MT-adapt", {"NW": 1.5, "k": 2}, None, {})]
    return S


def _spec_case(spec, x, c, nfft, **more):
    cls, cfg, opt, extra = spec
    q = {"cls": cls, "x": x, "c": c, "nfft": nfft, "explicit": True}
    if cfg is not None:
        q["cfg"] = dict(cfg)
    if opt:
        q["opt"] = dict(opt)
    q.update(extra)
    q.update(more)
    N = len(x)
    need = C.min_nfft(cls, N, cfg or C.default_cfg(cls, N, np.iscomplexobj(x)))
    if (q["nfft"] or N) < need:
        q["nfft"] = need
    return q


def _fx_long(N):
    return {"burg": (12,), "yule": (12,), "covar": (12,), "ma": ((6, 20),), "arma": ((6, 6, 30), (3, 5, 24)), "minvar": ((10, 128),),
            "eigen": ((30, 128, {"criteria": "mdl"}), (30, 128, {"threshold": 3.0}), (30, 128, {"criteria": "aic"}), (30, 128, {"NSIG": 4})),
            "crit": tuple(CRITS), "critorder": 20, "corr": (20,), "correlogram": ((40, 128), (20, 41)),
            "sper": ({}, {"NFFT": N + 7, "detrend": False, "scale_by_freq": False, "window": "hann"}), "mtm": ((4, None, N + 7),)}


def _fx_short(N):
    return {"burg": (1, N - 2), "yule": (1, N - 1), "covar": (1, N // 2 - 1), "ma": ((1, 2), (2, N - 1)), "arma": ((1, 1, 3), (2, 1, 5)),
            "minvar": ((2, 16), (N // 2, 16)),
            "eigen": ((2, 16, {"NSIG": 1}), (5, 17, {}), (5, 17, {"threshold": 2.0}), (4, 16, {"NSIG": 0}), (4, 16, {"NSIG": 3}),
                      (5, 16, {"criteria": "mdl"})),
            "crit": tuple(CRITS), "critorder": 5, "corr": (N - 1, 1), "correlogram": ((N - 1, 2 * N - 1), (1, N)),
            "sper": ({}, {"NFFT": N, "detrend": False, "window": "rectangular"}, {"NFFT": 16, "sampling": 3.}),
            "mtm": ((1.5, 2, 16), (1.5, 1, N), (2.0, None, 2 * N + 1))}


def _fx_mid(N):
    return {"burg": (5, N - 2), "yule": (5, N - 1), "covar": (4, N // 2 - 1), "ma": ((3, 8), (8, 20)), "arma": ((3, 3, 8), (5, 3, 14), (1, 3, 8)),
            "minvar": ((5, 32), (N // 2, 64)),
            "eigen": ((6, 32, {}), (6, 32, {"NSIG": 2}), (6, 32, {"threshold": 2.0}), (12, 65, {"criteria": "mdl"}), (6, 32, {"NSIG": 0}),
                      (6, 32, {"NSIG": 5}), (20, 64, {"threshold": 50.0})),
            "crit": tuple(CRITS), "critorder": 10, "corr": (5, N - 1), "correlogram": ((6, 32), (N - 1, 2 * N - 1)),
            "sper": ({}, {"NFFT": 64, "detrend": False, "scale_by_freq": False}), "mtm": ((2.5, None, 64), (4, 8, N))}


# ---- generators of the high-dynamic-range kinds --------------------------------------------------------------------------

HDR_FAMS = ["line", "clean", "lowpass", "line2", "highline", "noise", "tone3"]
HDR_WINDOWS = ["hann", "hamming", "rectangular", "blackman_harris", "nuttall", "bartlett", "flattop", "kaiser", "blackman", "parzen"]


def _hdr_data(nrng, fam, N, cplx):
    """(record, label).  Spectra spanning 120 ... 300 dB: one strong low line over a white floor 120-200 dB down ("line"), the same with a
    second, weak line ("line2"), the strong line at the TOP of the band ("highline"), noise-free tones whose window side lobes fall to the
    round-off level ("clean"), a strong smooth low-pass component over a floor ("lowpass"); and two ordinary records ("noise", "tone3")."""
    n = np.arange(N)

    def tone(k0, ph):
        return np.exp(1j * (2 * np.pi * k0 * n / N + ph)) if cplx else np.cos(2 * np.pi * k0 * n / N + ph)

    def white(a):
        return a * (nrng.standard_normal(N) + 1j * nrng.standard_normal(N)) if cplx else a * nrng.standard_normal(N)

    k0 = float(nrng.integers(2, max(4, N // 32) + 1))
    if nrng.integers(0, 2):
        k0 += float(nrng.uniform(0.05, 0.95))            # off-bin: leakage skirts
    ph = float(nrng.uniform(0, 6))
    fl = float(10 ** nrng.uniform(-10, -6))
    if fam == "line":
        x, lab = tone(k0, ph) + white(fl), "line k0=%.2f floor=%.1e" % (k0, fl)
    elif fam == "line2":
        a2 = float(10 ** nrng.uniform(-5, -2))
        k2 = float(nrng.uniform(0.15, 0.45) * N)
        x, lab = tone(k0, ph) + a2 * tone(k2, 1.0) + white(fl), "line k0=%.2f + %.1e line k=%.1f, floor=%.1e" % (k0, a2, k2, fl)
    elif fam == "highline":
        kh = (N - k0) if cplx else (N / 2.0 - k0)
        x, lab = tone(kh, ph) + white(fl), "line k0=%.2f (top of the band) floor=%.1e" % (kh, fl)
    elif fam == "clean":
        a2 = float(10 ** nrng.uniform(-6, -1))
        k2 = float(nrng.uniform(0.1, 0.45) * N)
        x, lab = tone(k0, ph) + (a2 * tone(k2, 0.5) if nrng.integers(0, 2) else 0), "clean tone k0=%.2f (+%.1e at k=%.1f)" % (k0, a2, k2)
    elif fam == "lowpass":
        wd = N / float(nrng.uniform(5, 12))
        x = np.exp(-((n - N / 2.0) / wd) ** 2) * (1 + 0.5 * tone(1.0, ph)) + white(fl)
        lab = "gaussian low-pass pulse (width %.0f) floor=%.1e" % (wd, fl)
    elif fam == "noise":
        x, lab = white(1.0), "white noise"
    elif fam == "tone3":
        x, lab = tone(0.11 * N, ph) + white(1e-3), "tone + 1e-3 noise"
    else:
        raise ValueError(fam)
    return x, lab


def _hdr_adc(nrng, N):
    """a 24-bit converter record: int64 samples, full-scale low-frequency tone plus +-1 LSB dither (quantisation floor ~ -150 dB)"""
    n = np.arange(N)
    k0 = float(nrng.integers(2, max(4, N // 32) + 1)) + float(nrng.uniform(0, 1)) * int(nrng.integers(0, 2))
    x = np.round(0.9 * 2 ** 23 * np.cos(2 * np.pi * k0 * n / N + nrng.uniform(0, 6))).astype(np.int64) + nrng.integers(-1, 2, N)
    return x, "24-bit converter record (int64), tone k0=%.2f" % k0


def _hdr_scalar(nrng, cplx, i, integer=False):
    """scalars that are NOT powers of two, 1e-3 <= |c| <= 1e3 (both ends included)"""
    if integer:
        return [3, -7, 1000, 37, -999, 5][i % 6]
    rnd = float(10 ** nrng.uniform(-3, 3)) * (1 if nrng.integers(0, 2) else -1)
    if cplx:
        rc = complex(10 ** nrng.uniform(-3, 3) * np.exp(1j * nrng.uniform(0, 6)))
        base = [3.0, 0.6 - 1.1j, rc, -0.7, 1e3 / 3, 600 - 800j, 1.7e-3, rnd, 6e-4 + 8e-4j, 1000.0, 0.001]
    else:
        base = [3.0, -0.7, 1e3 / 3, rnd, 1.7e-3, 1000.0, -0.001, 7.3]
    return base[i % len(base)]


def _hdr_ests(nrng, N, cplx, i, integer=False):
    """estimator specifications [[family, kwargs], ...] for a record of length N: Daniell as a function and as a class (P incl. 0 and
    values that do not divide the number of bins; NFFT default / = N / odd / even / zero-padded; several windows; detrend, sampling,
    scale_by_freq), periodogram (function, class), multitaper unity / eigen, Welch, correlogram (function, class)"""
    wins = [HDR_WINDOWS[(i + j) % len(HDR_WINDOWS)] for j in range(3)]
    Ps = [0, 1, 2, 3, 4, 5, 8, 16, int(nrng.integers(6, max(7, N // 16)))]
    nffts = [None, N, N + 1, 2 * N, N + 2 + int(nrng.integers(0, N)), 2 * N + 1]
    E = []
    for j in range(4):
        kw = {"P": Ps[(i + 2 * j) % len(Ps)], "NFFT": nffts[(i + j) % len(nffts)], "window": wins[j % 3]}
        if (i + j) % 5 == 1:
            kw.update(detrend=None, scale_by_freq=False)
        if (i + j) % 7 == 2:
            kw.update(sampling=float(nrng.choice([3.0, 0.1, 44100.0])))
        E.append(["daniell", kw])
    E.append(["daniell", {"P": Ps[(i + 1) % len(Ps)]}])                       # every default
    for j in range(2):
        kw = {"P": Ps[(i + 3 * j + 1) % len(Ps)], "NFFT": nffts[(i + j + 2) % len(nffts)]}
        if j:
            kw.update(window=wins[1], detrend="mean", scale_by_freq=bool(i % 2), sampling=[1.0, 7.0][i % 2])
        E.append(["pdaniell", kw])
    E.append(["sper", {"NFFT": nffts[(i + 1) % len(nffts)], "window": wins[0]}])
    E.append(["Periodogram", {"NFFT": nffts[(i + 3) % len(nffts)], "window": wins[2], "detrend": [None, "mean"][i % 2],
                              "scale_by_freq": bool((i // 2) % 2)}])
    if N <= 600:
        for m in (("unity", "eigen") if i % 2 else ("eigen", "unity"))[:1 + (i % 3 == 0)]:
            E.append(["MT", {"NW": [2.5, 4.0, 3.0][i % 3], "k": [4, None, 5][i % 3], "method": m, "NFFT": nffts[(i + 4) % 4]}])
        lag = [20, N // 4, N - 1][i % 3]
        E.append(["correlogram", {"lag": lag, "NFFT": 2 * lag + 1 + [0, 7, N][(i // 3) % 3], "window": ["hamming", "bartlett", "hann"][i % 3]}])
        if i % 2:
            E.append(["pcorrelogram", {"lag": [N // 8, 15][(i // 2) % 2], "NFFT": [None, N + 7][(i // 4) % 2]}])
    if i % 3 == 0 and not integer:
        kw = {"NFFT": [64, 128, None][(i // 3) % 3]}
        if (i // 3) % 2:
            kw.update(noverlap=[16, 32][(i // 6) % 2], detrend="mean")
        if (i // 3) % 4 == 2:
            kw.update(sampling=3.0)
        E.append(["welch", kw])
    return E


def _hdrar_data(nrng, N, cplx):
    """a narrow-band autoregressive record: poles at radius 0.9 ... 0.995 (spectrum spanning 50 ... 100 dB), unit-ish amplitude"""
    r_ = float(nrng.choice([0.9, 0.95, 0.99, 0.995]))
    th = float(nrng.uniform(0.2, 2.8))
    M = N + 800
    if cplx:
        a = np.poly([r_ * np.exp(1j * th), 0.7 * r_ * np.exp(-1j * nrng.uniform(0.2, 2.8))])
        e = nrng.standard_normal(M) + 1j * nrng.standard_normal(M)
    else:
        a = np.poly([r_ * np.exp(1j * th), r_ * np.exp(-1j * th)]).real
        e = nrng.standard_normal(M)
    x = np.zeros(M, dtype=e.dtype)
    for t in range(M):                                   # x[t] = e[t] - a1 x[t-1] - a2 x[t-2]
        x[t] = e[t] - (a[1] * x[t - 1] if t >= 1 else 0) - (a[2] * x[t - 2] if t >= 2 else 0)
    x = x[800:]
    return x / np.max(np.abs(x)) * float(10 ** nrng.uniform(-2, 2)), "AR(2) record, pole radius %g, angle %.2f" % (r_, th)


def _hdrar_ests(N, i):
    od = [2, 4, 8][i % 3]
    nf = [None, N + 7, 2 * N][(i // 3) % 3]
    return [["pburg", {"order": od, "NFFT": nf}], ["pyule", {"order": od, "NFFT": nf}], ["pcovar", {"order": od, "NFFT": nf}],
            ["pmodcovar", {"order": od, "NFFT": nf}], ["pminvar", {"order": od, "NFFT": nf}], ["pma", {"Q": od, "M": 3 * od, "NFFT": nf}]]


def _gen_hdr(nrng, quick):
    Ns = [1024, 512, 1000, 300, 257, 2048, 256, 600]
    n = 28 if quick else 70
    for i in range(n):
        cplx = bool((i // len(HDR_FAMS)) % 2) if quick else bool(nrng.integers(0, 2))
        fam = HDR_FAMS[i % len(HDR_FAMS)]
        N = Ns[(i + i // len(Ns)) % len(Ns)]
        x, lab = _hdr_data(nrng, fam, N, cplx)
        if i % 4 == 3:
            x = x * float(10 ** nrng.uniform(-6, 6))      # "all data vectors": overall amplitude
        q = {"x": x, "c": _hdr_scalar(nrng, cplx, i), "rec": lab, "fam": fam, "ests": _hdr_ests(nrng, N, cplx, i)}
        if i % 9 == 4:
            q["aslist"] = True
        yield ("hdr", q)
    for i in range(4 if quick else 10):
        N = [1024, 500, 257, 2048][i % 4]
        x, lab = _hdr_adc(nrng, N)
        yield ("hdr", {"x": x, "c": _hdr_scalar(nrng, False, i + int(nrng.integers(0, 6)), integer=True), "rec": lab, "fam": "adc24",
                       "ests": _hdr_ests(nrng, N, False, i + 1, integer=True), "aslist": bool(i % 2)})
    for i in range(6 if quick else 24):
        cplx = bool(i % 2)
        N = [128, 256, 300][(i // 2) % 3]
        x, lab = _hdrar_data(nrng, N, cplx)
        yield ("hdrar", {"x": x, "c": _hdr_scalar(nrng, cplx, i + int(nrng.integers(0, 11))), "rec": lab, "fam": "ar2", "ests": _hdrar_ests(N, i + int(nrng.integers(0, 9)))})


def _gen_daniell(nrng, quick):
    wins = ["hamming", "hann", "rectangular", "blackman", "bartlett", "nuttall", "parzen"]
    for i in range(24 if quick else 160):
        cplx = bool(i % 2)
        N = int(nrng.integers(4, 70))
        x = nrng.standard_normal(N) + 0.8 * np.cos(0.9 * np.arange(N) + 0.3)
        if cplx:
            x = x + 1j * nrng.standard_normal(N)
        if i % 7 == 3:
            x = np.round(4 * x)                 # small integers (float dtype)
        nfft = [N, N + 1, 2 * N, 2 * N + 1, N + int(nrng.integers(0, 40))][i % 5]
        L = nfft if cplx else nfft // 2 + 1
        P = max(1, [1, 2, 3, int(nrng.integers(1, max(2, L // 2)))][i % 4])      # P = 0: the code divides 0 by 0 at bin 0 (kind hdr)
        yield ("daniell", {"x": x, "P": P, "nfft": nfft, "window": wins[i % len(wins)], "cls": bool((i // 2) % 3 == 0),
                           "c": (3.0, -0.7, 37.0, 1.7e-3)[i % 4] if not cplx else (0.6 - 1.1j, 3.0, 6e-4 + 8e-4j)[i % 3]})


def gen(rng, nrng, tier):
    for c_ in _gen0(rng, nrng, tier):
        yield c_
    # appended last: the random streams of the cases above are unchanged
    for c_ in _gen_daniell(nrng, tier == "quick"):
        yield c_


def _gen0(rng, nrng, tier):
    quick = tier == "quick"
    n = 20 if quick else 150
    for i in range(n):
        cplx = bool(i % 2)
        x = _data(nrng, 40, cplx)
        yield ("func", {"x": x, "y": _data2(nrng, 40, cplx), "c": _scalars(nrng, cplx, i // 2)})
    # "all data vectors": the same laws on records of very small and very large amplitude (c stays in [1e-3, 1e3])
    for i, amp in enumerate((1e-8, 1e5, 2.0 ** -40, 1e-10, 3e6) if quick else (1e-8, 1e5, 2.0 ** -40, 1e-10, 3e6, 1e-12, 1e7, 1e3, 1e-5)):
        for cplx in (False, True):
            yield ("func", {"x": amp * _data(nrng, 40, cplx), "c": [1000.0, 0.001, -3.0][i % 3]})
    for i in range(2 if quick else 12):
        NB = 256
        tb = np.arange(NB)
        xb = np.cos(0.4 * tb) + 0.5 * np.cos(1.1 * tb + 1) + [1e-3, 1e-2][i % 2] * nrng.standard_normal(NB)
        yield ("bigeigen", {"x": xb, "P": [80, 96, 64, 100][i % 4], "c": 1.0, "cs": [1e-3, 1e3]})
    # function form with orders taken from the case: long records, N = 9 with boundary orders, N = 40 with boundary orders,
    # int64 record with an integer c, list input
    r0 = int(nrng.integers(0, 1 << 20))
    longs = [(256, False), (257, True), (300, True), (1024, False), (256, True), (257, False), (300, False), (1024, True)]
    for i, (N, cplx) in enumerate(longs[:3] + [longs[3 + r0 % 5]] if quick else longs):
        yield ("funcx", {"x": _data2(nrng, N, cplx), "c": _scalars(nrng, cplx, r0 + i), "q": _fx_long(N)})
    for i in range(6 if quick else 20):
        cplx = bool(i % 2)
        yield ("funcx", {"x": _data2(nrng, 9, cplx), "c": _scalars(nrng, cplx, r0 + i // 2), "q": _fx_short(9)})
    for i in range(4 if quick else 14):
        cplx = bool(i % 2)
        yield ("funcx", {"x": _data2(nrng, 40 + (i // 2) % 2, cplx), "c": _scalars(nrng, cplx, r0 + 3 + i // 2), "q": _fx_mid(40 + (i // 2) % 2)})
    ints = [-3, 1000, 7, -1000, 2]
    for i in range(3 if quick else 10):
        xi = nrng.integers(-9, 10, 40)
        xi[0] = xi[0] or 1
        yield ("funcx", {"x": xi, "c": ints[i % len(ints)], "q": _fx_mid(40)})
    for i in range(4 if quick else 12):
        cplx = bool(i % 2)
        yield ("funcx", {"x": _data2(nrng, 40, cplx), "c": _scalars(nrng, cplx, r0 + 1 + i // 2), "q": _fx_mid(40), "aslist": True})
    for i in range(1 if quick else 4):
        xi = nrng.integers(-9, 10, 40)
        xi[0] = xi[0] or 1
        yield ("funcx", {"x": xi, "c": ints[(i + 1) % len(ints)], "q": _fx_mid(40), "aslist": True})
    # class form: class x {default, random / boundary cfg} x {real, complex}, the four choices on independent digits of the index
    nc = len(C.CLASSES)
    m = 112 if quick else 1008
    for i in range(m):
        ci = i % nc
        g = i // nc
        cls = C.CLASSES[ci]
        rcfg = bool(g % 2)
        cplx = bool((g // 2) % 2)
        t = g // 4
        x = _data(nrng, 40, cplx)
        q = {"cls": cls, "x": x, "c": _scalars(nrng, cplx, t + ci), "nfft": [None, 64, 65][i % 3]}
        if rcfg:
            q["cfg"] = C.random_cfg(nrng, cls, len(x), boundary=((t + ci) % 3 == 2))
            need = C.min_nfft(cls, len(x), q["cfg"])
            if (q["nfft"] or len(x)) < need:
                q["nfft"] = need
        yield ("class", q)
    # explicit configurations and constructor options (every one on real and on complex data)
    specs = _class_specs(40)
    for j, spec in enumerate(specs):
        for cplx in (False, True):
            if not quick or (j + r0 + int(cplx)) % 2 == 0 or spec[0] != "Periodogram" or spec[2]:
                x = _data2(nrng, 40, cplx) if (j + int(cplx)) % 2 else _data(nrng, 40, cplx)
                yield ("class", _spec_case(spec, x, _scalars(nrng, cplx, r0 + j), [None, 64, 65][(j // 2) % 3]))
    for i, (N, cplx) in enumerate(longs[r0 % 8:][:2] + longs[:r0 % 8][:1] if quick else longs):
        x = _data2(nrng, N, cplx)
        for j, spec in enumerate(_long_specs(N)):
            if not quick or (j + i + r0) % 3 == 0:
                yield ("class", _spec_case(spec, x, _scalars(nrng, cplx, r0 + i + j), [None, N + 7][(i + j) % 2]))
    for i in range(2 if quick else 8):
        cplx = bool(i % 2)
        x = _data2(nrng, 9, cplx)
        for j, spec in enumerate(_short_specs(9)):
            yield ("class", _spec_case(spec, x, _scalars(nrng, cplx, r0 + i // 2 + j), [None, 16, 17][(i // 2 + j) % 3]))
    for i in range(2 if quick else 6):
        xi = nrng.integers(-9, 10, 40)
        xi[0] = xi[0] or 1
        for j, cls in enumerate(C.CLASSES):
            if not quick or (i + j) % 2 == 0:
                yield ("class", {"cls": cls, "x": xi, "c": ints[(i + j) % len(ints)], "nfft": [None, 64, 65][(i + j) % 3], "aslist": bool((i + j // 2) % 2)})
    for i in range(2 if quick else 6):
        cplx = bool(i % 2)
        x = _data(nrng, 40, cplx)
        for j, cls in enumerate(C.CLASSES):
            if not quick or (i // 2 + j) % 2 == 0:
                yield ("class", {"cls": cls, "x": x, "c": _scalars(nrng, cplx, r0 + i // 2 + j), "nfft": [None, 64, 65][(i + j) % 3], "aslist": True})
    # model(c*x) vs impl(c*x)
    k = 60 if quick else 600
    fns = ["burg", "aryule", "sper", "mtm", "burg"]
    for i in range(k):
        cplx = bool(i % 2)
        x = _data(nrng, 32, cplx)
        fn = fns[i % len(fns)]
        # scalar index: i // 2 walks the list for each kind of data; + i // 10 + i // 60 moves it against the criterion index below
        p = {"x": x, "c": _scalars(nrng, cplx, i // 2 + i // 10 + i // 60), "fn": fn, "order": 4, "nfft": 64}
        if fn == "burg" and i % 5 == 4:
            p["crit"] = CRITS[(i // 10) % 6]      # i = 10k+4 is real, 10k+9 complex: both kinds get all six criteria
            p["order"] = 10
        yield ("scaled", p)
    # bin-by-bin comparisons on high-dynamic-range records (Daniell function / class, periodogram, Welch, multitaper, correlogram,
    # AR classes); generated last: the random streams of the cases above are the same as before these kinds existed
    for kp in _gen_hdr(nrng, quick):
        yield kp
