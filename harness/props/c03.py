"""C03  Estimates are quadratic in signal amplitude."""
import numpy as np

import proto
import classes as C
from common import rel

TRUSTED_BASE = [
    "the scaling theorems are about the model; each functional estimator is tied to the model by the correspondence of its own "
    "property, and here again on the SCALED input c*x (Burg, Yule-Walker, correlation, periodogram, adaptive multitaper)",
    "SVD-based decisions (MUSIC/EV subspace, threshold, AIC/MDL) are covered relative to the SVD contract; checked by the oracle",
]
PARTIAL = ["MUSIC/EV: relative to the SVD parameter (singular values scale by |c|, right singular subspaces unchanged)",
           "adaptive multitaper: the whole 100-pass loop is proved scale-free in exact arithmetic (C03.mt_adapt_scale_data); a floating-point "
           "run whose distance sits exactly at the tolerance could stop one pass apart - outside the model"]
ASSUMPTIONS = ["1e-3 <= |c| <= 1e3; complex c for complex data; orders/lags/NFFT inside each estimator's documented domain"]
RULE = ("random data (real/complex) x scalars c in {1e-3, -3, 1e3, 2-1j, 1e-3j, random} x every functional estimator and every class "
        "variant (14) x all six Burg criteria x eigen criteria (aic, mdl, threshold, explicit NSIG)")

CRITS = ["AIC", "AICc", "KIC", "FPE", "AKICc", "MDL"]


def c_(v):
    return np.asarray(v).astype(complex).ravel()


def oracle_func(p):
    sp = C.sp()
    x = np.asarray(p["x"])
    c = p["c"]
    y = c * x
    s = abs(c) ** 2
    out = []
    tol = 1e-7
    cplx = np.iscomplexobj(x)

    def chk(name, got, exp, t=tol):
        r = rel(c_(got), c_(exp))
        if r > t:
            out.append("%s: not equivariant under x -> c*x with c=%r (%s data): rel err %.2e" % (name, c, "complex" if cplx else "real", r))

    a1, r1, k1 = sp.arburg(x, 5)
    a2, r2, k2 = sp.arburg(y, 5)
    chk("arburg coefficients", a2, a1); chk("arburg variance", [r2], [s * r1]); chk("arburg reflection", k2, k1)
    a1, r1, k1 = sp.aryule(x, 5)
    a2, r2, k2 = sp.aryule(y, 5)
    chk("aryule coefficients", a2, a1); chk("aryule variance", [r2], [s * r1]); chk("aryule reflection", k2, k1)
    a1, e1 = sp.arcovar(x, 4)
    a2, e2 = sp.arcovar(y, 4)
    chk("arcovar coefficients", a2, a1, 1e-6); chk("arcovar error", [e2], [s * e1], 1e-6)
    a1, e1 = sp.modcovar(x, 4)
    a2, e2 = sp.modcovar(y, 4)
    chk("modcovar coefficients", a2, a1, 1e-6); chk("modcovar error", [e2], [s * e1], 1e-6)
    r = sp.arcovar_marple(x, 4)
    q = sp.arcovar_marple(y, 4)
    chk("arcovar_marple coefficients", q[0][:4], r[0][:4], 1e-6); chk("arcovar_marple error", [q[1]], [s * r[1]], 1e-6)
    r = sp.modcovar_marple(x, 4)
    q = sp.modcovar_marple(y, 4)
    chk("modcovar_marple coefficients", q[0][:4], r[0][:4], 1e-6); chk("modcovar_marple error", [q[1]], [s * r[1]], 1e-6)
    b1, r1 = sp.ma(x, 3, 8)
    b2, r2 = sp.ma(y, 3, 8)
    chk("ma coefficients", b2, b1); chk("ma variance", [r2], [s * r1])
    A1, B1, r1 = sp.arma_estimate(x, 3, 3, 8)
    A2, B2, r2 = sp.arma_estimate(y, 3, 3, 8)
    chk("arma AR", A2, A1, 1e-6); chk("arma MA", B2, B1, 1e-6); chk("arma variance", [r2], [s * r1], 1e-6)
    p1, A1, k1 = sp.minvar(x, 5, NFFT=32)
    p2, A2, k2 = sp.minvar(y, 5, NFFT=32)
    chk("minvar PSD", p2, s * p1); chk("minvar AR", A2, A1)
    for kw in (dict(NSIG=2), dict(), dict(criteria="mdl"), dict(threshold=2.0)):
        p1, s1 = sp.music(x, 6, NFFT=32, **kw)
        p2, s2 = sp.music(y, 6, NFFT=32, **kw)
        chk("music pseudo-spectrum %s" % kw, p2, p1, 1e-6); chk("music singular values", s2, abs(c) * s1)
        p1, s1 = sp.ev(x, 6, NFFT=32, **kw)
        p2, s2 = sp.ev(y, 6, NFFT=32, **kw)
        chk("ev pseudo-spectrum %s" % kw, p2, abs(c) * p1, 1e-6)
    p1 = sp.speriodogram(x, NFFT=64, detrend=False, scale_by_freq=False)
    p2 = sp.speriodogram(y, NFFT=64, detrend=False, scale_by_freq=False)
    chk("speriodogram", p2, s * p1)
    for m in ("xcorr", "CORRELATION"):
        p1 = sp.CORRELOGRAMPSD(x, lag=6, NFFT=32, correlation_method=m)
        p2 = sp.CORRELOGRAMPSD(y, lag=6, NFFT=32, correlation_method=m)
        chk("CORRELOGRAMPSD(%s)" % m, p2, s * p1)
    for norm in ("biased", "unbiased", None):
        chk("CORRELATION(%s)" % norm, sp.CORRELATION(y, maxlags=5, norm=norm), s * np.asarray(sp.CORRELATION(x, maxlags=5, norm=norm)))
    chk("CORRELATION(coeff)", sp.CORRELATION(y, maxlags=5, norm="coeff"), sp.CORRELATION(x, maxlags=5, norm="coeff"))
    for meth in ("unity", "eigen", "adapt"):
        S1, w1, e1 = sp.pmtm(x, NW=2.5, NFFT=64, method=meth, show=False)
        S2, w2, e2 = sp.pmtm(y, NW=2.5, NFFT=64, method=meth, show=False)
        chk("pmtm(%s) eigenspectra" % meth, S2, c * np.asarray(S1))
        chk("pmtm(%s) weights" % meth, w2, w1, 1e-6)
    for crit in CRITS:
        a1, r1, k1 = sp.arburg(x, 10, crit)
        a2, r2, k2 = sp.arburg(y, 10, crit)
        if len(a1) != len(a2):
            out.append("arburg criterion %s selects order %d for x and %d for c*x (c=%r)" % (crit, len(a1), len(a2), c))
        else:
            chk("arburg(%s) coefficients" % crit, a2, a1)
    return out


def oracle_bigeigen(p):
    """subspace decisions (AIC / MDL / threshold) for a large order on a long record, under a small and a large amplitude"""
    sp = C.sp()
    x = np.asarray(p["x"])
    P = p["P"]
    out = []
    for crit in ("aic", "mdl"):
        p1, s1 = sp.music(x, P, NFFT=256, criteria=crit)
        e1, _ = sp.ev(x, P, NFFT=256, criteria=crit)
        for cc in p["cs"]:
            p2, s2 = sp.music(cc * x, P, NFFT=256, criteria=crit)
            if rel(np.asarray(p2), np.asarray(p1)) > 1e-5:
                out.append("music (P=%d, N=%d, criteria=%s): pseudo-spectrum changes under x -> %g*x (subspace decision depends on the "
                           "amplitude): rel err %.2e" % (P, len(x), crit, cc, rel(np.asarray(p2), np.asarray(p1))))
                break
            e2, _ = sp.ev(cc * x, P, NFFT=256, criteria=crit)
            if rel(np.asarray(e2), abs(cc) * np.asarray(e1)) > 1e-5:
                out.append("ev (P=%d, criteria=%s): pseudo-spectrum is not |c| times the original for c=%g" % (P, crit, cc))
                break
    return out


def oracle_class(p):
    x = np.asarray(p["x"])
    c = p["c"]
    cls = p["cls"]
    o1 = C.make(cls, x, p["nfft"], 1.0, False, p.get("cfg"))
    o2 = C.make(cls, c * x, p["nfft"], 1.0, False, p.get("cfg"))
    a1, a2 = np.asarray(o1.psd), np.asarray(o2.psd)
    fac = 1.0 if cls == "pmusic" else (abs(c) if cls == "pev" else abs(c) ** 2)
    if np.iscomplexobj(a2) or a1.shape != a2.shape or rel(a2, fac * a1) > 1e-6:
        return ["%s PSD of c*x is not %s times the PSD of x (c=%r, %s data): rel err %.2e" % (
            cls, {1.0: "1"}.get(fac, "|c|" if cls == "pev" else "|c|^2"), c, "complex" if np.iscomplexobj(x) else "real",
            rel(a2, fac * a1) if a1.shape == a2.shape and not np.iscomplexobj(a2) else float("inf"))]
    return []


# correspondence on the scaled input: model(c*x) vs impl(c*x)

def impl_scaled(p):
    sp = C.sp()
    y = p["c"] * np.asarray(p["x"])
    if p["fn"] == "burg":
        a, rho, k = sp.arburg(y, p["order"], p.get("crit"))
        return [c_(a), c_([rho]), c_(k)]
    if p["fn"] == "aryule":
        a, rho, k = sp.aryule(y, p["order"])
        return [c_(a), c_([rho]), c_(k)]
    if p["fn"] == "sper":
        return [np.asarray(sp.speriodogram(y, NFFT=p["nfft"], detrend=False, scale_by_freq=False, window="hann"))]
    if p["fn"] == "mtm":
        from spectrum.mtm import dpss
        Sk, w, e = sp.pmtm(y, NW=2.5, k=4, NFFT=p["nfft"], method="adapt", show=False)
        return [np.asarray(w).ravel()]
    raise ValueError(p["fn"])


def model_scaled(p):
    y = p["c"] * np.asarray(p["x"])
    if p["fn"] == "burg":
        return ("F", proto.request("burg", "F", [p["order"], p.get("crit") or "none"], [y]))
    if p["fn"] == "aryule":
        return ("F", proto.request("aryule", "F", [p["order"], "biased"], [y]))
    if p["fn"] == "sper":
        from spectrum.window import Window
        w = np.asarray(Window(len(y), "hann").data)
        return ("F", proto.request("sper", "F", [1 if np.isrealobj(y) else 0, p["nfft"]], [y, w]))
    if p["fn"] == "mtm":
        from spectrum.mtm import dpss
        v, e = dpss(len(y), 2.5, 4)
        return ("F", proto.request("mtm", "F", ["adapt", p["nfft"]], [y, e, [0.0005]] + [v[:, i] for i in range(v.shape[1])]))
    raise ValueError(p["fn"])


def post_scaled(p, iv, mv):
    if p["fn"] == "mtm":
        return iv, [mv[-2]]
    return iv, mv


def _key(p):
    x = np.asarray(p["x"])
    return "%s|%s|%s|%r|%d" % (p.get("cls"), p.get("fn"), p.get("crit"), p["c"], hash(x.tobytes()) & 0xFFFFF)


def _tags(p):
    c = p["c"]
    return ["complex" if np.iscomplexobj(p["x"]) else "real", "c:" + ("complex" if isinstance(c, complex) else ("small" if abs(c) < 1 else "large")),
            "cls:%s" % p.get("cls", "-"), "fn:%s" % p.get("fn", "-")]


KINDS = {
    "bigeigen": {"oracle": oracle_bigeigen, "key": _key, "tags": lambda p: ["bigeigen:P=%d" % p["P"]]},
    "func": {"oracle": oracle_func, "key": _key, "tags": _tags},
    "class": {"oracle": oracle_class, "key": _key, "tags": _tags},
    "scaled": {"impl": impl_scaled, "model": model_scaled, "post": post_scaled, "rtol": 1e-6, "atol": 1e-300, "key": _key, "tags": _tags},
}


def _data(nrng, N, cplx):
    n = np.arange(N)
    x = nrng.standard_normal(N)
    x[5:20] += np.cos(0.7 * np.arange(15))
    if cplx:
        x = x + 1j * nrng.standard_normal(N)
    return x


def _scalars(nrng, cplx, i):
    base = [0.001, -3.0, 1000.0, float(10 ** nrng.uniform(-3, 3))]
    if cplx:
        base += [2 - 1j, 1e-3j, complex(10 ** nrng.uniform(-3, 3) * np.exp(1j * nrng.uniform(0, 6)))]
    return base[i % len(base)]


def gen(rng, nrng, tier):
    n = 14 if tier == "quick" else 150
    for i in range(n):
        cplx = bool(i % 2)
        x = _data(nrng, 40, cplx)
        yield ("func", {"x": x, "c": _scalars(nrng, cplx, i)})
    # "all data vectors": the same laws on records of very small and very large amplitude (c stays in [1e-3, 1e3])
    for i, amp in enumerate((1e-8, 1e5, 2.0 ** -40, 1e-10, 3e6) if tier == "quick" else (1e-8, 1e5, 2.0 ** -40, 1e-10, 3e6, 1e-12, 1e7, 1e3, 1e-5)):
        for cplx in (False, True):
            yield ("func", {"x": amp * _data(nrng, 40, cplx), "c": [1000.0, 0.001, -3.0][i % 3]})
    for i in range(2 if tier == "quick" else 12):
        NB = 256
        tb = np.arange(NB)
        xb = np.cos(0.4 * tb) + 0.5 * np.cos(1.1 * tb + 1) + [1e-3, 1e-2][i % 2] * nrng.standard_normal(NB)
        yield ("bigeigen", {"x": xb, "P": [80, 96, 64, 100][i % 4], "c": 1.0, "cs": [1e-3, 1e3]})
    m = 84 if tier == "quick" else 1000
    for i in range(m):
        cls = C.CLASSES[i % len(C.CLASSES)]
        cplx = bool((i // len(C.CLASSES)) % 2)
        x = _data(nrng, 40, cplx)
        q = {"cls": cls, "x": x, "c": _scalars(nrng, cplx, i // 2), "nfft": [None, 64, 65][i % 3]}
        if i % 2:
            q["cfg"] = C.random_cfg(nrng, cls, len(x), boundary=(i % 8 == 7))
            need = C.min_nfft(cls, len(x), q["cfg"])
            if (q["nfft"] or len(x)) < need:
                q["nfft"] = need
        yield ("class", q)
    k = 48 if tier == "quick" else 600
    fns = ["burg", "aryule", "sper", "mtm", "burg"]
    for i in range(k):
        cplx = bool(i % 2)
        x = _data(nrng, 32, cplx)
        fn = fns[i % len(fns)]
        p = {"x": x, "c": _scalars(nrng, cplx, i), "fn": fn, "order": 4, "nfft": 64}
        if fn == "burg" and i % 5 == 4:
            p["crit"] = CRITS[(i // 5) % 6]
            p["order"] = 10
        yield ("scaled", p)
