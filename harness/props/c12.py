"""C12  Yule-Walker models are stable and match the data autocorrelation."""
import numpy as np

import single

import proto
from common import gen_data, rel

TRUSTED_BASE = [
    "lpc uses numpy fft/ifft for the autocorrelation (parameter: the DFT); the lpc clause is checked by the oracle on the real code",
    "scipy.linalg.lstsq (least-squares clause) is a parameter; oracle compares with the Yule-Walker coefficients",
    "exact mode: dyadic data, model in exact Gaussian rationals (orders <= 12), rtol 1e-8; float mode for larger sizes, rtol 1e-7",
]
PARTIAL = []   # lpc: C12.lpc_eq_yule (Wiener-Khinchin + inverse DFT + Levinson scale invariance); stability: C12.yule_stable
ASSUMPTIONS = ["conditioning predicate: final error P >= 1e-7 r0 (noise-free tones make the fit singular; such cases are skipped and counted)"]
RULE = ("non-zero real/complex data (noise, tones + noise, trends, integer-valued, complex dtype with zero imaginary part) of "
        "length 3..200 x orders 1..min(N-1, 30); non-trivial = order >= 2")


def _sp():
    import spectrum
    return spectrum


def c(v):
    return np.asarray(v).astype(complex).ravel()


def impl_yule(p):
    a, P, k = _sp().aryule(p["x"], p["order"])
    return [c(a), c([P]), c(k)]


def model_yule(p):
    mode = "Q" if p["exact"] else "F"
    return (mode, proto.request("aryule", mode, [p["order"], "biased"], [np.asarray(p["x"])]))


def oracle_yule(p):
    sp = _sp()
    import scipy.linalg
    from spectrum.linear_prediction import poly2ac
    x = np.asarray(p["x"])
    N = len(x)
    order = p["order"]
    out = []
    a, P, k = sp.aryule(x, order)
    a, k = c(a), c(k)
    if len(a) != order or len(k) != order:
        return ["aryule returned %d coefficients for order %d" % (len(a), order)]
    roots = np.roots(np.concatenate(([1], a)))
    if np.max(np.abs(roots)) >= 1:
        out.append("Yule-Walker polynomial not stable: max|root| = %.8f (N=%d order=%d)" % (np.max(np.abs(roots)), N, order))
    if not np.all(np.abs(k) < 1):
        out.append("reflection coefficient of modulus >= 1")
    if not (np.isreal(P) and P > 0):
        out.append("noise variance %r is not positive" % (P,))
    r = c(sp.CORRELATION(x, maxlags=order, norm="biased"))
    Rm = c(poly2ac(np.concatenate(([1], a)), P))
    if rel(Rm, r) > 1e-7:
        out.append("autocorrelation implied by the model differs from the biased sample autocorrelation: %.2e (N=%d order=%d %s)" % (
            rel(Rm, r), N, order, "complex" if np.iscomplexobj(x) else "real"))
    X = sp.corrmtx(x, order, "autocorrelation")
    als = scipy.linalg.lstsq(-X[:, 1:], X[:, 0])[0]
    if rel(c(als), a) > 1e-7:
        out.append("least squares on the 'autocorrelation' data matrix gives different coefficients: %.2e" % rel(c(als), a))
    if not np.iscomplexobj(x):
        al, el = sp.lpc(np.array(x, dtype=float), order)
        if rel(c(al), a) > 1e-7:
            out.append("lpc coefficients differ from aryule: %.2e (N=%d order=%d)" % (rel(c(al), a), N, order))
    return out


def impl_lpc(p):
    a, e = _sp().lpc(np.array(p["x"], dtype=float), p["order"])
    return [c(a), c([e])]


def model_lpc(p):
    from spectrum.tools import nextpow2
    x = np.asarray(p["x"], dtype=float)
    nfft = int(2 ** nextpow2(2.0 * len(x) - 1))
    return ("F", proto.request("lpc", "F", [p["order"], nfft], [x]))


def _key(p):
    x = np.asarray(p["x"])
    return "%d|%d|%s|%d" % (len(x), p["order"], np.iscomplexobj(x), hash(x.tobytes()) & 0xFFFFFF)


KINDS = {
    "lpc": {"impl": impl_lpc, "model": model_lpc, "rtol": 1e-7, "atol": 1e-12, "key": lambda p: "lpc|" + _key(p),
            "nontrivial": lambda p: p["order"] >= 2, "tags": lambda p: ["lpc", "data:" + p["dkind"]]},
    "yule": {"impl": impl_yule, "model": model_yule, "oracle": oracle_yule, "rtol": 1e-7, "atol": 1e-300, "key": _key,
             "nontrivial": lambda p: p["order"] >= 2,
             "tags": lambda p: ["complex" if np.iscomplexobj(p["x"]) else "real", "data:" + p["dkind"],
                                "mode:" + ("Q" if p["exact"] else "F"), "order=N-1" if p["order"] == len(p["x"]) - 1 else "order<N-1"]},
}


def _ok(x, order):
    sp = _sp()
    try:
        a, P, k = sp.aryule(x, order)
    except Exception:
        return True   # let the oracle report it
    r0 = float(np.mean(np.abs(x) ** 2))
    return P >= 1e-7 * r0


KINDS["single"] = single.kind("C12")

def gen(rng, nrng, tier):
    yield from single.gen("C12", nrng, tier)
    # FFT-size coincidences: N + order - 1 (and N + order) an exact power of two
    for p2 in (32, 64, 128, 256):
        for order in ([1, 3, 8] if tier == "quick" else [1, 2, 3, 5, 8, 13, 21, 30]):
            for off in (1, 0):
                N = p2 + off - order
                if N < order + 2 or N > 260:
                    continue
                for cplx in (False, True):
                    x, dk = gen_data(nrng, N, cplx, kind="noise")
                    x = np.asarray(x)
                    yield ("yule", {"x": x if cplx else x.astype(float), "order": order, "exact": False, "dkind": dk})
    for N in ((256, 300) if tier == "quick" else (256, 257, 300, 513, 1000)):   # long records
        for cplx in (False, True):
            x, dk = gen_data(nrng, N, cplx, kind="tone")
            yield ("yule", {"x": np.asarray(x) if cplx else np.asarray(x).astype(float), "order": int(nrng.integers(1, 13)), "exact": False, "dkind": dk})
    n = 260 if tier == "quick" else 4000
    kinds = ["noise", "tone", "trend", "int", "czero", "const"]
    for i in range(n):
        exact = (i % 3 != 0)
        cplx = bool(nrng.integers(0, 2))
        if i % 5 == 0:
            N = int(nrng.integers(3, 34))       # small N, where order = N-1 and power-of-two FFT sizes occur
        else:
            N = int(nrng.integers(3, 41 if exact else 201))
        kind = kinds[i % len(kinds)]
        if kind == "const":
            kind = "noise"
        x, dk = gen_data(nrng, N, cplx, kind=kind, exact=exact)
        x = np.asarray(x)
        if not np.iscomplexobj(x):
            x = x.astype(float)
        omax = min(N - 1, 12 if exact else 30)
        order = omax if i % 4 == 0 else int(nrng.integers(1, omax + 1))
        if not _ok(x, order):
            continue
        yield ("yule", {"x": x, "order": order, "exact": exact, "dkind": dk})
        if not np.iscomplexobj(x) and order <= N - 1 and N >= 3:
            yield ("lpc", {"x": x, "order": order, "dkind": dk})
