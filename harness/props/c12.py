"""C12  Yule-Walker models are stable and match the data autocorrelation."""
import numpy as np

import single

import proto
from common import gen_data, rel, as_input

TRUSTED_BASE = [
    "lpc uses numpy fft/ifft for the autocorrelation (parameter: the DFT); the lpc clause is checked by the oracle on the real code",
    "scipy.linalg.lstsq / numpy.linalg.lstsq (least-squares clause) are parameters; oracle compares with the Yule-Walker coefficients",
    "exact mode: dyadic data, model in exact Gaussian rationals (orders <= 12), rtol 1e-8; float mode for larger sizes, rtol 1e-7",
    "oracle references written in numpy: r_k = sum x[n+k] conj(x[n]) / N, the (N+p) x (p+1) 'autocorrelation' data matrix, "
    "P/|DFT([1,a])|^2; scipy.signal.lfilter (impulse response of 1/A(z)), numpy.roots and numpy.fft are parameters",
]
PARTIAL = []   # lpc: C12.lpc_eq_yule (Wiener-Khinchin + inverse DFT + Levinson scale invariance); stability: C12.yule_stable
ASSUMPTIONS = ["no conditioning predicate: the biased estimator is positive definite for every non-zero record (P / r0 >= 1e-3 on "
               "every generated class, including constant records and noise-free tones of length 1000), so no case is dropped",
               "coefficient vectors are compared relatively (1e-7 of their max-norm); when both are zero to rounding (impulse and "
               "sparse records, r_1 = 0 at order 1) the comparison is absolute, 1e-14, i.e. relative to the leading coefficient 1",
               "the model autocorrelation is evaluated from the impulse response of 1/A(z) truncated at L samples and from the "
               "library's PSD sampled on NFFT points; L and NFFT follow the pole radius rho (rho^L, rho^NFFT <= 1e-18 whenever "
               "L <= 2^18, NFFT <= 2^16) and the tolerance carries the truncation / aliasing term 1e3 rho^(L-p-1)",
               "lpc with the default order (N=None -> len(x)-1) is exercised for len(x) <= 31 only (orders 1..30 of the quantifier)",
               "floating-point range: every generated record has a mean square r_0 inside [1e-285, 1e+285] (so that r_0 and the "
               "prediction error are normal doubles); INDIVIDUAL samples may be as small as 5e-324 (lag products that underflow to "
               "0 or to denormals are part of the case classes 'tiny:*'), single samples as large as 1e130; records whose r_0 itself "
               "underflows / overflows (all samples below ~1e-154 or above ~1e+154) are not generated",
               "'seq' cases: the property makes no reservation about what the process did before the call, so the in-domain call is "
               "made AFTER one to three earlier calls of the same API family (out-of-domain / error-provoking ones inside try/except, "
               "or a valid one on another record / on the same record object with another order); only the in-domain call is judged, the earlier calls may do whatever they do; numpy's error "
               "state / print options, the warnings filter list and the spectrum module-level globals are snapshotted around every "
               "API call only to name the earlier call to blame in the message, and are put back at the end of the case so that the "
               "cases stay independent and every failing case replays from its own params",
               "'reuse' cases: float32 / complex64 records occur only as EARLIER records of a history and are judged by history "
               "independence alone (bit-for-bit equal to aryule and to a fresh object), not by the double-precision clause tolerances; "
               ".ar / .reflection are read after a computation (p() or p.psd) - the library fills them lazily, a read before the "
               "computation is not an observation of the current record; sides / scale_by_freq are left at their defaults"]
RULE = ("non-zero real/complex data (noise, tones + noise, trends, integer-valued as float64 / int64 / int32 / int16 / int8 / uint8 "
        "arrays and as Python lists, complex dtype with zero imaginary part, exactly constant records, noise-free real / complex "
        "tones, alternating sign, single impulses and sparse records, N = 2) of length 2..200 (long records up to 1000) x orders "
        "1..min(N-1, 30); non-trivial = order >= 2.  Dynamic range inside a record ('tiny:*' / 'huge:*' / 'scaled:*' data classes, as "
        "ordinary yule / lpc cases): noise, tones + noise and trends with one or a few samples of modulus 5e-324..1e-155 (lag "
        "products underflow), mixtures of 1e-170 and 1, decaying / growing exponential trends exp(-c n) that run into the denormals, "
        "one sample of 1e130 in unit noise, whole records scaled by 1e-140 / 1e+140.  Kind 'seq' = a SEQUENCE inside one process: "
        "one to three earlier calls (aryule / pyule / lpc / LEVINSON / ma / CORRELATION on an all-zero record, an exactly singular "
        "autocorrelation with and without allow_singularity, NaN / inf / overflowing samples, order >= N, order 0 / negative / "
        "non-integer, wrong types, empty input - all inside try/except - or a valid call on another record or on the same record object with another order), then an in-domain "
        "record (the tiny/huge classes above and the ordinary ones) on which aryule / pyule (.ar, .reflection, .psd) / lpc / ma "
        "must return bit-for-bit what they return in a fresh state (reference taken before the earlier calls, or - 'ref: restored' - "
        "recomputed afterwards with the pre-sequence numpy error state), aryule after the sequence is compared with the Lean model, "
        "and every clause of the yule and lpc oracles is then evaluated on that record in the state the sequence left behind.  "
        "Kind 'reuse' = ONE pyule object re-used (observation points pyule.ar / .reflection): a history of p.data = record "
        "(2..4 records; consecutive records of exactly the SAME length but another kind - all ordered pairs of float64 / complex128 / "
        "complex with zero imaginary part / int64 / int32 / int16 / int8 / uint8 / float32 / complex64 / lists of int, float, "
        "complex occur in the quick tier - and records of other lengths), p.ar_order, p.NFFT, p.sampling assignments, an all-zero "
        "record or an order >= N / < 0 computed inside try/except, another pyule object computed in between, interleaved with "
        "reads (p() or p.psd, then .ar / .reflection / .psd; assignments also chained without a read); after EVERY read the "
        "observations must equal bit-for-bit aryule(current record, current order) and a fresh pyule(record, order, NFFT, sampling) "
        "read the same way, be stable (roots, |k| < 1), satisfy the Yule-Walker normal equations with the numpy biased "
        "autocorrelation of the record assigned (1e-11), imply a positive noise variance equal to aryule's, and give the PSD "
        "P/(fs |A|^2) > 0 (1e-9); the final .ar / .reflection are compared with the Lean model of aryule on the final record; "
        "no record handed to the object may be modified")


def _sp():
    import spectrum
    return spectrum


def c(v):
    return np.asarray(v).astype(complex).ravel()


def _values(xin):
    """the sample values of the input as float64 / complex128 (integer samples are exact in doubles)"""
    a = np.asarray(xin)
    return a.astype(complex) if np.iscomplexobj(a) else a.astype(float)


def _snap(xin):
    if isinstance(xin, list):
        return ("list", list(xin))
    a = np.asarray(xin)
    return ("array", a.dtype, a.shape, a.copy())


def _unchanged(xin, s):
    if s[0] == "list":
        return isinstance(xin, list) and len(xin) == len(s[1]) and all(
            type(u) is type(v) and u == v for u, v in zip(xin, s[1]))
    a = np.asarray(xin)
    return a.dtype == s[1] and a.shape == s[2] and np.array_equal(a, s[3])


def _inkind(xin):
    if isinstance(xin, list):
        return "list-" + ("complex" if any(isinstance(v, complex) for v in xin) else
                          "int" if all(isinstance(v, int) for v in xin) else "float")
    return str(np.asarray(xin).dtype)


def _acf(xv, p):
    """biased sample autocorrelation, r_k = sum_n x[n+k] conj(x[n]) / N, k = 0..p (numpy; independent of the library)"""
    N = len(xv)
    return np.array([np.sum(xv[k:] * np.conj(xv[:N - k])) / N for k in range(p + 1)]).astype(complex)


def _datamatrix(xv, p):
    """the (N+p) x (p+1) 'autocorrelation' (pre- and post-windowed) data matrix, X[i, j] = x[i-j]"""
    N = len(xv)
    X = np.zeros((N + p, p + 1), dtype=complex)
    for j in range(p + 1):
        X[j:j + N, j] = xv
    return X


def _close(u, v, rtol, floor=1e-14):
    """max|u-v| <= rtol max(|u|,|v|), or <= floor (the polynomial [1, a] has leading coefficient 1: coefficients that are
    zero to rounding - impulse records - compare absolutely)"""
    u, v = c(u), c(v)
    if u.shape != v.shape or not (np.all(np.isfinite(u)) and np.all(np.isfinite(v))):
        return False
    if u.size == 0:
        return True
    return rel(u, v) <= rtol or float(np.max(np.abs(u - v))) <= floor


def impl_yule(p):
    a, P, k = _sp().aryule(p["x"], p["order"])
    return [c(a), c([P]), c(k)]


def _model_shift(x):
    """records of the 'huge:*' / 'scaled:*' classes (max|x| outside [1e-60, 1e60]): the float-mode Lean model divides complex
    numbers by the textbook formula (c^2 + d^2 in the denominator) and squares |X|^2 in lpc, so it leaves the double range
    once r_0^2 does (amplitudes beyond ~1e+-77) although the library does not.  The model is then asked for x 2^-k (an exact
    rescaling: the coefficients and reflection coefficients do not depend on the scale) and its noise variance / error power
    is multiplied by 4^k before the comparison (post_yule / post_lpc).  k = 0 for every record with 1e-60 <= max|x| <= 1e60,
    i.e. for every case class that existed before these were added."""
    x = np.asarray(x)
    m = float(np.max(np.abs(x))) if x.size and x.dtype.kind in "fc" else 1.0
    return int(np.floor(np.log2(m))) if np.isfinite(m) and m > 0 and not (1e-60 <= m <= 1e60) else 0


def model_yule(p):
    mode = "Q" if p["exact"] else "F"
    x = np.asarray(p["x"])
    k = 0 if p["exact"] else _model_shift(x)
    if k:
        x = x * 2.0 ** -k
    return (mode, proto.request("aryule", mode, [p["order"], "biased"], [x]))


def post_yule(p, iv, mv):
    k = 0 if p["exact"] else _model_shift(p["x"])
    if k and len(mv) == 3:
        mv = [mv[0], np.asarray(mv[1]) * 4.0 ** k, mv[2]]
    return iv, mv


def oracle_yule(p):
    sp = _sp()
    import scipy.linalg
    from scipy.signal import lfilter
    from spectrum.linear_prediction import poly2ac
    xin = p["x"]                      # handed to the library as it is: float / integer array, strided view or Python list
    snap = _snap(xin)
    x = np.asarray(xin)
    xv = _values(xin)
    N = len(x)
    order = p["order"]
    cplx = np.iscomplexobj(x)
    what = "N=%d order=%d %s %s" % (N, order, "complex" if cplx else "real", _inkind(xin))
    out = []
    a, P, k = sp.aryule(xin, order)
    a0, k0 = np.asarray(a), np.asarray(k)
    a, k = c(a), c(k)
    if len(a) != order or len(k) != order:
        return ["aryule returned %d coefficients for order %d" % (len(a), order)]
    roots = np.roots(np.concatenate(([1], a)))
    rho = float(np.max(np.abs(roots)))
    if rho >= 1:
        out.append("Yule-Walker polynomial not stable: max|root| = %.8f (N=%d order=%d)" % (np.max(np.abs(roots)), N, order))
    if not np.all(np.abs(k) < 1):
        out.append("reflection coefficient of modulus >= 1")
    if not (np.isreal(P) and P > 0):
        out.append("noise variance %r is not positive" % (P,))
    r = c(sp.CORRELATION(xin, maxlags=order, norm="biased"))
    Rm = c(poly2ac(np.concatenate(([1], a)), P))
    if rel(Rm, r) > 1e-7:
        out.append("autocorrelation implied by the model differs from the biased sample autocorrelation: %.2e (N=%d order=%d %s)" % (
            rel(Rm, r), N, order, "complex" if np.iscomplexobj(x) else "real"))
    X = sp.corrmtx(x, order, "autocorrelation")
    als = scipy.linalg.lstsq(-X[:, 1:], X[:, 0])[0]
    if not _close(als, a, 1e-7):     # (relative 1e-7; coefficients that are exactly zero, e.g. r_1 = 0 at order 1: absolute 1e-14)
        out.append("least squares on the 'autocorrelation' data matrix gives different coefficients: %.2e" % rel(c(als), a))
    if not np.iscomplexobj(x):
        al, el = sp.lpc(np.array(x, dtype=float), order)
        if not _close(al, a, 1e-7):
            out.append("lpc coefficients differ from aryule: %.2e (N=%d order=%d)" % (rel(c(al), a), N, order))

    # ---- independent references (numpy formulas on the sample values) -------------------------------------------------
    ri = _acf(xv, order)
    r0 = float(ri[0].real)
    P = float(np.real(P))
    # (a) the lags the library's step-down attributes to the model are the biased sample autocorrelation r_k (numpy)
    if not rel(Rm, ri) <= 1e-9:
        out.append("model autocorrelation (poly2ac) differs from r_k = sum x[n+k] conj(x[n]) / N: %.2e (%s)" % (rel(Rm, ri), what))
    # (b) Yule-Walker normal equations with the independent lags: r_k + sum_j a_j r_{k-j} = P delta_k, r_{-k} = conj(r_k)
    rr = np.concatenate((np.conj(ri[:0:-1]), ri))          # lags -p..p
    ne = np.array([rr[order + kk] + np.dot(a, rr[order + kk - 1 - np.arange(order)]) for kk in range(order + 1)])
    ne[0] -= P
    ne_err = float(np.max(np.abs(ne))) / (r0 * (1 + float(np.sum(np.abs(a)))))
    if not ne_err <= 1e-11:
        out.append("Yule-Walker normal equations with the numpy autocorrelation not satisfied: residual %.2e (%s)" % (ne_err, what))
    # (c) the model autocorrelation IS the autocorrelation of the AR process x[n] = -sum a_k x[n-k] + e[n], var(e) = P:
    #     time domain  P sum_n h[n+k] conj(h[n]),  h = impulse response of 1/A(z);  frequency domain: inverse DFT of the
    #     library's PSD of the model (arma2psd).  Both pin the conjugation convention for complex data.
    if rho < 1 and P > 0:
        lr = np.log(max(rho, 1e-3))
        need = int(np.ceil(np.log(1e-18) / lr))
        L = min(max(need, 4 * (order + 1)), 2 ** 18) + order + 1
        imp = np.zeros(L, dtype=complex)
        imp[0] = 1
        h = lfilter([1], np.concatenate(([1], a)), imp)
        rh = P * np.array([np.sum(h[kk:] * np.conj(h[:L - kk])) for kk in range(order + 1)])
        tol = 1e-9 + 1e3 * rho ** (L - 2 * order - 2)
        if not rel(rh, ri) <= tol:
            out.append("autocorrelation of the AR process (impulse response of 1/A) differs from the biased sample "
                       "autocorrelation: %.2e (tol %.1e, max|root| %.6f, %s)" % (rel(rh, ri), tol, rho, what))
        nf = int(2 ** int(np.ceil(np.log2(max(64, 2 * (order + 1), need)))))
        nf = min(nf, 2 ** 16)
        tolf = 1e-9 + 1e3 * rho ** (nf - order - 1)
        psd2 = np.asarray(sp.arma2psd(A=a0, rho=P, NFFT=nf, T=1))
        rps = np.fft.ifft(psd2)[:order + 1]
        if not rel(rps, ri) <= tolf:
            out.append("inverse DFT of arma2psd(a, rho=P) differs from the biased sample autocorrelation: %.2e (tol %.1e, "
                       "NFFT %d, max|root| %.6f, %s)" % (rel(rps, ri), tolf, nf, rho, what))
    else:
        nf, tolf = 64, 1.0
    # (d) value of the noise variance: ||X1 + Xc a||^2 = N P on the 'autocorrelation' data matrix (numpy and corrmtx)
    Xi = _datamatrix(xv, order)
    for nm, M in (("numpy", Xi), ("corrmtx", np.asarray(X).astype(complex))):
        if M.shape != Xi.shape:
            out.append("corrmtx 'autocorrelation' data matrix has shape %r, expected %r" % (M.shape, Xi.shape))
            continue
        pe = float(np.sum(np.abs(M[:, 0] + M[:, 1:] @ a) ** 2))
        if not (P > 0 and abs(pe / (N * P) - 1) < 1e-9):
            out.append("prediction error energy on the %s 'autocorrelation' data matrix is not N*P: ||X1 + Xc a||^2/(N P) - 1 = %.2e (%s)" % (
                nm, pe / (N * P) - 1 if P > 0 else float("nan"), what))
    # (e) least squares on the numpy data matrix
    ali = np.linalg.lstsq(-Xi[:, 1:], Xi[:, 0], rcond=None)[0]
    if not _close(ali, a, 1e-7):
        out.append("least squares on the numpy 'autocorrelation' data matrix gives different coefficients: %.2e (%s)" % (rel(c(ali), a), what))
    # (f) explicit norm='biased' is the default
    ab, Pb, kb = sp.aryule(xin, order, norm="biased")
    if not (np.array_equal(np.asarray(ab), a0) and np.array_equal(np.asarray(kb), k0) and Pb == P):
        out.append("aryule(x, p, norm='biased') differs from aryule(x, p) (%s)" % what)
    # (g) observation points pyule.ar / pyule.reflection (after () and after reading .psd), with the PSD of the model
    nfs = (32, 33, 64, 65, 128, 255, 256)[(N + 3 * order) % 7]
    for how, kw, nfft in (("call", {}, nfs), ("psd", {"norm": "biased"}, nf)):
        q = sp.pyule(xin, order, NFFT=nfft, scale_by_freq=False, **kw)
        if how == "call":
            q()
        psd = np.asarray(q.psd)
        qa, qk = np.asarray(q.ar), np.asarray(q.reflection)
        if qa.shape != a0.shape or qk.shape != k0.shape or not (np.array_equal(qa, a0) and np.array_equal(qk, k0)):
            out.append("pyule(%s).ar / .reflection differ from aryule: %.2e / %.2e (%s)" % (
                how, rel(c(qa), a), rel(c(qk), k), what))
        qr = np.roots(np.concatenate(([1], c(qa))))
        if np.max(np.abs(qr)) >= 1 or not np.all(np.abs(c(qk)) < 1):
            out.append("pyule.ar not stable / pyule.reflection of modulus >= 1: max|root| %.8f (%s)" % (np.max(np.abs(qr)), what))
        ref = P / np.abs(np.fft.fft(np.concatenate(([1], a)), nfft)) ** 2        # two-sided PSD of the model, T = 1
        if cplx:
            exp_psd, two = ref, psd
        else:
            exp_psd = 2 * ref[:nfft // 2 + 1]                                     # one-sided: bins 0..NFFT/2, doubled
            half = psd / 2
            two = np.concatenate((half, half[1:(nfft + 1) // 2][::-1])) if psd.shape == exp_psd.shape else psd
        if psd.shape != exp_psd.shape or not rel(psd, exp_psd) <= 1e-9:
            out.append("pyule PSD is not P/|A(f)|^2 of the aryule model: %.2e (NFFT %d, %s)" % (
                rel(psd, exp_psd) if psd.shape == exp_psd.shape else float("inf"), nfft, what))
        elif how == "psd" and rho < 1:
            # mean of the two-sided PSD = zero-lag autocorrelation of the model (aliased by rho^NFFT) = r_0 of the data
            m = float(np.mean(two))
            if not abs(m / r0 - 1) <= tolf:
                out.append("mean of the two-sided pyule PSD is not r_0 = mean |x|^2: ratio - 1 = %.2e (tol %.1e, NFFT %d, %s)" % (
                    m / r0 - 1, tolf, nfft, what))
    if not _unchanged(xin, snap):
        out.append("the input record was modified (%s)" % what)
    return out


def _lpc_call(p):
    sp = _sp()
    how = p.get("call", "pos")
    if how == "kw":
        return sp.lpc(p["x"], N=p["order"])
    if how == "default":
        return sp.lpc(p["x"])
    return sp.lpc(p["x"], p["order"])


def impl_lpc(p):
    a, e = _lpc_call(p)
    return [c(a), c([e])]


def model_lpc(p):
    from spectrum.tools import nextpow2
    x = np.asarray(p["x"], dtype=float)
    nfft = int(2 ** nextpow2(2.0 * len(x) - 1))
    k = _model_shift(x)
    if k:
        x = x * 2.0 ** -k
    return ("F", proto.request("lpc", "F", [p["order"], nfft], [x]))


def post_lpc(p, iv, mv):
    """the error power is compared RELATIVELY: both sides are divided by |e_model|, so that the absolute term of the kind
    (1e-12, kept for coefficients that are zero to rounding) is negligible for e at every data amplitude"""
    try:
        k = _model_shift(np.asarray(p["x"], dtype=float))
        if k and len(mv) == 2:
            mv = [mv[0], np.asarray(mv[1]) * 4.0 ** k]       # (model asked for x 2^-k: see _model_shift)
        s = abs(complex(np.asarray(mv[1]).ravel()[0]))
        if len(iv) == 2 and len(mv) == 2 and np.isfinite(s) and s > 0:
            return [iv[0], np.asarray(iv[1]) / s], [mv[0], np.asarray(mv[1]) / s]
    except Exception:
        pass
    return iv, mv


def oracle_lpc(p):
    sp = _sp()
    xin = p["x"]
    snap = _snap(xin)
    xv = _values(xin)
    m = len(xv)
    order = p["order"]
    how = p.get("call", "pos")
    what = "N=%d order=%d call=%s %s" % (m, order, how, _inkind(xin))
    out = []
    if how == "default" and order != m - 1:
        return ["harness: default-order lpc case with order != len(x)-1"]
    al, el = _lpc_call(p)
    al0 = np.asarray(al)
    al = c(al)
    if len(al) != order:
        return ["lpc returned %d coefficients for order %d (%s)" % (len(al), order, what)]
    if not (np.isreal(el) and np.isfinite(el) and el > 0):
        out.append("lpc error power %r is not positive (%s)" % (el, what))
    el = float(np.real(el))
    # the same coefficients as Yule-Walker; lpc normalises its autocorrelation by m-1: e = P m / (m-1)
    a, P, k = sp.aryule(xin, order)
    if not _close(al, a, 1e-7):
        out.append("lpc coefficients differ from aryule: %.2e (%s)" % (rel(al, c(a)), what))
    if not abs(el / (P * m / (m - 1.0)) - 1) <= 1e-9:
        out.append("lpc error power is not P m/(m-1) of aryule: ratio - 1 = %.2e (%s)" % (el / (P * m / (m - 1.0)) - 1, what))
    # independent: normal equations with the numpy autocorrelation
    ri = _acf(xv, order).real
    r0 = float(ri[0])
    idx = np.abs(np.arange(order + 1)[:, None] - np.arange(1, order + 1)[None, :])
    ne = ri + ri[idx] @ al.real
    e_ref = ne[0] * m / (m - 1.0)
    ne_err = float(np.max(np.abs(ne[1:]))) / (r0 * (1 + float(np.sum(np.abs(al))))) if order else 0.0
    if not ne_err <= 1e-9:
        out.append("lpc coefficients do not satisfy the normal equations of the numpy autocorrelation: residual %.2e (%s)" % (ne_err, what))
    if not (e_ref > 0 and abs(el / e_ref - 1) <= 1e-8):
        out.append("lpc error power is not (r_0 + sum a_j r_j) m/(m-1): ratio - 1 = %.2e (%s)" % (el / e_ref - 1 if e_ref else float("nan"), what))
    if np.max(np.abs(np.roots(np.concatenate(([1], al))))) >= 1:
        out.append("lpc polynomial not stable (%s)" % what)
    if np.iscomplexobj(al0) and np.any(al0.imag != 0):
        out.append("lpc coefficients of real data have a non-zero imaginary part (%s)" % what)
    # the three ways of giving the order are the same computation
    calls = [("pos", lambda: sp.lpc(xin, order)), ("kw", lambda: sp.lpc(xin, N=order))]
    if order == m - 1:
        calls.append(("default", lambda: sp.lpc(xin)))
    for nm, f in calls:
        if nm == how:
            continue
        a2, e2 = f()
        if np.asarray(a2).shape != al0.shape or not (np.array_equal(np.asarray(a2), al0) and e2 == el):
            out.append("lpc called with the order given as '%s' differs from '%s' (%s)" % (nm, how, what))
    if not _unchanged(xin, snap):
        out.append("lpc modified its input record (%s)" % what)
    return out


def _key(p):
    x = np.asarray(p["x"])
    return "%d|%d|%s|%d|%s" % (len(x), p["order"], np.iscomplexobj(x), hash(x.tobytes()) & 0xFFFFFF, _inkind(p["x"]))


def _tags_common(p):
    t = ["data:" + p["dkind"].split(":")[0], "input:" + _inkind(p["x"])]
    if p["dkind"].startswith("degen"):
        t.append(p["dkind"])
    return t



# ---- sequences inside one process: earlier (out-of-domain / failing / unrelated) calls, then an in-domain call -------------
# The property is stated for every non-zero record and order p < N, with no reservation about what the process did before.
# Process-global state an earlier call may leave behind (numpy error state, print options, warnings filters, module-level
# caches / globals / mutable default arguments) must therefore not change the result of the in-domain call.

def _blob(v):
    if isinstance(v, np.ndarray):
        return ("nd", str(v.dtype), v.shape, hash(v.tobytes()))
    if isinstance(v, (list, tuple, dict, set, frozenset, str, bytes, int, float, complex, bool, type(None))):
        try:
            return repr(v)
        except Exception:
            return "unreprable"
    return None


# the modules on the Yule-Walker / lpc / ma paths (anchors of the property) and what they import from the package
_WATCHED = ("spectrum.yulewalker", "spectrum.correlation", "spectrum.levinson", "spectrum.lpc", "spectrum.arma", "spectrum.linalg",
            "spectrum.linear_prediction", "spectrum.psd", "spectrum.tools", "spectrum.toeplitz", "spectrum.window", "spectrum.errors")


def _sp_globals():
    """digest of the module-level data (and of the default argument values of the module-level functions, and of the mutable
    class attributes) of the watched spectrum modules"""
    import sys
    import types
    _sp()                       # (the package imports all its modules: the first snapshot is not taken before they exist)
    out = {}
    for name in _WATCHED:
        m = sys.modules.get(name)
        if m is None:
            continue
        for k, v in list(vars(m).items()):
            if k.startswith("__"):
                continue
            if isinstance(v, types.FunctionType):
                if v.__defaults__ or v.__kwdefaults__:
                    out[name + "." + k + "()"] = (tuple(_blob(d) for d in (v.__defaults__ or ())), _blob(v.__kwdefaults__))
            elif isinstance(v, type):
                if getattr(v, "__module__", "").startswith("spectrum"):
                    for ck, cv in list(vars(v).items()):
                        if isinstance(cv, (list, dict, set)):
                            out[name + "." + k + "." + ck] = _blob(cv)
            elif not isinstance(v, types.ModuleType):
                b = _blob(v)
                if b is not None:
                    out[name + "." + k] = b
    return out


def _state():
    """the tripwire: process-global state that an API call has no business changing"""
    import warnings
    po = np.get_printoptions()
    return {"numpy.geterr()": dict(np.geterr()),
            "numpy.get_printoptions()": {k: repr(v) for k, v in po.items()},
            "warnings.filters": (len(warnings.filters), repr(warnings.filters[0]) if warnings.filters else ""),
            "spectrum globals": _sp_globals()}


def _state_diff(s0, s1):
    out = []
    for k in s0:
        if s0[k] != s1[k]:
            if isinstance(s0[k], dict):
                ch = sorted(kk for kk in set(s0[k]) | set(s1[k]) if s0[k].get(kk) != s1[k].get(kk))
                out.append("%s: %s" % (k, ", ".join("%s %s -> %s" % (kk, str(s0[k].get(kk))[:40], str(s1[k].get(kk))[:40]) for kk in ch[:4])))
            else:
                out.append("%s: %s -> %s" % (k, str(s0[k])[:60], str(s1[k])[:60]))
    return "; ".join(out)


class _Guard:
    """puts the process-global state back at the end of a 'seq' case (cases stay independent; replays are self-contained)"""

    def __enter__(self):
        import warnings
        self.err = np.geterr()
        self.po = np.get_printoptions()
        self.filters = list(warnings.filters)
        return self

    def __exit__(self, *exc):
        import warnings
        np.seterr(**self.err)
        try:
            np.set_printoptions(**self.po)
        except Exception:
            pass
        if list(warnings.filters) != self.filters:
            warnings.filters[:] = self.filters
            getattr(warnings, "_filters_mutated", lambda: None)()
        return False


def _desc_str(d):
    def one(a):
        if isinstance(a, np.ndarray):
            return "<%s[%d]>" % (a.dtype, a.size)
        if isinstance(a, list) and len(a) > 6:
            return "<list[%d]>" % len(a)
        return repr(a)
    args = [one(a) for a in d.get("args", [])] + ["%s=%s" % (k, one(v)) for k, v in sorted(d.get("kw", {}).items())]
    return "%s(%s) [%s]" % (d["fn"], ", ".join(args), d.get("note", ""))


def _provoke(d, x=None):
    """one earlier call, inside try/except; returns 'returned' or 'raised <type>'.  Array arguments are copied first (lpc
    resizes its argument in place when order >= N), so that the case parameters are not touched.  The argument "@x" stands
    for the case's own in-domain record (the same object that the in-domain call receives afterwards)."""
    sp = _sp()
    args = [a.copy() if isinstance(a, np.ndarray) else (list(a) if isinstance(a, list) else a) for a in d.get("args", [])]
    args = [x if isinstance(a, str) and a == "@x" else a for a in args]
    kw = dict(d.get("kw", {}))
    fn = d["fn"]
    try:
        if fn == "pyule":
            q = sp.pyule(*args, **kw)
            q()
            q.psd
        elif fn == "pyule.psd":
            sp.pyule(*args, **kw).psd
        elif fn in ("aryule", "lpc", "LEVINSON", "ma", "CORRELATION"):
            getattr(sp, fn)(*args, **kw)
        else:
            return "harness: unknown earlier call %r" % fn
    except Exception as e:       # noqa: BLE001 - whatever the earlier call does is ignored; only the in-domain call is judged
        return "raised %s" % type(e).__name__
    return "returned"


def _ma_orders(order):
    return max(1, order // 2), order       # ma(X, Q, M): 0 < Q < M, long AR order M = the case's order


def _api_calls(p):
    """the observation points of the property on the in-domain record: (name, thunk) returning a flat complex vector"""
    sp = _sp()
    xin, order = p["x"], p["order"]
    real = not np.iscomplexobj(np.asarray(xin))

    def f_aryule():
        a, P, k = sp.aryule(xin, order)
        return np.concatenate((c(a), c([P]), c(k)))

    def f_pyule():
        q = sp.pyule(xin, order, NFFT=64, scale_by_freq=False)
        q()
        return np.concatenate((c(q.ar), c(q.reflection), c(q.psd)))

    def f_lpc():
        a, e = sp.lpc(np.array(xin, dtype=float), order)
        return np.concatenate((c(a), c([e])))

    def f_ma():
        b, rho = sp.ma(xin, *_ma_orders(order))
        return np.concatenate((c(b), c([rho])))

    calls = [("aryule(x, %d)" % order, f_aryule), ("pyule(x, %d, NFFT=64)().ar/.reflection/.psd" % order, f_pyule)]
    if real:
        calls.append(("lpc(x, %d)" % order, f_lpc))
    if order >= 2:
        calls.append(("ma(x, %d, %d)" % _ma_orders(order), f_ma))
    return calls


def _from_library(e):
    """the exception was raised inside the spectrum package (and not by the oracle's own reference arithmetic)"""
    import os
    root = os.path.dirname(os.path.abspath(_sp().__file__))
    tb = e.__traceback__
    while tb is not None:
        if os.path.abspath(tb.tb_frame.f_code.co_filename).startswith(root):
            return True
        tb = tb.tb_next
    return False


def _run_pre(p, log=None):
    s = _state() if log is not None else None
    for d in p["pre"]:
        outcome = _provoke(d, p["x"])
        if log is not None:
            s1 = _state()
            diff = _state_diff(s, s1)
            log.append((_desc_str(d), outcome, diff))
            s = s1
        elif outcome.startswith("harness"):
            raise ValueError(outcome)


def impl_seq(p):
    """aryule on the in-domain record AFTER the earlier calls (compared with the Lean model of aryule on that record)"""
    with _Guard():
        _run_pre(p)
        return impl_yule(p)


def oracle_seq(p):
    xin, order = p["x"], p["order"]
    x = np.asarray(xin)
    what = "N=%d order=%d %s %s data %s" % (len(x), order, "complex" if np.iscomplexobj(x) else "real", _inkind(xin), p["dkind"])
    ref_mode = p.get("ref", "before")
    out = []
    with _Guard() as g:
        calls = _api_calls(p)
        fresh = {}
        if ref_mode == "before":
            for nm, f in calls:
                try:
                    fresh[nm] = f()
                except Exception as e:      # noqa: BLE001
                    out.append("%s raised %s in a fresh state: %s (%s)" % (nm, type(e).__name__, str(e)[:100], what))
        log = []
        _run_pre(p, log)
        for ds, outcome, _ in log:
            if outcome.startswith("harness"):
                return [outcome]
        hist = "; then ".join("%s %s" % (ds, oc) for ds, oc, _ in log)
        blame = [("%s changed %s" % (ds.split("(")[0] + " [" + ds.split(" [")[-1], diff)) for ds, _, diff in log if diff]
        tail = " {" + " | ".join(blame)[:300] + "}" if blame else ""
        # the in-domain calls, in the state the sequence left behind (the real sequence: this is what a replay re-runs)
        after = {}
        for nm, f in calls:
            s0 = _state()
            try:
                after[nm] = f()
            except Exception as e:          # noqa: BLE001
                out.append("in-domain call %s raised %s: %s after the earlier call(s) [%s]%s (%s)" % (
                    nm, type(e).__name__, str(e)[:100], hist, tail, what))
            d = _state_diff(s0, _state())
            if d and not blame:
                blame.append("in-domain %s left %s" % (nm, d))
        if ref_mode != "before":
            np.seterr(**g.err)              # reference recomputed with the pre-sequence numpy error state
            for nm, f in calls:
                try:
                    fresh[nm] = f()
                except Exception as e:      # noqa: BLE001
                    out.append("%s raised %s with the pre-sequence error state: %s (%s)" % (nm, type(e).__name__, str(e)[:100], what))
        for nm, _ in calls:
            if nm in fresh and nm in after:
                u, v = fresh[nm], after[nm]
                # the same deterministic computation on the same input object: bit-for-bit (worst difference observed on the
                # unchanged tree over the quick and thorough tiers, seeds 0..4: exactly 0; NaN patterns must match as well)
                if u.shape != v.shape or not np.array_equal(u, v, equal_nan=True):
                    with np.errstate(all="ignore"):
                        dv = rel(u, v)
                    out.append("in-domain call %s differs from its result in a fresh state by %.2e after the earlier call(s) [%s]%s (%s)" % (
                        nm, dv, hist, tail, what))
        # every clause of the property on the in-domain record, in the state the sequence left behind
        q = {"x": xin, "order": order, "exact": False, "dkind": p["dkind"]}
        clause_oracles = [("yule", oracle_yule)] + ([] if np.iscomplexobj(x) else [("lpc", oracle_lpc)])
        for cname, orc in clause_oracles:
            try:
                fails = orc(q)
            except Exception as e:          # noqa: BLE001
                if _from_library(e):
                    out.append("the %s clauses could not be evaluated on the in-domain record: the library raised %s: %s after the "
                               "earlier call(s) [%s]%s (%s)" % (cname, type(e).__name__, str(e)[:100], hist, tail, what))
                    continue
                # the oracle's own reference arithmetic tripped over the state left behind: evaluate the clauses with the
                # pre-sequence numpy error state (the library calls above were already judged in the real state)
                np.seterr(**g.err)
                fails = orc(q)
            for f in fails:
                out.append("%s -- after the earlier call(s) [%s]%s" % (f, hist, tail))
    return out


def _key_seq(p):
    return "seq|%s|%s|%s" % (p.get("ref", "before"), ";".join("%s:%s" % (d["fn"], d.get("note", "")) for d in p["pre"]), _key(p))


KINDS = {
    "lpc": {"impl": impl_lpc, "model": model_lpc, "oracle": oracle_lpc, "post": post_lpc, "rtol": 1e-7, "atol": 1e-12,
            "key": lambda p: "lpc|" + p.get("call", "pos") + "|" + _key(p),
            "nontrivial": lambda p: p["order"] >= 2,
            "tags": lambda p: ["lpc", "lpc-call:" + p.get("call", "pos")] + _tags_common(p)},
    "yule": {"impl": impl_yule, "model": model_yule, "post": post_yule, "oracle": oracle_yule, "rtol": 1e-7, "atol": 1e-300, "key": _key,
             "nontrivial": lambda p: p["order"] >= 2,
             "tags": lambda p: ["complex" if np.iscomplexobj(p["x"]) else "real"] + _tags_common(p) + [
                                "mode:" + ("Q" if p["exact"] else "F"), "order=N-1" if p["order"] == len(p["x"]) - 1 else "order<N-1"]},
    # a sequence inside one process; model: the Lean aryule of the in-domain record (float mode), compared with aryule called
    # after the earlier calls, same tolerances as 'yule'
    "seq": {"impl": impl_seq, "model": model_yule, "post": post_yule, "oracle": oracle_seq, "rtol": 1e-7, "atol": 1e-300, "key": _key_seq,
            "nontrivial": lambda p: p["order"] >= 2,
            "tags": lambda p: ["seq", "seq-ref:" + p.get("ref", "before"), "seq-len:%d" % len(p["pre"])] + sorted(set(
                "seq-pre:%s:%s" % (d["fn"], d.get("note", "")) for d in p["pre"])) + _tags_common(p)},
}


KINDS["single"] = single.kind("C12")


def _guarded(f):
    """every case starts from the process-global state the run started with: whatever a case's library calls leave behind
    (numpy error state, print options, warnings filters) is put back when the case ends, so that a failing case is reported for
    ITS input and replays from its own params, instead of surfacing in later, unrelated cases.  What an earlier call may leave
    behind for a later one is the business of the 'seq' kind, inside one case."""
    def run(p):
        with _Guard():
            return f(p)
    run.__name__ = getattr(f, "__name__", "guarded")
    return run


for _k in KINDS.values():
    for _f in ("oracle", "impl"):
        if _f in _k:
            _k[_f] = _guarded(_k[_f])


def _dyadic(x, order):
    """exact (rational) model mode is affordable and meaningful: small dyadic samples, short record, small order"""
    x = np.asarray(x)
    v = np.concatenate((np.real(x).ravel(), np.imag(x).ravel())).astype(float)
    return bool(len(x) <= 40 and order <= 12 and np.all(np.abs(v) < 2 ** 20) and np.all(v * 64 == np.round(v * 64)))


def _both(x, order, dkind, calls=("pos",)):
    """a 'yule' case and, for real data, the 'lpc' cases on the same input object"""
    yield ("yule", {"x": x, "order": order, "exact": _dyadic(x, order), "dkind": dkind})
    if not np.iscomplexobj(np.asarray(x)):
        for cl in calls:
            if cl == "default" and not (order == len(x) - 1 and order <= 30):
                continue
            yield ("lpc", {"x": x, "order": order, "dkind": dkind, "call": cl})


def gen_degenerate(nrng, tier):
    """exactly constant records, noise-free tones, alternating sign, impulses / sparse records (a = 0), N = 2"""
    n64, n200 = np.arange(64), np.arange(200)
    fixed = [
        ("const", np.full(20, 3.0), 5), ("const", np.full(20, 3.0), 19), ("const", np.full(20, 3 + 1j), 5),
        ("const", np.full(20, 3 + 1j), 19), ("const", np.full(200, 1.0), 1), ("const", np.full(200, -0.75), 30),
        ("tone", np.cos(0.3 * n64), 2), ("tone", np.cos(0.3 * n64), 10), ("tone", np.cos(2 * np.pi * 0.1 * n200), 30),
        ("tone", np.sin(2 * np.pi * 0.25 * n64), 4), ("tone", np.cos(0.3 * n200) + np.cos(0.31 * n200), 30),
        ("ctone", np.exp(2j * np.pi * 0.1 * n64), 1), ("ctone", np.exp(2j * np.pi * 0.1 * n64), 8),
        ("ctone", np.exp(-2j * np.pi * 0.37 * n64) * (2 - 1j), 3),
        ("alt", (-1.0) ** np.arange(20), 6), ("alt", 5 * (-1.0) ** np.arange(21), 20), ("alt", (1j) ** np.arange(24), 5),
        ("n2", np.array([1.0, -2.0]), 1), ("n2", np.array([1.0, -2.0j]), 1), ("n2", np.array([0.0, 3.0]), 1),
        ("n2", np.array([2.5, 2.5]), 1), ("n2", np.array([1 + 1j, 0.5 - 2j]), 1),
        ("ramp", np.arange(200.0), 30), ("ramp", np.arange(1.0, 13.0), 11),
    ]
    for N in (8, 21):
        for pos in (0, N // 2, N - 1):
            for amp in (1.0, 2 - 1j):
                x = np.zeros(N, dtype=type(amp) if isinstance(amp, complex) else float)
                x[pos] = amp
                fixed.append(("impulse", x, N - 1))
    x = np.zeros(40)
    x[0], x[35] = 1.0, 2.0
    fixed.append(("sparse", x, 10))         # non-zero lags only beyond the order: a = 0
    x = np.zeros(40, dtype=complex)
    x[3], x[30] = 1j, -2.0
    fixed.append(("sparse", x, 12))
    x = np.zeros(31)
    x[::10] = [1.0, -1.0, 2.0, 0.5]
    fixed.append(("sparse", x, 9))          # lags 10, 20, 30 only
    fixed.append(("sparse", x, 30))
    for nm, x, order in fixed:
        yield from _both(x, order, "degen:" + nm, calls=("pos", "kw", "default"))
    # randomised members of the same classes
    reps = 6 if tier == "quick" else 40
    for i in range(reps):
        cls = i % 6
        cplx = bool((i // 6) % 2)
        N = int(nrng.integers(2, 9)) if i % 5 == 0 else int(nrng.integers(3, 201))
        n = np.arange(N)
        omax = min(N - 1, 30)
        order = (1, omax, int(nrng.integers(1, omax + 1)))[(i // 2) % 3]
        amp = float(nrng.integers(1, 64)) / 8 * (-1) ** int(nrng.integers(0, 2))
        ph = complex(np.exp(2j * np.pi * nrng.uniform())) if cplx else 1.0
        f = float(nrng.uniform(0.01, 0.49))
        if cls == 0:
            x, nm = np.full(N, amp * ph), "const"
        elif cls == 1:
            x, nm = (amp * np.exp(2j * np.pi * f * n) * ph, "ctone") if cplx else (amp * np.cos(2 * np.pi * f * n + nrng.uniform(0, 6)), "tone")
        elif cls == 2:
            x, nm = amp * ph * (-1.0) ** n, "alt"
        elif cls == 3:
            x = np.zeros(N, dtype=complex if cplx else float)
            x[int(nrng.integers(0, N))] = amp * ph
            nm = "impulse"
        elif cls == 4:
            x = np.zeros(N, dtype=complex if cplx else float)
            gap = order + 1 + int(nrng.integers(0, 3))
            x[::gap] = amp * ph * nrng.integers(1, 5, len(x[::gap]))
            nm = "sparse"
        else:
            x, nm = amp * ph * (n + 1.0), "ramp"
        if not np.any(x):
            continue
        yield from _both(x, order, "degen:" + nm, calls=("pos", "default") if i % 2 else ("kw",))


def gen_inputs(nrng, tier):
    """the same kind of samples handed over as integer arrays of every width and as Python lists"""
    reps = 60 if tier == "quick" else 240
    styles = ["int64", "int16", "int32", "int8", "uint8", "list-int", "list-float", "list-complex", "intdtype", "list"]
    for i in range(reps):
        st = styles[i % len(styles)]
        N = int(nrng.integers(3, 25)) if (i // len(styles)) % 2 == 0 else int(nrng.integers(25, 201))
        n = np.arange(N)
        omax = min(N - 1, 30)
        order = (omax, 1, int(nrng.integers(1, omax + 1)), int(nrng.integers(1, min(omax, 6) + 1)))[(i // 3) % 4]
        if st in ("intdtype", "list"):
            # the classes of common.gen_data (integers in -5..5; 'list': Python floats / complex)
            x, dk = gen_data(nrng, N, st == "list" and bool(i // 10 % 2), kind=st)
            x = as_input(np.asarray(x), st)
        else:
            shape = 0.6 * np.cos((0.2 + 0.1 * (i % 7)) * n + 0.3) + 0.15 * nrng.standard_normal(N)
            if i % 4 == 1:
                shape = shape + 0.3 * n / N
            amp = {"int64": 3e6, "int16": 8000.0, "int32": 1e5, "int8": 100.0, "uint8": 100.0}.get(st, 40.0)
            v = np.round(amp * shape)
            if st == "uint8":
                v = v + 128
            if st.startswith("list"):
                if st == "list-int":
                    x = [int(t) for t in v]
                elif st == "list-float":
                    x = [float(t) / 4 for t in v]
                else:
                    w = np.round(40 * nrng.standard_normal(N))
                    x = [complex(float(s), float(t)) for s, t in zip(v, w)]
            else:
                dt = np.dtype(st)
                x = np.clip(v, np.iinfo(dt).min, np.iinfo(dt).max).astype(dt)
            dk = "int"
        if not np.any(np.asarray(x)):
            continue
        yield from _both(x, order, dk, calls=("pos", "kw", "default")[i % 3:i % 3 + 1] if order == N - 1 and order <= 30 else ("pos", "kw")[i % 2:i % 2 + 1])


def gen(rng, nrng, tier):
    yield from single.gen("C12", nrng, tier)
    yield from gen_degenerate(nrng, tier)
    yield from gen_inputs(nrng, tier)
    # FFT-size coincidences: N + order - 1 (and N + order) an exact power of two
    for p2 in (32, 64, 128, 256):
        for order in ([1, 3, 8] if tier == "quick" else [1, 2, 3, 5, 8, 13, 21, 30]):
            for off in (1, 0):
                N = p2 + off - order
                if N < order + 2 or N > 260:
                    continue
                for cplx in (False, True):
                    x, dk = gen_data(nrng, N, cplx, kind="noise")
                    x = np.asarray(x)
                    yield ("yule", {"x": x if cplx else x.astype(float), "order": order, "exact": False, "dkind": dk})
    for N in ((256, 300) if tier == "quick" else (256, 257, 300, 513, 1000)):   # long records
        for cplx in (False, True):
            x, dk = gen_data(nrng, N, cplx, kind="tone")
            yield ("yule", {"x": np.asarray(x) if cplx else np.asarray(x).astype(float), "order": int(nrng.integers(1, 13)), "exact": False, "dkind": dk})
    n = 260 if tier == "quick" else 4000
    kinds = ["noise", "tone", "trend", "int", "czero", "const"]
    for i in range(n):
        exact = (i % 3 != 0)
        cplx = bool(nrng.integers(0, 2))
        if i % 5 == 0:
            N = int(nrng.integers(3, 34))       # small N, where order = N-1 and power-of-two FFT sizes occur
        else:
            N = int(nrng.integers(3, 41 if exact else 201))
        kind = kinds[i % len(kinds)]
        if kind == "const" and (i // len(kinds)) % 2:
            kind = "noise"                      # every other slot: an exactly constant record (gen_data 'const'), else noise
        x, dk = gen_data(nrng, N, cplx, kind=kind, exact=exact)
        x = np.asarray(x)
        if not np.iscomplexobj(x):
            x = x.astype(float)
        omax = min(N - 1, 12 if exact else 30)
        order = omax if i % 4 == 0 else int(nrng.integers(1, omax + 1))
        yield ("yule", {"x": x, "order": order, "exact": exact, "dkind": dk})
        if not np.iscomplexobj(x) and order <= N - 1 and N >= 3:
            yield ("lpc", {"x": x, "order": order, "dkind": dk, "call": ("pos", "kw")[(i // 7) % 2]})
            if order == N - 1 and order <= 30 and (i // 4) % 2 == 0:
                yield ("lpc", {"x": x, "order": order, "dkind": dk, "call": "default"})
    # (after everything else: the random streams of the cases above are what they were before these classes were added)
    yield from gen_extreme(nrng, tier)
    yield from gen_seq(nrng, tier)
    yield from gen_reuse(nrng, tier)


# ---- records with an extreme dynamic range inside the record (still non-zero data of the quantifier's classes) -------------

TINY_CLASSES = ["tiny:one", "tiny:few", "tiny:mix", "tiny:decay", "tiny:grow", "tiny:denormal", "huge:one", "scaled:1e-140", "scaled:1e+140"]


def _base_record(nrng, N, cplx, i):
    """noise / tone + noise / trend of unit scale"""
    n = np.arange(N)
    w = i % 3
    if w == 0:
        x = nrng.standard_normal(N) + (1j * nrng.standard_normal(N) if cplx else 0)
    elif w == 1:
        f = float(nrng.uniform(0.05, 0.45))
        x = (np.exp(2j * np.pi * f * n) if cplx else np.cos(2 * np.pi * f * n + float(nrng.uniform(0, 6)))) + 0.2 * (
            nrng.standard_normal(N) + (1j * nrng.standard_normal(N) if cplx else 0))
    else:
        x = 0.125 * n - 1.0 + nrng.standard_normal(N) + (1j * nrng.standard_normal(N) if cplx else 0)
    return np.asarray(x, dtype=complex if cplx else float)


def _tiny_mag(nrng):
    """a modulus between the smallest denormal and 1e-155 (its square, and its product with its neighbours' tiny values,
    underflows)"""
    return float(10.0 ** -float(nrng.uniform(155, 323.3)))


def extreme_record(nrng, N, cplx, cls, i=0):
    """(x, variant-or-None): a record of class cls; at least half of the samples (and at least two, at least one for N <= 3) keep
    unit scale, so that r_0 is an ordinary number.  'scaled:*' records carry a variant tag: the runner does not rescale them."""
    n = np.arange(N)
    x = _base_record(nrng, N, cplx, i)
    # PENDING-FINDING (float range, /tmp/finding_C12.py): a non-zero record ALL of whose samples are below ~1e-162 has lag
    # products that are all 0 in doubles; aryule / lpc then return NaN.  Not generated: at least one sample (two for N > 3)
    # always keeps unit scale (times the record's overall 'scaled:*' factor, |r_0| within [1e-285, 1e+285]).
    if not np.all(np.abs(x[:2]) > 1e-3):
        x[:2] = 1.0
    nmax = 1 if N <= 3 else max(1, min(N // 2, N - 2))
    ph = (lambda: complex(np.exp(2j * np.pi * nrng.uniform()))) if cplx else (lambda: float((-1) ** int(nrng.integers(0, 2))))
    if cls == "tiny:one":
        x[int(nrng.integers(0, N))] = (1e-200, 1e-180 - 1e-190j)[int(cplx)] if i % 2 == 0 else _tiny_mag(nrng) * ph()
    elif cls == "tiny:few":
        for j in nrng.choice(N, size=min(nmax, int(nrng.integers(2, 6))), replace=False):
            x[int(j)] = _tiny_mag(nrng) * ph()
    elif cls == "tiny:mix":
        idx = nrng.choice(np.arange(1, N), size=min(nmax, max(1, N // 2 - 1)), replace=False)
        x[idx] = x[idx] * 1e-170
    elif cls in ("tiny:decay", "tiny:grow"):
        # exponential trend running into (and possibly through) the denormals: exp(-c n), c (N-1) between 360 and 760
        cc = max(0.5, float(nrng.uniform(360.0, 760.0)) / max(N - 1, 1)) if i % 3 else 2.0
        amp = float(nrng.integers(1, 64)) / 8
        x = amp * np.exp((-cc + (1j * float(nrng.uniform(-3, 3)) if cplx else 0)) * n)
        if cls == "tiny:grow":
            x = x[::-1].copy()
    elif cls == "tiny:denormal":
        idx = nrng.choice(np.arange(0, N), size=nmax, replace=False)
        x[idx] = 5e-324 * nrng.integers(1, 9, len(idx)) * np.array([ph() for _ in idx])
    elif cls == "huge:one":
        x[int(nrng.integers(0, N))] = 1e130 * ph()
    elif cls == "scaled:1e-140":
        return x * 1e-140, "amp:1e-140"
    elif cls == "scaled:1e+140":
        return x * 1e140, "amp:1e+140"
    else:
        raise ValueError(cls)
    if cplx and i % 5 == 4:
        x = 1j * x if i % 2 else x.real.astype(complex)     # purely imaginary / zero imaginary part
    return np.asarray(x, dtype=complex if cplx else float), None


def gen_extreme(nrng, tier):
    """the tiny / huge classes as ordinary cases (no earlier call)"""
    reps = 3 if tier == "quick" else 8
    i = 0
    for r in range(reps):
        for cls in TINY_CLASSES:
            for cplx in (False, True):
                i += 1
                N = (3, 4, 200)[r] if r < 3 and cplx == bool(r % 2) else int(nrng.integers(3, 201) if i % 3 else nrng.integers(3, 24))
                omax = min(N - 1, 30)
                order = (omax, 1, int(nrng.integers(1, omax + 1)))[i % 3]
                x, variant = extreme_record(nrng, N, cplx, cls, i)
                for kind, q in _both(x, order, cls, calls=("pos", "kw")[i % 2:i % 2 + 1]):
                    if variant:
                        q["variant"] = variant
                    yield (kind, q)


# ---- earlier calls -------------------------------------------------------------------------------------------------------------

def pre_catalogue(nrng):
    """descriptors {fn, args, kw, note} of calls that are outside the property (or fail), plus valid calls on other records"""
    z16 = np.zeros(16)
    zc = np.zeros(12, dtype=complex)
    v = np.round(nrng.standard_normal(24) * 8) / 8
    v[0] = 1.0
    vc = v[:16] + 1j * np.round(nrng.standard_normal(16) * 8) / 8
    vn = v.copy()
    vn[5] = np.nan
    vi = v.copy()
    vi[7] = np.inf
    vcn = vc.copy()
    vcn[3] = complex(np.nan, 1.0)
    D = lambda fn, note, *args, **kw: {"fn": fn, "note": note, "args": list(args), "kw": kw}   # noqa: E731
    return [
        # all-zero records (outside the property: 'non-zero data')
        D("aryule", "all-zero", z16, 3), D("aryule", "all-zero-complex", zc, 2), D("aryule", "all-zero-int", np.zeros(9, dtype=int), 4),
        D("aryule", "all-zero-list", [0.0] * 8, 2), D("aryule", "all-zero-unbiased", z16, 3, norm="unbiased"),
        D("aryule", "all-zero-no-singularity", z16, 3, allow_singularity=False),
        D("pyule", "all-zero", z16, 3), D("pyule.psd", "all-zero", zc, 2, NFFT=32), D("lpc", "all-zero", z16, 3),
        D("ma", "all-zero", np.zeros(20), 2, 6), D("CORRELATION", "all-zero-coeff", z16, maxlags=3, norm="coeff"),
        # exactly singular autocorrelation
        D("LEVINSON", "singular-allowed", [1.0, 1.0, 1.0], allow_singularity=True),
        D("LEVINSON", "singular-allowed-array", np.array([2.0, -2.0, 2.0, -2.0]), allow_singularity=True),
        D("LEVINSON", "singular-allowed-complex", np.array([1.0, 1j, -1.0]), allow_singularity=True),
        D("LEVINSON", "singular-refused", [1.0, 1.0, 1.0]), D("LEVINSON", "indefinite-refused", [1.0, 2.0, 3.0]),
        D("LEVINSON", "indefinite-allowed", [1.0, 2.0, 3.0, 4.0], allow_singularity=True),
        D("LEVINSON", "zero-r", np.zeros(4), allow_singularity=True), D("LEVINSON", "zero-r0", [0.0, 1.0, 0.5], allow_singularity=True),
        D("LEVINSON", "order>len", [3.0, 1.0, 0.5], 5), D("LEVINSON", "nan-r", [1.0, float("nan"), 0.2], allow_singularity=True),
        D("aryule", "const-unbiased-singular", np.ones(8), 3, norm="unbiased"),
        D("aryule", "const-unbiased-refused", np.full(8, 2.0), 3, norm="unbiased", allow_singularity=False),
        D("pyule", "const-unbiased-singular", np.ones(10), 4, norm="unbiased"),
        # non-finite / overflowing samples
        D("aryule", "nan-sample", vn, 4), D("aryule", "inf-sample", vi, 4), D("aryule", "nan-sample-complex", vcn, 3),
        D("aryule", "overflow", v * 1e200, 3), D("pyule", "nan-sample", vn, 4, NFFT=64), D("pyule", "overflow", v * 1e200, 2),
        D("lpc", "nan-sample", vn, 4), D("lpc", "inf-sample", vi, 3), D("lpc", "overflow", v * 1e200, 3),
        D("ma", "nan-sample", vn, 2, 5), D("ma", "inf-sample", vi, 2, 5), D("ma", "overflow", v * 1e200, 2, 5),
        D("aryule", "underflow-to-zero", v * 1e-200, 3), D("lpc", "underflow-to-zero", v * 1e-200, 3),
        # order outside 1..N-1, wrong types, wrong shapes
        D("aryule", "order=N", v, 24), D("aryule", "order>N", v[:8], 11), D("pyule", "order=N", v[:8], 8), D("lpc", "order=N", v[:8], 8),
        D("lpc", "order>N", v[:8], 12), D("ma", "Q>=M", v, 5, 5), D("ma", "Q=0", v, 0, 5), D("ma", "M>=N", v[:8], 2, 9),
        D("aryule", "order=0", v, 0), D("aryule", "order<0", v, -2), D("aryule", "order-float", v, 2.5), D("aryule", "order-str", v, "3"),
        D("aryule", "order-none", v, None), D("lpc", "order=0", v, 0), D("lpc", "order-float", v, 2.5), D("lpc", "order<0", v, -1),
        D("pyule", "order=0", v, 0), D("pyule", "order-float", v, 2.5), D("pyule", "NFFT<N", v, 3, NFFT=4), D("pyule", "NFFT=0", v, 3, NFFT=0),
        D("aryule", "x-str", "abcdef", 2), D("aryule", "x-none", None, 2), D("aryule", "x-scalar", 3.0, 1), D("aryule", "x-empty", [], 1),
        D("aryule", "x-list-of-str", ["1", "2", "x", "4"], 2), D("aryule", "x-2d", v.reshape(4, 6), 2), D("aryule", "x-bool", v > 0, 3),
        D("aryule", "x-len1", [2.0], 0), D("aryule", "norm-bogus", v, 3, norm="coeff"), D("aryule", "norm-none", v, 3, norm=None),
        D("lpc", "x-list", [1.0, 2.0, 0.5, -1.0, 0.25], 2), D("lpc", "x-empty", np.zeros(0), 1), D("lpc", "x-complex", vc, 3),
        D("lpc", "x-2d", v.reshape(4, 6), 2), D("pyule", "x-none", None, 2), D("pyule", "x-str", "abcdef", 2),
        D("CORRELATION", "maxlags>=N", v[:6], maxlags=6), D("CORRELATION", "unequal-lengths", v, v[:5], maxlags=3),
        D("CORRELATION", "norm-bogus", v, maxlags=3, norm="xx"),
        # valid calls on an unrelated record (a history that is inside the property)
        D("aryule", "valid-other", v, 5), D("aryule", "valid-other-complex", vc, 4), D("pyule", "valid-other", v, 3, NFFT=32),
        D("lpc", "valid-other", v, 6), D("ma", "valid-other", v, 2, 6), D("aryule", "valid-other-unbiased", v, 2, norm="unbiased"),
        # ... and valid calls on the SAME record object with another order / normalisation (anything remembered per object)
        D("aryule", "same-record-order-1", "@x", 1), D("pyule", "same-record-order-1", "@x", 1, NFFT=16),
        D("lpc", "same-record-order-1", "@x", 1), D("ma", "same-record-1-2", "@x", 1, 2),
        D("aryule", "same-record-unbiased", "@x", 1, norm="unbiased"), D("CORRELATION", "same-record-coeff", "@x", maxlags=1, norm="coeff"),
    ]


def gen_seq(nrng, tier):
    cat = pre_catalogue(nrng)
    ordinary = ["noise", "tone", "trend", "int", "const"]
    rounds = 1          # (the thorough tier repeats the whole generator with fresh random streams)
    i = 0
    for r in range(rounds):
        # every catalogue entry on its own, then pairs / triples
        plans = [[d] for d in cat]
        for _ in range(len(cat) // 3):
            m = 2 + int(nrng.integers(0, 2))
            plans.append([cat[int(j)] for j in nrng.choice(len(cat), size=m, replace=False)])
        for pre in plans:
            i += 1
            cplx = bool((i + r) % 2)
            N = int(nrng.integers(3, 201)) if i % 4 else int(nrng.integers(3, 12))
            omax = min(N - 1, 30)
            order = (int(nrng.integers(1, omax + 1)), omax, int(nrng.integers(1, min(omax, 6) + 1)))[i % 3]
            variant = None
            if i % 4 == 3:
                x, dk = gen_data(nrng, N, cplx, kind=ordinary[(i // 4) % len(ordinary)])
                x = np.asarray(x, dtype=complex if cplx else float)
            else:
                dk = TINY_CLASSES[(i + i // 4 + r) % len(TINY_CLASSES)]
                x, variant = extreme_record(nrng, N, cplx, dk, i)
            q = {"pre": pre, "x": x, "order": order, "exact": False, "dkind": dk, "ref": ("before", "restored")[(i // 2) % 2]}
            if variant:
                q["variant"] = variant
            yield ("seq", q)


# ---- ONE pyule object re-used: histories of data / order / NFFT / sampling assignments interleaved with reads ----------------
# The observation points pyule.ar / pyule.reflection (and the PSD of the model) are stated for the data the estimator holds, with
# no reservation about what the object held before: after `p.data = z` (and `p.ar_order = k`, `p.NFFT = n`) and a computation
# (p() or reading p.psd - .ar / .reflection are filled by the computation), every observation must be that of a fresh
# pyule(z, k, NFFT=n) and of aryule(z, k), and must satisfy the clauses of the property for z.  Records that follow each other
# have exactly the SAME length but another kind (float64 / complex128 / complex with zero imaginary part / every integer width /
# float32 / complex64 / Python lists of int, float, complex - all ordered pairs), or another length.

REUSE_KINDS = ["f64", "int64", "c128", "list-int", "czero", "f32", "int16", "list-float", "uint8", "c64", "int32", "list-complex", "int8"]
_REUSE_FINAL = [k for k in REUSE_KINDS if k not in ("f32", "c64")]      # the single-precision kinds only occur as EARLIER records


def _coarse(kind):
    return ("single" if kind in ("f32", "c64") else "int" if "int" in kind else
            "complex" if kind in ("c128", "czero", "list-complex") else "real")


def reuse_record(nrng, N, kind, i):
    """a non-zero record of length N of the given kind (noise / tone + noise / trend; float kinds have fractional values at one
    of the amplitudes 0.3 / 1 / 40, integer kinds the amplitude of their width)"""
    cplx = kind in ("c128", "c64", "list-complex")
    b = _base_record(nrng, N, cplx, i)
    if "int" in kind:
        amp = {"int64": 3e6, "int32": 1e5, "int16": 8000.0, "int8": 50.0, "uint8": 50.0, "list-int": 9.0}[kind]
        v = np.round(amp * b.real / 2)
        if kind == "uint8":
            v = v + 128
        if not np.any(v):
            v[0] = 1
        if kind == "list-int":
            return [int(t) for t in v]
        dt = np.dtype(kind)
        return np.clip(v, np.iinfo(dt).min, np.iinfo(dt).max).astype(dt)
    b = b * (0.3, 1.0, 40.0)[int(nrng.integers(0, 3))]
    if kind == "f64":
        return b
    if kind == "c128":
        return b
    if kind == "czero":
        return b.astype(complex)
    if kind == "f32":
        return b.astype(np.float32)
    if kind == "c64":
        return b.astype(np.complex64)
    if kind == "list-float":
        return [float(t) for t in b]
    if kind == "list-complex":
        return [complex(t) for t in b]
    raise ValueError(kind)


def _reuse_steps(p):
    """the history with the case's own final record in place of "@x" """
    return [dict(s, x=p["x"]) if isinstance(s.get("x"), str) and s["x"] == "@x" else s for s in p["steps"]]


def _rec_desc(r):
    return "%s[%d]" % (_inkind(r), len(r))


def _read(q, how):
    """bring the estimate up to date (.ar / .reflection are filled by the computation) and return copies of the observations"""
    if how == "call":
        q()
    psd = np.array(q.psd)
    return np.array(q.ar), np.array(q.reflection), psd


def _same(u, v):
    u, v = np.asarray(u), np.asarray(v)
    return u.shape == v.shape and np.array_equal(u, v, equal_nan=True)


def _reuse_run(p, judge=None):
    """runs the history on one object; judge(obj, state, hist) is called after every step that reads.  Returns the object and
    the final state."""
    sp = _sp()
    st = {"x": p["x0"], "order": p["order0"], "nfft": p["nfft0"], "sampling": 1.0}
    obj = sp.pyule(p["x0"], p["order0"], NFFT=p["nfft0"], scale_by_freq=False)
    if st["nfft"] is None:
        st["nfft"] = len(p["x0"])
    hist = ["pyule(%s, %d, NFFT=%r)" % (_rec_desc(p["x0"]), p["order0"], p["nfft0"])]
    steps = [{"op": "init", "read": p.get("read0")}] + _reuse_steps(p)
    for s in steps:
        op = s["op"]
        if op == "data":
            obj.data = s["x"]
            st["x"] = s["x"]
            hist.append(".data = %s" % _rec_desc(s["x"]))
        elif op == "order":
            obj.ar_order = s["v"]
            st["order"] = s["v"]
            hist.append(".ar_order = %d" % s["v"])
        elif op == "nfft":
            obj.NFFT = s["v"]
            st["nfft"] = s["v"]
            hist.append(".NFFT = %d" % s["v"])
        elif op == "sampling":
            obj.sampling = s["v"]
            st["sampling"] = s["v"]
            hist.append(".sampling = %r" % s["v"])
        elif op == "bad-data":
            # a failing / out-of-domain computation inside the history (all-zero record of the current length): whatever it
            # does is ignored; the next step assigns an in-domain record
            try:
                obj.data = s["x"]
                obj()
                obj.psd
                oc = "returned"
            except Exception as e:      # noqa: BLE001
                oc = "raised " + type(e).__name__
            st["x"] = None
            hist.append(".data = all-zero %s; () %s" % (_rec_desc(s["x"]), oc))
        elif op == "bad-order":
            try:
                obj.ar_order = s["v"]
                obj()
                obj.psd
                oc = "returned"
            except Exception as e:      # noqa: BLE001
                oc = "raised " + type(e).__name__
            st["order"] = None
            hist.append(".ar_order = %d; () %s" % (s["v"], oc))
        elif op == "other":
            # another estimator object on another record, computed in between (nothing is shared between objects)
            o2 = sp.pyule(s["x"], s["order"], NFFT=s.get("nfft"))
            o2()
            o2.psd
            hist.append("[other object pyule(%s, %d)()]" % (_rec_desc(s["x"]), s["order"]))
        elif op != "init":
            raise ValueError("harness: unknown step %r" % op)
        if s.get("read") and judge is not None:
            if st["x"] is None or st["order"] is None:
                raise ValueError("harness: read in an out-of-domain state")
            hist.append({"call": "(); .psd", "psd": ".psd"}[s["read"]])
            judge(obj, st, s["read"], hist)
    return obj, st


def impl_reuse(p):
    """.ar / .reflection of the re-used object at the end of the history (compared with the Lean model of aryule on the final
    record and order; the model's noise variance has no counterpart on the object and is dropped in post_reuse)"""
    obj, st = _reuse_run(p)
    obj()
    return [c(obj.ar), c(obj.reflection)]


def post_reuse(p, iv, mv):
    if len(mv) == 3:
        mv = [mv[0], mv[2]]
    return iv, mv


def oracle_reuse(p):
    sp = _sp()
    out = []
    steps = _reuse_steps(p)
    recs = [p["x0"]] + [s["x"] for s in steps if s["op"] in ("data", "bad-data", "other")]
    snaps = [_snap(r) for r in recs]
    last = [s for s in steps if s["op"] == "data"]
    if not last or last[-1]["x"] is not p["x"]:
        return ["harness: the last data assignment of a 'reuse' case must be the case's record x"]

    def judge(obj, st, how, hist):
        xin, order, nfft, T = st["x"], st["order"], st["nfft"], st["sampling"]
        xv = _values(xin)
        N = len(xv)
        cplx = np.iscomplexobj(xv)
        h = " -> ".join(hist)
        what = "N=%d order=%d %s %s; ONE pyule object, history: %s" % (N, order, "complex" if cplx else "real", _inkind(xin), h[-700:])
        qa, qk, psd = _read(obj, how)
        held = np.asarray(obj.data)
        note = ""
        if held.shape != np.asarray(xin).shape or not np.array_equal(held, np.asarray(xin)):
            with np.errstate(all="ignore"):
                dd = float(np.max(np.abs(_values(held) - xv))) if held.shape == xv.shape else float("nan")
            note = " [the object holds a %s record of length %d that differs from the record assigned (%s) by max %.3g]" % (
                held.dtype, held.size, _inkind(xin), dd)
        # (1) the function interface on the record the object was given: the same deterministic computation -> bit-for-bit
        #     (worst difference on the unchanged tree, quick seeds 0..4 and thorough: exactly 0)
        a, P, k = sp.aryule(xin, order)
        if not (_same(qa, a) and _same(qk, k)):
            with np.errstate(all="ignore"):
                da = rel(c(qa), c(a)) if np.asarray(qa).shape == np.asarray(a).shape else float("inf")
                dk = rel(c(qk), c(k)) if np.asarray(qk).shape == np.asarray(k).shape else float("inf")
            out.append("re-used pyule: .ar / .reflection differ from aryule(record, order) by %.2e / %.2e%s (%s)" % (da, dk, note, what))
        # (2) a fresh object with the same record, order, NFFT and sampling, read the same way: bit-for-bit
        f = sp.pyule(xin, order, NFFT=nfft, sampling=T, scale_by_freq=False)
        fa, fk, fpsd = _read(f, how)
        if not (_same(qa, fa) and _same(qk, fk) and _same(psd, fpsd)):
            with np.errstate(all="ignore"):
                dp = rel(psd, fpsd) if psd.shape == fpsd.shape else float("inf")
            out.append("re-used pyule: .ar / .reflection / .psd differ from those of a fresh pyule(record, %d, NFFT=%d) "
                       "(psd: %.2e, shapes %r / %r)%s (%s)" % (order, nfft, dp, psd.shape, fpsd.shape, note, what))
        if np.asarray(xin).dtype in (np.float32, np.complex64):
            return          # single-precision records: history independence only (the clauses below carry double tolerances)
        # (3) the clauses of the property on the object's observations, against numpy references on the record assigned
        qa_, qk_ = c(qa), c(qk)
        if len(qa_) != order or len(qk_) != order:
            out.append("re-used pyule: %d coefficients for order %d%s (%s)" % (len(qa_), order, note, what))
            return
        if not (np.all(np.isfinite(qa_)) and np.all(np.isfinite(qk_))):
            out.append("re-used pyule: non-finite .ar / .reflection%s (%s)" % (note, what))
            return
        rho = float(np.max(np.abs(np.roots(np.concatenate(([1], qa_))))))
        if rho >= 1 or not np.all(np.abs(qk_) < 1):
            out.append("re-used pyule: .ar not stable / .reflection of modulus >= 1: max|root| %.8f%s (%s)" % (rho, note, what))
        ri = _acf(xv, order)
        r0 = float(ri[0].real)
        rr = np.concatenate((np.conj(ri[:0:-1]), ri))
        ne = np.array([rr[order + kk] + np.dot(qa_, rr[order + kk - 1 - np.arange(order)]) for kk in range(order + 1)])
        Pm = float(ne[0].real)          # the noise variance the model implies: r_0 + sum a_j r_{-j}
        # tolerances of clauses (b) and (g) of the 'yule' oracle (the same quantities of the same computation; worst observed
        # on the 2145 re-use cases of the unchanged tree, quick + thorough generators, 5 seeds: normal equations 5.4e-16 (limit
        # 1e-11), PSD exactly 0 (limit 1e-9), variance ratio / max(1, r_0/P) 1.5e-15 (limit 1e-7); statistics kept in _STATS)
        ne_err = float(np.max(np.abs(ne[1:]))) / (r0 * (1 + float(np.sum(np.abs(qa_))))) if order else 0.0
        if not ne_err <= 1e-11:
            out.append("re-used pyule: .ar does not match the biased sample autocorrelation of the record (Yule-Walker normal "
                       "equations, residual %.2e)%s (%s)" % (ne_err, note, what))
        if not (Pm > 0 and np.real(P) > 0 and abs(Pm / float(np.real(P)) - 1) <= 1e-7 * max(1.0, r0 / Pm)):
            out.append("re-used pyule: noise variance implied by .ar (%.6g) is not positive / not that of aryule (%.6g)%s (%s)" % (
                Pm, float(np.real(P)), note, what))
        ref = float(np.real(P)) / T / np.abs(np.fft.fft(np.concatenate(([1], qa_)), nfft)) ** 2
        exp_psd = ref if cplx else 2 * ref[:nfft // 2 + 1]
        if psd.shape != exp_psd.shape or not (np.all(psd > 0) and rel(psd, exp_psd) <= 1e-9):
            out.append("re-used pyule: PSD is not P/(fs |A(f)|^2) of the Yule-Walker model of the record: %.2e (NFFT %d, shape %r, expected %r)%s (%s)" % (
                rel(psd, exp_psd) if psd.shape == exp_psd.shape else float("inf"), nfft, psd.shape, exp_psd.shape, note, what))
        _STATS["ne"] = max(_STATS.get("ne", 0.0), ne_err)
        _STATS["psd"] = max(_STATS.get("psd", 0.0), rel(psd, exp_psd) if psd.shape == exp_psd.shape else 0.0)
        _STATS["P"] = max(_STATS.get("P", 0.0), abs(Pm / float(np.real(P)) - 1) / max(1.0, r0 / Pm) if Pm > 0 else 0.0)

    try:
        obj, st = _reuse_run(p, judge)
    except Exception as e:              # noqa: BLE001
        if isinstance(e, ValueError) and str(e).startswith("harness"):
            return [str(e)]
        out.append("re-used pyule: the history raised %s: %s (first record %s, %d steps)" % (
            type(e).__name__, str(e)[:120], _rec_desc(p["x0"]), len(steps)))
        return out
    if st["order"] != p["order"]:
        return ["harness: final order of the history %r != order %r" % (st["order"], p["order"])]
    for r, s in zip(recs, snaps):
        if not _unchanged(r, s):
            out.append("re-used pyule: a record handed to the object was modified (%s)" % _rec_desc(r))
    return out


_STATS = {}


def _reuse_kinds(p):
    return [_rkind(p["x0"])] + [_rkind(s["x"]) for s in _reuse_steps(p) if s["op"] == "data"]


def _rkind(r):
    k = _inkind(r)
    if k == "complex128" and not np.any(np.asarray(r).imag):
        return "czero"
    return k


def _ckind(r):
    k = _rkind(r)
    return ("single" if k in ("float32", "complex64") else "int" if "int" in k else
            "complex(im=0)" if k == "czero" else "complex" if "complex" in k else "real")


def _tags_reuse(p):
    steps = _reuse_steps(p)
    t = ["reuse", "reuse-steps:%d" % len(steps)] + sorted(set("reuse-op:" + s["op"] for s in steps)) + _tags_common(p)
    prev = p["x0"]
    tr = set()
    for s in steps:
        if s["op"] in ("data", "bad-data"):
            if s["op"] == "data":
                tr.add("reuse-trans:%s->%s:%s" % (_ckind(prev), _ckind(s["x"]), "same-length" if len(prev) == len(s["x"]) else "other-length"))
            prev = s["x"]
    return t + sorted(tr)


KINDS["reuse"] = {"impl": _guarded(impl_reuse), "model": model_yule, "post": post_reuse, "oracle": _guarded(oracle_reuse),
                  "rtol": 1e-7, "atol": 1e-300,
                  "key": lambda p: "reuse|%s|%d|%s" % (">".join(_reuse_kinds(p)), len(p["steps"]), _key(p)),
                  "nontrivial": lambda p: p["order"] >= 2, "tags": _tags_reuse}


def gen_reuse(nrng, tier):
    """histories on one object.  The ordered pairs (kind of the record held, kind of the next record of the SAME length) are
    enumerated, so that every pair occurs in the quick tier; lengths, orders, NFFT, reads and the other steps are random."""
    K, F = REUSE_KINDS, _REUSE_FINAL
    pairs = [(a, b) for b in F for a in K]                       # (earlier kind, final kind): 13 x 11
    nfs = (32, 33, 64, 65, 128, 255, 256)
    reps = len(pairs) if tier == "quick" else 2 * len(pairs)
    for i in range(reps):
        ka, kb = pairs[i % len(pairs)]
        N = int(nrng.integers(3, 13)) if i % 3 == 0 else int(nrng.integers(3, 201))
        nrec = 2 + int(nrng.integers(0, 3)) if i % 2 else 2         # records in the history (the last two: ka -> kb, same length)
        Ns = [N] * nrec
        kinds = [ka, kb] if nrec == 2 else [K[int(j)] for j in nrng.integers(0, len(K), nrec - 2)] + [ka, kb]
        for j in range(nrec - 2):
            if nrng.integers(0, 2):
                Ns[j] = int(nrng.integers(3, 201))                  # an earlier record of another length
        if i % 7 == 6:
            Ns[-1] = max(3, N + int(nrng.integers(-2, 3)))          # the final record has (possibly) another length as well
        omax = min(min(Ns) - 1, 30)
        rorder = lambda: (omax, 1, int(nrng.integers(1, omax + 1)), int(nrng.integers(1, min(omax, 6) + 1)))[int(nrng.integers(0, 4))]  # noqa: E731
        rread = lambda: (None, "psd", "call", "psd")[int(nrng.integers(0, 4))]    # noqa: E731
        recs = [reuse_record(nrng, Ns[j], kinds[j], i + j) for j in range(nrec)]
        order = rorder()
        p = {"x0": recs[0], "order0": order, "nfft0": (None, nfs[i % 7])[int(nrng.integers(0, 2))], "read0": ("psd", "call", None)[i % 3],
             "dkind": ("noise", "tone", "trend")[(i + nrec - 1) % 3]}
        steps = []
        for j in range(1, nrec):
            # optional steps before the next record
            w = int(nrng.integers(0, 8))
            if w == 0:
                order = rorder()
                steps.append({"op": "order", "v": order, "read": rread()})
            elif w == 1:
                steps.append({"op": "nfft", "v": int(nfs[int(nrng.integers(0, 7))]), "read": rread()})
            elif w == 2:
                steps.append({"op": "bad-data", "x": np.zeros(Ns[j], dtype=(float, complex, int)[int(nrng.integers(0, 3))]), "read": None})
            elif w == 3:
                steps.append({"op": "bad-order", "v": (Ns[j - 1] + 2, -1)[int(nrng.integers(0, 2))], "read": None})
                order = rorder()
                steps.append({"op": "order", "v": order, "read": None})
            elif w == 4:
                No = int(nrng.integers(4, 40))
                steps.append({"op": "other", "x": reuse_record(nrng, No, K[int(nrng.integers(0, len(K)))], i), "order": int(nrng.integers(1, min(No - 1, 6) + 1)),
                              "read": rread()})
            elif w == 5:
                steps.append({"op": "sampling", "v": (2.0, 0.5, 1.0, 1024.0)[int(nrng.integers(0, 4))], "read": rread()})
            last = j == nrec - 1
            steps.append({"op": "data", "x": "@x" if last else recs[j], "read": "call" if (last and i % 2) else ("psd" if last else rread())})
        # after the final record: possibly an order / NFFT change on the same record (always read)
        w = int(nrng.integers(0, 4))
        if w == 0:
            order = rorder()
            steps.append({"op": "order", "v": order, "read": ("psd", "call")[i % 2]})
        elif w == 1:
            steps.append({"op": "nfft", "v": int(nfs[int(nrng.integers(0, 7))]), "read": ("call", "psd")[i % 2]})
        p.update({"steps": steps, "x": recs[-1], "order": order, "exact": _dyadic(recs[-1], order)})
        yield ("reuse", p)
