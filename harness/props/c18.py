"""C18  Slepian tapers are orthonormal, ordered and maximally concentrated."""
import ctypes
import os
import subprocess
import tempfile

import numpy as np

import proto
from common import rel

TRUSTED_BASE = [
    "the C eigen-solver multitap (src/cpp/mydpss.c: tridiagonal bisection + inverse iteration) is a PARAMETER of the model: no theorem "
    "speaks about its accuracy; orthonormality, ordering, agreement with an independent eigen-solver, symmetry and concentration "
    "are evaluated by the oracle (scipy.linalg.eigh_tridiagonal / scipy.signal.windows.dpss / the sinc kernel)",
    "the check compiles src/cpp/mydpss.c from the working tree into a scratch directory with gcc and points spectrum.mtm.mtspeclib "
    "at it, so that a change to the C source is exercised (the extension next to mtm.py is untracked build output and may be stale); "
    "the kind dpss_shipped additionally evaluates the same oracle with spectrum.mtm.mtspeclib restored to the object that mtm.py's own "
    "loader imported (the shipped extension) and compares it with the recompiled result",
    "the Python glue (1/sqrt N scaling, sign convention, eigenvalue recomputation through the autocovariance / sinc sequence) is "
    "modelled and proved; the FFT-based autocovariance is modelled by the direct lag sums (float mode rtol 1e-9 on tapers, 1e-7 on ratios)",
]
PARTIAL = ["orthonormal / ordered / symmetric-antisymmetric: properties of the C routine's output, evaluated by the oracle only "
           "(level: proof for the glue, testing for the C numerics).  'eigenvectors of the sinc kernel' and 'ratio = energy fraction in "
           "(0, 1)' are theorems relative to one contract: the returned columns are eigenvectors of the tridiagonal matrix the C code "
           "builds (Model/DpssTri.lean; kind 'tri' checks that contract on every run with an independent tridiagonal eigen-solver); "
           "that those are the LEADING eigenvectors of the kernel (the order of the two spectra) is Slepian's deeper result: oracle only",
           "model comparison only for N <= 600 (the model's list-based lag sums are cubic in N); above, oracle only"]
ASSUMPTIONS = ["oracle tolerances: orthonormality 1e-6, ratio vs energy fraction 1e-6 (quadratic form of the sinc kernel, N <= 1024) and 1e-9 "
               "(direct O(N^2) lag sums, every N), ratio vs scipy's independently computed ratios 1e-8, agreement with scipy's dpss 1e-5 "
               "(1e-4 for N >= 2048), symmetry 1e-4 relative",
               "sign of an odd taper ('starts with a positive lobe'): the library flips on its FIRST sample; the oracle demands that the "
               "leading lobe is positive where it is far above the solver's noise (first sample above 1e-4 of the maximum), that the first "
               "sample is > 0, that the first sample above 1e-8 of the maximum is > 0 and that no sample before it is negative",
               "shipped extension vs recompiled source: 1e-9 absolute on tapers and ratios (0 observed); a larger difference means the "
               "installed binary does not correspond to src/cpp/mydpss.c",
               "argument forms (integer NW, numpy scalar N / NW / k, float32 NW with a dyadic value) must give the bit-identical result of "
               "the plain Python-number call",
               "histories (dpss_seq): a dpss call with arguments inside the quantifier must satisfy every clause whatever the caller did to "
               "the arrays EARLIER calls returned; a call whose (N, NW, resolved k) occurred before in the history must return bit for bit "
               "what the first such call returned before it was edited (0 difference over 600 repeated calls on the unchanged tree); "
               "the ratios that pmtm / MultiTapering hand back are dpss's ratios (equal, 0 observed) and their spectra / weights those of "
               "pmtm(x, e=, v=) with copies of the first call's arrays (1e-9 of the largest entry; 0 observed over 456 runs); arrays the caller "
               "never wrote to must not change. numpy.shares_memory between two results and a non-None .base are quoted in the message of "
               "such a violation but are not violations by themselves; read-only result arrays are not a violation (the edit is skipped)"]
RULE = ("tri: N in {8, 9, 13, 16, 31, 32, 33, 64, 100, 129, 256, 511, 1024} (thorough: + 512, 1025, 2048) x NW in {1, 1.5, 2.5, 3.3, 4, 7.5, "
        "one uniform in [1, 8)}, k default or 2NW-1: the columns dpss returns against the eigenvectors of the model's tridiagonal matrix; "
        "fixed grid, the same in every round: N in {8..39} dense and {47, 64, 65, 100, 128, 129, 200, 256, 257, 512, 1000} (thorough: + 1023, "
        "1024, 1025, 2047, 2048, 2049, 4095, 4096) x NW in {1, 1.5, .., 4, 4.5, 5, 5.5, 6, 6.5, 7, 7.5, 8}, quarter-integers (1.25, 1.75, "
        "2.25, 3.25) and other values (1.2, 2.3, 2.7, 3.3) with NW < N/2 x k in {None, 1, floor(2NW) - 1, floor(2NW)} + one k drawn uniformly "
        "in 1..floor(2NW) per case (quick: a seed-dependent third of the N > 24 cases); NW just below N/2 ((8, 3.99), (9, 4.4), (10, 4.9), "
        "(16, 7.99)); explicit k at N = 1000 and 2048; repeated calls with the same N and k and different NW; "
        "random part, fresh in every round: 12 (quick, N in 40..1200) / 40 (thorough, N in 40..4096, half log-uniform half uniform, "
        "parities alternating) random N x 3 NW (grid value or uniform in [1, 8) with two decimals) x k uniform in 1..floor(2NW) or None; "
        "the shipped-extension kind on 5 fixed + a share of the random points; argument-form cases (8 fixed + one per random N); "
        "the region N >= 1200, NW >= 6.75 is generated like any other since the library reads the sign of odd tapers from the first "
        "sample that carries a noticeable share of the energy (defect D28, fixed); (2049, 8, 6) etc. are fixed regression cases; "
        "histories (kind dpss_seq, oracle only, generated last): 10 fixed + 30 (quick) / 90 (thorough) random short sequences, N in 8..40 "
        "(7 of 15), 41..300 (6 of 15), 301..1200 (thorough: ..4096) (2 of 15), NW grid value or uniform in [1, 8), k default / the number the "
        "default resolves to / uniform in 1..floor(2NW): dpss(N, NW, k) (in a third of them twice), then the caller edits the returned "
        "tapers and/or ratios IN PLACE (1-3 of: tapers *= sqrt(N), odd columns *= -1, tapers[:] = 0, one NaN, one sample + 1e-3, first "
        "and last column swapped, ratios[:] = 2, ratios clipped to 0.5, ratios reversed, ratios moved by one ulp), optionally "
        "pmtm(x, NW=, k=) or MultiTapering(x, NW=, k=)() on a record of N samples (method adapt / eigen / unity; half of the time the "
        "ratios THEY return are edited in place as well) or a dpss call outside the domain that raises (NW = N/2, NW = None), then dpss "
        "with the same N, NW and the same resolved k (as given; default <-> explicit number; numpy-scalar / int-NW / float32-NW / keyword "
        "spelling), 2-3 neighbouring argument triples (k -+ 1, N -+ 1, NW -+ 0.2 with the same default k) and the first call once more")

_LIB = {}


def _load_lib():
    """compile /repo's mydpss.c into a scratch directory and load it (once per process); the object that mtm.py's own loader
    imported is kept in _LIB["orig"] (None if the loader found nothing)"""
    if "lib" in _LIB:
        return _LIB["lib"]
    import spectrum
    src = os.path.join(os.path.dirname(os.path.dirname(os.path.dirname(os.path.abspath(spectrum.__file__)))), "src", "cpp", "mydpss.c")
    if not os.path.exists(src):
        src = "/repo/src/cpp/mydpss.c"
    d = tempfile.mkdtemp(prefix="verif_dpss_")
    so = os.path.join(d, "mydpss_verif.so")
    p = subprocess.run(["gcc", "-O2", "-shared", "-fPIC", "-o", so, src, "-lm"], capture_output=True, text=True)
    if p.returncode != 0:
        raise RuntimeError("cannot compile mydpss.c: " + p.stderr[:300])
    lib = ctypes.CDLL(so)
    import spectrum.mtm as mtm
    _LIB["orig"] = getattr(mtm, "mtspeclib", None)
    mtm.mtspeclib = lib
    _LIB["lib"] = lib
    _LIB["dir"] = d
    import atexit
    import shutil
    atexit.register(lambda: shutil.rmtree(d, ignore_errors=True))
    return lib


def _dpss_shipped(N, NW, k):
    """dpss evaluated through the shared object that `import spectrum.mtm` loaded itself (the recompiled one is put back afterwards)"""
    lib = _load_lib()
    import spectrum.mtm as mtm
    orig = _LIB.get("orig")
    if orig is None:
        raise RuntimeError("spectrum.mtm defined no mtspeclib at import: its loader did not find the mydpss extension")
    mtm.mtspeclib = orig
    try:
        t, e = mtm.dpss(N, NW, k)
    finally:
        mtm.mtspeclib = lib
    return np.asarray(t), np.asarray(e)


def _raw(N, NW, k):
    """what the C routine returns for (N, k, NW): raw tapers (k x N) and their sums"""
    lib = _load_lib()
    lib.multitap.restype = None
    lam = np.zeros(k, dtype=float)
    tapers = np.zeros(k * N, dtype=float)
    tapsum = np.zeros(k, dtype=float)
    lib.multitap(ctypes.c_int(N), ctypes.c_int(k), lam.ctypes.data_as(ctypes.c_void_p), ctypes.c_float(NW),
                 tapers.ctypes.data_as(ctypes.c_void_p), tapsum.ctypes.data_as(ctypes.c_void_p))
    return tapers.reshape(k, N), tapsum


def _k(N, NW, k):
    if k is None:
        k = int(max(min(round(2 * NW), N), 1))
    return k


def impl_dpss(p):
    _load_lib()
    from spectrum.mtm import dpss
    t, e = dpss(p["N"], p["NW"], p["k"])
    t = np.asarray(t)
    return [t[:, i] for i in range(t.shape[1])] + [np.asarray(e)]


def model_dpss(p):
    N, NW = p["N"], p["NW"]
    if N > 600 or p.get("nomodel"):
        # the model's list-based lag sums are cubic in N: above 600 samples the case is oracle-only (and, in the quick tier, the
        # cases above 300 samples other than the original grid: gen marks them)
        return None
    k = _k(N, NW, p["k"])
    raw, ts = _raw(N, NW, k)
    return ("F", proto.request("dpssglue", "F", [N], [[NW], ts] + [raw[i] for i in range(k)]))


# ---- the matrix the C routine diagonalises (Model/DpssTri.lean) vs what dpss returns -------------------------------------------------

def impl_tri(p):
    _load_lib()
    from spectrum.mtm import dpss
    t, _ = dpss(p["N"], p["NW"], p["k"])
    t = np.asarray(t)
    return [t[:, i] for i in range(t.shape[1])]


def model_tri(p):
    # `multitap` declares npi as a C float: the routine's W is float32(NW) / N (Model/DpssTri.lean takes W as given)
    W = float(np.float32(p["NW"])) / p["N"]
    return ("F", proto.request("dpsstri", "F", [p["N"]], [[W]]))


def post_tri(p, iv, mv):
    """the model returns the arrays diag / offdiag of the tridiagonal matrix (theorem tridiag_commutes_with_kernel is about exactly
    these entries); an independent tridiagonal eigen-solver (a parameter) gives its eigenvectors for the k smallest eigenvalues,
    which are compared with the columns dpss returns, up to sign (the glue's sign convention is the object of other theorems)"""
    from scipy.linalg import eigh_tridiagonal
    d = np.real(mv[0])
    e = np.real(mv[1])[1:]
    k = len(iv)
    w, v = eigh_tridiagonal(d, e, select="i", select_range=(0, k - 1))
    cols = []
    for i in range(k):
        c = v[:, i]
        a = np.real(np.asarray(iv[i]))
        cols.append(c if np.dot(c, a) >= 0 else -c)
    return iv, cols


def _conc(v, W):
    N = len(v)
    n = np.arange(N)
    d = n[:, None] - n[None, :]
    with np.errstate(all="ignore"):
        K = np.where(d == 0, 2 * W, np.sin(2 * np.pi * W * d) / (np.pi * d))
    return float(v @ K @ v / (v @ v))


def _conc_lags(v, W):
    """the same energy fraction, int_{-W}^{W} |V(f)|^2 df / int_{-1/2}^{1/2} |V(f)|^2 df, through the direct (O(N^2), no FFT)
    lag sums a_l = sum_n v[n] v[n+l]:  (2W a_0 + 2 sum_{l>=1} a_l sin(2 pi W l) / (pi l)) / a_0"""
    N = len(v)
    a = np.correlate(v, v, "full")[N - 1:]
    l = np.arange(1, N)
    return float((2 * W * a[0] + 2 * np.sum(a[1:] * np.sin(2 * np.pi * W * l) / (np.pi * l))) / a[0])


def _check(t, e, N, NW, kk, tag):
    """the property statement on a returned (tapers, ratios) pair; NW is the number the caller passed, as a Python float"""
    import scipy.signal.windows as sw
    out = []
    if t.shape != (N, kk) or e.shape != (kk,):
        return ["%s returns shapes %s / %s, expected (%d, %d) / (%d,)" % (tag, t.shape, e.shape, N, kk, kk)]
    if not (np.all(np.isfinite(t)) and np.all(np.isfinite(e))):
        return ["%s returns non-finite values" % tag]
    G = t.T @ t
    if np.max(np.abs(G - np.eye(kk))) > 1e-6:
        out.append("%s: columns are not orthonormal (max deviation %.2e)" % (tag, np.max(np.abs(G - np.eye(kk)))))
    if not (np.all(e > 0) and np.all(e <= 1 + 1e-9)):
        out.append("%s: concentration ratios not in (0, 1]: %s" % (tag, e[:4]))
    if np.any(np.diff(e) > 1e-9):
        out.append("%s: concentration ratios are not non-increasing" % tag)
    if N <= 1024:
        cr = np.array([_conc(t[:, i], NW / N) for i in range(kk)])
        if np.max(np.abs(cr - e)) > 1e-6:
            out.append("%s: reported ratio differs from the energy fraction inside |f| <= NW/N: %s vs %s" % (
                tag, np.round(e[:3], 8), np.round(cr[:3], 8)))
    cl = np.array([_conc_lags(t[:, i], NW / N) for i in range(kk)])
    if not np.max(np.abs(cl - e)) <= 1e-9:
        out.append("%s: reported ratio differs from the energy fraction inside |f| <= NW/N (direct lag sums) by %.2e" % (
            tag, np.max(np.abs(cl - e))))
    ref, rat = sw.dpss(N, NW, kk, sym=True, norm=2, return_ratios=True)
    ref, rat = np.atleast_2d(ref), np.atleast_1d(rat)
    if not np.max(np.abs(rat - e)) <= 1e-8:
        out.append("%s: reported ratios differ from the independently computed concentration ratios by %.2e (%s vs %s)" % (
            tag, np.max(np.abs(rat - e)), np.round(e[:3], 9), np.round(rat[:3], 9)))
    tol = 1e-5 if N < 2048 else 1e-4
    for i in range(kk):
        dd = min(np.max(np.abs(ref[i] - t[:, i])), np.max(np.abs(ref[i] + t[:, i])))
        if dd > tol:
            out.append("%s: taper %d differs from the independent eigen-solver by %.2e" % (tag, i, dd))
            break
    for i in range(kk):
        v = t[:, i]
        mx = np.max(np.abs(v))
        if i % 2 == 0:
            if np.max(np.abs(v - v[::-1])) > 1e-4 * mx or v.sum() <= 0:
                out.append("%s: even taper %d is not symmetric with positive sum" % (tag, i))
                break
        else:
            if np.max(np.abs(v + v[::-1])) > 1e-4 * mx:
                out.append("%s: odd taper %d is not antisymmetric" % (tag, i))
                break
            # the leading lobe itself, read where the taper is far above the eigen-solver's noise (1e-4 of the maximum: the first
            # lobe of every taper of order < 2NW rises above that before its first zero crossing)
            jl = np.nonzero(np.abs(v) > 1e-4 * mx)[0][0]
            if v[jl] < 0:
                out.append("%s: odd taper %d starts with a NEGATIVE lobe (sample %d = %.3e, lobe extremum %.3e; the first sample, on "
                           "which the sign is decided, is %.2e of the maximum)" % (
                               tag, i, jl, v[jl], v[:N // 2][np.argmax(np.abs(v[:N // 2]))], v[0] / mx))
            # samples before that point are at the level of the eigen-solver's round-off for long, wide tapers (1e-9 .. 1e-8 of the
            # maximum): their sign is noise, not part of the statement; only a noticeably negative excursion before the leading lobe
            # would contradict "starts with a positive lobe"
            if np.min(v[:jl + 1]) < -1e-6 * mx:
                out.append("%s: odd taper %d has a negative excursion (%.3e of the maximum) before its leading lobe" % (
                    tag, i, np.min(v[:jl + 1]) / mx))
                break
    return out


def oracle_dpss(p):
    _load_lib()
    from spectrum.mtm import dpss
    N, NW, k = p["N"], p["NW"], p["k"]
    t, e = dpss(N, NW, k)
    t, e = np.asarray(t), np.asarray(e)
    return _check(t, e, N, NW, _k(N, NW, k), "dpss(N=%d, NW=%g, k=%s)" % (N, NW, k))


def oracle_shipped(p):
    """the same statement observed through the extension that spectrum.mtm loads by itself, and its agreement with the recompiled source"""
    _load_lib()
    from spectrum.mtm import dpss
    N, NW, k = p["N"], p["NW"], p["k"]
    tag = "dpss(N=%d, NW=%g, k=%s) through the shipped extension %s" % (N, NW, k, os.path.basename(str(getattr(_LIB.get("orig"), "_name", "?"))))
    t, e = _dpss_shipped(N, NW, k)
    out = _check(t, e, N, NW, _k(N, NW, k), tag)
    t2, e2 = dpss(N, NW, k)
    t2, e2 = np.asarray(t2), np.asarray(e2)
    if t2.shape != t.shape or e2.shape != e.shape:
        out.append("%s: shapes %s / %s differ from those of the recompiled source %s / %s" % (tag, t.shape, e.shape, t2.shape, e2.shape))
    elif not (np.max(np.abs(t - t2)) <= 1e-9 and np.max(np.abs(e - e2)) <= 1e-9):
        out.append("%s: result differs from the one of the freshly compiled src/cpp/mydpss.c by %.2e (tapers) / %.2e (ratios)" % (
            tag, np.max(np.abs(t - t2)), np.max(np.abs(e - e2))))
    return out


# argument forms: how (N, NW, k) are spelled; "plain" is what every other kind passes (int, float, int / None)
FORMS = {
    "intNW": lambda N, NW, k: (N, int(NW), k),                                   # NW an integer-valued Python int
    "npscalars": lambda N, NW, k: (np.int64(N), np.float64(NW), None if k is None else np.int32(k)),
    "npints": lambda N, NW, k: (np.int32(N), NW, None if k is None else np.int64(k)),
    "f32NW": lambda N, NW, k: (N, np.float32(NW), k),                            # NW dyadic: float32(NW) == NW
    "kwargs": lambda N, NW, k: (N, NW, k),
}


def oracle_forms(p):
    _load_lib()
    from spectrum.mtm import dpss
    N, NW, k, form = p["N"], p["NW"], p["k"], p["form"]
    a = FORMS[form](N, NW, k)
    tag = "dpss(%s) [%s]" % (", ".join("%s(%s)" % (type(x).__name__, x) for x in a), form)
    if form == "kwargs":
        t, e = dpss(N=a[0], NW=a[1], k=a[2]) if k is not None else dpss(a[0], NW=a[1])
    else:
        t, e = dpss(*a) if k is not None else dpss(a[0], a[1])
    t, e = np.asarray(t), np.asarray(e)
    kk = _k(N, NW, k)
    out = _check(t, e, N, float(NW), kk, tag)
    if t.dtype != np.float64 or e.dtype != np.float64:
        out.append("%s: result dtypes %s / %s, expected float64" % (tag, t.dtype, e.dtype))
    t2, e2 = dpss(N, float(NW), k)
    t2, e2 = np.asarray(t2), np.asarray(e2)
    if t.shape != t2.shape or not (np.array_equal(t, t2) and np.array_equal(e, e2)):
        out.append("%s: result is not the one of dpss(%d, %r, %s) (shapes %s vs %s)" % (tag, N, float(NW), k, t.shape, t2.shape))
    return out


# ---- histories: dpss, the caller edits ITS arrays in place, dpss again -----------------------------------------------------------------
# A case is a short list of steps (`ops`), interpreted in order; every dpss call of it has arguments inside the quantifier.
#   ["call", N, NW, k, form]   tapers, ratios = dpss(..) spelled as FORMS[form] ("plain": Python numbers); the result gets the next index
#   ["mod", i, name]           the caller modifies the arrays result i holds IN PLACE (MODS[name])
#   ["pmtm", N, NW, k, method, name|None]   pmtm(x, NW=NW, k=k, method=method) on a record of N samples (it calls dpss itself); its third
#                              return value (the ratios dpss gave it) is then modified in place by MODS[name] (eigenvalue mods only)
#   ["mt", N, NW, k, method, name|None]     the same through MultiTapering(x, NW=, k=, method=)() and its attribute .eigenvalues
#   ["fail", N, what]          a dpss call OUTSIDE the domain that raises before any computation (NW = N/2: AssertionError; NW = None:
#                              TypeError); nothing is demanded of it, it is part of the history only
# Demanded: every call's result satisfies all clauses (_check) -- a call whose (N, NW, resolved k) was already seen in the case must
# return exactly (bit for bit: 0 difference observed on the unchanged tree over 600 repeated calls, N = 8..1000, as in dpss_forms) what
# the FIRST such call returned before anybody modified it; the ratios pmtm / MultiTapering hand back are those ratios and their
# spectra are those of pmtm(x, e=, v=) with the first call's (copied) arrays (1e-9 of the largest |Sk|; 0 observed); and at the end
# every result that the caller did NOT modify still holds what it held when it was returned.
MODS = {
    "scale": lambda t, e: np.multiply(t, np.sqrt(t.shape[0]), out=t),       # Thomson's unit-rms scaling: tapers *= sqrt(N)
    "flipodd": lambda t, e: np.multiply(t[:, 1::2], -1, out=t[:, 1::2]),     # the other sign convention for the antisymmetric tapers
    "zero": lambda t, e: t.fill(0.0),
    "nan": lambda t, e: t.__setitem__((0, 0), np.nan),
    "bump": lambda t, e: t.__setitem__((t.shape[0] // 2, 0), t[t.shape[0] // 2, 0] + 1e-3),   # one sample of one taper
    "swapcols": lambda t, e: t.__setitem__((slice(None), [0, -1]), t[:, [-1, 0]]),
    "eig2": lambda t, e: e.fill(2.0),
    "clip": lambda t, e: np.minimum(e, 0.5, out=e),
    "rev": lambda t, e: e.__setitem__(slice(None), e[::-1].copy()),
    "ulp": lambda t, e: e.__setitem__(slice(None), np.nextafter(e, 0.0)),     # one unit in the last place: seen by the exact comparison only
    "both": lambda t, e: (np.multiply(t, np.sqrt(t.shape[0]), out=t), np.minimum(e, 0.5, out=e)),
}
EIGMODS = ("eig2", "clip", "rev", "ulp")


def _seq_x(N):
    n = np.arange(N)
    return np.cos(0.2 * np.pi * n) + 0.25 * np.sin(0.37 * n * n / N + 0.3) + 0.1 * np.cos(1.9 * n)


def _call_form(dpss, N, NW, k, form):
    if form == "plain":
        return dpss(N, NW, k)
    a = FORMS[form](N, NW, k)
    if form == "kwargs":
        return dpss(N=a[0], NW=a[1], k=a[2]) if k is not None else dpss(a[0], NW=a[1])
    return dpss(*a) if k is not None else dpss(a[0], a[1])


def _trip(t, e, results):
    """generic tripwires, quoted in the message of a violation (not violations by themselves)"""
    s = []
    for j, r in enumerate(results):
        if np.shares_memory(t, r["t"]) or np.shares_memory(e, r["e"]):
            s.append("shares memory with result %d" % j)
    if t.base is not None or e.base is not None:
        s.append(".base of the result is not None")
    return (" [" + "; ".join(s) + "]") if s else ""


def oracle_seq(p):
    _load_lib()
    from spectrum.mtm import dpss, pmtm, MultiTapering
    out = []
    results = []        # per call: the arrays handed out, copies taken at return, the key, whether the caller modified them
    ref = {}            # (N, NW, resolved k) -> copies of what the first call with these arguments returned
    hist = []
    nmis = 0

    def H():
        return "after " + ("; ".join(hist) if hist else "nothing")

    for op in p["ops"]:
        what = op[0]
        if what == "call":
            N, NW, k, form = int(op[1]), float(op[2]), op[3], op[4]
            kk = _k(N, NW, k)
            tag = "call %d, dpss(%d, %g, %s)%s" % (len(results), N, NW, k, "" if form == "plain" else " [" + form + "]")
            t, e = _call_form(dpss, N, NW, k, form)
            t, e = np.asarray(t), np.asarray(e)
            trip = _trip(t, e, results)
            key = (N, NW, kk)
            if key in ref:
                ct, ce = ref[key]
                if t.shape != ct.shape or e.shape != ce.shape or not (np.array_equal(t, ct) and np.array_equal(e, ce)):
                    nmis += 1
                    if nmis == 1:
                        why = _check(t, e, N, NW, kk, tag)
                        with np.errstate(all="ignore"):
                            dt = np.max(np.abs(t - ct)) if t.shape == ct.shape else np.inf
                            de = np.max(np.abs(e - ce)) if e.shape == ce.shape else np.inf
                        out.append("%s, %s: the result is not what the first call with these arguments returned (tapers differ by %.3g, "
                                   "ratios by %.3g)%s%s" % (
                                       tag, H(), dt, de, trip,
                                       ("; " + why[0] + (" (+%d more)" % (len(why) - 1) if len(why) > 1 else "")) if why else
                                       "; the clauses still hold within their tolerances"))
            else:
                why = _check(t, e, N, NW, kk, tag)
                out.extend("%s [%s]%s" % (w, H(), trip) for w in why)
                ref[key] = (t.copy(), e.copy())
            results.append({"t": t, "e": e, "ct": t.copy(), "ce": e.copy(), "key": key, "mod": False, "tag": tag})
            hist.append("dpss(%d, %g, %s)" % (N, NW, k))
        elif what == "mod":
            r = results[int(op[1])]
            try:
                MODS[op[2]](r["t"], r["e"])
                r["mod"] = True
                hist.append("%s in place on result %d" % (op[2], int(op[1])))
            except ValueError:
                # read-only result arrays: the caller cannot edit them in place (nothing in the statement says they are writable)
                hist.append("(result %d is read-only: %s not applied)" % (int(op[1]), op[2]))
        elif what in ("pmtm", "mt"):
            N, NW, k, method, name = int(op[1]), float(op[2]), op[3], op[4], op[5]
            kk = _k(N, NW, k)
            x = _seq_x(N)
            tag = "%s(x[%d], NW=%g, k=%s, method=%s)" % ("pmtm" if what == "pmtm" else "MultiTapering", N, NW, k, method)
            if what == "pmtm":
                S, w, ev = pmtm(x, NW=NW, k=k, method=method)
            else:
                mt = MultiTapering(x, NW=NW, k=k, method=method)
                mt()
                S, w, ev = None, mt.weights, mt.eigenvalues
            nfft = None if what == "pmtm" else mt.NFFT      # MultiTapering passes its own NFFT on to pmtm
            key = (N, NW, kk)
            if key in ref:
                ct, ce = ref[key]
                ev_ = np.asarray(ev)
                if ev_.shape != ce.shape or not np.array_equal(ev_, ce):
                    out.append("%s, %s: the ratios it got from dpss are not the ones dpss returned first for these arguments (%s vs %s)" % (
                        tag, H(), np.round(ev_[:3], 9), np.round(ce[:3], 9)))
                S2, w2, _ = pmtm(x, e=ce.copy(), v=ct.copy(), NFFT=nfft, method=method)
                if S is not None and not (S.shape == S2.shape and np.max(np.abs(S - S2)) <= 1e-9 * np.max(np.abs(S2))):
                    out.append("%s, %s: the tapered spectra are not those of pmtm(x, e=, v=) with the arrays dpss returned first for these "
                               "arguments (largest difference %.3g of the largest |Sk|)" % (
                                   tag, H(), (np.max(np.abs(S - S2)) / np.max(np.abs(S2))) if S.shape == S2.shape else np.inf))
                w_ = np.asarray(w)
                if not (w_.shape == np.shape(w2) and np.max(np.abs(w_ - w2)) <= 1e-9 * np.max(np.abs(w2))):
                    out.append("%s, %s: the weights are not those of pmtm(x, e=, v=) with the arrays dpss returned first for these "
                               "arguments" % (tag, H()))
            hist.append(tag)
            if name is not None:
                try:
                    MODS[name](None, ev)
                    hist.append("%s in place on the ratios it returned" % name)
                except ValueError:
                    pass
        elif what == "fail":
            N = int(op[1])
            # requests outside the domain (rejected, or answered with garbage, by the unchanged code): whatever they do is ignored,
            # but they must leave the routine usable for the valid calls that follow (a caller's try/except)
            bad = {"NWhalf": (N, N / 2.0), "NWnone": (N, None), "kbig": (N, 2, N + 1), "khuge": (N, 2, 4 * N), "kzero": (N, 2, 0),
                   "kneg": (N, 2, -1), "kfloat": (N, 2, 2.5), "NWneg": (N, -1, 2)}[op[2]]
            try:
                with np.errstate(all="ignore"):
                    dpss(*bad)
            except Exception:
                pass
            hist.append("dpss%r (out of domain)" % (bad,))
        else:
            raise ValueError("unknown step %r" % (op,))
    if nmis > 1:
        out[[i for i, w in enumerate(out) if "is not what the first call" in w][0]] += " (and %d later calls of this history likewise)" % (nmis - 1)
    for j, r in enumerate(results):
        if not r["mod"] and not (np.array_equal(r["t"], r["ct"]) and np.array_equal(r["e"], r["ce"])):
            with np.errstate(all="ignore"):
                out.append("%s: the arrays this call returned changed although the caller never wrote to them (tapers by %.3g, ratios by "
                           "%.3g), %s%s" % (r["tag"], np.max(np.abs(r["t"] - r["ct"])), np.max(np.abs(r["e"] - r["ce"])), H(),
                                            _trip(r["t"], r["e"], results[:j] + results[j + 1:])))
    return out


def _seq_ops(rng, N, NW, k, mods, between=None, twice_first=False, neighbours=True, form2=None):
    """the template of a history: call, (call), modifications, (pmtm / MultiTapering / failing call), the same call again, the same
    call spelled differently, neighbouring arguments, the same call once more"""
    kk = _k(N, NW, k)
    kmax = int(np.floor(2 * NW))
    ops = [["call", N, NW, k, "plain"]]
    if twice_first:
        ops.append(["call", N, NW, k, "plain"])
    for j, m in enumerate(mods):
        ops.append(["mod", (j % 2) if twice_first else 0, m])
    method = ("adapt" if kk >= 2 else "eigen", "eigen", "unity")[rng.randrange(3)]
    if between in ("pmtm", "mt"):
        ops.append([between, N, NW, k, method, EIGMODS[rng.randrange(len(EIGMODS))] if rng.randrange(2) else None])
    elif between == "fail":
        ops.append(["fail", N, ("NWhalf", "NWnone", "kbig", "khuge", "kzero", "kneg", "kfloat", "NWneg")[rng.randrange(8)]])
    ops.append(["call", N, NW, k, "plain"])
    # the same (N, NW, resolved k) spelled differently: default k <-> the number it resolves to, other argument types
    kdef = int(max(min(round(2 * NW), N), 1))
    if k is None:
        ops.append(["call", N, NW, kdef, "plain"])
    elif k == kdef:
        ops.append(["call", N, NW, None, "plain"])
    if form2 is not None and not (form2 == "intNW" and NW != int(NW)) and not (form2 == "f32NW" and float(np.float32(NW)) != NW):
        ops.append(["call", N, NW, k, form2])
    if neighbours:
        nb = []
        if kk > 1:
            nb.append((N, NW, kk - 1))
        if kk + 1 <= kmax:
            nb.append((N, NW, kk + 1))
        if N + 1 <= 4096:
            nb.append((N + 1, NW, k))
        if N - 1 >= 8 and NW < (N - 1) / 2.0:
            nb.append((N - 1, NW, k))
        for NW2 in (round(NW + 0.2, 2), round(NW - 0.2, 2)):
            if 1.0 <= NW2 <= 8.0 and round(2 * NW2) == round(2 * NW) and NW2 < N / 2.0 and (k is None or k <= int(np.floor(2 * NW2))):
                nb.append((N, NW2, k))             # another NW with the same default k
                break
        rng.shuffle(nb)
        for a in nb[:2 if N > 300 else 3]:
            ops.append(["call", a[0], a[1], a[2], "plain"])
        ops.append(["call", N, NW, k, "plain"])
    return ops


def _seq_tags(p):
    t = ["seq"] + _tags(p)
    names = set()
    for op in p["ops"]:
        if op[0] == "mod":
            names.add("seq-mod:" + op[2])
        elif op[0] in ("pmtm", "mt"):
            names.add("seq-through:" + op[0])
            if op[5] is not None:
                names.add("seq-mod:" + op[0] + "-ratios-" + op[5])
        elif op[0] == "fail":
            names.add("seq-through:failing-call")
        elif op[0] == "call" and op[4] != "plain":
            names.add("seq-respelled:" + op[4])
    return t + sorted(names)


def _key(p):
    return "%d|%g|%s" % (p["N"], p["NW"], p["k"]) + ("|" + p["form"] if "form" in p else "")


def _tags(p):
    NW = p["NW"]
    return ["N:" + ("odd" if p["N"] % 2 else "even"),
            "NW:" + ("half-int" if (2 * NW) % 1 == 0 else "quarter" if (4 * NW) % 1 == 0 else "other"),
            "k:" + ("default" if p["k"] is None else "given"),
            "Nrange:" + ("<=600" if p["N"] <= 600 else "601-1024" if p["N"] <= 1024 else ">1024")]


KINDS = {
    "dpss": {"impl": impl_dpss, "model": model_dpss, "oracle": oracle_dpss, "rtol": 1e-7, "atol": 1e-10, "key": _key, "tags": _tags},
    # dpss columns = eigenvectors (k smallest eigenvalues) of the model's tridiagonal matrix; tolerance: the C solver's inverse
    # iteration agrees with LAPACK to ~1e-11 on the unchanged tree for N <= 1200 (4e-12 .. 3e-10 measured), 1e-6 leaves > 1000x margin
    "tri": {"impl": impl_tri, "model": model_tri, "post": post_tri, "rtol": 1e-6, "atol": 0, "key": lambda p: "tri|" + _key(p),
            "tags": lambda p: ["tri"] + _tags(p)},
    "dpss_shipped": {"oracle": oracle_shipped, "key": _key, "tags": _tags},
    "dpss_forms": {"oracle": oracle_forms, "key": _key, "tags": lambda p: _tags(p) + ["form:" + p["form"]]},
    # histories (oracle only): the caller edits the arrays it was given, then calls again; see oracle_seq
    "dpss_seq": {"oracle": oracle_seq, "key": lambda p: "seq|" + _key(p) + "|" + ",".join(":".join(str(x) for x in op) for op in p["ops"]),
                 "tags": _seq_tags},
}

NWS_OLD = [1, 1.5, 2, 2.5, 3, 3.5, 4, 5, 6, 8, 1.2, 2.3, 2.7, 3.3]
NWS_NEW = [4.5, 5.5, 6.5, 7, 7.5, 1.25, 1.75, 2.25, 3.25]
NWS = NWS_OLD + NWS_NEW


def _pending_sign(N, NW):
    """PENDING-FINDING region: for long windows and wide bands the first sample of taper 1 (~1e-9 .. 1e-10 of its maximum) is below the
    numerical error of the C eigen-solver (~1e-9 .. 1e-8 of the maximum), so that `if tapers[0, i] < 0` in dpss() reads noise and the
    taper comes out with a negative leading lobe for some k (measured: first-sample error / true first sample > 1/3 for N >= 1500 and
    NW >= 7; failures seen from (N, NW) = (2049, 8), (2845, 7.5), (4063, 7.31) on).  The cases of the region that the check ran before
    this finding ((2048 | 4096, 8.0, None): they hold) stay enabled."""
    # fixed in the library (the sign is now read from the first sample that carries a noticeable share of the energy): the region
    # is generated like any other
    return False


def gen(rng, nrng, tier):
    quick = tier == "quick"
    # ---- the tridiagonal matrix of the C routine (model) against the returned columns
    for N in [8, 9, 13, 16, 31, 32, 33, 64, 100, 129, 256] + ([511, 1024] if quick else [511, 512, 1024, 1025, 2048]):
        for NW in (1, 1.5, 2.5, 3.3, 4, 7.5, float(nrng.uniform(1, 8))):
            if NW >= N / 2.0:
                continue
            yield ("tri", {"N": N, "NW": float(NW), "k": None if (N + int(2 * NW)) % 2 else max(1, int(2 * NW) - 1)})
    # ---- fixed grid (the same in every round; in quick a seed-dependent third of the N > 24 cases)
    Ns = list(range(8, 40)) + [47, 64, 65, 100, 128, 129, 200] + (
        [256, 257, 512, 1000] if quick else [256, 257, 512, 1000, 1023, 1024, 1025, 2047, 2048, 2049, 4095, 4096])
    off = rng.randrange(3)
    for N in Ns:
        for j, NW in enumerate(NWS):
            if NW >= N / 2.0:
                continue
            kmax = int(np.floor(2 * NW))
            kr = rng.randint(1, kmax)          # drawn for every (N, NW), also the ones skipped below: not aliased with the quick-tier thinning
            if quick and (N + j + off) % 3 and N > 24:
                continue
            ks = [None, kmax] if (N + j) % 2 else [None, 1, max(1, kmax - 1)]
            if N > 512:
                ks = [None]
            ks0 = ks
            if kr not in ks:
                ks = ks + [kr]
            for k in ks:
                if k is not None and (k < 1 or k > N):
                    continue
                q = {"N": N, "NW": float(NW), "k": k}
                if _pending_sign(N, NW) and not (N in (2048, 4096) and j < len(NWS_OLD) and k is None):
                    if True:  # formerly PENDING-FINDING (fixed in the library): odd taper 1 starts with a negative lobe, e.g. dpss(2049, 8.0, 6), dpss(2049, 8.0) (sign read on a noise-level first sample)
                        yield ("dpss", q)
                    continue
                if quick and N > 300 and (j >= len(NWS_OLD) or k not in ks0):
                    q["nomodel"] = True        # quick tier: the model runs ~0.5 s per case at N = 512 (thorough: all of them)
                yield ("dpss", q)
    # NW just below N/2: the default k = min(round(2NW), N) is N itself (more than 2NW), floor(2NW) = N - 1
    for N, NW in ((8, 3.99), (9, 4.4), (10, 4.9), (16, 7.99)):
        kmax = int(np.floor(2 * NW))
        for k in (None, 1, kmax, rng.randint(1, kmax)):
            yield ("dpss", {"N": N, "NW": NW, "k": k})
    # explicit k on long windows (no model comparison above 600 samples: oracle only)
    for N, NW, k in ((1000, 2.5, 4), (1000, 3.3, 3), (1000, 8.0, 16), (1000, 1.75, 3), (2048, 4.0, 5), (2048, 2.25, 4), (2048, 6.5, 13),
                     (2048, 1.0, 1)):
        yield ("dpss", {"N": N, "NW": NW, "k": k})
    if True:  # formerly PENDING-FINDING (fixed in the library): odd taper 1 starts with a negative lobe: the leading lobe of column 1 is negative in each of these (extremum -0.045 for N = 2049)
        for N, NW, k in ((2049, 8.0, 6), (2049, 8.0, None), (2049, 8.0, 3), (3001, 7.5, 4), (3638, 7.5, 2), (4063, 7.31, 3)):
            yield ("dpss", {"N": N, "NW": NW, "k": k})
            yield ("dpss_shipped", {"N": N, "NW": NW, "k": k})
    # repeated calls: same N and k, different NW with the same round(2NW)
    for N in (20, 64):
        for NWa, NWb in ((1.0, 1.2), (2.3, 2.5), (2.5, 2.7), (3.0, 3.2)):
            yield ("dpss", {"N": N, "NW": NWa, "k": 2})
            yield ("dpss", {"N": N, "NW": NWb, "k": 2})
    # ---- the shipped extension (loaded by mtm.py itself), fixed points
    for N, NW, k in ((8, 3.5, 7), (64, 2.5, 4), (257, 8.0, 16), (1000, 3.3, None), (4096, 8.0, None)):
        yield ("dpss_shipped", {"N": N, "NW": NW, "k": k})
    # ---- argument forms, fixed points
    for N, NW, k, form in ((64, 4.0, None, "intNW"), (64, 4.0, 3, "intNW"), (64, 2.5, 4, "npscalars"), (64, 2.5, None, "f32NW"),
                           (64, 2.5, 4, "npints"), (64, 2.5, 4, "kwargs"), (65, 1.25, None, "f32NW"), (33, 1.75, None, "npscalars")):
        yield ("dpss_forms", {"N": N, "NW": NW, "k": k, "form": form})
    # ---- random part (fresh in every round)
    nr = 12 if quick else 40
    hi = 1200 if quick else 4096
    forms = sorted(FORMS)
    for i in range(nr):
        if (i // 2) % 2:
            N = rng.randint(40, hi)
        else:
            N = int(round(np.exp(rng.uniform(np.log(40), np.log(hi)))))
        N = N - (N % 2) + (i % 2)                          # parities alternate
        if N > hi:
            N -= 2
        for m in range(3):
            if m == 2:
                NW = round(rng.uniform(1.0, 8.0), 2)        # any value in [1, 8): mostly neither half- nor quarter-integer
            else:
                NW = float(NWS[rng.randrange(len(NWS))])
            kmax = int(np.floor(2 * NW))
            k = None if rng.randrange(4) == 0 else rng.randint(1, kmax)
            if _pending_sign(N, NW):
                if True:  # formerly PENDING-FINDING (fixed in the library): odd taper 1 starts with a negative lobe for N >= 2049, NW >= 7.3 and some k (see _pending_sign)
                    yield ("dpss", {"N": N, "NW": NW, "k": k})
                continue
            yield ("dpss", dict({"N": N, "NW": NW, "k": k}, **({"nomodel": True} if quick and N > 300 else {})))
            if (i + m) % 4 == 0:
                yield ("dpss_shipped", {"N": N, "NW": NW, "k": k})
        # one argument-form case per random N: dyadic NW (exact in float32), integer-valued for the int form
        form = forms[(i // 3) % len(forms)]
        NW = float(rng.randint(1, 8)) if form == "intNW" else rng.randint(4, 31) / 4.0
        kmax = int(np.floor(2 * NW))
        k = None if rng.randrange(3) == 0 else rng.randint(1, kmax)
        if _pending_sign(N, NW):
            if True:  # formerly PENDING-FINDING (fixed in the library): odd taper 1 starts with a negative lobe (see _pending_sign)
                yield ("dpss_forms", {"N": N, "NW": NW, "k": k, "form": form})
            continue
        yield ("dpss_forms", {"N": N, "NW": NW, "k": k, "form": form})
    # ---- histories (last, so that whatever a history leaves behind in the process cannot reach the single-call cases above):
    # dpss, in-place edits of the returned arrays by the caller, dpss again (same arguments, respelled, neighbouring), also through
    # pmtm / MultiTapering and across a failing call
    for N, NW, k, mods, between, twice, form2 in (
            (256, 4.0, 7, ["scale", "flipodd", "clip"], None, False, None),
            (1000, 2.5, None, ["scale"], None, False, "npscalars"),
            (63, 3.7, 5, ["both"], None, True, None),
            (8, 1.0, 2, ["zero"], None, False, "intNW"),
            (64, 2.5, 4, ["eig2"], "pmtm", False, "kwargs"),
            (64, 4.0, None, ["flipodd"], "mt", False, "intNW"),
            (129, 3.5, 7, ["ulp"], None, True, "f32NW"),
            (33, 1.5, None, ["nan", "rev"], "fail", False, "npints"),
            (100, 3.3, None, [], "pmtm", False, None),          # nothing but pmtm's own return value is edited
            (20, 2.0, 1, ["bump"], "mt", True, None)):
        ops = _seq_ops(rng, N, NW, k, mods, between, twice, True, form2)
        if between == "fail":
            # fixed: a request for more tapers than samples in the middle of the history
            ops = [(op[:2] + ["kbig"]) if op[0] == "fail" else op for op in ops]
        if not mods:
            ops = [op[:5] + ["eig2"] if op[0] in ("pmtm", "mt") else op for op in ops]
        yield ("dpss_seq", {"N": N, "NW": NW, "k": k, "ops": ops})
    names = sorted(MODS)
    ns = 30 if quick else 90
    for i in range(ns):
        c = i % 15
        if c < 7:
            N = rng.randint(8, 40)
        elif c < 13:
            N = rng.randint(41, 300)
        else:
            N = rng.randint(301, 1200 if quick else 4096)
        NW = round(rng.uniform(1.0, 8.0), 2) if rng.randrange(3) == 0 else float(NWS[rng.randrange(len(NWS))])
        if NW >= N / 2.0:
            NW = float(NWS[rng.randrange(4)])               # 1 .. 2.5 < N/2 for every N >= 8
        kmax = int(np.floor(2 * NW))
        kdef = int(max(min(round(2 * NW), N), 1))
        r = rng.randrange(3)
        k = None if r == 0 else (kdef if r == 1 and kdef <= kmax else rng.randint(1, kmax))
        mods = [names[rng.randrange(len(names))] for _ in range(rng.randint(1, 3))]
        if _k(N, NW, k) == 1 and all(x in ("rev", "swapcols", "flipodd") for x in mods):
            mods.append("scale")                            # a single taper: those three leave the arrays as they are
        between = (None, None, "pmtm", "mt", "fail")[rng.randrange(5)]
        form2 = (None, None) + tuple(forms)
        form2 = form2[rng.randrange(len(form2))]
        yield ("dpss_seq", {"N": N, "NW": NW, "k": k, "ops": _seq_ops(rng, N, NW, k, mods, between, rng.randrange(3) == 0, True, form2)})
