"""C18  Slepian tapers are orthonormal, ordered and maximally concentrated."""
import ctypes
import os
import subprocess
import tempfile

import numpy as np

import proto
from common import rel

TRUSTED_BASE = [
    "the C eigen-solver multitap (src/cpp/mydpss.c: tridiagonal bisection + inverse iteration) is a PARAMETER of the model: no theorem "
    "speaks about its accuracy; orthonormality, ordering, agreement with an independent eigen-solver, symmetry and concentration "
    "are evaluated by the oracle (scipy.linalg.eigh_tridiagonal / scipy.signal.windows.dpss / the sinc kernel)",
    "the check compiles src/cpp/mydpss.c from the working tree into a scratch directory with gcc and points spectrum.mtm.mtspeclib "
    "at it, so that a change to the C source is exercised",
    "the Python glue (1/sqrt N scaling, sign convention, eigenvalue recomputation through the autocovariance / sinc sequence) is "
    "modelled and proved; the FFT-based autocovariance is modelled by the direct lag sums (float mode rtol 1e-9 on tapers, 1e-7 on ratios)",
]
PARTIAL = ["orthonormal / ordered / leading eigenvectors of the sinc kernel / symmetric-antisymmetric / energy fraction: properties of "
           "the C routine's output, evaluated by the oracle only (level: proof for the glue, testing for the C numerics)"]
ASSUMPTIONS = ["oracle tolerances: orthonormality 1e-6, ratio vs energy fraction 1e-6, agreement with scipy's dpss 1e-5 (1e-4 for N >= 2048), "
               "symmetry 1e-4 relative; sign of an odd taper judged on its first sample above 1e-8 of the maximum"]
RULE = ("N in {8..200} dense and {256, 257, 512, 1000, 1024, 2048 (thorough: 4096)} x NW in {1, 1.5, .., 8} and non-half-integer values "
        "(1.2, 2.3, 2.7, 3.3) x k in {None, 1, floor(2NW), intermediate}; repeated calls with the same N and k and different NW")

_LIB = {}


def _load_lib():
    """compile /repo's mydpss.c into a scratch directory and load it (once per process)"""
    if "lib" in _LIB:
        return _LIB["lib"]
    import spectrum
    src = os.path.join(os.path.dirname(os.path.dirname(os.path.dirname(os.path.abspath(spectrum.__file__)))), "src", "cpp", "mydpss.c")
    if not os.path.exists(src):
        src = "/repo/src/cpp/mydpss.c"
    d = tempfile.mkdtemp(prefix="verif_dpss_")
    so = os.path.join(d, "mydpss_verif.so")
    p = subprocess.run(["gcc", "-O2", "-shared", "-fPIC", "-o", so, src, "-lm"], capture_output=True, text=True)
    if p.returncode != 0:
        raise RuntimeError("cannot compile mydpss.c: " + p.stderr[:300])
    lib = ctypes.CDLL(so)
    import spectrum.mtm as mtm
    mtm.mtspeclib = lib
    _LIB["lib"] = lib
    _LIB["dir"] = d
    import atexit
    import shutil
    atexit.register(lambda: shutil.rmtree(d, ignore_errors=True))
    return lib


def _raw(N, NW, k):
    """what the C routine returns for (N, k, NW): raw tapers (k x N) and their sums"""
    lib = _load_lib()
    lib.multitap.restype = None
    lam = np.zeros(k, dtype=float)
    tapers = np.zeros(k * N, dtype=float)
    tapsum = np.zeros(k, dtype=float)
    lib.multitap(ctypes.c_int(N), ctypes.c_int(k), lam.ctypes.data_as(ctypes.c_void_p), ctypes.c_float(NW),
                 tapers.ctypes.data_as(ctypes.c_void_p), tapsum.ctypes.data_as(ctypes.c_void_p))
    return tapers.reshape(k, N), tapsum


def _k(N, NW, k):
    if k is None:
        k = int(max(min(round(2 * NW), N), 1))
    return k


def impl_dpss(p):
    _load_lib()
    from spectrum.mtm import dpss
    t, e = dpss(p["N"], p["NW"], p["k"])
    t = np.asarray(t)
    return [t[:, i] for i in range(t.shape[1])] + [np.asarray(e)]


def model_dpss(p):
    N, NW = p["N"], p["NW"]
    if N > 600:
        return None   # the model's list-based lag sums are cubic in N: above 600 samples the case is oracle-only
    k = _k(N, NW, p["k"])
    raw, ts = _raw(N, NW, k)
    return ("F", proto.request("dpssglue", "F", [N], [[NW], ts] + [raw[i] for i in range(k)]))


def _conc(v, W):
    N = len(v)
    n = np.arange(N)
    d = n[:, None] - n[None, :]
    with np.errstate(all="ignore"):
        K = np.where(d == 0, 2 * W, np.sin(2 * np.pi * W * d) / (np.pi * d))
    return float(v @ K @ v / (v @ v))


def oracle_dpss(p):
    _load_lib()
    from spectrum.mtm import dpss
    import scipy.signal.windows as sw
    N, NW, k = p["N"], p["NW"], p["k"]
    t, e = dpss(N, NW, k)
    t, e = np.asarray(t), np.asarray(e)
    kk = _k(N, NW, k)
    tag = "dpss(N=%d, NW=%g, k=%s)" % (N, NW, k)
    out = []
    if t.shape != (N, kk) or e.shape != (kk,):
        return ["%s returns shapes %s / %s, expected (%d, %d) / (%d,)" % (tag, t.shape, e.shape, N, kk, kk)]
    G = t.T @ t
    if np.max(np.abs(G - np.eye(kk))) > 1e-6:
        out.append("%s: columns are not orthonormal (max deviation %.2e)" % (tag, np.max(np.abs(G - np.eye(kk)))))
    if not (np.all(e > 0) and np.all(e <= 1 + 1e-9)):
        out.append("%s: concentration ratios not in (0, 1]: %s" % (tag, e[:4]))
    if np.any(np.diff(e) > 1e-9):
        out.append("%s: concentration ratios are not non-increasing" % tag)
    if N <= 1024:
        cr = np.array([_conc(t[:, i], NW / N) for i in range(kk)])
        if np.max(np.abs(cr - e)) > 1e-6:
            out.append("%s: reported ratio differs from the energy fraction inside |f| <= NW/N: %s vs %s" % (
                tag, np.round(e[:3], 8), np.round(cr[:3], 8)))
    ref = np.atleast_2d(sw.dpss(N, NW, kk, sym=True, norm=2))
    tol = 1e-5 if N < 2048 else 1e-4
    for i in range(kk):
        dd = min(np.max(np.abs(ref[i] - t[:, i])), np.max(np.abs(ref[i] + t[:, i])))
        if dd > tol:
            out.append("%s: taper %d differs from the independent eigen-solver by %.2e" % (tag, i, dd))
            break
    for i in range(kk):
        v = t[:, i]
        mx = np.max(np.abs(v))
        if i % 2 == 0:
            if np.max(np.abs(v - v[::-1])) > 1e-4 * mx or v.sum() <= 0:
                out.append("%s: even taper %d is not symmetric with positive sum" % (tag, i))
                break
        else:
            if np.max(np.abs(v + v[::-1])) > 1e-4 * mx:
                out.append("%s: odd taper %d is not antisymmetric" % (tag, i))
                break
            nz = np.nonzero(np.abs(v) > 1e-8 * mx)[0]
            if len(nz) and v[nz[0]] < 0:
                out.append("%s: odd taper %d does not start with a positive lobe" % (tag, i))
                break
    return out


def _key(p):
    return "%d|%g|%s" % (p["N"], p["NW"], p["k"])


KINDS = {
    "dpss": {"impl": impl_dpss, "model": model_dpss, "oracle": oracle_dpss, "rtol": 1e-7, "atol": 1e-10, "key": _key,
             "tags": lambda p: ["N:" + ("odd" if p["N"] % 2 else "even"), "NW:" + ("half-int" if (2 * p["NW"]) % 1 == 0 else "other"),
                                "k:" + ("default" if p["k"] is None else "given")]},
}


def gen(rng, nrng, tier):
    NWs = [1, 1.5, 2, 2.5, 3, 3.5, 4, 5, 6, 8, 1.2, 2.3, 2.7, 3.3]
    Ns = list(range(8, 40)) + [47, 64, 65, 100, 128, 129, 200] + ([256, 257, 512, 1000] if tier == "quick" else [256, 257, 512, 1000, 1024, 2048, 4096])
    count = 0
    for N in Ns:
        for j, NW in enumerate(NWs):
            if NW >= N / 2.0:
                continue
            if tier == "quick" and (N + j) % 3 and N > 24:
                continue
            kmax = int(np.floor(2 * NW))
            ks = [None, kmax] if (N + j) % 2 else [None, 1, max(1, kmax - 1)]
            if N > 512:
                ks = [None]
            for k in ks:
                if k is not None and (k < 1 or k > N):
                    continue
                count += 1
                yield ("dpss", {"N": N, "NW": float(NW), "k": k})
    # repeated calls: same N and k, different NW with the same round(2NW)
    for N in (20, 64):
        for NWa, NWb in ((1.0, 1.2), (2.3, 2.5), (2.5, 2.7), (3.0, 3.2)):
            yield ("dpss", {"N": N, "NW": NWa, "k": 2})
            yield ("dpss", {"N": N, "NW": NWb, "k": 2})
