"""C04  Frequency-shift covariance and conjugate symmetry of two-sided spectra."""
import numpy as np

import proto
import classes as C
from common import rel

TRUSTED_BASE = [
    "the shift / conjugation / fold theorems are about the model; the tie to the code is the per-estimator correspondence (own "
    "properties) plus, here, the correspondence on MODULATED inputs (periodogram, Burg, Yule-Walker) and the class-glue correspondence",
    "SVD-based estimators: relative to the SVD contract; checked by the oracle",
]
PARTIAL = ["MUSIC/EV relative to the SVD parameter"]
ASSUMPTIONS = ["orders in domain; tolerance 1e-6 relative (1e-5 for covariance/ARMA least-squares paths)"]
RULE = ("complex/real data x integer shifts m (all residues for small NFFT, random otherwise) x 14 class variants x NFFT even/odd; "
        "conjugation, time reversal, real-vs-declared-complex")

TIMEREV = ["Periodogram", "pcorrelogram", "pyule", "pburg", "pmodcovar", "MT-unity", "MT-eigen", "MT-adapt", "pminvar"]
REAL_FOLD = ["pburg", "pyule", "pcovar", "pmodcovar", "parma", "pma", "pminvar", "MT-unity", "MT-eigen", "MT-adapt"]


_CFG = {}


def _psd(cls, x, nfft):
    return np.asarray(C.make(cls, x, nfft, 1.0, False, _CFG.get("cfg")).psd)


def oracle_shift(p):
    _CFG["cfg"] = p.get("cfg")
    try:
        return _oracle_shift(p)
    finally:
        _CFG["cfg"] = None


def _oracle_shift(p):
    cls, x, nfft, m = p["cls"], np.asarray(p["x"]), p["nfft"], p["m"]
    n = np.arange(len(x))
    p0 = _psd(cls, x, nfft)
    y = x * np.exp(2j * np.pi * m * n / nfft)
    p1 = _psd(cls, y, nfft)
    tol = 1e-5 if cls in ("pcovar", "pmodcovar", "parma", "pmusic", "pev") else 1e-6
    out = []
    if p1.shape != p0.shape or np.iscomplexobj(p1) or rel(p1, np.roll(p0, m)) > tol:
        out.append("%s (NFFT=%d): multiplying sample n by exp(2 pi i m n/NFFT), m=%d, does not rotate the two-sided estimate by m bins "
                   "(rel err %.2e)" % (cls, nfft, m, rel(p1, np.roll(p0, m)) if p1.shape == p0.shape and not np.iscomplexobj(p1) else float("inf")))
    pc = _psd(cls, np.conj(x), nfft)
    mir = p0[(-np.arange(len(p0))) % len(p0)]
    if pc.shape != p0.shape or rel(pc, mir) > tol:
        out.append("%s (NFFT=%d): conjugating the data does not mirror the estimate (bin k <-> -k)" % (cls, nfft))
    if cls in TIMEREV:
        pr = _psd(cls, np.conj(x[::-1]), nfft)
        if pr.shape != p0.shape or rel(pr, p0) > tol:
            out.append("%s (NFFT=%d): conjugated time-reversed data give a different spectrum (rel err %.2e)" % (
                cls, nfft, rel(pr, p0) if pr.shape == p0.shape else float("inf")))
    return out


def oracle_real(p):
    _CFG["cfg"] = p.get("cfg")
    try:
        return _oracle_real(p)
    finally:
        _CFG["cfg"] = None


def _oracle_real(p):
    cls, xr, nfft = p["cls"], np.asarray(p["x"]), p["nfft"]
    out = []
    tol = 1e-5 if cls in ("pcovar", "pmodcovar", "parma") else 1e-6
    pr = _psd(cls, xr, nfft)
    if cls in REAL_FOLD:
        pc = _psd(cls, xr.astype(complex), nfft)
        L = len(pr)
        if rel(pr, 2 * pc[:L]) > tol:
            out.append("%s (NFFT=%d): real one-sided estimate is not twice the first half of the two-sided estimate of the same samples "
                       "declared complex (median ratio %.4f)" % (cls, nfft, float(np.median(pr / pc[:L]))))
        if rel(pc[1:], pc[1:][::-1]) > tol:
            out.append("%s (NFFT=%d): two-sided estimate of real samples is not symmetric" % (cls, nfft))
    if cls in TIMEREV:
        prr = _psd(cls, xr[::-1].copy(), nfft)
        if rel(prr, pr) > tol:
            out.append("%s (NFFT=%d): time-reversed real data give a different spectrum" % (cls, nfft))
    return out


# correspondence on modulated inputs

def impl_mod(p):
    sp = C.sp()
    x = np.asarray(p["x"])
    n = np.arange(len(x))
    y = x * np.exp(2j * np.pi * p["m"] * n / p["nfft"])
    if p["fn"] == "burg":
        a, rho, k = sp.arburg(y, p["order"])
        return [np.asarray(a, dtype=complex), np.array([rho], dtype=complex), np.asarray(k, dtype=complex)]
    if p["fn"] == "aryule":
        a, rho, k = sp.aryule(y, p["order"])
        return [np.asarray(a, dtype=complex), np.array([rho], dtype=complex), np.asarray(k, dtype=complex)]
    return [np.asarray(sp.speriodogram(y, NFFT=p["nfft"], detrend=False, scale_by_freq=False, window="hamming"))]


def model_mod(p):
    x = np.asarray(p["x"])
    n = np.arange(len(x))
    y = x * np.exp(2j * np.pi * p["m"] * n / p["nfft"])
    if p["fn"] == "burg":
        return ("F", proto.request("burg", "F", [p["order"], "none"], [y]))
    if p["fn"] == "aryule":
        return ("F", proto.request("aryule", "F", [p["order"], "biased"], [y]))
    from spectrum.window import Window
    w = np.asarray(Window(len(y), "hamming").data)
    return ("F", proto.request("sper", "F", [0, p["nfft"]], [y, w]))


def _key(p):
    x = np.asarray(p["x"])
    return "%s|%s|%s|%s|%s|%d" % (p.get("cls"), p.get("fn"), p.get("nfft"), p.get("m"), (p.get("cfg") or {}).get("window"),
                                 hash(x.tobytes()) & 0xFFFFF)


def _tags(p):
    return ["cls:%s" % p.get("cls", "-"), "fn:%s" % p.get("fn", "-"), "nfft:" + ("odd" if p["nfft"] % 2 else "even")]


KINDS = {
    "shift": {"oracle": oracle_shift, "key": _key, "tags": _tags},
    "real": {"oracle": oracle_real, "key": _key, "tags": _tags},
    "mod": {"impl": impl_mod, "model": model_mod, "rtol": 1e-7, "atol": 1e-300, "key": _key, "tags": _tags},
}


def gen(rng, nrng, tier):
    N = 40
    n = np.arange(N)
    reps = 2 if tier == "quick" else 20
    for r in range(reps):
        x = (nrng.standard_normal(N) + 1j * nrng.standard_normal(N) + 2 * np.exp(2j * np.pi * 0.11 * n) + np.exp(-2j * np.pi * 0.3 * n))
        xr = nrng.standard_normal(N) + np.cos(0.9 * n)
        for cls in C.CLASSES:
            for nfft in (64, 65):
                ms = [1, int(nrng.integers(2, nfft)), -3] if tier == "quick" else [1, 7, -3, nfft // 2, int(nrng.integers(2, nfft))]
                for m in ms[: (2 if tier == "quick" else 5)]:
                    yield ("shift", {"cls": cls, "x": x, "nfft": nfft, "m": m})
                yield ("real", {"cls": cls, "x": xr, "nfft": nfft})
    # random configurations of every class (orders, lags, taper counts)
    for i in range(28 if tier == "quick" else 400):
        cls = C.CLASSES[i % len(C.CLASSES)]
        cfg = C.random_cfg(nrng, cls, 40, boundary=False)
        nfft = max([64, 65][i % 2], C.min_nfft(cls, 40, cfg))
        xx = nrng.standard_normal(40) + 1j * nrng.standard_normal(40) + 2 * np.exp(2j * np.pi * 0.11 * np.arange(40))
        yield ("shift", {"cls": cls, "x": xx, "nfft": nfft, "m": int(nrng.integers(1, nfft)), "cfg": cfg})
        yield ("real", {"cls": cls, "x": nrng.standard_normal(40) + np.cos(0.9 * np.arange(40)), "nfft": nfft, "cfg": cfg})
    # ARMA with P < Q, P > Q and P = Q (the lag sequence handed to the solver is built differently in the three cases)
    for i, (P_, Q_, lag_) in enumerate([(2, 4, 10), (1, 3, 8), (3, 1, 8), (2, 2, 8), (2, 3, 9), (1, 2, 6)]):
        if tier == "quick" and i >= 4:
            break
        xx = nrng.standard_normal(48) + 1j * nrng.standard_normal(48) + 2 * np.exp(2j * np.pi * 0.11 * np.arange(48))
        cfg = {"order": P_, "Q": Q_, "lag": lag_}
        yield ("shift", {"cls": "parma", "x": xx, "nfft": [64, 65][i % 2], "m": int(nrng.integers(1, 60)), "cfg": cfg})
        yield ("real", {"cls": "parma", "x": nrng.standard_normal(48) + np.cos(0.9 * np.arange(48)), "nfft": [64, 65][i % 2], "cfg": cfg})
    # every window name through the Fourier classes (the window is part of the estimator's configuration)
    from spectrum.window import window_names
    wn = sorted(window_names)
    xw = nrng.standard_normal(33) + 1j * nrng.standard_normal(33)
    xwr = nrng.standard_normal(33)
    for j, name in enumerate(wn):
        if tier == "quick" and j % 2 == (0 if True else 1) and name not in ("flattop", "tukey", "taylor", "chebwin", "kaiser"):
            continue
        for cls in ("Periodogram", "pcorrelogram"):
            cfg = {"window": name, "lag": 5}
            yield ("shift", {"cls": cls, "x": xw, "nfft": [64, 75][j % 2], "m": 3, "cfg": cfg})
            yield ("real", {"cls": cls, "x": xwr, "nfft": [64, 75][j % 2], "cfg": cfg})
    # long complex records (N >= 256) through the correlation-based classes
    NL = 300
    nl = np.arange(NL)
    xl = nrng.standard_normal(NL) + 1j * nrng.standard_normal(NL) + 2 * np.exp(2j * np.pi * 0.11 * nl)
    for cls in (("pyule", "pma", "parma", "pcorrelogram") if tier == "quick" else C.CLASSES):
        for nfft in ((512,) if tier == "quick" else (512, 301)):
            yield ("shift", {"cls": cls, "x": xl, "nfft": nfft, "m": 5})
    # all residues for a small NFFT (periodogram and Burg)
    xs = nrng.standard_normal(10) + 1j * nrng.standard_normal(10)
    for nfft in (12, 13):
        for m in range(nfft):
            for cls in ("Periodogram", "pburg"):
                yield ("shift", {"cls": cls, "x": xs, "nfft": nfft, "m": m})
    k = 30 if tier == "quick" else 400
    for i in range(k):
        x = nrng.standard_normal(24) + 1j * nrng.standard_normal(24)
        nfft = [32, 33, 48][i % 3]
        yield ("mod", {"fn": ["burg", "aryule", "sper"][i % 3], "x": x, "nfft": nfft, "m": int(nrng.integers(-nfft, nfft)), "order": 4})
