"""C04  Frequency-shift covariance and conjugate symmetry of two-sided spectra."""
import numpy as np

import proto
import classes as C
from common import rel

TRUSTED_BASE = [
    "the shift / conjugation / fold theorems are about the model; the tie to the code is the per-estimator correspondence (own "
    "properties) plus, here, the correspondence on MODULATED inputs (periodogram, Burg, Yule-Walker, MA, minimum variance, "
    "correlogram from the data and from the library's lags, multitaper unity / eigen) and the class-glue correspondence",
    "SVD-based estimators: relative to the SVD contract; checked by the oracle",
    "the oracle's references are numpy expressions of the statement itself: np.roll(p0, m), p0[(-k) % NFFT], 2 * pc[:L] with "
    "L = NFFT/2+1 (even) or (NFFT+1)/2 (odd), and the lengths NFFT / L; both sides of each relation come from the library",
]
PARTIAL = ["MUSIC/EV relative to the SVD parameter"]
ASSUMPTIONS = [
    "orders in domain (pcovar order <= N/2-1, pmodcovar order <= N/2-1, pburg order <= N-2, lag < N, NW < N/2; the underdetermined "
    "pcovar order N/2 and pmodcovar order 2N/3 are not generated); tolerance 1e-6 relative (1e-5 for covariance / ARMA least-squares "
    "and MUSIC / EV paths), max-norm relative to the peak AND per bin relative to the bin (bins above 1e-12 of the peak)",
    "NFFT admissible for the class (classes.min_nfft): >= N for periodogram / multitaper, 2*lag+1, 2*order, model order + 1",
    "pburg order-selection criteria AIC, AICc, KIC, AKICc, FPE, MDL ('CAT' is rejected by the constructor and is not generated)",
]
RULE = ("complex/real data x integer shifts m (all residues for small NFFT; 0, NFFT/2, beyond one period both ways, random otherwise) x "
        "14 class variants x NFFT even/odd, NFFT <, =, > N, at the admissibility boundary, None and 'nextpow2'; N in 2..5, 12, 20, 24, 32, "
        "33, 40, 41, 48, 107, 300; orders random and at the boundary of the domain; ARMA P <= 4 and P > 4; constructor options (Burg "
        "criteria, Yule-Walker unbiased, MUSIC/EV criteria / threshold, multitaper supplied tapers / default k); fs=250 with "
        "scale_by_freq; integer-array and list input; conjugation, time reversal, real-vs-declared-complex (with output lengths)")

TIMEREV = ["Periodogram", "pcorrelogram", "pyule", "pburg", "pmodcovar", "MT-unity", "MT-eigen", "MT-adapt", "pminvar"]
REAL_FOLD = ["pburg", "pyule", "pcovar", "pmodcovar", "parma", "pma", "pminvar", "MT-unity", "MT-eigen", "MT-adapt"]


_CFG = {}


def _set_cfg(p):
    """the configuration of the case under evaluation, read by `_psd`: estimator parameters, sampling / scaling options and
    the NFFT argument as handed to the constructor (an integer, None or 'nextpow2')"""
    _CFG["cfg"] = p.get("cfg")
    _CFG["fs"] = float(p.get("fs", 1.0))
    _CFG["scale"] = bool(p.get("scale", False))
    _CFG["nfft_spec"] = p.get("nfft_spec")


def _clear_cfg():
    _CFG["cfg"] = None
    _CFG["fs"] = 1.0
    _CFG["scale"] = False
    _CFG["nfft_spec"] = None


def _make(cls, x, nfft, fs, scale, cfg):
    """`classes.make`, plus the constructor options it does not pass: pyule(norm=...), pmusic/pev with NSIG=None and a
    criterion or a threshold, MultiTapering with the tapers / concentrations supplied by the caller"""
    s = C.sp()
    kw = dict(NFFT=nfft, sampling=fs, scale_by_freq=scale)
    if cfg:
        if cls == "pyule" and "norm" in cfg:
            return s.pyule(x, cfg["order"], norm=cfg["norm"], **kw)
        if cls in ("pmusic", "pev") and cfg.get("nsig") is None and ("eig_criteria" in cfg or "threshold" in cfg):
            f = s.pmusic if cls == "pmusic" else s.pev
            if "threshold" in cfg:
                return f(x, cfg["order"], NSIG=None, threshold=cfg["threshold"], **kw)
            return f(x, cfg["order"], NSIG=None, criteria=cfg["eig_criteria"], **kw)
        if cls.startswith("MT-") and cfg.get("supplied"):
            from spectrum.mtm import dpss
            v, e = dpss(len(x), cfg["NW"], cfg["k"])
            return s.MultiTapering(x, e=e, v=v, method=cls[3:], **kw)
    return C.make(cls, x, nfft, fs, scale, cfg)


def _psd(cls, x, nfft):
    spec = _CFG.get("nfft_spec")
    arg = nfft if spec is None else {"none": None, "nextpow2": "nextpow2"}[spec]
    return np.asarray(_make(cls, x, arg, _CFG.get("fs", 1.0), _CFG.get("scale", False), _CFG.get("cfg")).psd)


BIN_FLOOR = 1e-12      # the per-bin comparison uses the same tolerance as the max-norm one, on bins above this share of the peak


def binrel(a, b):
    """largest per-bin relative difference |a-b|/max(|a|,|b|) over the bins where both values exceed BIN_FLOOR of the peak"""
    a = np.asarray(a)
    b = np.asarray(b)
    if a.shape != b.shape or np.iscomplexobj(a) or np.iscomplexobj(b):
        return float("inf")
    if a.size == 0:
        return 0.0
    if not (np.all(np.isfinite(a)) and np.all(np.isfinite(b))):
        return float("inf")
    aa, bb = np.abs(a), np.abs(b)
    peak = max(float(np.max(aa)), float(np.max(bb)))
    mk = (aa > BIN_FLOOR * peak) & (bb > BIN_FLOOR * peak)
    if peak == 0.0 or not np.any(mk):
        return 0.0
    return float(np.max(np.abs(a - b)[mk] / np.maximum(aa, bb)[mk]))


def oracle_shift(p):
    _set_cfg(p)
    try:
        return _oracle_shift(p)
    finally:
        _clear_cfg()


def _oracle_shift(p):
    cls, x, nfft, m = p["cls"], np.asarray(p["x"]), p["nfft"], p["m"]
    n = np.arange(len(x))
    p0 = _psd(cls, x, nfft)
    y = x * np.exp(2j * np.pi * m * n / nfft)
    p1 = _psd(cls, y, nfft)
    tol = 1e-5 if cls in ("pcovar", "pmodcovar", "parma", "pmusic", "pev") else 1e-6
    out = []
    if p0.ndim != 1 or len(p0) != nfft or len(p0) != C.expected_len(False, nfft):
        out.append("%s (NFFT=%d): the two-sided estimate of complex data has %s values, not NFFT" % (cls, nfft, p0.shape))
    if p1.shape != p0.shape or np.iscomplexobj(p1) or rel(p1, np.roll(p0, m)) > tol:
        out.append("%s (NFFT=%d): multiplying sample n by exp(2 pi i m n/NFFT), m=%d, does not rotate the two-sided estimate by m bins "
                   "(rel err %.2e)" % (cls, nfft, m, rel(p1, np.roll(p0, m)) if p1.shape == p0.shape and not np.iscomplexobj(p1) else float("inf")))
    elif binrel(p1, np.roll(p0, m)) > tol:
        out.append("%s (NFFT=%d): modulated data, m=%d: some bin of the rotated estimate differs (per-bin rel err %.2e)" % (
            cls, nfft, m, binrel(p1, np.roll(p0, m))))
    pc = _psd(cls, np.conj(x), nfft)
    mir = p0[(-np.arange(len(p0))) % len(p0)]
    if pc.shape != p0.shape or rel(pc, mir) > tol:
        out.append("%s (NFFT=%d): conjugating the data does not mirror the estimate (bin k <-> -k)" % (cls, nfft))
    elif binrel(pc, mir) > tol:
        out.append("%s (NFFT=%d): conjugated data: some bin of the mirrored estimate differs (per-bin rel err %.2e)" % (
            cls, nfft, binrel(pc, mir)))
    if cls in TIMEREV:
        pr = _psd(cls, np.conj(x[::-1]), nfft)
        if pr.shape != p0.shape or rel(pr, p0) > tol:
            out.append("%s (NFFT=%d): conjugated time-reversed data give a different spectrum (rel err %.2e)" % (
                cls, nfft, rel(pr, p0) if pr.shape == p0.shape else float("inf")))
        elif binrel(pr, p0) > tol:
            out.append("%s (NFFT=%d): conjugated time-reversed data: some bin differs (per-bin rel err %.2e)" % (
                cls, nfft, binrel(pr, p0)))
    return out


def oracle_real(p):
    _set_cfg(p)
    try:
        return _oracle_real(p)
    finally:
        _clear_cfg()


def _as_input(xr, how):
    """the object handed to the constructor for the real record: the array itself, or a plain Python list of its values"""
    if how == "list":
        return xr.tolist()
    return xr


def _oracle_real(p):
    cls, xr, nfft = p["cls"], np.asarray(p["x"]), p["nfft"]
    how = p.get("input")
    out = []
    tol = 1e-5 if cls in ("pcovar", "pmodcovar", "parma") else 1e-6
    pr = _psd(cls, _as_input(xr, how), nfft)
    if cls in REAL_FOLD:
        pc = _psd(cls, xr.astype(complex), nfft)
        L = C.expected_len(True, nfft)
        if pr.ndim != 1 or len(pr) != L:
            out.append("%s (NFFT=%d): the one-sided estimate of real data has %s values, expected %d" % (cls, nfft, pr.shape, L))
        if pc.ndim != 1 or len(pc) != nfft:
            out.append("%s (NFFT=%d): the two-sided estimate of the samples declared complex has %s values, not NFFT" % (
                cls, nfft, pc.shape))
        if not out:
            if rel(pr, 2 * pc[:L]) > tol:
                out.append("%s (NFFT=%d): real one-sided estimate is not twice the first half of the two-sided estimate of the same samples "
                           "declared complex (median ratio %.4f)" % (cls, nfft, float(np.median(pr / pc[:L]))))
            elif binrel(pr, 2 * pc[:L]) > tol:
                out.append("%s (NFFT=%d): real one-sided estimate: some bin is not twice the two-sided one (per-bin rel err %.2e)" % (
                    cls, nfft, binrel(pr, 2 * pc[:L])))
            if rel(pc[1:], pc[1:][::-1]) > tol:
                out.append("%s (NFFT=%d): two-sided estimate of real samples is not symmetric" % (cls, nfft))
            elif binrel(pc[1:], pc[1:][::-1]) > tol:
                out.append("%s (NFFT=%d): two-sided estimate of real samples: some bin k differs from bin -k (per-bin rel err %.2e)" % (
                    cls, nfft, binrel(pc[1:], pc[1:][::-1])))
    if cls in TIMEREV:
        prr = _psd(cls, _as_input(xr[::-1].copy(), how), nfft)
        if rel(prr, pr) > tol:
            out.append("%s (NFFT=%d): time-reversed real data give a different spectrum" % (cls, nfft))
        elif binrel(prr, pr) > tol:
            out.append("%s (NFFT=%d): time-reversed real data: some bin differs (per-bin rel err %.2e)" % (cls, nfft, binrel(prr, pr)))
    return out


# correspondence on modulated inputs

def _modulated(p):
    x = np.asarray(p["x"])
    n = np.arange(len(x))
    return x * np.exp(2j * np.pi * p["m"] * n / p["nfft"])


def _c(v):
    return np.asarray(v).astype(complex).ravel()


def _corr_window(name, lag):
    from spectrum.window import Window
    return np.asarray(Window(2 * lag + 1, name).data)[lag + 1:]


def _tapers(N, NW, k):
    from spectrum.mtm import dpss
    v, e = dpss(N, NW, k)
    return np.asarray(v), np.asarray(e)


def impl_mod(p):
    sp = C.sp()
    y = _modulated(p)
    fn = p["fn"]
    if fn == "burg":
        a, rho, k = sp.arburg(y, p["order"])
        return [np.asarray(a, dtype=complex), np.array([rho], dtype=complex), np.asarray(k, dtype=complex)]
    if fn == "aryule":
        a, rho, k = sp.aryule(y, p["order"])
        return [np.asarray(a, dtype=complex), np.array([rho], dtype=complex), np.asarray(k, dtype=complex)]
    if fn == "ma":
        b, rho = sp.ma(y, p["Q"], p["M"])
        return [_c(b), _c([rho])]
    if fn == "minvar":
        psd, A, k = sp.minvar(y, p["order"], sampling=p["fs"], NFFT=p["nfft"])
        return [np.asarray(psd), _c(A), _c(k)]
    if fn in ("corrgram", "corrgramd"):
        return [np.asarray(sp.CORRELOGRAMPSD(y, None, lag=p["lag"], window=p["window"], NFFT=p["nfft"]))]
    if fn in ("mtm-unity", "mtm-eigen"):
        Sk, w, ev = sp.pmtm(y, NW=p["NW"], k=p["k"], NFFT=p["nfft"], method=fn[4:], show=False)
        Sk = np.asarray(Sk)
        P = sp.MultiTapering(y, NW=p["NW"], k=p["k"], NFFT=p["nfft"], method=fn[4:], scale_by_freq=False)
        return [Sk[i, :] for i in range(Sk.shape[0])] + [np.asarray(w).ravel(), np.asarray(P.psd)]
    return [np.asarray(sp.speriodogram(y, NFFT=p["nfft"], detrend=False, scale_by_freq=False, window="hamming"))]


def model_mod(p):
    y = _modulated(p)
    fn = p["fn"]
    if fn == "burg":
        return ("F", proto.request("burg", "F", [p["order"], "none"], [y]))
    if fn == "aryule":
        return ("F", proto.request("aryule", "F", [p["order"], "biased"], [y]))
    if fn == "ma":
        return ("F", proto.request("ma", "F", [p["Q"], p["M"]], [y]))
    if fn == "minvar":
        return ("F", proto.request("minvarx", "F", [p["order"], p["nfft"]], [y, [p["fs"]]]))
    if fn == "corrgramd":
        # the lags are computed by the model from the modulated data (CORRELOGRAMPSD's default norm is 'unbiased')
        return ("F", proto.request("corrgramd", "F", [p["lag"], p["nfft"], "unbiased"], [y, y, _corr_window(p["window"], p["lag"])]))
    if fn == "corrgram":
        # the lags 0..lag come from the library's other back-end; the model assembles the Hermitian lag sequence and transforms
        r = np.asarray(C.sp().CORRELATION(y, maxlags=p["lag"], norm="unbiased"))
        return ("F", proto.request("corrgram", "F", [p["lag"], p["nfft"]], [r, r, _corr_window(p["window"], p["lag"])]))
    if fn in ("mtm-unity", "mtm-eigen"):
        v, e = _tapers(len(y), p["NW"], p["k"])
        return ("F", proto.request("mtm", "F", [fn[4:], p["nfft"]], [y, e, [0.0005]] + [v[:, i] for i in range(v.shape[1])]))
    from spectrum.window import Window
    w = np.asarray(Window(len(y), "hamming").data)
    return ("F", proto.request("sper", "F", [0, p["nfft"]], [y, w]))


def _key(p):
    x = np.asarray(p["x"])
    cfg = p.get("cfg") or {}
    extra = "|".join("%s=%s" % (k, p[k]) for k in ("fs", "scale", "nfft_spec", "input", "order", "Q", "M", "lag", "window", "NW", "k")
                     if k in p)
    return "%s|%s|%s|%s|%s|%d|%s|%s" % (p.get("cls"), p.get("fn"), p.get("nfft"), p.get("m"), cfg.get("window"),
                                       hash(x.tobytes()) & 0xFFFFF, sorted((k, str(v)) for k, v in cfg.items()), extra)


def _tags(p):
    x = np.asarray(p["x"])
    N = len(x)
    nfft = p["nfft"]
    t = ["cls:%s" % p.get("cls", "-"), "fn:%s" % p.get("fn", "-"), "nfft:" + ("odd" if nfft % 2 else "even"),
         "nfft-vs-N:" + ("<" if nfft < N else "=" if nfft == N else ">"),
         "N:" + ("<=5" if N <= 5 else "<=24" if N <= 24 else "<=48" if N <= 48 else "<=107" if N <= 107 else ">=256")]
    if p.get("scale"):
        t.append("fs=%g,scale_by_freq" % p.get("fs", 1.0))
    if p.get("nfft_spec"):
        t.append("NFFT=" + p["nfft_spec"])
    if p.get("input") or x.dtype.kind in "iu":
        t.append("input:%s/%s" % (p.get("input", "array"), x.dtype.kind))
    if p.get("tag"):
        t.append("family:" + p["tag"])
    return t


KINDS = {
    "shift": {"oracle": oracle_shift, "key": _key, "tags": _tags},
    "real": {"oracle": oracle_real, "key": _key, "tags": _tags},
    "mod": {"impl": impl_mod, "model": model_mod, "rtol": 1e-7, "atol": 1e-300, "key": _key, "tags": _tags},
}


def _cx(nrng, N):
    n = np.arange(N)
    return nrng.standard_normal(N) + 1j * nrng.standard_normal(N) + 2 * np.exp(2j * np.pi * 0.11 * n) + np.exp(-2j * np.pi * 0.3 * n)


def _rx(nrng, N):
    return nrng.standard_normal(N) + np.cos(0.9 * np.arange(N))


def _real_checked(cls):
    return cls in REAL_FOLD or cls in TIMEREV


PARMA_BIG = [(5, 2, 14), (5, 5, 14), (6, 8, 20), (8, 3, 20), (5, 7, 12)]      # P > 4: arma_estimate takes the arcovar branch
BURG_CRITERIA = ["AIC", "AICc", "KIC", "AKICc", "FPE", "MDL"]
NO_NFFT_BELOW_N = ["Periodogram", "MT-unity", "MT-eigen", "MT-adapt"]


def _tiny_cfg(cls, N):
    """order / lag 1 configurations (pminvar order 2, pma Q=1 M=2, MUSIC/EV P=2 NSIG=1) for records of 2..5 samples, or None when
    the record is shorter than the class's documented domain allows (pburg order <= N-2, covariance methods order <= N/2-1,
    lag < N, NW < N/2, 2(N-P) > P-1)"""
    if cls == "Periodogram":
        return {"window": ["hamming", "rectangular"][N % 2]}
    if cls == "pcorrelogram":
        return {"lag": 1, "window": "hamming"}
    if cls == "pyule":
        return {"order": 1}
    if cls == "pburg":
        return {"order": 1} if N >= 3 else None
    if cls in ("pcovar", "pmodcovar"):
        return {"order": 1} if N >= 4 else None
    if cls == "parma":
        return {"order": 1, "Q": 1, "lag": 3} if N >= 4 else None
    if cls == "pma":
        return {"Q": 1, "M": 2} if N >= 3 else None
    if cls == "pminvar":
        return {"order": 2} if N >= 4 else None
    if cls in ("pmusic", "pev"):
        return {"order": 2, "nsig": 1} if N >= 3 else None
    if cls.startswith("MT-"):
        return {"NW": 1.0 if N == 3 else 1.5, "k": 2} if N >= 3 else None
    return None


def _gen_closure(nrng, tier):
    """cases added after the coverage audit: P > 4 ARMA, constructor options, NFFT <= N and at the admissibility boundary,
    NFFT=None / 'nextpow2', boundary orders, odd / tiny / long records, sampling and scale_by_freq, integer and list input,
    special shifts (0, NFFT/2, beyond one period)"""
    quick = tier == "quick"
    both = (64, 65)
    # 1. ARMA with P > 4
    for i, (P_, Q_, lag_) in enumerate(PARMA_BIG):
        cfg = {"order": P_, "Q": Q_, "lag": lag_}
        for nfft in ((both[i % 2],) if quick else both):
            yield ("shift", {"cls": "parma", "x": _cx(nrng, 48), "nfft": nfft, "m": int(nrng.integers(1, nfft)), "cfg": cfg, "tag": "parma-P>4"})
            yield ("real", {"cls": "parma", "x": _rx(nrng, 48), "nfft": nfft, "cfg": cfg, "tag": "parma-P>4"})
    # 2. constructor options that select other code paths
    opts = [("pburg", {"order": 12, "criteria": c}) for c in BURG_CRITERIA]
    opts.append(("pyule", {"order": 4, "norm": "unbiased"}))
    if not quick:
        opts.append(("pyule", {"order": int(nrng.integers(1, 8)), "norm": "unbiased"}))
    for cls in ("pmusic", "pev"):
        opts += [(cls, {"order": 6, "nsig": None, "eig_criteria": "aic"}), (cls, {"order": 6, "nsig": None, "eig_criteria": "mdl"}),
                 (cls, {"order": 6, "nsig": None, "threshold": 3.0})]
    xo, xor_ = _cx(nrng, 40), _rx(nrng, 40)
    for cls, cfg in opts:
        for nfft in both:
            yield ("shift", {"cls": cls, "x": xo, "nfft": nfft, "m": int(nrng.integers(1, nfft)), "cfg": cfg, "tag": "option"})
            if _real_checked(cls):
                yield ("real", {"cls": cls, "x": xor_, "nfft": nfft, "cfg": cfg, "tag": "option"})
    # 4a. NFFT = N (periodogram, multitaper: their smallest admissible NFFT), N even and odd
    for N in (40, 41):
        xa, xar = _cx(nrng, N), _rx(nrng, N)
        for cls in NO_NFFT_BELOW_N:
            yield ("shift", {"cls": cls, "x": xa, "nfft": N, "m": int(nrng.integers(1, N)), "tag": "NFFT=N"})
            yield ("real", {"cls": cls, "x": xar, "nfft": N, "tag": "NFFT=N"})
    # 4b. NFFT < N (parametric, correlogram, MUSIC / EV)
    xb, xbr = _cx(nrng, 40), _rx(nrng, 40)
    for cls in C.CLASSES:
        if cls in NO_NFFT_BELOW_N:
            continue
        for nfft in (11, 16, 17):
            yield ("shift", {"cls": cls, "x": xb, "nfft": nfft, "m": int(nrng.integers(1, nfft)), "tag": "NFFT<N"})
            if _real_checked(cls):
                yield ("real", {"cls": cls, "x": xbr, "nfft": nfft, "tag": "NFFT<N"})
    # 4c. NFFT at the admissibility boundary and one above; 4d. NFFT=None and 'nextpow2'
    for N in ((20,) if quick else (20, 32, 41)):
        xc, xcr = _cx(nrng, N), _rx(nrng, N)
        for j, cls in enumerate(C.CLASSES):
            cfgs = [None] if quick else [None, C.random_cfg(nrng, cls, N, boundary=False)]
            for cfg in cfgs:
                lo = C.min_nfft(cls, N, cfg or C.default_cfg(cls, N, True))
                for nfft in (lo, lo + 1):
                    q = {"cls": cls, "nfft": nfft, "tag": "NFFT-boundary"}
                    if cfg:
                        q["cfg"] = cfg
                    yield ("shift", dict(q, x=xc, m=int(nrng.integers(1, max(2, nfft)))))
                    if _real_checked(cls):
                        yield ("real", dict(q, x=xcr))
                for spec in ("none", "nextpow2"):
                    nfft = C.resolved_nfft(xc, None if spec == "none" else spec)
                    if nfft < lo:
                        continue
                    q = {"cls": cls, "nfft": nfft, "nfft_spec": spec, "tag": "NFFT-" + spec}
                    if cfg:
                        q["cfg"] = cfg
                    yield ("shift", dict(q, x=xc, m=int(nrng.integers(1, nfft))))
                    if _real_checked(cls):
                        yield ("real", dict(q, x=xcr))
    # 5a. extreme admissible orders / lags / taper counts
    for N in (12, 40):
        for rep in range(1 if quick else 3):
            xd, xdr = _cx(nrng, N), _rx(nrng, N)
            for j, cls in enumerate(C.CLASSES):
                cfg = C.random_cfg(nrng, cls, N, boundary=True)
                nfft = max(both[(j + rep) % 2], C.min_nfft(cls, N, cfg))
                yield ("shift", {"cls": cls, "x": xd, "nfft": nfft, "m": int(nrng.integers(1, nfft)), "cfg": cfg, "tag": "order-boundary"})
                if _real_checked(cls):
                    yield ("real", {"cls": cls, "x": xdr, "nfft": nfft, "cfg": cfg, "tag": "order-boundary"})
    # 5b. odd record lengths through every class
    for N, nffts in ((41, both), (107, (128, 129))):
        xe, xer = _cx(nrng, N), _rx(nrng, N)
        for j, cls in enumerate(C.CLASSES):
            for cfg in ([None] if quick else [None, C.random_cfg(nrng, cls, N, boundary=False)]):
                for nfft in ((nffts[j % 2],) if quick else nffts):
                    q = {"cls": cls, "nfft": nfft, "tag": "odd-N"}
                    if cfg:
                        q["cfg"] = cfg
                        q["nfft"] = nfft = max(nfft, C.min_nfft(cls, N, cfg))
                    yield ("shift", dict(q, x=xe, m=int(nrng.integers(1, nfft))))
                    if _real_checked(cls):
                        yield ("real", dict(q, x=xer))
    # 5c. records of 2..5 samples with the smallest orders
    for N in (2, 3, 4, 5):
        for rep in range(1 if quick else 4):
            xt = nrng.standard_normal(N) + 1j * nrng.standard_normal(N)
            xtr = nrng.standard_normal(N)
            for j, cls in enumerate(C.CLASSES):
                cfg = _tiny_cfg(cls, N)
                if cfg is None:
                    continue
                nfft = max((8, 9)[(j + N + rep) % 2], C.min_nfft(cls, N, cfg))
                yield ("shift", {"cls": cls, "x": xt, "nfft": nfft, "m": int(nrng.integers(1, nfft)), "cfg": cfg, "tag": "tiny-N"})
                if _real_checked(cls):
                    yield ("real", {"cls": cls, "x": xtr, "nfft": nfft, "cfg": cfg, "tag": "tiny-N"})
    # 5d. long records: real data through every class with a real-data clause; MUSIC / EV beyond 100 rows (truncation branch)
    NL = 300
    xlr = nrng.standard_normal(NL) + np.cos(0.9 * np.arange(NL))
    for cls in C.CLASSES:
        if _real_checked(cls):
            for nfft in ((512,) if quick else (512, 301)):
                yield ("real", {"cls": cls, "x": xlr, "nfft": nfft, "tag": "long"})
    if quick:
        xl = _cx(nrng, NL)
        for cls in ("pmusic", "pev"):
            yield ("shift", {"cls": cls, "x": xl, "nfft": 512, "m": 5, "tag": "long"})
    # 6a. sampling frequency and scale_by_freq (a common factor on both sides of every relation)
    xf, xfr = _cx(nrng, 40), _rx(nrng, 40)
    for j, cls in enumerate(C.CLASSES):
        for nfft in ((both[j % 2],) if quick else both):
            yield ("shift", {"cls": cls, "x": xf, "nfft": nfft, "m": int(nrng.integers(1, nfft)), "fs": 250.0, "scale": True, "tag": "fs-scale"})
            if _real_checked(cls):
                yield ("real", {"cls": cls, "x": xfr, "nfft": nfft, "fs": 250.0, "scale": True, "tag": "fs-scale"})
    # 6b. multitaper with the tapers supplied by the caller, and with the default number of tapers
    for cls in ("MT-unity", "MT-eigen", "MT-adapt"):
        for cfg in ({"NW": 2.5, "k": 4, "supplied": True}, {"NW": 2.5, "k": None}):
            for nfft in both:
                yield ("shift", {"cls": cls, "x": xf, "nfft": nfft, "m": int(nrng.integers(1, nfft)), "cfg": cfg, "tag": "mt-option"})
                yield ("real", {"cls": cls, "x": xfr, "nfft": nfft, "cfg": cfg, "tag": "mt-option"})
    # 6c. integer arrays and plain lists as the real record
    xi = nrng.integers(-5, 6, 40)
    xi[0], xi[1] = 3, -2
    for j, cls in enumerate(REAL_FOLD):
        nfft = both[j % 2]
        yield ("real", {"cls": cls, "x": xi.astype(np.int64), "nfft": nfft, "tag": "input"})
        yield ("real", {"cls": cls, "x": xi.astype(np.int64), "nfft": nfft, "input": "list", "tag": "input"})
        yield ("real", {"cls": cls, "x": xfr, "nfft": both[(j + 1) % 2], "input": "list", "tag": "input"})
        if not quick:
            yield ("real", {"cls": cls, "x": xi.astype(np.int32), "nfft": both[(j + 1) % 2], "tag": "input"})
    # 7. special shifts: none, half a period, more than one period in either direction; real samples declared complex
    xm = _cx(nrng, 40)
    xmr = _rx(nrng, 40).astype(complex)
    for cls in C.CLASSES:
        for nfft in both:
            for m in (0, nfft // 2, nfft + 3, -nfft - 3):
                yield ("shift", {"cls": cls, "x": xm, "nfft": nfft, "m": m, "tag": "special-m"})
            yield ("shift", {"cls": cls, "x": xmr, "nfft": nfft, "m": nfft // 2, "tag": "real-as-complex"})


MOD_FNS = ["ma", "minvar", "corrgramd", "corrgram", "mtm-unity", "mtm-eigen"]


def _gen_mod(nrng, tier):
    """correspondence of the MA, minimum-variance, correlogram and multitaper functions with the model on modulated inputs"""
    for i in range(36 if tier == "quick" else 480):
        fn = MOD_FNS[i % 6]
        j = i // 6
        nfft = [32, 33, 48][j % 3]
        q = {"fn": fn, "x": nrng.standard_normal(24) + 1j * nrng.standard_normal(24), "nfft": nfft, "m": int(nrng.integers(-nfft, nfft))}
        if fn == "ma":
            q["Q"] = 1 + (j // 3) % 3
            q["M"] = q["Q"] + 2 + (j // 9) % 4
        elif fn == "minvar":
            q["order"] = 2 + (j // 3) % 5
            q["fs"] = [1.0, 250.0][(j // 15) % 2]
        elif fn in ("corrgram", "corrgramd"):
            q["lag"] = 1 + (j // 3) % 11
            q["window"] = ["hamming", "rectangular", "hann", "bartlett"][(j // 33) % 4 if tier != "quick" else j % 4]
        else:
            q["NW"], q["k"] = [(2.5, 4), (2.0, 3), (3.0, 5)][(j // 3) % 3]
        yield ("mod", q)


def gen(rng, nrng, tier):
    N = 40
    n = np.arange(N)
    reps = 2 if tier == "quick" else 20
    for r in range(reps):
        x = (nrng.standard_normal(N) + 1j * nrng.standard_normal(N) + 2 * np.exp(2j * np.pi * 0.11 * n) + np.exp(-2j * np.pi * 0.3 * n))
        xr = nrng.standard_normal(N) + np.cos(0.9 * n)
        for cls in C.CLASSES:
            for nfft in (64, 65):
                ms = [1, int(nrng.integers(2, nfft)), -3] if tier == "quick" else [1, 7, -3, nfft // 2, int(nrng.integers(2, nfft))]
                for m in ms[: (2 if tier == "quick" else 5)]:
                    yield ("shift", {"cls": cls, "x": x, "nfft": nfft, "m": m})
                yield ("real", {"cls": cls, "x": xr, "nfft": nfft})
    # random configurations of every class (orders, lags, taper counts)
    for i in range(28 if tier == "quick" else 400):
        cls = C.CLASSES[i % len(C.CLASSES)]
        cfg = C.random_cfg(nrng, cls, 40, boundary=False)
        nfft = max([64, 65][i % 2], C.min_nfft(cls, 40, cfg))
        xx = nrng.standard_normal(40) + 1j * nrng.standard_normal(40) + 2 * np.exp(2j * np.pi * 0.11 * np.arange(40))
        yield ("shift", {"cls": cls, "x": xx, "nfft": nfft, "m": int(nrng.integers(1, nfft)), "cfg": cfg})
        yield ("real", {"cls": cls, "x": nrng.standard_normal(40) + np.cos(0.9 * np.arange(40)), "nfft": nfft, "cfg": cfg})
    # ARMA with P < Q, P > Q and P = Q (the lag sequence handed to the solver is built differently in the three cases)
    for i, (P_, Q_, lag_) in enumerate([(2, 4, 10), (1, 3, 8), (3, 1, 8), (2, 2, 8), (2, 3, 9), (1, 2, 6)]):
        if tier == "quick" and i >= 4:
            break
        xx = nrng.standard_normal(48) + 1j * nrng.standard_normal(48) + 2 * np.exp(2j * np.pi * 0.11 * np.arange(48))
        cfg = {"order": P_, "Q": Q_, "lag": lag_}
        yield ("shift", {"cls": "parma", "x": xx, "nfft": [64, 65][i % 2], "m": int(nrng.integers(1, 60)), "cfg": cfg})
        yield ("real", {"cls": "parma", "x": nrng.standard_normal(48) + np.cos(0.9 * np.arange(48)), "nfft": [64, 65][i % 2], "cfg": cfg})
    # every window name through the Fourier classes (the window is part of the estimator's configuration)
    from spectrum.window import window_names
    wn = sorted(window_names)
    xw = nrng.standard_normal(33) + 1j * nrng.standard_normal(33)
    xwr = nrng.standard_normal(33)
    for j, name in enumerate(wn):
        if tier == "quick" and j % 2 == (0 if True else 1) and name not in ("flattop", "tukey", "taylor", "chebwin", "kaiser"):
            continue
        for cls in ("Periodogram", "pcorrelogram"):
            cfg = {"window": name, "lag": 5}
            yield ("shift", {"cls": cls, "x": xw, "nfft": [64, 75][j % 2], "m": 3, "cfg": cfg})
            yield ("real", {"cls": cls, "x": xwr, "nfft": [64, 75][j % 2], "cfg": cfg})
    # long complex records (N >= 256) through the correlation-based classes
    NL = 300
    nl = np.arange(NL)
    xl = nrng.standard_normal(NL) + 1j * nrng.standard_normal(NL) + 2 * np.exp(2j * np.pi * 0.11 * nl)
    for cls in (("pyule", "pma", "parma", "pcorrelogram") if tier == "quick" else C.CLASSES):
        for nfft in ((512,) if tier == "quick" else (512, 301)):
            yield ("shift", {"cls": cls, "x": xl, "nfft": nfft, "m": 5})
    # all residues for a small NFFT (periodogram and Burg)
    xs = nrng.standard_normal(10) + 1j * nrng.standard_normal(10)
    for nfft in (12, 13):
        for m in range(nfft):
            for cls in ("Periodogram", "pburg"):
                yield ("shift", {"cls": cls, "x": xs, "nfft": nfft, "m": m})
    k = 30 if tier == "quick" else 400
    for i in range(k):
        x = nrng.standard_normal(24) + 1j * nrng.standard_normal(24)
        nfft = [32, 33, 48][i % 3]
        yield ("mod", {"fn": ["burg", "aryule", "sper"][i % 3], "x": x, "nfft": nfft, "m": int(nrng.integers(-nfft, nfft)), "order": 4})
    yield from _gen_mod(nrng, tier)
    yield from _gen_closure(nrng, tier)
