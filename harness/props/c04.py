"""C04  Frequency-shift covariance and conjugate symmetry of two-sided spectra."""
import numpy as np

import proto
import classes as C
from common import rel

TRUSTED_BASE = [
    "the shift / conjugation / fold theorems are about the model; the tie to the code is the per-estimator correspondence (own "
    "properties) plus, here, the correspondence on MODULATED inputs (periodogram, Burg, Yule-Walker, MA, minimum variance, "
    "correlogram from the data and from the library's lags, multitaper unity / eigen; multitaper adapt / unity / eigen on a re-used "
    "object: kind 'modhist') and the class-glue correspondence",
    "SVD-based estimators: relative to the SVD contract; checked by the oracle",
    "records longer than the grid (NFFT < N; periodogram, multitaper class, pmtm function): the relations asserted (rotation, mirror, "
    "fold) are those of the statement and hold whether the samples beyond NFFT are dropped or aliased onto the grid; the "
    "correspondence cases ('mod' / 'modhist' with NFFT < N) additionally pin the unchanged behaviour, numpy.fft.fft's truncation "
    "to the first NFFT samples, which is what the Lean model's DFT defines (Model/DFT.lean dftBin)",
    "kind 'pmtmfn': the estimate is assembled from pmtm's return values by the harness the way MultiTapering.run does "
    "(mean over the tapers of weights x |Sk|^2)",
    "the oracle's references are numpy expressions of the statement itself: np.roll(p0, m), p0[(-k) % NFFT], 2 * pc[:L] with "
    "L = NFFT/2+1 (even) or (NFFT+1)/2 (odd), and the lengths NFFT / L; both sides of each relation come from the library",
    "kind 'hist': the harness drives the object only through its public surface (constructor, `data` / `NFFT` attribute assignment, "
    "`p()`, `p.run()`, `.psd`) and copies every estimate it reads",
]
PARTIAL = ["MUSIC/EV relative to the SVD parameter"]
ASSUMPTIONS = [
    "orders in domain (pcovar order <= N/2-1, pmodcovar order <= N/2-1, pburg order <= N-2, lag < N, NW < N/2; the underdetermined "
    "pcovar order N/2 and pmodcovar order 2N/3 are not generated); tolerance 1e-6 relative (1e-5 for covariance / ARMA least-squares "
    "and MUSIC / EV paths), max-norm relative to the peak AND per bin relative to the bin (bins above 1e-12 of the peak)",
    "NFFT admissible for the class (classes.min_nfft): 2*lag+1 for the correlogram, 2*order for minimum variance, model order + 1 for the "
    "parametric classes; for the periodogram and the multitaper class / pmtm function any NFFT >= 12 is generated: with NFFT < N they "
    "estimate from the first NFFT samples, where the shift, mirror and real-fold clauses are asserted and the time-reversal clause is "
    "not (an estimator that keeps one end of the record is not invariant under time reversal; observed difference ~1)",
    "pburg order-selection criteria AIC, AICc, KIC, AKICc, FPE, MDL ('CAT' is rejected by the constructor and is not generated)",
    "kind 'hist' (objects with a past): same tolerances; 3e-6 for the time-reversal relation of the adaptive multitaper class (taper "
    "asymmetry of ~1e-10 carried into bins 100 dB down by the adaptive weights: 5.5e-8 measured on new objects); line records of parma "
    "have a noise floor of 1e-1 and those of order-12 Burg 1e-2 (round-off of the unchanged estimators grows as floor^-4 / floor^-2: "
    "parma reaches 1.5e-4 at floor 1e-3 on new objects, which is conditioning, not a broken relation); the record estimated in between "
    "has N-7 samples (in the domain of every generated configuration; not generated with caller-supplied tapers, which fix N), the "
    "3-sample record may make the evaluation raise: the error is swallowed, only the later estimates are compared",
]
RULE = ("complex/real data x integer shifts m (all residues for small NFFT; 0, NFFT/2, beyond one period both ways, random otherwise) x "
        "14 class variants x NFFT even/odd, NFFT <, =, > N, at the admissibility boundary, None and 'nextpow2'; N in 2..5, 12, 20, 24, 32, "
        "33, 40, 41, 48, 107, 300; orders random and at the boundary of the domain; ARMA P <= 4 and P > 4; constructor options (Burg "
        "criteria, Yule-Walker unbiased, MUSIC/EV criteria / threshold, multitaper supplied tapers / default k); fs=250 with "
        "scale_by_freq; integer-array and list input; conjugation, time reversal, real-vs-declared-complex (with output lengths); "
        "kind 'hist': the same clauses with the spectra observed on estimator objects that have a past -- ONE object per class whose "
        "data is re-assigned (x then the transformed record, the transformed record then x, x again = rotation by 0 bins; read through "
        ".psd, after p(), after p.run(); records assigned as arrays or lists; a record of another length or a 3-sample record "
        "estimated in between), one object per record all alive before the first evaluation and evaluated in a permuted order, one "
        "object whose NFFT attribute is changed between observations (even <-> odd, shorter <-> longer, away and back); 14 class "
        "variants + 11 further configurations (adaptive multitaper NW=4 k=7 / default k / supplied tapers, Burg criteria, unbiased "
        "Yule-Walker, MUSIC/EV criteria); N = 48, 64, 96, NFFT = N, 2N+1, random even; records with a LINE spectrum (2-3 tones "
        "off the bin grid over a noise floor of 1e-2 / 1e-3 of the strongest tone; parma 1e-1, order-12 Burg 1e-2) and noise "
        "records, complex and real, compared per bin; kind 'modhist': multitaper objects (adapt, unity, eigen; N = 24, 32, 48) that "
        "estimated x and are then handed the modulated record: weights and psd against the Lean model of pmtm + class mean; "
        "NFFT < N for the estimators that transform the record itself (family 'short-grid': Periodogram with 4 windows, MultiTapering "
        "unity / eigen / adapt with 5 taper configurations incl. supplied tapers and default k): N not a multiple of NFFT (64/48, 100/32, "
        "90/37, 65/64, N/(N-1), random N/2 < NFFT < N) and N a multiple of NFFT (96/48, 128/32, 99/33, random), shifts with m*N/NFFT not "
        "an integer, noise and line records, fs / scale_by_freq, list input -- shift, mirror and real-fold clauses on new objects and "
        "on objects with a past (data re-assigned; NFFT attribute moved from >= N to < N and between two short grids; several alive), "
        "correspondence of speriodogram / pmtm / the re-used MultiTapering object with the Lean model on modulated records longer than "
        "the grid; kind 'pmtmfn': the same clauses on the estimate assembled from the return values of the FUNCTION pmtm (each "
        "eigenspectrum and the weighted mean), NFFT below / at / above N and NFFT=None (the function's default max(256, 2**nextpow2(N))), "
        "tapers computed or supplied, complex and real records")

TIMEREV = ["Periodogram", "pcorrelogram", "pyule", "pburg", "pmodcovar", "MT-unity", "MT-eigen", "MT-adapt", "pminvar"]
REAL_FOLD = ["pburg", "pyule", "pcovar", "pmodcovar", "parma", "pma", "pminvar", "MT-unity", "MT-eigen", "MT-adapt"]


_CFG = {}


def _set_cfg(p):
    """the configuration of the case under evaluation, read by `_psd`: estimator parameters, sampling / scaling options and
    the NFFT argument as handed to the constructor (an integer, None or 'nextpow2')"""
    _CFG["cfg"] = p.get("cfg")
    _CFG["fs"] = float(p.get("fs", 1.0))
    _CFG["scale"] = bool(p.get("scale", False))
    _CFG["nfft_spec"] = p.get("nfft_spec")


def _clear_cfg():
    _CFG["cfg"] = None
    _CFG["fs"] = 1.0
    _CFG["scale"] = False
    _CFG["nfft_spec"] = None


def _make(cls, x, nfft, fs, scale, cfg):
    """`classes.make`, plus the constructor options it does not pass: pyule(norm=...), pmusic/pev with NSIG=None and a
    criterion or a threshold, MultiTapering with the tapers / concentrations supplied by the caller"""
    s = C.sp()
    kw = dict(NFFT=nfft, sampling=fs, scale_by_freq=scale)
    if cfg:
        if cls == "pyule" and "norm" in cfg:
            return s.pyule(x, cfg["order"], norm=cfg["norm"], **kw)
        if cls in ("pmusic", "pev") and cfg.get("nsig") is None and ("eig_criteria" in cfg or "threshold" in cfg):
            f = s.pmusic if cls == "pmusic" else s.pev
            if "threshold" in cfg:
                return f(x, cfg["order"], NSIG=None, threshold=cfg["threshold"], **kw)
            return f(x, cfg["order"], NSIG=None, criteria=cfg["eig_criteria"], **kw)
        if cls.startswith("MT-") and cfg.get("supplied"):
            from spectrum.mtm import dpss
            v, e = dpss(len(x), cfg["NW"], cfg["k"])
            return s.MultiTapering(x, e=e, v=v, method=cls[3:], **kw)
    return C.make(cls, x, nfft, fs, scale, cfg)


def _psd(cls, x, nfft):
    spec = _CFG.get("nfft_spec")
    arg = nfft if spec is None else {"none": None, "nextpow2": "nextpow2"}[spec]
    return np.asarray(_make(cls, x, arg, _CFG.get("fs", 1.0), _CFG.get("scale", False), _CFG.get("cfg")).psd)


def _truncates(cls, nfft, N):
    """NFFT < N for an estimator that transforms the (windowed / tapered) record itself with `numpy.fft.fft(., NFFT)`: the
    periodogram and the multitaper classes then estimate from the FIRST NFFT samples only.  The shift, mirror and fold clauses are
    stated for every NFFT and hold there (modulation by exp(2 pi i m n/NFFT), conjugation and the real / declared-complex pair act
    sample by sample, so they commute with dropping samples); the time-reversal clause is stated for estimators that are invariant
    under time reversal, which an estimator that keeps one END of the record is not (reversal hands it the other end: relative
    difference ~1 on the unchanged code), so that clause is asserted for NFFT >= N only.  The correlation-based and parametric
    classes use the whole record whatever NFFT is: nothing is excluded for them."""
    return nfft < N and (cls == "Periodogram" or str(cls).startswith("MT-"))


BIN_FLOOR = 1e-12      # the per-bin comparison uses the same tolerance as the max-norm one, on bins above this share of the peak


def binrel(a, b):
    """largest per-bin relative difference |a-b|/max(|a|,|b|) over the bins where both values exceed BIN_FLOOR of the peak"""
    a = np.asarray(a)
    b = np.asarray(b)
    if a.shape != b.shape or np.iscomplexobj(a) or np.iscomplexobj(b):
        return float("inf")
    if a.size == 0:
        return 0.0
    if not (np.all(np.isfinite(a)) and np.all(np.isfinite(b))):
        return float("inf")
    aa, bb = np.abs(a), np.abs(b)
    peak = max(float(np.max(aa)), float(np.max(bb)))
    mk = (aa > BIN_FLOOR * peak) & (bb > BIN_FLOOR * peak)
    if peak == 0.0 or not np.any(mk):
        return 0.0
    return float(np.max(np.abs(a - b)[mk] / np.maximum(aa, bb)[mk]))


def oracle_shift(p):
    _set_cfg(p)
    try:
        return _oracle_shift(p)
    finally:
        _clear_cfg()


def _oracle_shift(p):
    cls, x, nfft, m = p["cls"], np.asarray(p["x"]), p["nfft"], p["m"]
    n = np.arange(len(x))
    p0 = _psd(cls, x, nfft)
    y = x * np.exp(2j * np.pi * m * n / nfft)
    p1 = _psd(cls, y, nfft)
    tol = 1e-5 if cls in ("pcovar", "pmodcovar", "parma", "pmusic", "pev") else 1e-6
    out = []
    if p0.ndim != 1 or len(p0) != nfft or len(p0) != C.expected_len(False, nfft):
        out.append("%s (NFFT=%d): the two-sided estimate of complex data has %s values, not NFFT" % (cls, nfft, p0.shape))
    if p1.shape != p0.shape or np.iscomplexobj(p1) or rel(p1, np.roll(p0, m)) > tol:
        out.append("%s (NFFT=%d): multiplying sample n by exp(2 pi i m n/NFFT), m=%d, does not rotate the two-sided estimate by m bins "
                   "(rel err %.2e)" % (cls, nfft, m, rel(p1, np.roll(p0, m)) if p1.shape == p0.shape and not np.iscomplexobj(p1) else float("inf")))
    elif binrel(p1, np.roll(p0, m)) > tol:
        out.append("%s (NFFT=%d): modulated data, m=%d: some bin of the rotated estimate differs (per-bin rel err %.2e)" % (
            cls, nfft, m, binrel(p1, np.roll(p0, m))))
    pc = _psd(cls, np.conj(x), nfft)
    mir = p0[(-np.arange(len(p0))) % len(p0)]
    if pc.shape != p0.shape or rel(pc, mir) > tol:
        out.append("%s (NFFT=%d): conjugating the data does not mirror the estimate (bin k <-> -k)" % (cls, nfft))
    elif binrel(pc, mir) > tol:
        out.append("%s (NFFT=%d): conjugated data: some bin of the mirrored estimate differs (per-bin rel err %.2e)" % (
            cls, nfft, binrel(pc, mir)))
    if cls in TIMEREV and not _truncates(cls, nfft, len(x)):
        pr = _psd(cls, np.conj(x[::-1]), nfft)
        if pr.shape != p0.shape or rel(pr, p0) > tol:
            out.append("%s (NFFT=%d): conjugated time-reversed data give a different spectrum (rel err %.2e)" % (
                cls, nfft, rel(pr, p0) if pr.shape == p0.shape else float("inf")))
        elif binrel(pr, p0) > tol:
            out.append("%s (NFFT=%d): conjugated time-reversed data: some bin differs (per-bin rel err %.2e)" % (
                cls, nfft, binrel(pr, p0)))
    if nfft < len(x):
        out = [o + " [record of N=%d samples, longer than the grid]" % len(x) for o in out]
    return out


def oracle_real(p):
    _set_cfg(p)
    try:
        return _oracle_real(p)
    finally:
        _clear_cfg()


def _as_input(xr, how):
    """the object handed to the constructor for the real record: the array itself, or a plain Python list of its values"""
    if how == "list":
        return xr.tolist()
    return xr


def _oracle_real(p):
    cls, xr, nfft = p["cls"], np.asarray(p["x"]), p["nfft"]
    how = p.get("input")
    out = []
    tol = 1e-5 if cls in ("pcovar", "pmodcovar", "parma") else 1e-6
    pr = _psd(cls, _as_input(xr, how), nfft)
    if cls in REAL_FOLD:
        pc = _psd(cls, xr.astype(complex), nfft)
        L = C.expected_len(True, nfft)
        if pr.ndim != 1 or len(pr) != L:
            out.append("%s (NFFT=%d): the one-sided estimate of real data has %s values, expected %d" % (cls, nfft, pr.shape, L))
        if pc.ndim != 1 or len(pc) != nfft:
            out.append("%s (NFFT=%d): the two-sided estimate of the samples declared complex has %s values, not NFFT" % (
                cls, nfft, pc.shape))
        if not out:
            if rel(pr, 2 * pc[:L]) > tol:
                out.append("%s (NFFT=%d): real one-sided estimate is not twice the first half of the two-sided estimate of the same samples "
                           "declared complex (median ratio %.4f)" % (cls, nfft, float(np.median(pr / pc[:L]))))
            elif binrel(pr, 2 * pc[:L]) > tol:
                out.append("%s (NFFT=%d): real one-sided estimate: some bin is not twice the two-sided one (per-bin rel err %.2e)" % (
                    cls, nfft, binrel(pr, 2 * pc[:L])))
            if rel(pc[1:], pc[1:][::-1]) > tol:
                out.append("%s (NFFT=%d): two-sided estimate of real samples is not symmetric" % (cls, nfft))
            elif binrel(pc[1:], pc[1:][::-1]) > tol:
                out.append("%s (NFFT=%d): two-sided estimate of real samples: some bin k differs from bin -k (per-bin rel err %.2e)" % (
                    cls, nfft, binrel(pc[1:], pc[1:][::-1])))
    if cls in TIMEREV and not _truncates(cls, nfft, len(xr)):
        prr = _psd(cls, _as_input(xr[::-1].copy(), how), nfft)
        if rel(prr, pr) > tol:
            out.append("%s (NFFT=%d): time-reversed real data give a different spectrum" % (cls, nfft))
        elif binrel(prr, pr) > tol:
            out.append("%s (NFFT=%d): time-reversed real data: some bin differs (per-bin rel err %.2e)" % (cls, nfft, binrel(prr, pr)))
    if nfft < len(xr):
        out = [o + " [record of N=%d samples, longer than the grid]" % len(xr) for o in out]
    return out


# histories: the same four clauses, with the spectra observed on estimator objects that have a past
#
# The property's observation point is `<estimator>.psd for x, x*exp(i theta n), conj(x), conj(x[::-1])`.  The kinds above build a
# new object for every record; an estimate may however depend on what the object (or the process) computed before.  The kind
# below observes the records
#   mode 'reuse' : on ONE object per class whose `data` attribute is re-assigned (read through `.psd`, after `p()`, after
#                  `p.run()`), in both orders (x then the transformed record; the transformed record then x), and x once more
#                  at the end (rotation by m = 0 bins);
#   mode 'alive' : on one object per record, all constructed before any of them is evaluated, evaluated in a permuted order
#                  (same N / NFFT / configuration, different records: state shared between instances, incompletely keyed caches);
#   mode 'nfft'  : on one object built and evaluated with another NFFT first, whose NFFT attribute is then changed (and, for
#                  the conjugate clause, changed away and back without an evaluation in between).
# Real records: the fold clause (one-sided = 2 x two-sided half of the same samples declared complex) and time reversal, same modes.

HIST_LOOSE = ("pcovar", "pmodcovar", "parma", "pmusic", "pev")


def _build(cls, x, nfft):
    return _make(cls, x, nfft, _CFG.get("fs", 1.0), _CFG.get("scale", False), _CFG.get("cfg"))


def _observe(obj, via):
    """the estimate as the caller reads it: `.psd` (lazy evaluation), after an explicit `obj()`, or after `obj.run()`"""
    if via == "call":
        obj()
    elif via == "run":
        obj.run()
    return np.array(obj.psd)        # a copy: the object may scale / convert its own array later


def _mirror(a):
    return a[(-np.arange(len(a))) % len(a)] if a.ndim == 1 and len(a) else a


def _hist_relations(p):
    """[(label, observed, expected)]: every pair must agree; both members come from the library"""
    cls, x, nfft, mode = p["cls"], np.asarray(p["x"]), p["nfft"], p["mode"]
    via, seq = p.get("via", "psd"), p.get("seq", "fwd")
    N = len(x)
    out = []
    if np.iscomplexobj(x):
        m = p["m"]
        recs = {"x": x, "shift": x * np.exp(2j * np.pi * m * np.arange(N) / nfft), "conj": np.conj(x)}
        if cls in TIMEREV and not _truncates(cls, nfft, N):
            recs["rev"] = np.conj(x[::-1])

        def relate(P, name, tag=""):
            P0 = P["x"]
            if name == "shift":
                out.append(("modulated data, m=%d%s" % (m, tag), P["shift"], np.roll(P0, m) if P0.ndim == 1 else P0))
            elif name == "conj":
                out.append(("conjugated data (mirror k <-> -k)" + tag, P["conj"], _mirror(P0)))
            elif name == "rev":
                out.append(("conjugated time-reversed data" + tag, P["rev"], P0))
    else:
        recs = {"x": x}
        if cls in REAL_FOLD:
            recs["cplx"] = x.astype(complex)
        if cls in TIMEREV and not _truncates(cls, nfft, N):
            recs["rev"] = x[::-1].copy()

        def relate(P, name, tag=""):
            P0 = P["x"]
            if name == "cplx":
                L = C.expected_len(True, nfft)
                Pc = P["cplx"]
                if P0.ndim != 1 or len(P0) != L or Pc.ndim != 1 or len(Pc) != nfft:
                    out.append(("output lengths (one-sided, two-sided)" + tag, np.array([P0.size, Pc.size], dtype=float),
                                np.array([L, nfft], dtype=float)))
                else:
                    out.append(("real one-sided vs twice the two-sided half of the samples declared complex" + tag, P0, 2 * Pc[:L]))
                    out.append(("two-sided estimate of real samples, bin k vs -k" + tag, Pc[1:], Pc[1:][::-1]))
            elif name == "rev":
                out.append(("time-reversed real data" + tag, P["rev"], P0))
    names = [k for k in recs if k != "x"]
    if mode == "alive":
        keys = list(recs)
        perm = [int(i) % len(keys) for i in p.get("perm", range(len(keys)))]
        perm = [i for j, i in enumerate(perm) if i not in perm[:j]] + [i for i in range(len(keys)) if i not in perm]
        objs = {k: _build(cls, recs[k], nfft) for k in keys}            # all alive before the first evaluation
        P = {}
        for i in perm:
            P[keys[i]] = _observe(objs[keys[i]], via)
        for k in names:
            relate(P, k)
        # evaluated a second time while the others are alive: rotation by 0 bins
        out.append(("same record, second evaluation", _observe(objs["x"], "call"), P["x"]))
        return out
    if mode == "nfft":
        obj = _build(cls, x, p["nfft0"])
        _observe(obj, via)
        obj.NFFT = nfft
        P = {"x": _observe(obj, via)}
        for k in names:
            if k == "conj":
                obj.NFFT = p["nfft0"]       # changed away and back, no evaluation in between
                obj.NFFT = nfft
            obj.data = recs[k]
            P[k] = _observe(obj, via)
            relate(P, k)
        out.append(("same record on a new object (rotation by 0 bins)", P["x"], _observe(_build(cls, x, nfft), "psd")))
        return out
    # mode 'reuse'
    as_list = p.get("input") == "list"

    def assign(obj, rec):
        obj.data = rec.tolist() if as_list else rec

    def detour(obj):
        """between two observations the object estimates something else: a record of another length ('len': N-7 samples, in the
        domain of every generated configuration), or a record of 3 samples, for which the evaluation may raise ('fail': the
        error is the caller's to handle; the object is used again afterwards)"""
        d = p.get("detour")
        if d == "len":
            assign(obj, 1.5 * x[::-1][:N - 7] + x[0])
            _observe(obj, via)
        elif d == "fail":
            assign(obj, x[:3])
            try:
                _observe(obj, via)
            except Exception:
                pass

    if seq == "fwd":
        obj = _build(cls, x, nfft)
        P = {"x": _observe(obj, via)}
        for k in names:
            detour(obj)
            assign(obj, recs[k])
            P[k] = _observe(obj, via)
            relate(P, k)
        assign(obj, x)
        out.append(("the first record again (rotation by 0 bins)", _observe(obj, via), P["x"]))
        out.append(("evaluated once more, data untouched", _observe(obj, "call"), P["x"]))
    else:
        for k in names:
            obj = _build(cls, recs[k], nfft)
            P = {k: _observe(obj, via)}
            detour(obj)
            assign(obj, x)
            P["x"] = _observe(obj, via)
            relate(P, k, " (transformed record first)")
    return out


def oracle_hist(p):
    _set_cfg(p)
    try:
        rels = _hist_relations(p)
    finally:
        _clear_cfg()
    cls, nfft = p["cls"], p["nfft"]
    # Tolerances: those of the new-object kinds (1e-6; 1e-5 for the least-squares / SVD classes), max-norm and per bin.  Measured on
    # the unchanged code with `gen_hist` itself (40 quick streams = 11 880 cases, and 12 thorough streams = 13 800 cases; line and
    # noise records, all modes), worst error of any relation, max-norm or per bin, per class:
    #   Periodogram 1.3e-9, pcorrelogram 9.3e-11, pburg 4.5e-9 (order 12 + criterion at floor 1e-2: 7.5e-10), pyule 1.2e-9,
    #   pminvar 1.2e-9, pma 1.7e-12, MT-unity 3.9e-10, MT-eigen 2.3e-10, MT-adapt 6.6e-9 (shift / mirror / fold / rotation by 0)
    #   -> all >= 150x below 1e-6;   pcovar 6.8e-10, pmodcovar 8.1e-10, parma 2.6e-9 (floor 1e-1), pmusic 2.8e-9, pev 1.7e-11
    #   -> >= 3000x below 1e-5.
    # One relation gets its own tolerance: time reversal of the adaptive multitaper estimate.  The C-computed tapers are
    # symmetric to ~1e-10 only, and the adaptive weights carry that into bins 100 dB below the peak: 1.6e-8 per bin in the streams
    # above, 5.5e-8 the worst over 3000 further line records on NEW objects (N=96, NFFT=96); 3e-6 leaves 55x.
    tol = 1e-5 if cls in HIST_LOOSE else 1e-6
    what = "%s (NFFT=%d%s), %s" % (cls, nfft, ", record of N=%d samples" % len(p["x"]) if nfft < len(p["x"]) else "", _hist_label(p))
    out = []
    tol0 = tol
    for label, a, b in rels:
        a, b = np.asarray(a), np.asarray(b)
        tol = 3e-6 if (cls == "MT-adapt" and "time-reversed" in label) else tol0
        if a.shape != b.shape or np.iscomplexobj(a) or np.iscomplexobj(b):
            out.append("%s: %s: shapes %s / %s" % (what, label, a.shape, b.shape))
        elif rel(a, b) > tol:
            out.append("%s: %s: estimate differs (rel err %.2e)" % (what, label, rel(a, b)))
        elif binrel(a, b) > tol:
            out.append("%s: %s: some bin differs (per-bin rel err %.2e)" % (what, label, binrel(a, b)))
    return out


def _hist_label(p):
    mode = p["mode"]
    via = {"psd": ".psd", "call": "p(); p.psd", "run": "p.run(); p.psd"}[p.get("via", "psd")]
    if mode == "reuse":
        return "one estimator object, data re-assigned%s (%s, read through %s)%s" % (
            " as a list" if p.get("input") == "list" else "",
            "x first" if p.get("seq", "fwd") == "fwd" else "transformed record first", via,
            {None: "", "len": ", a record of N-7 samples estimated in between",
             "fail": ", a record of 3 samples tried in between"}[p.get("detour")])
    if mode == "alive":
        return "one object per record, all alive, evaluation order %s (%s)" % (list(p.get("perm", [])), via)
    return "one estimator object, NFFT changed from %d (%s)" % (p["nfft0"], via)


# correspondence on modulated inputs

def _modulated(p):
    x = np.asarray(p["x"])
    n = np.arange(len(x))
    return x * np.exp(2j * np.pi * p["m"] * n / p["nfft"])


def _c(v):
    return np.asarray(v).astype(complex).ravel()


def _corr_window(name, lag):
    from spectrum.window import Window
    return np.asarray(Window(2 * lag + 1, name).data)[lag + 1:]


def _tapers(N, NW, k):
    from spectrum.mtm import dpss
    v, e = dpss(N, NW, k)
    return np.asarray(v), np.asarray(e)


def impl_mod(p):
    sp = C.sp()
    y = _modulated(p)
    fn = p["fn"]
    if fn == "burg":
        a, rho, k = sp.arburg(y, p["order"])
        return [np.asarray(a, dtype=complex), np.array([rho], dtype=complex), np.asarray(k, dtype=complex)]
    if fn == "aryule":
        a, rho, k = sp.aryule(y, p["order"])
        return [np.asarray(a, dtype=complex), np.array([rho], dtype=complex), np.asarray(k, dtype=complex)]
    if fn == "ma":
        b, rho = sp.ma(y, p["Q"], p["M"])
        return [_c(b), _c([rho])]
    if fn == "minvar":
        psd, A, k = sp.minvar(y, p["order"], sampling=p["fs"], NFFT=p["nfft"])
        return [np.asarray(psd), _c(A), _c(k)]
    if fn in ("corrgram", "corrgramd"):
        return [np.asarray(sp.CORRELOGRAMPSD(y, None, lag=p["lag"], window=p["window"], NFFT=p["nfft"]))]
    if fn in ("mtm-unity", "mtm-eigen"):
        Sk, w, ev = sp.pmtm(y, NW=p["NW"], k=p["k"], NFFT=p["nfft"], method=fn[4:], show=False)
        Sk = np.asarray(Sk)
        P = sp.MultiTapering(y, NW=p["NW"], k=p["k"], NFFT=p["nfft"], method=fn[4:], scale_by_freq=False)
        return [Sk[i, :] for i in range(Sk.shape[0])] + [np.asarray(w).ravel(), np.asarray(P.psd)]
    return [np.asarray(sp.speriodogram(y, NFFT=p["nfft"], detrend=False, scale_by_freq=False, window="hamming"))]


def model_mod(p):
    y = _modulated(p)
    fn = p["fn"]
    if fn == "burg":
        return ("F", proto.request("burg", "F", [p["order"], "none"], [y]))
    if fn == "aryule":
        return ("F", proto.request("aryule", "F", [p["order"], "biased"], [y]))
    if fn == "ma":
        return ("F", proto.request("ma", "F", [p["Q"], p["M"]], [y]))
    if fn == "minvar":
        return ("F", proto.request("minvarx", "F", [p["order"], p["nfft"]], [y, [p["fs"]]]))
    if fn == "corrgramd":
        # the lags are computed by the model from the modulated data (CORRELOGRAMPSD's default norm is 'unbiased')
        return ("F", proto.request("corrgramd", "F", [p["lag"], p["nfft"], "unbiased"], [y, y, _corr_window(p["window"], p["lag"])]))
    if fn == "corrgram":
        # the lags 0..lag come from the library's other back-end; the model assembles the Hermitian lag sequence and transforms
        r = np.asarray(C.sp().CORRELATION(y, maxlags=p["lag"], norm="unbiased"))
        return ("F", proto.request("corrgram", "F", [p["lag"], p["nfft"]], [r, r, _corr_window(p["window"], p["lag"])]))
    if fn in ("mtm-unity", "mtm-eigen"):
        v, e = _tapers(len(y), p["NW"], p["k"])
        return ("F", proto.request("mtm", "F", [fn[4:], p["nfft"]], [y, e, [0.0005]] + [v[:, i] for i in range(v.shape[1])]))
    from spectrum.window import Window
    w = np.asarray(Window(len(y), "hamming").data)
    return ("F", proto.request("sper", "F", [0, p["nfft"]], [y, w]))


# the multitaper class on a re-used object against the model: the object estimates x, is handed the modulated record, and its
# weights and psd are compared with the Lean model of pmtm + class mean evaluated on the modulated record alone (the model knows
# no histories).  For 'adapt' this is Thomson's iteration from its documented start, stopped on the documented criterion.
# rtol 1e-7 (max-norm, as for the 'mod' kind): worst disagreement on the unchanged code over 1200 cases 1.7e-12 (adaptive weights of
# a line record; the weights of the low-power bins are O(1) numbers, so the max-norm sees them), 1.4e-15 on the psd.

def impl_modhist(p):
    sp = C.sp()
    x = np.asarray(p["x"])
    y = _modulated(p)
    P = sp.MultiTapering(x, NW=p["NW"], k=p["k"], NFFT=p["nfft"], method=p["fn"][4:], scale_by_freq=False)
    _observe(P, p.get("via", "psd"))
    P.data = y
    psd = _observe(P, p.get("via", "psd"))
    return [np.asarray(P.weights).ravel(), psd]


def model_modhist(p):
    y = _modulated(p)
    v, e = _tapers(len(y), p["NW"], p["k"])
    return ("F", proto.request("mtm", "F", [p["fn"][4:], p["nfft"]], [y, e, [0.0005]] + [v[:, i] for i in range(v.shape[1])]))


def post_modhist(p, iv, mv):
    return iv, list(mv[-2:])            # the model returns the eigenspectra first; the object exposes weights and psd


# the multitaper estimate through the FUNCTION `pmtm` (eigenspectra, weights, concentrations), the estimate assembled from its
# return values the way the class does (mean over the tapers of weights x |Sk|^2).  NFFT an integer below / at / above N, or left
# to the function's own default (NFFT=None -> max(256, 2**nextpow2(N)), which is NOT the class default N); tapers computed by the
# function or supplied by the caller (e=, v=).

def _pmtm_est(p, x):
    sp = C.sp()
    meth = p["fn"][5:]
    arg = None if p.get("nfft_spec") == "none" else p["nfft"]
    if p.get("supplied"):
        v, e = _tapers(len(x), p["NW"], p["k"])
        Sk, w, ev = sp.pmtm(x, e=e, v=v, NFFT=arg, method=meth, show=False)
    else:
        Sk, w, ev = sp.pmtm(x, NW=p["NW"], k=p["k"], NFFT=arg, method=meth, show=False)
    SkA = np.abs(np.asarray(Sk)) ** 2
    w = np.asarray(w)
    est = np.mean(SkA.T * w, axis=1) if meth == "adapt" else np.mean(SkA * w, axis=0)
    return SkA, np.asarray(est)


def oracle_pmtmfn(p):
    x, nfft = np.asarray(p["x"]), p["nfft"]
    N = len(x)
    what = "pmtm(method=%r, NFFT=%s%s), N=%d" % (p["fn"][5:], "None" if p.get("nfft_spec") == "none" else nfft,
                                                ", tapers supplied" if p.get("supplied") else "", N)
    # tolerance 1e-6, max-norm and per bin, as for the class (kind 'shift'); measured on the unchanged code (all relations,
    # eigenspectra and assembled estimate, NFFT below / at / above N, line and noise records, the runner's amplitude /
    # degenerate / stride variants included): see the table at `gen_short_grid`
    tol = 1e-6
    out = []
    S0, e0 = _pmtm_est(p, x)
    if S0.ndim != 2 or S0.shape[1] != nfft or e0.shape != (nfft,):
        return ["%s: eigenspectra %s / estimate %s, expected NFFT=%d bins" % (what, S0.shape, e0.shape, nfft)]

    def cmp(label, a, b, t=tol):
        if a.shape != b.shape:
            out.append("%s: %s: shapes %s / %s" % (what, label, a.shape, b.shape))
        elif rel(a, b) > t:
            out.append("%s: %s (rel err %.2e)" % (what, label, rel(a, b)))
        elif binrel(a, b) > t:
            out.append("%s: %s: some bin differs (per-bin rel err %.2e)" % (what, label, binrel(a, b)))

    if np.iscomplexobj(x):
        m = p["m"]
        S1, e1 = _pmtm_est(p, x * np.exp(2j * np.pi * m * np.arange(N) / nfft))
        cmp("multiplying sample n by exp(2 pi i m n/NFFT), m=%d, does not rotate the estimate by m bins" % m, e1, np.roll(e0, m))
        if S1.shape == S0.shape:
            for i in range(S0.shape[0]):
                cmp("modulated data, m=%d: eigenspectrum %d is not rotated by m bins" % (m, i), S1[i], np.roll(S0[i], m))
        Sc, ec = _pmtm_est(p, np.conj(x))
        cmp("conjugating the data does not mirror the estimate (bin k <-> -k)", ec, _mirror(e0))
        if Sc.shape == S0.shape:
            for i in range(S0.shape[0]):
                cmp("conjugated data: eigenspectrum %d is not mirrored" % i, Sc[i], _mirror(S0[i]))
        if nfft >= N:
            Sr, er = _pmtm_est(p, np.conj(x[::-1]))
            # 3e-6 for the adaptive weights (taper asymmetry of ~1e-10 carried into low bins, see `oracle_hist`)
            cmp("conjugated time-reversed data give a different estimate", er, e0, 3e-6 if p["fn"] == "pmtm-adapt" else tol)
    else:
        # the function returns all NFFT bins for real samples too: the two-sided estimate of real data is symmetric, equals that
        # of the same samples declared complex, and (NFFT >= N) that of the time-reversed record
        cmp("two-sided estimate of real samples, bin k vs -k", e0[1:], e0[1:][::-1])
        Sc, ec = _pmtm_est(p, x.astype(complex))
        cmp("real samples vs the same samples declared complex", e0, ec)
        if nfft >= N:
            Sr, er = _pmtm_est(p, x[::-1].copy())
            cmp("time-reversed real data give a different estimate", er, e0, 3e-6 if p["fn"] == "pmtm-adapt" else tol)
    return out


def _key(p):
    x = np.asarray(p["x"])
    cfg = p.get("cfg") or {}
    extra = "|".join("%s=%s" % (k, p[k]) for k in ("fs", "scale", "nfft_spec", "input", "order", "Q", "M", "lag", "window", "NW", "k", "mode", "seq", "via", "nfft0", "perm", "detour", "supplied")
                     if k in p)
    return "%s|%s|%s|%s|%s|%d|%s|%s" % (p.get("cls"), p.get("fn"), p.get("nfft"), p.get("m"), cfg.get("window"),
                                       hash(x.tobytes()) & 0xFFFFF, sorted((k, str(v)) for k, v in cfg.items()), extra)


def _tags(p):
    x = np.asarray(p["x"])
    N = len(x)
    nfft = p["nfft"]
    t = ["cls:%s" % p.get("cls", "-"), "fn:%s" % p.get("fn", "-"), "nfft:" + ("odd" if nfft % 2 else "even"),
         "nfft-vs-N:" + ("<" if nfft < N else "=" if nfft == N else ">"),
         "N:" + ("<=5" if N <= 5 else "<=24" if N <= 24 else "<=48" if N <= 48 else "<=107" if N <= 107 else ">=256")]
    if p.get("scale"):
        t.append("fs=%g,scale_by_freq" % p.get("fs", 1.0))
    if p.get("nfft_spec"):
        t.append("NFFT=" + p["nfft_spec"])
    if p.get("input") or x.dtype.kind in "iu":
        t.append("input:%s/%s" % (p.get("input", "array"), x.dtype.kind))
    if p.get("tag"):
        t.append("family:" + p["tag"])
    if nfft < N:
        direct = _truncates(p.get("cls"), nfft, N) or p.get("fn") in ("sper", "mtm-unity", "mtm-eigen", "mtm-adapt", "pmtm-unity",
                                                                      "pmtm-eigen", "pmtm-adapt")
        t.append("NFFT<N:" + ("record transformed directly (first NFFT samples), " if direct else "whole record used, ")
                 + ("N multiple of NFFT" if N % nfft == 0 else "N not a multiple of NFFT"))
    if p.get("mode"):
        t.append("history:%s%s" % (p["mode"], "/" + p.get("seq", "fwd") if p["mode"] == "reuse" else ""))
        t.append("history-read:" + {"psd": ".psd", "call": "p();p.psd", "run": "p.run();p.psd"}[p.get("via", "psd")])
        t.append("history-data:" + ("real" if not np.iscomplexobj(x) else "complex"))
        if p.get("detour"):
            t.append("history-detour:" + p["detour"])
    return t


KINDS = {
    "shift": {"oracle": oracle_shift, "key": _key, "tags": _tags},
    "real": {"oracle": oracle_real, "key": _key, "tags": _tags},
    "hist": {"oracle": oracle_hist, "key": _key, "tags": _tags},
    "pmtmfn": {"oracle": oracle_pmtmfn, "key": _key, "tags": _tags},
    "modhist": {"impl": impl_modhist, "model": model_modhist, "post": post_modhist, "rtol": 1e-7, "atol": 1e-300, "key": _key,
                "tags": _tags},
    "mod": {"impl": impl_mod, "model": model_mod, "rtol": 1e-7, "atol": 1e-300, "key": _key, "tags": _tags},
}


def _cx(nrng, N):
    n = np.arange(N)
    return nrng.standard_normal(N) + 1j * nrng.standard_normal(N) + 2 * np.exp(2j * np.pi * 0.11 * n) + np.exp(-2j * np.pi * 0.3 * n)


def _rx(nrng, N):
    return nrng.standard_normal(N) + np.cos(0.9 * np.arange(N))


def _real_checked(cls):
    return cls in REAL_FOLD or cls in TIMEREV


PARMA_BIG = [(5, 2, 14), (5, 5, 14), (6, 8, 20), (8, 3, 20), (5, 7, 12)]      # P > 4: arma_estimate takes the arcovar branch
BURG_CRITERIA = ["AIC", "AICc", "KIC", "AKICc", "FPE", "MDL"]
NO_NFFT_BELOW_N = ["Periodogram", "MT-unity", "MT-eigen", "MT-adapt"]


def _tiny_cfg(cls, N):
    """order / lag 1 configurations (pminvar order 2, pma Q=1 M=2, MUSIC/EV P=2 NSIG=1) for records of 2..5 samples, or None when
    the record is shorter than the class's documented domain allows (pburg order <= N-2, covariance methods order <= N/2-1,
    lag < N, NW < N/2, 2(N-P) > P-1)"""
    if cls == "Periodogram":
        return {"window": ["hamming", "rectangular"][N % 2]}
    if cls == "pcorrelogram":
        return {"lag": 1, "window": "hamming"}
    if cls == "pyule":
        return {"order": 1}
    if cls == "pburg":
        return {"order": 1} if N >= 3 else None
    if cls in ("pcovar", "pmodcovar"):
        return {"order": 1} if N >= 4 else None
    if cls == "parma":
        return {"order": 1, "Q": 1, "lag": 3} if N >= 4 else None
    if cls == "pma":
        return {"Q": 1, "M": 2} if N >= 3 else None
    if cls == "pminvar":
        return {"order": 2} if N >= 4 else None
    if cls in ("pmusic", "pev"):
        return {"order": 2, "nsig": 1} if N >= 3 else None
    if cls.startswith("MT-"):
        return {"NW": 1.0 if N == 3 else 1.5, "k": 2} if N >= 3 else None
    return None


def _gen_closure(nrng, tier):
    """cases added after the coverage audit: P > 4 ARMA, constructor options, NFFT <= N and at the admissibility boundary,
    NFFT=None / 'nextpow2', boundary orders, odd / tiny / long records, sampling and scale_by_freq, integer and list input,
    special shifts (0, NFFT/2, beyond one period)"""
    quick = tier == "quick"
    both = (64, 65)
    # 1. ARMA with P > 4
    for i, (P_, Q_, lag_) in enumerate(PARMA_BIG):
        cfg = {"order": P_, "Q": Q_, "lag": lag_}
        for nfft in ((both[i % 2],) if quick else both):
            yield ("shift", {"cls": "parma", "x": _cx(nrng, 48), "nfft": nfft, "m": int(nrng.integers(1, nfft)), "cfg": cfg, "tag": "parma-P>4"})
            yield ("real", {"cls": "parma", "x": _rx(nrng, 48), "nfft": nfft, "cfg": cfg, "tag": "parma-P>4"})
    # 2. constructor options that select other code paths
    opts = [("pburg", {"order": 12, "criteria": c}) for c in BURG_CRITERIA]
    opts.append(("pyule", {"order": 4, "norm": "unbiased"}))
    if not quick:
        opts.append(("pyule", {"order": int(nrng.integers(1, 8)), "norm": "unbiased"}))
    for cls in ("pmusic", "pev"):
        opts += [(cls, {"order": 6, "nsig": None, "eig_criteria": "aic"}), (cls, {"order": 6, "nsig": None, "eig_criteria": "mdl"}),
                 (cls, {"order": 6, "nsig": None, "threshold": 3.0})]
    xo, xor_ = _cx(nrng, 40), _rx(nrng, 40)
    for cls, cfg in opts:
        for nfft in both:
            yield ("shift", {"cls": cls, "x": xo, "nfft": nfft, "m": int(nrng.integers(1, nfft)), "cfg": cfg, "tag": "option"})
            if _real_checked(cls):
                yield ("real", {"cls": cls, "x": xor_, "nfft": nfft, "cfg": cfg, "tag": "option"})
    # 4a. NFFT = N (periodogram, multitaper: their smallest admissible NFFT), N even and odd
    for N in (40, 41):
        xa, xar = _cx(nrng, N), _rx(nrng, N)
        for cls in NO_NFFT_BELOW_N:
            yield ("shift", {"cls": cls, "x": xa, "nfft": N, "m": int(nrng.integers(1, N)), "tag": "NFFT=N"})
            yield ("real", {"cls": cls, "x": xar, "nfft": N, "tag": "NFFT=N"})
    # 4b. NFFT < N (parametric, correlogram, MUSIC / EV)
    xb, xbr = _cx(nrng, 40), _rx(nrng, 40)
    for cls in C.CLASSES:
        if cls in NO_NFFT_BELOW_N:
            continue
        for nfft in (11, 16, 17):
            yield ("shift", {"cls": cls, "x": xb, "nfft": nfft, "m": int(nrng.integers(1, nfft)), "tag": "NFFT<N"})
            if _real_checked(cls):
                yield ("real", {"cls": cls, "x": xbr, "nfft": nfft, "tag": "NFFT<N"})
    # 4c. NFFT at the admissibility boundary and one above; 4d. NFFT=None and 'nextpow2'
    for N in ((20,) if quick else (20, 32, 41)):
        xc, xcr = _cx(nrng, N), _rx(nrng, N)
        for j, cls in enumerate(C.CLASSES):
            cfgs = [None] if quick else [None, C.random_cfg(nrng, cls, N, boundary=False)]
            for cfg in cfgs:
                lo = C.min_nfft(cls, N, cfg or C.default_cfg(cls, N, True))
                for nfft in (lo, lo + 1):
                    q = {"cls": cls, "nfft": nfft, "tag": "NFFT-boundary"}
                    if cfg:
                        q["cfg"] = cfg
                    yield ("shift", dict(q, x=xc, m=int(nrng.integers(1, max(2, nfft)))))
                    if _real_checked(cls):
                        yield ("real", dict(q, x=xcr))
                for spec in ("none", "nextpow2"):
                    nfft = C.resolved_nfft(xc, None if spec == "none" else spec)
                    if nfft < lo:
                        continue
                    q = {"cls": cls, "nfft": nfft, "nfft_spec": spec, "tag": "NFFT-" + spec}
                    if cfg:
                        q["cfg"] = cfg
                    yield ("shift", dict(q, x=xc, m=int(nrng.integers(1, nfft))))
                    if _real_checked(cls):
                        yield ("real", dict(q, x=xcr))
    # 5a. extreme admissible orders / lags / taper counts
    for N in (12, 40):
        for rep in range(1 if quick else 3):
            xd, xdr = _cx(nrng, N), _rx(nrng, N)
            for j, cls in enumerate(C.CLASSES):
                cfg = C.random_cfg(nrng, cls, N, boundary=True)
                nfft = max(both[(j + rep) % 2], C.min_nfft(cls, N, cfg))
                yield ("shift", {"cls": cls, "x": xd, "nfft": nfft, "m": int(nrng.integers(1, nfft)), "cfg": cfg, "tag": "order-boundary"})
                if _real_checked(cls):
                    yield ("real", {"cls": cls, "x": xdr, "nfft": nfft, "cfg": cfg, "tag": "order-boundary"})
    # 5b. odd record lengths through every class
    for N, nffts in ((41, both), (107, (128, 129))):
        xe, xer = _cx(nrng, N), _rx(nrng, N)
        for j, cls in enumerate(C.CLASSES):
            for cfg in ([None] if quick else [None, C.random_cfg(nrng, cls, N, boundary=False)]):
                for nfft in ((nffts[j % 2],) if quick else nffts):
                    q = {"cls": cls, "nfft": nfft, "tag": "odd-N"}
                    if cfg:
                        q["cfg"] = cfg
                        q["nfft"] = nfft = max(nfft, C.min_nfft(cls, N, cfg))
                    yield ("shift", dict(q, x=xe, m=int(nrng.integers(1, nfft))))
                    if _real_checked(cls):
                        yield ("real", dict(q, x=xer))
    # 5c. records of 2..5 samples with the smallest orders
    for N in (2, 3, 4, 5):
        for rep in range(1 if quick else 4):
            xt = nrng.standard_normal(N) + 1j * nrng.standard_normal(N)
            xtr = nrng.standard_normal(N)
            for j, cls in enumerate(C.CLASSES):
                cfg = _tiny_cfg(cls, N)
                if cfg is None:
                    continue
                nfft = max((8, 9)[(j + N + rep) % 2], C.min_nfft(cls, N, cfg))
                yield ("shift", {"cls": cls, "x": xt, "nfft": nfft, "m": int(nrng.integers(1, nfft)), "cfg": cfg, "tag": "tiny-N"})
                if _real_checked(cls):
                    yield ("real", {"cls": cls, "x": xtr, "nfft": nfft, "cfg": cfg, "tag": "tiny-N"})
    # 5d. long records: real data through every class with a real-data clause; MUSIC / EV beyond 100 rows (truncation branch)
    NL = 300
    xlr = nrng.standard_normal(NL) + np.cos(0.9 * np.arange(NL))
    for cls in C.CLASSES:
        if _real_checked(cls):
            for nfft in ((512,) if quick else (512, 301)):
                yield ("real", {"cls": cls, "x": xlr, "nfft": nfft, "tag": "long"})
    if quick:
        xl = _cx(nrng, NL)
        for cls in ("pmusic", "pev"):
            yield ("shift", {"cls": cls, "x": xl, "nfft": 512, "m": 5, "tag": "long"})
    # 6a. sampling frequency and scale_by_freq (a common factor on both sides of every relation)
    xf, xfr = _cx(nrng, 40), _rx(nrng, 40)
    for j, cls in enumerate(C.CLASSES):
        for nfft in ((both[j % 2],) if quick else both):
            yield ("shift", {"cls": cls, "x": xf, "nfft": nfft, "m": int(nrng.integers(1, nfft)), "fs": 250.0, "scale": True, "tag": "fs-scale"})
            if _real_checked(cls):
                yield ("real", {"cls": cls, "x": xfr, "nfft": nfft, "fs": 250.0, "scale": True, "tag": "fs-scale"})
    # 6b. multitaper with the tapers supplied by the caller, and with the default number of tapers
    for cls in ("MT-unity", "MT-eigen", "MT-adapt"):
        for cfg in ({"NW": 2.5, "k": 4, "supplied": True}, {"NW": 2.5, "k": None}):
            for nfft in both:
                yield ("shift", {"cls": cls, "x": xf, "nfft": nfft, "m": int(nrng.integers(1, nfft)), "cfg": cfg, "tag": "mt-option"})
                yield ("real", {"cls": cls, "x": xfr, "nfft": nfft, "cfg": cfg, "tag": "mt-option"})
    # 6c. integer arrays and plain lists as the real record
    xi = nrng.integers(-5, 6, 40)
    xi[0], xi[1] = 3, -2
    for j, cls in enumerate(REAL_FOLD):
        nfft = both[j % 2]
        yield ("real", {"cls": cls, "x": xi.astype(np.int64), "nfft": nfft, "tag": "input"})
        yield ("real", {"cls": cls, "x": xi.astype(np.int64), "nfft": nfft, "input": "list", "tag": "input"})
        yield ("real", {"cls": cls, "x": xfr, "nfft": both[(j + 1) % 2], "input": "list", "tag": "input"})
        if not quick:
            yield ("real", {"cls": cls, "x": xi.astype(np.int32), "nfft": both[(j + 1) % 2], "tag": "input"})
    # 7. special shifts: none, half a period, more than one period in either direction; real samples declared complex
    xm = _cx(nrng, 40)
    xmr = _rx(nrng, 40).astype(complex)
    for cls in C.CLASSES:
        for nfft in both:
            for m in (0, nfft // 2, nfft + 3, -nfft - 3):
                yield ("shift", {"cls": cls, "x": xm, "nfft": nfft, "m": m, "tag": "special-m"})
            yield ("shift", {"cls": cls, "x": xmr, "nfft": nfft, "m": nfft // 2, "tag": "real-as-complex"})


MOD_FNS = ["ma", "minvar", "corrgramd", "corrgram", "mtm-unity", "mtm-eigen"]


def _gen_mod(nrng, tier):
    """correspondence of the MA, minimum-variance, correlogram and multitaper functions with the model on modulated inputs"""
    for i in range(36 if tier == "quick" else 480):
        fn = MOD_FNS[i % 6]
        j = i // 6
        nfft = [32, 33, 48][j % 3]
        q = {"fn": fn, "x": nrng.standard_normal(24) + 1j * nrng.standard_normal(24), "nfft": nfft, "m": int(nrng.integers(-nfft, nfft))}
        if fn == "ma":
            q["Q"] = 1 + (j // 3) % 3
            q["M"] = q["Q"] + 2 + (j // 9) % 4
        elif fn == "minvar":
            q["order"] = 2 + (j // 3) % 5
            q["fs"] = [1.0, 250.0][(j // 15) % 2]
        elif fn in ("corrgram", "corrgramd"):
            q["lag"] = 1 + (j // 3) % 11
            q["window"] = ["hamming", "rectangular", "hann", "bartlett"][(j // 33) % 4 if tier != "quick" else j % 4]
        else:
            q["NW"], q["k"] = [(2.5, 4), (2.0, 3), (3.0, 5)][(j // 3) % 3]
        yield ("mod", q)


def _lines(nrng, N, cplx=True, eps=None):
    """a line spectrum: 2 or 3 tones of different amplitudes, frequencies anywhere (not on the bin grid), over a noise floor
    1e-2 or 1e-3 of the strongest tone: most bins are 40..100 dB below the peak, so the per-bin comparison is the one that matters"""
    n = np.arange(N)
    nt = int(nrng.integers(2, 4))
    e_ = [1e-2, 1e-3][int(nrng.integers(0, 2))]
    eps = e_ if eps is None else eps
    amps = np.array([1.0, 0.5, 0.2][:nt]) * nrng.uniform(0.8, 1.25, nt)
    ph = nrng.uniform(0, 2 * np.pi, nt)
    if cplx:
        f = nrng.uniform(-0.5, 0.5, nt)
        x = sum(a * np.exp(1j * (2 * np.pi * fi * n + q)) for a, fi, q in zip(amps, f, ph))
        return x + eps * (nrng.standard_normal(N) + 1j * nrng.standard_normal(N))
    f = nrng.uniform(0.03, 0.47, nt)
    x = sum(a * np.cos(2 * np.pi * fi * n + q) for a, fi, q in zip(amps, f, ph))
    return x + eps * nrng.standard_normal(N)


VIAS = ["psd", "call", "run"]
# further configurations of the iterative / option-dependent classes for the history cases
HIST_CFGS = [("MT-adapt", {"NW": 4.0, "k": 7}), ("MT-adapt", {"NW": 2.5, "k": None}), ("MT-adapt", {"NW": 2.5, "k": 4, "supplied": True}),
             ("MT-adapt", {"NW": 2.0, "k": 3}), ("MT-eigen", {"NW": 4.0, "k": 7}), ("MT-unity", {"NW": 3.0, "k": 5}),
             ("pburg", {"order": 12, "criteria": "AIC"}), ("pburg", {"order": 12, "criteria": "MDL"}),
             ("pyule", {"order": 4, "norm": "unbiased"}),
             ("pmusic", {"order": 6, "nsig": None, "eig_criteria": "aic"}), ("pev", {"order": 6, "nsig": None, "threshold": 3.0})]


def gen_hist(nrng, tier):
    """the four clauses observed on estimator objects with a past (kind 'hist'): every class, records with a line spectrum and
    noise records, complex and real, NFFT = N / odd / even, both orders, the three ways of triggering an evaluation"""
    quick = tier == "quick"
    c = 0
    plan = [(cls, None) for cls in C.CLASSES] + HIST_CFGS
    for rep in (int(nrng.integers(0, 3)),):          # which of the three record lengths a class gets differs from stream to stream
        for j, (cls, cfg) in enumerate(plan):
            N = [64, 96, 48][(j + rep) % 3]
            lo = C.min_nfft(cls, N, cfg or C.default_cfg(cls, N, True))
            nffts = [max(lo, v) for v in (N, 2 * N + 1, N + 2 * int(nrng.integers(1, N // 2)))]
            # parma: the modified Yule-Walker equations lose accuracy as floor^-4 on nearly noiseless lines (new objects, unchanged
            # code, 300 records per floor: worst error of the clauses 1.5e-4 at floor 1e-3, 8.8e-6 at 1e-2, 1.1e-7 at 3e-2, 3.6e-9
            # at 1e-1), so its line records get a floor of 1e-1; every other class keeps 1e-2 / 1e-3
            # pburg at order 12 with an order-selection criterion: error ~ floor^-2 (1500 records per floor, new objects: worst
            # 8.2e-8 at floor 1e-3, 7.5e-10 at 1e-2; order 4: 4.5e-9 at 1e-3), so its line records get the 1e-2 floor only
            eps = 0.1 if cls == "parma" else 1e-2 if (cls == "pburg" and cfg and cfg.get("order", 0) >= 8) else None
            xs = {"lines": _lines(nrng, N, eps=eps), "noise": _cx(nrng, N)}
            xr = {"lines": _lines(nrng, N, cplx=False, eps=eps), "noise": _rx(nrng, N)}

            def case(rec, real, mode, **kw):
                nonlocal c
                c += 1
                nfft = kw.pop("nfft", nffts[c % 3])
                q = {"cls": cls, "x": (xr if real else xs)[rec], "nfft": nfft, "mode": mode, "via": kw.pop("via", VIAS[c % 3]),
                     "tag": "hist-" + rec}
                if not real:
                    q["m"] = int(nrng.integers(-nfft, nfft))
                if cfg:
                    q["cfg"] = cfg
                q.update(kw)
                return ("hist", q)

            # one object, data re-assigned: both orders, line spectrum and noise, complex and real
            for rec in ("lines", "noise"):
                for seq in ("fwd", "rev"):
                    if quick and cfg is not None and (rec, seq) == ("noise", "rev"):
                        continue
                    yield case(rec, False, "reuse", seq=seq)
                    if _real_checked(cls) and (rec == "lines" or not quick):
                        yield case(rec, True, "reuse", seq=seq)
            if not quick:
                for via in VIAS:
                    for nfft in nffts:
                        yield case("lines", False, "reuse", seq="fwd", via=via, nfft=nfft)
            # something else estimated between the observations: a record of another length, a record too short to estimate
            # from (the error, if any, is swallowed by the caller); the records assigned as plain lists
            supplied = bool(cfg and cfg.get("supplied"))          # tapers supplied by the caller are for N samples only
            for i, det in enumerate(("fail",) if supplied else ("len", "fail")):
                real = bool((j + i + rep) % 2) and _real_checked(cls)
                yield case("lines", real, "reuse", seq=["fwd", "rev"][(j + i) % 2], detour=det)
            yield case("lines", bool(j % 2 == 0) and _real_checked(cls), "reuse", seq=["rev", "fwd"][j % 2], input="list")
            # several objects alive at once, evaluated in another order than they were built
            for real in (False, True):
                if real and not _real_checked(cls):
                    continue
                yield case("lines", real, "alive", perm=[int(v) for v in nrng.permutation(4)])
            # NFFT changed between observations (even <-> odd, shorter <-> longer)
            for real in (False, True):
                if real and not _real_checked(cls):
                    continue
                nfft = nffts[c % 3]
                nfft0 = max(lo, nfft + [1, -1, 7, -8][c % 4])
                if nfft0 == nfft:
                    nfft0 = nfft + 1
                yield case("lines" if c % 2 else "noise", real, "nfft", nfft=nfft, nfft0=nfft0)


def gen_modhist(nrng, tier):
    """multitaper objects that have estimated x, then the modulated record: weights and psd against the model"""
    fns = ["mtm-adapt", "mtm-adapt", "mtm-unity", "mtm-adapt", "mtm-eigen", "mtm-adapt"]
    for i in range(18 if tier == "quick" else 60):
        N = [24, 48, 32][i % 3]
        nfft = [N, 2 * N + 1, 64][(i // 3) % 3]
        x = _lines(nrng, N) if i % 2 == 0 else nrng.standard_normal(N) + 1j * nrng.standard_normal(N)
        NW, k = [(2.5, 4), (2.0, 3), (3.0, 5), (4.0, 7)][(i // 2) % 4]
        yield ("modhist", {"fn": fns[(i // 2) % 6], "x": x, "nfft": nfft, "m": int(nrng.integers(-nfft, nfft)), "NW": NW, "k": k,
                           "via": VIAS[(i // 6) % 3], "mode": "reuse", "tag": "hist-" + ("lines" if i % 2 == 0 else "noise")})


# NFFT < N for the estimators that transform the record itself (periodogram, multitaper class, pmtm function)
#
# The statement quantifies over NFFT without tying it to N.  `numpy.fft.fft(x, NFFT)` with NFFT < N uses the first NFFT samples;
# whatever an estimator does with the samples beyond NFFT (drop them, or alias them in time onto the grid), multiplying sample n
# by exp(2 pi i m n/NFFT) must rotate the estimate by exactly m bins, conjugation must mirror it and the real / declared-complex
# fold must hold: all three act sample by sample and exp(2 pi i m n/NFFT) has period NFFT in n.  (Not the time-reversal clause:
# see `_truncates`.)  Record / grid pairs: N not a multiple of NFFT (one incomplete segment: 64/48, 100/32, 90/37, 65/64, N/(N-1),
# random), N a multiple of NFFT (96/48, 128/32, 99/33), NFFT even and odd, NFFT just above half of N and just below N.
#
# Worst error of any relation, max-norm or per bin, on the unchanged code over 60 quick streams and 9 thorough streams of this
# generator (about 30 000 + 34 000 cases, the runner's variants included: amplitudes 2^+-k, degenerate records, strides, byte order):
#   kind 'shift' / 'real' (new objects): Periodogram 8.2e-10, MT-unity 4.8e-12, MT-eigen 4.9e-12, MT-adapt 7.2e-10
#   kind 'hist' (objects with a past):   Periodogram 6.2e-11, MT-unity 3.4e-12, MT-eigen 3.8e-12, MT-adapt 2.9e-10
#   kind 'pmtmfn' (function form), shift / mirror / symmetry / declared complex: unity 5.1e-10, eigen 9.4e-10, adapt 2.4e-9;
#                 time reversal (NFFT >= N only): unity 2.4e-9, eigen 2.9e-9 (against 1e-6), adapt 2.8e-8 (against 3e-6)
# -> the tolerances of the existing kinds (1e-6 max-norm and per bin; 3e-6 for the adaptive time reversal) leave >= 100x
#    (time reversal of the adaptive function form), >= 340x everywhere else.
# Correspondence (kinds 'mod' / 'modhist', rtol 1e-7): the Lean model's DFT is `numpy.fft.fft(x, n)` including the truncation to
# n samples (Model/DFT.lean `dftBin`: sum over min(len x, n) samples), so the model is an independent reference for NFFT < N too.

SHORT_PAIRS_REM = [(64, 48), (100, 32), (90, 37), (65, 64)]        # N not a multiple of NFFT
SHORT_PAIRS_MULT = [(96, 48), (128, 32), (99, 33)]                  # N a multiple of NFFT
SHORT_CLASSES = ["Periodogram", "MT-unity", "MT-eigen", "MT-adapt"]
SHORT_CFGS = {"Periodogram": [None, {"window": "rectangular"}, {"window": "hamming"}, {"window": "blackman"}],
              "MT": [None, {"NW": 4.0, "k": 7}, {"NW": 2.5, "k": None}, {"NW": 2.5, "k": 4, "supplied": True}, {"NW": 2.0, "k": 3}]}


def _short_pairs(nrng, tier):
    pairs = list(SHORT_PAIRS_REM) + list(SHORT_PAIRS_MULT)
    for _ in range(3 if tier == "quick" else 12):
        N = int(nrng.integers(24, 121))
        nfft = int(nrng.integers(N // 2 + 1, N))                 # N/2 < NFFT < N: never a divisor of N
        pairs.append((N, nfft))
    N = int(nrng.integers(24, 121))
    pairs.append((N, N - 1))
    d = int(nrng.integers(2, 5))
    nfft = int(nrng.integers(12, 40))
    pairs.append((d * nfft, nfft))                               # a random multiple
    return pairs


def _short_ms(nrng, N, nfft, count, rot=0):
    """shifts for a short grid: random residues, 1, NFFT/2 and beyond one period; at least one with m*N/NFFT not an integer
    (a periodic continuation of the record would be invisible to the others)"""
    ms = [int(nrng.integers(1, nfft)), 1, -int(nrng.integers(1, nfft)), nfft // 2, nfft + 3, -nfft - 1]
    ms = ([ms[0]] + ms[1 + rot % 5:] + ms[1:1 + rot % 5])[:count]         # a random residue first, the others in rotation
    if N % nfft and all((m * N) % nfft == 0 for m in ms):
        ms[0] = 1
    return ms


def gen_short_grid(nrng, tier):
    quick = tier == "quick"
    c = h = 0
    for N, nfft in _short_pairs(nrng, tier):
        recs = [("noise", _cx(nrng, N), _rx(nrng, N)), ("lines", _lines(nrng, N), _lines(nrng, N, cplx=False))]
        for cls in SHORT_CLASSES:
            cfgs = SHORT_CFGS["Periodogram" if cls == "Periodogram" else "MT"]
            for ci, cfg in enumerate(cfgs):
                if quick and ci not in (0, 1 + (c % (len(cfgs) - 1))):
                    c += 1
                    continue
                c += 1
                if cfg and cfg.get("NW", 0) >= N / 2.0:
                    continue
                name, xc, xr = recs[c % 2] if quick else recs[ci % 2]
                q = {"cls": cls, "nfft": nfft, "tag": "short-grid-" + name}
                if cfg:
                    q["cfg"] = cfg
                if c % 5 == 0:
                    q.update(fs=250.0, scale=True)
                for m in _short_ms(nrng, N, nfft, 2 if quick else 3, c):
                    yield ("shift", dict(q, x=xc, m=m))
                if cls != "Periodogram":                              # the fold clause names the multitaper class, not the periodogram
                    yield ("real", dict(q, x=xr))
                    if c % 4 == 0:
                        yield ("real", dict(q, x=xr, input="list"))
        # objects with a past (kind 'hist'): data re-assigned on a short grid; NFFT attribute moved from >= N to < N and from one
        # short grid to another
        h += 1
        for j, cls in enumerate(SHORT_CLASSES):
            if quick and (j + h) % 2:                                # two of the four classes per pair, alternating
                continue
            cfgs = SHORT_CFGS["Periodogram" if cls == "Periodogram" else "MT"]
            cfg = cfgs[(c + j) % len(cfgs)]
            if cfg and cfg.get("NW", 0) >= (N - 7) / 2.0:
                cfg = None
            name, xc, xr = recs[(c + j) % 2]
            base = {"cls": cls, "nfft": nfft, "tag": "short-grid-" + name}
            if cfg:
                base["cfg"] = cfg
            m = _short_ms(nrng, N, nfft, 1)[0]
            real_ok = cls != "Periodogram"
            supplied = bool(cfg and cfg.get("supplied"))
            yield ("hist", dict(base, x=xc, m=m, mode="reuse", seq=["fwd", "rev"][c % 2], via=VIAS[c % 3]))
            yield ("hist", dict(base, x=xc, m=m, mode="nfft", nfft0=[N, N + 7, 2 * N + 1, max(4, nfft - 5), nfft + 1][(c + j) % 5],
                                via=VIAS[(c + 1) % 3]))
            if real_ok:
                yield ("hist", dict(base, x=xr, mode="reuse", seq=["rev", "fwd"][c % 2], via=VIAS[(c + 2) % 3]))
                yield ("hist", dict(base, x=xr, mode="nfft", nfft0=[2 * N, N, nfft + 3][(c + j) % 3], via=VIAS[c % 3]))
            if not quick or (c + j) % 3 == 0:
                yield ("hist", dict(base, x=xc, m=m, mode="alive", perm=[int(v) for v in nrng.permutation(3)], via=VIAS[c % 3]))
                if not supplied:
                    yield ("hist", dict(base, x=xc, m=m, mode="reuse", seq="fwd", via=VIAS[c % 3], detour="len"))
                yield ("hist", dict(base, x=xc, m=m, mode="reuse", seq="rev", via=VIAS[c % 3], detour="fail", input="list"))
            c += 1
    # the function form: NFFT below / at / above N and the function's own default; tapers computed or supplied
    fpairs = _short_pairs(nrng, tier) + [(64, 64), (50, 75), (40, 65), (33, 64)]
    for i, (N, nfft) in enumerate(fpairs):
        for j, meth in enumerate(("adapt", "unity", "eigen")):
            if quick and nfft < N and N % nfft == 0 and (i + j) % 2:
                continue
            NW, k = [(2.5, 4), (2.0, 3), (3.0, 5), (4.0, 7), (2.5, None)][(i + j) % 5]
            q = {"fn": "pmtm-" + meth, "nfft": nfft, "NW": NW, "k": k, "tag": "pmtm-function"}
            if (i + j) % 3 == 0 and k is not None:
                q["supplied"] = True
            xc = _lines(nrng, N) if (i + j) % 2 else _cx(nrng, N)
            for m in _short_ms(nrng, N, nfft, 1 if quick else 3, i + j):
                yield ("pmtmfn", dict(q, x=xc, m=m))
            if not quick or (i + j) % 2 == 0:
                yield ("pmtmfn", dict(q, x=_lines(nrng, N, cplx=False) if (i + j) % 4 < 2 else _rx(nrng, N)))
    for i, N in enumerate((40, 100, 300) if quick else (40, 64, 100, 256, 300)):   # NFFT=None: max(256, 2**nextpow2(N))
        for j, meth in enumerate(("adapt", "unity", "eigen")):
            if quick and (i + j) % 2:
                continue
            nfft = max(256, 1 << int(np.ceil(np.log2(N))))
            q = {"fn": "pmtm-" + meth, "nfft": nfft, "nfft_spec": "none", "NW": 2.5, "k": 4, "tag": "pmtm-function"}
            yield ("pmtmfn", dict(q, x=_cx(nrng, N), m=int(nrng.integers(1, nfft))))
            yield ("pmtmfn", dict(q, x=_rx(nrng, N)))
    # correspondence with the model on modulated records longer than the grid (functions, and the class on a re-used object)
    for i in range(12 if quick else 60):
        N, nfft = [(24, 16), (24, 23), (24, 12), (30, 20), (33, 32), (27, 9)][i % 6]
        x = nrng.standard_normal(N) + 1j * nrng.standard_normal(N)
        fn = ["sper", "mtm-unity", "mtm-eigen"][(i // 2) % 3]
        q = {"fn": fn, "x": x, "nfft": nfft, "m": _short_ms(nrng, N, nfft, 1)[0], "order": 4, "tag": "short-grid-noise"}
        if fn != "sper":
            q["NW"], q["k"] = [(2.5, 4), (2.0, 3), (3.0, 5)][(i // 6) % 3]
        yield ("mod", q)
    fns = ["mtm-adapt", "mtm-unity", "mtm-adapt", "mtm-eigen"]
    for i in range(8 if quick else 40):
        N, nfft = [(24, 16), (32, 31), (48, 24), (30, 20)][i % 4]
        x = _lines(nrng, N) if i % 2 == 0 else nrng.standard_normal(N) + 1j * nrng.standard_normal(N)
        NW, k = [(2.5, 4), (2.0, 3), (3.0, 5), (4.0, 7)][(i // 2) % 4]
        yield ("modhist", {"fn": fns[(i // 2) % 4], "x": x, "nfft": nfft, "m": _short_ms(nrng, N, nfft, 1)[0], "NW": NW, "k": k,
                           "via": VIAS[(i // 4) % 3], "mode": "reuse", "tag": "short-grid-" + ("lines" if i % 2 == 0 else "noise")})


def gen(rng, nrng, tier):
    N = 40
    n = np.arange(N)
    reps = 2 if tier == "quick" else 20
    for r in range(reps):
        x = (nrng.standard_normal(N) + 1j * nrng.standard_normal(N) + 2 * np.exp(2j * np.pi * 0.11 * n) + np.exp(-2j * np.pi * 0.3 * n))
        xr = nrng.standard_normal(N) + np.cos(0.9 * n)
        for cls in C.CLASSES:
            for nfft in (64, 65):
                ms = [1, int(nrng.integers(2, nfft)), -3] if tier == "quick" else [1, 7, -3, nfft // 2, int(nrng.integers(2, nfft))]
                for m in ms[: (2 if tier == "quick" else 5)]:
                    yield ("shift", {"cls": cls, "x": x, "nfft": nfft, "m": m})
                yield ("real", {"cls": cls, "x": xr, "nfft": nfft})
    # random configurations of every class (orders, lags, taper counts)
    for i in range(28 if tier == "quick" else 400):
        cls = C.CLASSES[i % len(C.CLASSES)]
        cfg = C.random_cfg(nrng, cls, 40, boundary=False)
        nfft = max([64, 65][i % 2], C.min_nfft(cls, 40, cfg))
        xx = nrng.standard_normal(40) + 1j * nrng.standard_normal(40) + 2 * np.exp(2j * np.pi * 0.11 * np.arange(40))
        yield ("shift", {"cls": cls, "x": xx, "nfft": nfft, "m": int(nrng.integers(1, nfft)), "cfg": cfg})
        yield ("real", {"cls": cls, "x": nrng.standard_normal(40) + np.cos(0.9 * np.arange(40)), "nfft": nfft, "cfg": cfg})
    # ARMA with P < Q, P > Q and P = Q (the lag sequence handed to the solver is built differently in the three cases)
    for i, (P_, Q_, lag_) in enumerate([(2, 4, 10), (1, 3, 8), (3, 1, 8), (2, 2, 8), (2, 3, 9), (1, 2, 6)]):
        if tier == "quick" and i >= 4:
            break
        xx = nrng.standard_normal(48) + 1j * nrng.standard_normal(48) + 2 * np.exp(2j * np.pi * 0.11 * np.arange(48))
        cfg = {"order": P_, "Q": Q_, "lag": lag_}
        yield ("shift", {"cls": "parma", "x": xx, "nfft": [64, 65][i % 2], "m": int(nrng.integers(1, 60)), "cfg": cfg})
        yield ("real", {"cls": "parma", "x": nrng.standard_normal(48) + np.cos(0.9 * np.arange(48)), "nfft": [64, 65][i % 2], "cfg": cfg})
    # every window name through the Fourier classes (the window is part of the estimator's configuration)
    from spectrum.window import window_names
    wn = sorted(window_names)
    xw = nrng.standard_normal(33) + 1j * nrng.standard_normal(33)
    xwr = nrng.standard_normal(33)
    for j, name in enumerate(wn):
        if tier == "quick" and j % 2 == (0 if True else 1) and name not in ("flattop", "tukey", "taylor", "chebwin", "kaiser"):
            continue
        for cls in ("Periodogram", "pcorrelogram"):
            cfg = {"window": name, "lag": 5}
            yield ("shift", {"cls": cls, "x": xw, "nfft": [64, 75][j % 2], "m": 3, "cfg": cfg})
            yield ("real", {"cls": cls, "x": xwr, "nfft": [64, 75][j % 2], "cfg": cfg})
    # long complex records (N >= 256) through the correlation-based classes
    NL = 300
    nl = np.arange(NL)
    xl = nrng.standard_normal(NL) + 1j * nrng.standard_normal(NL) + 2 * np.exp(2j * np.pi * 0.11 * nl)
    for cls in (("pyule", "pma", "parma", "pcorrelogram") if tier == "quick" else C.CLASSES):
        for nfft in ((512,) if tier == "quick" else (512, 301)):
            yield ("shift", {"cls": cls, "x": xl, "nfft": nfft, "m": 5})
    # all residues for a small NFFT (periodogram and Burg)
    xs = nrng.standard_normal(10) + 1j * nrng.standard_normal(10)
    for nfft in (12, 13):
        for m in range(nfft):
            for cls in ("Periodogram", "pburg"):
                yield ("shift", {"cls": cls, "x": xs, "nfft": nfft, "m": m})
    k = 30 if tier == "quick" else 400
    for i in range(k):
        x = nrng.standard_normal(24) + 1j * nrng.standard_normal(24)
        nfft = [32, 33, 48][i % 3]
        yield ("mod", {"fn": ["burg", "aryule", "sper"][i % 3], "x": x, "nfft": nfft, "m": int(nrng.integers(-nfft, nfft)), "order": 4})
    yield from _gen_mod(nrng, tier)
    yield from _gen_closure(nrng, tier)
    yield from gen_modhist(nrng, tier)
    yield from gen_hist(nrng, tier)       # the random stream of the cases above is the one it was before this kind existed
    yield from gen_short_grid(nrng, tier)  # last, for the same reason
