"""C07  The PSD attribute is never stale."""
import itertools

import numpy as np

import proto
from common import rel

TRUSTED_BASE = [
    "the numerical estimate is an uninterpreted function of the attribute snapshot in the model; the correspondence recomputes a "
    "fresh object for the snapshot the model says the cache came from and compares numerically (rtol 1e-9)",
    "side conversions of the cached PSD are abstracted to (snapshot, representation) pairs: path independence is C06's theorem",
    "the internal `modified` flag is part of the model state but is not a compared observable",
]
PARTIAL = []
ASSUMPTIONS = ["fresh objects are built with the final attribute values, NFFT being the object's resolved integer NFFT",
               "attributes listed by the property: data, NFFT, sampling, window, lag, detrend, scale_by_freq, sides, model orders"]
RULE = ("operation sequences over each estimator class, real and complex start data: exhaustive to length 2 (quick) / 3 (thorough) "
        "over the class's alphabet of 18-22 setter/call/read operations, plus random sequences of length <= 12; after every operation "
        "sides, NFFT, df, len(frequencies()) are compared with the model, and every psd read with a fresh object; "
        "non-trivial = sequence with at least one read after a setter")

SIDE_CODE = {"onesided": 1, "twosided": 2, "centerdc": 3}
CODE_SIDE = {v: k for k, v in SIDE_CODE.items()}
SAMP = [1.0, 4.0, 0.25]
WINDOWS = ["hann", "hamming", "blackman"]
DETREND = [None, "mean"]

_rng = np.random.default_rng(7)
_N0, _N1 = 20, 23
_t0, _t1 = np.arange(_N0), np.arange(_N1)
DATA = {
    0: _rng.standard_normal(_N0) + np.cos(0.9 * _t0),
    1: _rng.standard_normal(_N0) + np.cos(0.9 * _t0) + 1j * _rng.standard_normal(_N0),
    2: _rng.standard_normal(_N1) + np.cos(0.5 * _t1),
    3: _rng.standard_normal(_N1) + 1j * _rng.standard_normal(_N1) + np.exp(0.7j * _t1),
}

CLS = {
    # name: (parametric?, attributes the constructor takes)
    "Periodogram": (False, ("window",)),
    "pcorrelogram": (False, ("window", "lag")),
    "pburg": (True, ("ar",)),
    "pyule": (True, ("ar",)),
    "pcovar": (True, ("ar",)),
    "pmodcovar": (True, ("ar",)),
    "parma": (True, ("ar", "ma", "lag")),
    "pma": (True, ("ar", "ma")),
    "pminvar": (True, ("ar",)),
    "pmusic": (True, ("ar",)),
    "MultiTapering": (False, ()),
}


def _sp():
    import spectrum
    return spectrum


def build(cls, a):
    """construct the estimator object for an attribute snapshot (dict)"""
    sp = _sp()
    x = DATA[a["dataId"]]
    kw = dict(NFFT=a["nfft"], sampling=SAMP[a["samp"]], scale_by_freq=bool(a["scale"]))
    if cls == "Periodogram":
        return sp.Periodogram(x, window=WINDOWS[a["window"]], detrend=DETREND[a["detrend"]], **kw)
    if cls == "pcorrelogram":
        return sp.pcorrelogram(x, lag=a["lag"], window=WINDOWS[a["window"]], detrend=DETREND[a["detrend"]], **kw)
    if cls == "pburg":
        return sp.pburg(x, a["ar"], **kw)
    if cls == "pyule":
        return sp.pyule(x, a["ar"], **kw)
    if cls == "pcovar":
        return sp.pcovar(x, a["ar"], **kw)
    if cls == "pmodcovar":
        return sp.pmodcovar(x, a["ar"], **kw)
    if cls == "parma":
        return sp.parma(x, a["ar"], a["ma"], a["lag"], **kw)
    if cls == "pma":
        return sp.pma(x, a["ma"], a["ar"], **kw)
    if cls == "pminvar":
        return sp.pminvar(x, a["ar"], **kw)
    if cls == "pmusic":
        return sp.pmusic(x, a["ar"], NSIG=2, **kw)
    if cls == "MultiTapering":
        return sp.MultiTapering(x, NW=2.5, k=4, method="unity", **kw)
    raise ValueError(cls)


def init_attrs(cls, dataId):
    N = len(DATA[dataId])
    a = {"dataId": dataId, "cplx": int(np.iscomplexobj(DATA[dataId])), "N": N, "nfft": N, "samp": 0, "detrend": 0, "scale": 0,
         "window": 0, "lag": 6, "ar": 4, "ma": 2}
    if cls == "pma":
        a["ar"] = 6   # pma(data, Q, M): ar_order holds M
    if cls == "pmusic":
        a["ar"] = 6
    return a


def alphabet(cls):
    par, has = CLS[cls]
    ops = [("data", 0), ("data", 1), ("data", 2), ("data", 3), ("nfft", 32), ("nfft", 33), ("nfft", None), ("nfft", "nextpow2"),
           ("samp", 1), ("samp", 0), ("detrend", 1), ("scale", 1), ("scale", 0),
           ("sides", "centerdc"), ("sides", "twosided"), ("sides", "onesided"), ("sides", "default"), ("call", None), ("read", None)]
    if "window" in has:
        ops.append(("window", 1))
    if "lag" in has:
        ops.append(("lag", 7))
    if "ar" in has:
        ops.append(("ar", 5 if cls not in ("pma", "pmusic") else 7))
        ops.append(("ar", init_attrs(cls, 0)["ar"]))
    if "ma" in has:
        ops.append(("ma", 3))
    return ops


def apply_op(p, op):
    k, v = op
    if k == "data":
        p.data = DATA[v]
    elif k == "nfft":
        p.NFFT = v
    elif k == "samp":
        p.sampling = SAMP[v]
    elif k == "detrend":
        p.detrend = DETREND[v]
    elif k == "scale":
        p.scale_by_freq = bool(v)
    elif k == "window":
        p.window = WINDOWS[v]
    elif k == "lag":
        p.lag = v
    elif k == "ar":
        p.ar_order = v
    elif k == "ma":
        p.ma_order = v
    elif k == "sides":
        p.sides = v
    elif k == "call":
        p()
    elif k == "read":
        return np.array(p.psd)
    return None


def op_token(op):
    k, v = op
    if k == "data":
        return "data:%d:%d:%d" % (v, int(np.iscomplexobj(DATA[v])), len(DATA[v]))
    if k == "nfft":
        return "nfftnone" if v is None else ("nfftpow2" if v == "nextpow2" else "nfft:%d" % v)
    if k == "sides":
        return "sides:%s" % v
    if k in ("call", "read"):
        return k
    return "%s:%d" % (k, v)


def impl_hist(p):
    cls = p["cls"]
    a0 = init_attrs(cls, p["data0"])
    o = build(cls, a0)
    obs = []
    ncall = 0
    for op in p["ops"]:
        err = 0
        psd = None
        try:
            if op[0] == "call":
                ncall += 1
            if op[0] == "call" and ncall % 2 == 0:
                o.run()                       # the documented synonym of calling the object
            else:
                psd = apply_op(o, op)
        except AssertionError:
            err = 1
        obs.append({"err": err, "sides": SIDE_CODE[o.sides], "nfft": o.NFFT, "df": o.df, "flen": len(o.frequencies()), "psd": psd,
                    "sampling": o.sampling})
    return obs


def model_hist(p):
    cls = p["cls"]
    a = init_attrs(cls, p["data0"])
    par = 1 if CLS[cls][0] else 0
    head = [par, a["cplx"], a["N"], a["nfft"], a["samp"], a["detrend"], a["scale"], a["window"], a["lag"], a["ar"], a["ma"], a["dataId"]]
    return ("O", " ".join(["objhist", "O"] + [str(h) for h in head] + [op_token(op) for op in p["ops"]]))


FIELDS = ["dataId", "cplx", "N", "nfft", "samp", "detrend", "scale", "window", "lag", "ar", "ma"]


def post_hist(p, iv, mv):
    """turn both sides into comparable vectors: per op [err, sides, NFFT, df, len(frequencies())] and, for reads, the psd of a fresh
    object built from the snapshot the model says the cache holds, in the representation the model says it is stored in"""
    cls = p["cls"]
    I, M = [], []
    for (op, o, m) in zip(p["ops"], iv, mv):
        m = [int(v) for v in m]
        err, sides, nfft, rangeN, rangeSamp, flen = m[0:6]
        valid = m[6]
        snap = dict(zip(FIELDS, m[7:18]))
        cside = m[18]
        I.append(np.array([o["err"], o["sides"], o["nfft"], o["df"], o["flen"]], dtype=float))
        M.append(np.array([err, sides, nfft, SAMP[rangeSamp] / rangeN, flen], dtype=float))
        if op[0] == "read" and o["psd"] is not None and valid:
            f = build(cls, snap)
            _ = f.psd                      # compute first: assigning sides before any computation does not convert
            f.sides = CODE_SIDE[cside]
            I.append(np.asarray(o["psd"], dtype=float))
            M.append(np.asarray(f.psd, dtype=float))
    return I, M


def oracle_hist(p):
    """the property statement on the real code alone: after the history, psd equals that of a fresh object with the final attribute
    values; df = sampling/NFFT; len(frequencies()) = len(psd)"""
    cls = p["cls"]
    a = dict(init_attrs(cls, p["data0"]))
    o = build(cls, a)
    out = []
    try:
        for op in p["ops"]:
            try:
                apply_op(o, op)
            except AssertionError:
                if not (op[0] == "sides" and op[1] == "onesided" and np.iscomplexobj(o.data)):
                    return ["history %s raised AssertionError at %s" % (p["ops"], op)]
                continue
            k, v = op
            if k == "data":
                a["dataId"] = v
            elif k in ("samp", "detrend", "scale", "window", "lag", "ar", "ma"):
                a[k] = v
        got = np.array(o.psd)
    except Exception as e:
        return ["history %s on %s raised %r" % (p["ops"], cls, e)]
    a["nfft"] = o.NFFT
    a["cplx"] = int(np.iscomplexobj(DATA[a["dataId"]]))
    f = build(cls, a)
    exp = np.array(f.psd)
    if f.sides != o.sides:
        try:
            f.sides = o.sides
            exp = np.array(f.psd)
        except AssertionError:
            return ["object reports sides=%s for %s data after %s" % (o.sides, "complex" if a["cplx"] else "real", p["ops"])]
    tag = "%s, start data %d, history %s" % (cls, p["data0"], [op_token(op) for op in p["ops"]])
    if got.shape != exp.shape or rel(got, exp) > 1e-9:
        out.append("psd is stale: differs from a freshly constructed object with the same final attribute values (%s)" % tag)
    if abs(o.df - o.sampling / o.NFFT) > 1e-12 * abs(o.sampling / o.NFFT):
        out.append("df = %r != sampling/NFFT = %r (%s)" % (o.df, o.sampling / o.NFFT, tag))
    if len(o.frequencies()) != len(got):
        out.append("len(frequencies()) = %d != len(psd) = %d (%s)" % (len(o.frequencies()), len(got), tag))
    # re-assigning an unchanged value does not alter the result
    before = np.array(o.psd)
    sides_before = o.sides
    o.sampling = o.sampling
    o.NFFT = o.NFFT
    o.scale_by_freq = o.scale_by_freq
    o.detrend = o.detrend
    o.sides = o.sides
    if hasattr(o, "window") and isinstance(getattr(type(o), "window", None), property):
        o.window = o.window
    after = np.array(o.psd)
    if o.sides != sides_before or after.shape != before.shape or rel(after, before) > 1e-12:
        out.append("re-assigning unchanged values altered the result (%s)" % tag)
    if not out and (len(p["ops"]) + 2 * p["data0"]) % 3 != 1:
        # the other way of reading the estimate: get_converted_psd(sides) straight after the history (no psd read before it)
        o2 = build(cls, dict(init_attrs(cls, p["data0"])))
        ok = True
        for op in p["ops"]:
            if op[0] == "read":
                continue
            try:
                apply_op(o2, op)
            except AssertionError:
                if not (op[0] == "sides" and op[1] == "onesided" and np.iscomplexobj(o2.data)):
                    ok = False
                    break
        if ok:
            sides_ok = ["twosided", "centerdc"] + ([] if a["cplx"] else ["onesided"])
            sd = sides_ok[(len(p["ops"]) + len(cls)) % len(sides_ok)]
            got_c = o2.get_converted_psd(sd)
            f2 = build(cls, a)
            _ = f2.psd
            exp_c = np.asarray(f2.get_converted_psd(sd))
            if got_c is None or np.asarray(got_c).shape != exp_c.shape or rel(np.asarray(got_c), exp_c) > 1e-9:
                out.append("get_converted_psd('%s') right after the history differs from that of a fresh object with the same final "
                           "attribute values (%s values against %d) (%s)" % (
                               sd, "no" if got_c is None else len(got_c), len(exp_c), tag))
    if not out and (len(p["ops"]) + p["data0"]) % 2 == 0:
        # arithmetic through the data property (`p.data *= 3`, `p.data -= p.data.mean()`): the setter receives the SAME array
        # object with new contents - still an assignment of new data
        d = np.array(DATA[a["dataId"]], copy=True)
        o.data = d
        _ = o.psd
        if len(p["ops"]) % 4 < 2:
            o.data *= 3.0
        else:
            o.data += np.arange(len(d)) * 0.25
        got3 = np.array(o.psd)
        DATA[99] = np.array(o.data, copy=True)
        try:
            f3 = build(cls, dict(a, dataId=99))
            exp3 = np.array(f3.psd)
            if f3.sides != o.sides:
                f3.sides = o.sides
                exp3 = np.array(f3.psd)
        finally:
            del DATA[99]
        if got3.shape != exp3.shape or rel(got3, exp3) > 1e-9:
            out.append("psd is stale after in-place arithmetic through the data property (p.data *= c / p.data += r): differs from a "
                       "fresh object on the final data (%s)" % tag)
    return out


def _key(p):
    return "%s|%d|%s" % (p["cls"], p["data0"], [op_token(o) for o in p["ops"]])


def _nontrivial(p):
    ks = [o[0] for o in p["ops"]]
    return any(k not in ("read", "call") for k in ks)


KINDS = {
    "hist": {"impl": impl_hist, "model": model_hist, "post": post_hist, "oracle": oracle_hist, "rtol": 1e-9, "atol": 1e-300,
             "key": _key, "nontrivial": _nontrivial,
             "tags": lambda p: ["cls:" + p["cls"], "start:" + ("complex" if p["data0"] in (1, 3) else "real"), "len:%d" % len(p["ops"])]},
}


def gen(rng, nrng, tier):
    classes = list(CLS)
    ex_len = 2 if tier == "quick" else 3
    for ci, cls in enumerate(classes):
        ops = alphabet(cls)
        for data0 in (0, 1):
            if tier == "quick":
                # exhaustive length 1 and 2 for three classes, sampled pairs for the others
                full = cls in ("Periodogram", "pburg", "parma")
                for o1 in ops:
                    yield ("hist", {"cls": cls, "data0": data0, "ops": [o1, ("read", None)]})
                pairs = list(itertools.product(ops, repeat=2))
                if not full:
                    idx = nrng.choice(len(pairs), size=60, replace=False)
                    pairs = [pairs[i] for i in idx]
                for h in pairs:
                    yield ("hist", {"cls": cls, "data0": data0, "ops": [("call", None)] + list(h) + [("read", None)]})
            else:
                for ln in range(1, ex_len + 1):
                    if ln == 3 and cls not in ("Periodogram", "pburg", "parma", "pcorrelogram"):
                        continue
                    for h in itertools.product(ops, repeat=ln):
                        yield ("hist", {"cls": cls, "data0": data0, "ops": [("call", None)] + list(h) + [("read", None)]})
        n_rand = 40 if tier == "quick" else 400
        for i in range(n_rand):
            ln = int(nrng.integers(3, 13))
            h = [ops[int(nrng.integers(0, len(ops)))] for _ in range(ln)]
            if i % 3 == 0:
                h.insert(int(nrng.integers(0, len(h))), ("read", None))
            yield ("hist", {"cls": cls, "data0": int(nrng.integers(0, 2)), "ops": h + [("read", None)]})
