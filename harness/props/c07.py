"""C07  The PSD attribute is never stale.

kind "hist":  setter / call / read histories inside the computable states: real API vs the Lean object model, plus the oracle.
kind "fhist": histories through states whose estimate cannot be computed (caught exceptions), rejected assignments, temporaries
              assigned to data: oracle only (see the comment above FAIL)."""
import itertools

import numpy as np

import proto
from common import rel

TRUSTED_BASE = [
    "the numerical estimate is an uninterpreted function of the attribute snapshot in the model; the correspondence recomputes a "
    "fresh object for the snapshot the model says the cache came from and compares numerically (rtol 1e-9)",
    "side conversions of the cached PSD are abstracted to (snapshot, representation) pairs: path independence is C06's theorem",
    "the internal `modified` flag is part of the model state but is not a compared observable",
    "operations outside the model's own grammar are sent as the model operation with the same effect on the state machine: "
    "`p.data = list(...)` as setData, `p.get_converted_psd(s)` as read (it brings the estimate up to date and leaves the object "
    "otherwise unchanged; the returned array is compared with the fresh object's conversion), `pcorrelogram.data_y = y` as the "
    "unguarded order setter (the order slot, unused by that class, holds the data_y identifier: an unguarded setter that marks the "
    "object modified); the oracle evaluates the same histories on the real code alone",
]
PARTIAL = [
    "histories with failing computations, rejected assignments and temporaries (kind `fhist`) are evaluated by the oracle on the "
    "real code only: the Lean object model (driver mode O, Model/Object.lean) treats `compute` as a total function of the attribute "
    "snapshot, so it has no failing computation, and the theorems say nothing about an object whose computation raised",
]
ASSUMPTIONS = ["fresh objects are built with the final attribute values, NFFT being the object's resolved integer NFFT",
               "attributes listed by the property: data (array or list; data_y for the cross-correlogram), NFFT, sampling, window, "
               "lag, detrend, scale_by_freq, sides, model orders",
               "a recomputation resets `sides` to the default representation: the fresh object is compared in the `sides` the object "
               "reports after the read, and len(frequencies()) is compared BEFORE a read only when no recomputation is pending",
               "detrend='mean' has no numerical effect on any estimator class, so a stale and a fresh estimate cannot be told apart "
               "after a detrend assignment alone (such histories are tagged, nothing more is asserted about them)",
               "data_y histories keep the data length fixed (cross-correlation of equal-length sequences)",
               "fhist: which states cannot be estimated is not assumed but asked of a freshly constructed object at every observation; "
               "states whose estimate is returned but is numerical noise (pcovar order > N, pminvar order 17..20 of 20 samples) are "
               "not generated on purpose; an exception raised by `sides = ...` itself (the setter first brings the estimate up to "
               "date) is accepted and the value of `sides` is compared as reported, as for kind `hist`; error families: assertion / "
               "value / type / index / singular (division by zero, LinAlgError) / other by class name"]
RULE = ("operation sequences over each estimator class (12, pev included; MultiTapering with unity / adapt / eigen weighting), real "
        "and complex start data of length 20, 23 and the powers of two 16, 32, over the class's alphabet of 30-36 setter/call/read "
        "operations (core alphabet of 19-23, plus: every attribute set back to its start value, a third sampling rate / window, "
        "NFFT below, at and above the data length, power-of-two data, list-valued data, get_converted_psd reads; data_y for "
        "pcorrelogram).  quick: exhaustive length 1 (whole alphabet), length 2 over the core alphabet for three classes, sampled "
        "pairs otherwise; thorough: exhaustive length 2 (whole alphabet, every class), length 3 over the core alphabet for four "
        "classes, sampled length 3 over the whole alphabet; both: away / read / back / read patterns for every attribute, random "
        "sequences of length <= 12.  After every operation sides, NFFT, df, len(frequencies()) are compared with the model, and every "
        "psd / get_converted_psd read with a fresh object; the oracle re-assigns every attribute (guarded and unguarded setters) "
        "with its current value; non-trivial = sequence with at least one read after a setter.  "
        "Kind `fhist` (oracle only), every class, real and complex N = 20 start data: histories in which an assignment makes the "
        "estimate uncomputable (per class, from grids run on the unchanged library: order 0 / >= N, MA order 0 / >= lag, lag 0 / >= N, "
        "NFFT 1..5 below what the estimator needs, replacement records of 1..8 samples, real and complex), the failing computation "
        "is met by psd / str(p) (which swallows the exception) / get_converted_psd / power() / `sides = ...` / p() / p.run() with the "
        "exception caught, the object is observed again (psd, get_converted_psd, power(), str, sides assignment), and then sometimes "
        "made computable again or assigned another attribute; before the failing assignment the estimate was computed (read, p(), "
        "converted, other NFFT) or never was.  Every observation is compared with the same observation on a freshly constructed "
        "object with the same attribute values: it has to raise an error of the same family where the fresh object raises, and to "
        "return the same values (rtol 1e-9 as for `hist`; the worst difference between re-used and fresh object over 24 830 thorough "
        "cases on the unchanged tree is exactly 0.0; str(p) compared as text) where it returns; len(frequencies()) = len(psd) whenever "
        "psd is returned; NFFT, sampling, df = sampling/NFFT after every operation.  Also: assignments the setters reject (NFFT -3 / 0 "
        "/ 2.5 / text, unknown detrend / sides / window, non-boolean scale_by_freq, negative orders, data that is no array) on new, "
        "up-to-date and pending objects - the object (13 attributes and the data bytes) must be unchanged; temporaries assigned to "
        "data with no reference kept (p.data = rec; [read;] p.data = rec2 / p.data - p.data.mean() / p.data * 3: CPython re-uses the "
        "id() of the freed array); random histories of length <= 14 over all of these.  quick: per failing assignment the plain read / "
        "assign / read / read pattern plus 3 sampled (first, second observation) combinations; thorough: all 63 combinations")

SIDE_CODE = {"onesided": 1, "twosided": 2, "centerdc": 3}
CODE_SIDE = {v: k for k, v in SIDE_CODE.items()}
SAMP = [1.0, 4.0, 0.25]
WINDOWS = ["hann", "hamming", "blackman"]
DETREND = [None, "mean"]

_rng = np.random.default_rng(7)
_N0, _N1 = 20, 23
_t0, _t1 = np.arange(_N0), np.arange(_N1)
DATA = {
    0: _rng.standard_normal(_N0) + np.cos(0.9 * _t0),
    1: _rng.standard_normal(_N0) + np.cos(0.9 * _t0) + 1j * _rng.standard_normal(_N0),
    2: _rng.standard_normal(_N1) + np.cos(0.5 * _t1),
    3: _rng.standard_normal(_N1) + 1j * _rng.standard_normal(_N1) + np.exp(0.7j * _t1),
}
# data lengths that are exact powers of two ('nextpow2' leaves NFFT = N) - drawn from a separate stream so that DATA[0..3] keep
# their values
_rng2 = np.random.default_rng(70)
DATA.update({
    4: _rng2.standard_normal(16) + np.cos(0.9 * np.arange(16)),
    5: _rng2.standard_normal(32) + 1j * _rng2.standard_normal(32) + np.exp(0.7j * np.arange(32)),
    6: _rng2.standard_normal(16) + 1j * _rng2.standard_normal(16) + np.exp(0.4j * np.arange(16)),
    7: _rng2.standard_normal(32) + np.cos(0.5 * np.arange(32)),
})
# second sequences for the cross-correlogram (`pcorrelogram.data_y`), same length as DATA[0] / DATA[1]; 0 stands for None
DATAY = {
    1: _rng2.standard_normal(_N0) + np.cos(0.9 * _t0 + 0.3),
    2: _rng2.standard_normal(_N0) + np.sin(0.5 * _t0),
}
MT_METHODS = ("unity", "adapt", "eigen")

CLS = {
    # name: (parametric?, attributes the constructor takes)
    "Periodogram": (False, ("window",)),
    "pcorrelogram": (False, ("window", "lag")),
    "pburg": (True, ("ar",)),
    "pyule": (True, ("ar",)),
    "pcovar": (True, ("ar",)),
    "pmodcovar": (True, ("ar",)),
    "parma": (True, ("ar", "ma", "lag")),
    "pma": (True, ("ar", "ma")),
    "pminvar": (True, ("ar",)),
    "pmusic": (True, ("ar",)),
    "pev": (True, ("ar",)),
    "MultiTapering": (False, ()),
}


def _sp():
    import spectrum
    return spectrum


def build_raw(cls, x, kw, window="hann", detrend=None, lag=6, ar=4, ma=2, data_y=None, mt="unity"):
    """construct the estimator object from explicit values: `x` the data, `kw` the common keyword arguments (NFFT, sampling,
    scale_by_freq); `mt` is the MultiTapering weighting (a constructor option that no operation changes)"""
    sp = _sp()
    if cls == "Periodogram":
        return sp.Periodogram(x, window=window, detrend=detrend, **kw)
    if cls == "pcorrelogram":
        o = sp.pcorrelogram(x, lag=lag, window=window, detrend=detrend, **kw)
        if data_y is not None:
            # the constructor has no data_y argument: a fresh cross-correlogram is an object whose data_y is assigned before any
            # computation
            o.data_y = np.array(data_y, copy=True)
        return o
    if cls == "pburg":
        return sp.pburg(x, ar, **kw)
    if cls == "pyule":
        return sp.pyule(x, ar, **kw)
    if cls == "pcovar":
        return sp.pcovar(x, ar, **kw)
    if cls == "pmodcovar":
        return sp.pmodcovar(x, ar, **kw)
    if cls == "parma":
        return sp.parma(x, ar, ma, lag, **kw)
    if cls == "pma":
        return sp.pma(x, ma, ar, **kw)
    if cls == "pminvar":
        return sp.pminvar(x, ar, **kw)
    if cls == "pmusic":
        return sp.pmusic(x, ar, NSIG=2, **kw)
    if cls == "pev":
        return sp.pev(x, ar, NSIG=2, **kw)
    if cls == "MultiTapering":
        return sp.MultiTapering(x, NW=2.5, k=4, method=mt, **kw)
    raise ValueError(cls)


def build(cls, a, mt="unity"):
    """construct the estimator object for an attribute snapshot (dict); `mt` is the MultiTapering weighting (a constructor option
    that no operation changes)"""
    kw = dict(NFFT=a["nfft"], sampling=SAMP[a["samp"]], scale_by_freq=bool(a["scale"]))
    # for pcorrelogram the `ar` slot of the snapshot holds the data_y identifier (0 = None)
    dy = DATAY[a["ar"]] if (cls == "pcorrelogram" and a.get("ar", 0)) else None
    return build_raw(cls, DATA[a["dataId"]], kw, window=WINDOWS[a["window"]], detrend=DETREND[a["detrend"]], lag=a["lag"],
                     ar=a["ar"], ma=a["ma"], data_y=dy, mt=mt)


def init_attrs(cls, dataId):
    N = len(DATA[dataId])
    a = {"dataId": dataId, "cplx": int(np.iscomplexobj(DATA[dataId])), "N": N, "nfft": N, "samp": 0, "detrend": 0, "scale": 0,
         "window": 0, "lag": 6, "ar": 4, "ma": 2}
    if cls == "pma":
        a["ar"] = 6   # pma(data, Q, M): ar_order holds M
    if cls in ("pmusic", "pev"):
        a["ar"] = 6
    if cls == "pcorrelogram":
        a["ar"] = 0   # the slot holds the data_y identifier: None at construction
    return a


def alphabet_core(cls):
    par, has = CLS[cls]
    ops = [("data", 0), ("data", 1), ("data", 2), ("data", 3), ("nfft", 32), ("nfft", 33), ("nfft", None), ("nfft", "nextpow2"),
           ("samp", 1), ("samp", 0), ("detrend", 1), ("scale", 1), ("scale", 0),
           ("sides", "centerdc"), ("sides", "twosided"), ("sides", "onesided"), ("sides", "default"), ("call", None), ("read", None)]
    if "window" in has:
        ops.append(("window", 1))
    if "lag" in has:
        ops.append(("lag", 7))
    if "ar" in has:
        ops.append(("ar", 5 if cls not in ("pma", "pmusic", "pev") else 7))
        ops.append(("ar", init_attrs(cls, 0)["ar"]))
    if "ma" in has:
        ops.append(("ma", 3))
    return ops


def alphabet_ext(cls):
    """values back to the start value, a third sampling rate / window, NFFT below the data length (15, 16 against N = 20, 23, 32),
    data whose length is a power of two, list-valued data, reads through get_converted_psd"""
    par, has = CLS[cls]
    ops = [("detrend", 0), ("samp", 2), ("nfft", 16), ("nfft", 15), ("data", 4), ("data", 5), ("datalist", 2), ("datalist", 1),
           ("cread", "centerdc"), ("cread", "twosided"), ("cread", "onesided")]
    if "window" in has:
        ops += [("window", 0), ("window", 2)]
    if "lag" in has:
        ops.append(("lag", 6))
    if "ma" in has:
        ops.append(("ma", 2))
    return ops


def alphabet(cls):
    return alphabet_core(cls) + alphabet_ext(cls)


def toggles(cls):
    """(away, back) pairs: `back` restores the value the object was constructed with; ("data", None) = the start data"""
    par, has = CLS[cls]
    t = [(("samp", 1), ("samp", 0)), (("samp", 2), ("samp", 0)), (("detrend", 1), ("detrend", 0)), (("scale", 1), ("scale", 0)),
         (("nfft", 32), ("nfft", None)), (("nfft", 15), ("nfft", None)), (("nfft", "nextpow2"), ("nfft", 20)),
         (("data", 2), ("data", None)), (("datalist", 3), ("data", None)), (("data", 4), ("data", None))]
    if "window" in has:
        t += [(("window", 1), ("window", 0)), (("window", 2), ("window", 0))]
    if "lag" in has:
        t.append((("lag", 7), ("lag", 6)))
    if "ar" in has:
        t.append((("ar", 5 if cls not in ("pma", "pmusic", "pev") else 7), ("ar", init_attrs(cls, 0)["ar"])))
    if "ma" in has:
        t.append((("ma", 3), ("ma", 2)))
    return t


def alphabet_datay(cls):
    """pcorrelogram with a second sequence: the data keep their length (20)"""
    assert cls == "pcorrelogram"
    keep = [op for op in alphabet(cls) if not (op[0] in ("data", "datalist") and len(DATA[op[1]]) != _N0)]
    return keep, [("data_y", 1), ("data_y", 2), ("data_y", 0)]


def cread_side(p, v):
    """the representation actually requested by a ("cread", v) operation: a complex estimate has no one-sided form"""
    return "centerdc" if (v == "onesided" and np.iscomplexobj(p.data)) else v


def apply_op(p, op):
    k, v = op
    if k == "data":
        p.data = DATA[v]
    elif k == "datalist":
        p.data = list(DATA[v])
    elif k == "data_y":
        p.data_y = None if v == 0 else DATAY[v].copy()
    elif k == "nfft":
        p.NFFT = v
    elif k == "samp":
        p.sampling = SAMP[v]
    elif k == "detrend":
        p.detrend = DETREND[v]
    elif k == "scale":
        p.scale_by_freq = bool(v)
    elif k == "window":
        p.window = WINDOWS[v]
    elif k == "lag":
        p.lag = v
    elif k == "ar":
        p.ar_order = v
    elif k == "ma":
        p.ma_order = v
    elif k == "sides":
        p.sides = v
    elif k == "call":
        p()
    elif k == "read":
        return np.array(p.psd)
    elif k == "cread":
        return np.array(p.get_converted_psd(cread_side(p, v)))
    else:
        raise ValueError(op)
    return None


def op_token(op):
    """the model operation (driver `objhist` grammar) with the same effect on the attribute-and-cache state machine"""
    k, v = op
    if k in ("data", "datalist"):
        return "data:%d:%d:%d" % (v, int(np.iscomplexobj(DATA[v])), len(DATA[v]))
    if k == "data_y":
        return "ar:%d" % v
    if k == "nfft":
        return "nfftnone" if v is None else ("nfftpow2" if v == "nextpow2" else "nfft:%d" % v)
    if k == "sides":
        return "sides:%s" % v
    if k in ("call", "read"):
        return k
    if k == "cread":
        return "read"
    return "%s:%d" % (k, v)


def op_name(op):
    """display / key name of an operation (distinguishes the operations that share a model token)"""
    k, v = op
    if k in ("datalist", "data_y", "cread"):
        return "%s:%s" % (k, v)
    return op_token(op)


def impl_hist(p):
    cls = p["cls"]
    a0 = init_attrs(cls, p["data0"])
    o = build(cls, a0, p.get("mt", "unity"))
    obs = []
    ncall = 0
    for op in p["ops"]:
        err = 0
        psd = None
        cside = cread_side(o, op[1]) if op[0] == "cread" else None
        try:
            if op[0] == "call":
                ncall += 1
            if op[0] == "call" and ncall % 2 == 0:
                o.run()                       # the documented synonym of calling the object
            else:
                psd = apply_op(o, op)
        except AssertionError:
            err = 1
        obs.append({"err": err, "sides": SIDE_CODE[o.sides], "nfft": o.NFFT, "df": o.df, "flen": len(o.frequencies()), "psd": psd,
                    "sampling": o.sampling, "cside": cside})
    return obs


def model_hist(p):
    cls = p["cls"]
    a = init_attrs(cls, p["data0"])
    par = 1 if CLS[cls][0] else 0
    head = [par, a["cplx"], a["N"], a["nfft"], a["samp"], a["detrend"], a["scale"], a["window"], a["lag"], a["ar"], a["ma"], a["dataId"]]
    return ("O", " ".join(["objhist", "O"] + [str(h) for h in head] + [op_token(op) for op in p["ops"]]))


FIELDS = ["dataId", "cplx", "N", "nfft", "samp", "detrend", "scale", "window", "lag", "ar", "ma"]


def post_hist(p, iv, mv):
    """turn both sides into comparable vectors: per op [err, sides, NFFT, df, len(frequencies())] and, for reads, the psd of a fresh
    object built from the snapshot the model says the cache holds, in the representation the model says it is stored in (for a
    get_converted_psd read: that fresh object's conversion to the requested representation)"""
    cls = p["cls"]
    mt = p.get("mt", "unity")
    I, M = [], []
    for (op, o, m) in zip(p["ops"], iv, mv):
        m = [int(v) for v in m]
        err, sides, nfft, rangeN, rangeSamp, flen = m[0:6]
        valid = m[6]
        snap = dict(zip(FIELDS, m[7:18]))
        cside = m[18]
        I.append(np.array([o["err"], o["sides"], o["nfft"], o["df"], o["flen"]], dtype=float))
        M.append(np.array([err, sides, nfft, SAMP[rangeSamp] / rangeN, flen], dtype=float))
        if op[0] in ("read", "cread") and o["psd"] is not None and valid:
            f = build(cls, snap, mt)
            _ = f.psd                      # compute first: assigning sides before any computation does not convert
            f.sides = CODE_SIDE[cside]
            I.append(np.asarray(o["psd"], dtype=float))
            if op[0] == "read":
                M.append(np.asarray(f.psd, dtype=float))
            else:
                M.append(np.asarray(f.get_converted_psd(o["cside"]), dtype=float))
    return I, M


def _fresh(cls, a, o, mt):
    """a freshly constructed object with the attribute values `a` (NFFT: the resolved integer of `o`), its estimate brought to the
    representation `o` reports; raises AssertionError when `o` reports a representation the data type cannot have"""
    a2 = dict(a)
    a2["nfft"] = o.NFFT
    a2["cplx"] = int(np.iscomplexobj(DATA[a2["dataId"]]))
    f = build(cls, a2, mt)
    exp = np.array(f.psd)
    if f.sides != o.sides:
        f.sides = o.sides
        exp = np.array(f.psd)
    return f, exp, a2


def _reassign_unguarded(o, cls, variant):
    """assign their current values again through the setters that have no equality guard"""
    has = CLS[cls][1]
    if variant == 0:
        o.data = o.data                          # the same array object
    elif variant == 1:
        o.data = np.array(o.data, copy=True)     # an equal copy
    else:
        o.data = list(o.data)                    # an equal list
    if "ar" in has:
        o.ar_order = o.ar_order
    if "ma" in has:
        o.ma_order = o.ma_order
    if "lag" in has:
        o.lag = o.lag
    if cls == "pcorrelogram":
        o.data_y = o.data_y


def oracle_hist(p):
    """the property statement on the real code alone: after the history (and at every read inside it), psd equals that of a fresh
    object with the current attribute values; df = sampling/NFFT; len(frequencies()) = len(psd); re-assignment changes nothing"""
    cls = p["cls"]
    mt = p.get("mt", "unity")
    a = dict(init_attrs(cls, p["data0"]))
    o = build(cls, a, mt)
    out = []
    nops = len(p["ops"])
    tag = "%s%s, start data %d, history %s" % (cls, "" if mt == "unity" else "(method=%s)" % mt, p["data0"],
                                               [op_name(op) for op in p["ops"]])
    # `clean`: an estimate has been computed and no attribute assignment happened since (no recomputation is pending); a sides
    # assignment on such an object converts the stored estimate and keeps it up to date
    clean = False
    try:
        for i, op in enumerate(p["ops"]):
            k, v = op
            f0 = len(o.frequencies()) if (k in ("read", "cread") and clean) else None
            sides0 = o.sides
            try:
                r = apply_op(o, op)
            except AssertionError:
                if not (op[0] == "sides" and op[1] == "onesided" and np.iscomplexobj(o.data)):
                    return ["history %s raised AssertionError at %s" % (p["ops"], op)]
                clean = False
                continue
            if k in ("data", "datalist"):
                a["dataId"] = v
            elif k == "data_y":
                a["ar"] = v
            elif k in ("samp", "detrend", "scale", "window", "lag", "ar", "ma"):
                a[k] = v
            elif k == "nfft":
                # the value the assignment resolves to (what a fresh object given the same NFFT argument on these data gets):
                # None -> the data length, 'nextpow2' -> the smallest power of two >= the data length
                n_data = len(DATA[a["dataId"]])
                want = n_data if v is None else ((1 << (n_data - 1).bit_length()) if v == "nextpow2" else int(v))
                if o.NFFT != want or abs(o.df - o.sampling / want) > 1e-12 * abs(o.sampling / want):
                    out.append("after NFFT = %r on %d samples: NFFT = %r (expected %d), df = %r (%s)" % (
                        v, n_data, o.NFFT, want, o.df, tag))
            if k in ("read", "cread"):
                n_psd = len(o.psd)
                if len(o.frequencies()) != n_psd:
                    out.append("after operation %d (%s): len(frequencies()) = %d != len(psd) = %d (%s)" % (
                        i, op_name(op), len(o.frequencies()), n_psd, tag))
                if f0 is not None and (f0 != n_psd or o.sides != sides0):
                    out.append("operation %d (%s) on an up-to-date object: len(frequencies()) was %d (sides %s) before the read, psd "
                               "has %d values (sides %s) (%s)" % (i, op_name(op), f0, sides0, n_psd, o.sides, tag))
                if k == "cread" or i < nops - 1:
                    # reads inside the history (the final state is compared below)
                    try:
                        f, exp, _a2 = _fresh(cls, a, o, mt)
                    except AssertionError:
                        return ["object reports sides=%s for %s data after %s" % (
                            o.sides, "complex" if np.iscomplexobj(o.data) else "real", p["ops"][:i + 1])]
                    if k == "cread":
                        sd = cread_side(o, v)
                        exp = np.asarray(f.get_converted_psd(sd))
                        what = "get_converted_psd('%s')" % sd
                    else:
                        what = "psd"
                    if r is None or np.asarray(r).shape != exp.shape or rel(np.asarray(r), exp) > 1e-9:
                        out.append("%s at operation %d is stale: differs from a freshly constructed object with the same attribute "
                                   "values (%s)" % (what, i, tag))
                clean = True
            elif k == "call":
                clean = True
            elif k == "sides":
                pass                  # converts an up-to-date estimate in place; a pending recomputation stays pending here
            else:
                clean = False
        got = np.array(o.psd)
    except Exception as e:
        return ["history %s on %s raised %r" % (p["ops"], cls, e)]
    try:
        f, exp, a = _fresh(cls, a, o, mt)
    except AssertionError:
        return ["object reports sides=%s for %s data after %s" % (o.sides, "complex" if np.iscomplexobj(o.data) else "real", p["ops"])]
    if got.shape != exp.shape or rel(got, exp) > 1e-9:
        out.append("psd is stale: differs from a freshly constructed object with the same final attribute values (%s)" % tag)
    if abs(o.df - o.sampling / o.NFFT) > 1e-12 * abs(o.sampling / o.NFFT):
        out.append("df = %r != sampling/NFFT = %r (%s)" % (o.df, o.sampling / o.NFFT, tag))
    if len(o.frequencies()) != len(got):
        out.append("len(frequencies()) = %d != len(psd) = %d (%s)" % (len(o.frequencies()), len(got), tag))
    # re-assigning an unchanged value does not alter the result
    before = np.array(o.psd)
    sides_before = o.sides
    o.sampling = o.sampling
    o.NFFT = o.NFFT
    o.scale_by_freq = o.scale_by_freq
    o.detrend = o.detrend
    o.sides = o.sides
    if hasattr(o, "window") and isinstance(getattr(type(o), "window", None), property):
        o.window = o.window
    after = np.array(o.psd)
    if o.sides != sides_before or after.shape != before.shape or rel(after, before) > 1e-12:
        out.append("re-assigning unchanged values altered the result (%s)" % tag)
    # ... nor does it through the setters without an equality guard (data: the same array object, an equal copy, an equal list;
    # model orders; lag; data_y).  These trigger a recomputation, which resets `sides` to the default representation: from a
    # non-default representation the estimate is compared after conversion back, from the default one nothing may change at all
    if not out:
        variants = (0, 1 + nops % 2) if (nops + p["data0"]) % 2 == 0 else (1 + nops % 2, 0)
        for step, variant in enumerate(variants):
            if step == 1 and o.sides != o._default_sides():
                o.sides = "default"
            before = np.array(o.psd)
            sides_before, nfft_before, df_before = o.sides, o.NFFT, o.df
            dflt = "twosided" if np.iscomplexobj(o.data) else "onesided"
            _reassign_unguarded(o, cls, variant)
            after = np.array(o.psd)
            how = ["the same array object", "an equal copy", "an equal list"][variant]
            if o.NFFT != nfft_before or o.df != df_before:
                out.append("re-assigning data (%s) / orders / lag changed NFFT or df (%s)" % (how, tag))
            if sides_before == dflt:
                if o.sides != sides_before or after.shape != before.shape or rel(after, before) > 1e-12:
                    out.append("re-assigning data (%s) / orders / lag with their current values altered the result (%s)" % (how, tag))
            else:
                conv = np.asarray(o.get_converted_psd(sides_before))
                if conv.shape != before.shape or rel(conv, before) > 1e-12:
                    out.append("re-assigning data (%s) / orders / lag with their current values altered the estimate (compared in "
                               "the %s representation) (%s)" % (how, sides_before, tag))
            if len(o.frequencies()) != len(after):
                out.append("len(frequencies()) = %d != len(psd) = %d after re-assignment (%s)" % (len(o.frequencies()), len(after), tag))
    if not out and (len(p["ops"]) + 2 * p["data0"]) % 3 != 1:
        # the other way of reading the estimate: get_converted_psd(sides) straight after the history (no psd read before it)
        o2 = build(cls, dict(init_attrs(cls, p["data0"])), mt)
        ok = True
        for op in p["ops"]:
            if op[0] in ("read", "cread"):
                continue
            try:
                apply_op(o2, op)
            except AssertionError:
                if not (op[0] == "sides" and op[1] == "onesided" and np.iscomplexobj(o2.data)):
                    ok = False
                    break
        if ok:
            sides_ok = ["twosided", "centerdc"] + ([] if a["cplx"] else ["onesided"])
            sd = sides_ok[(len(p["ops"]) + len(cls)) % len(sides_ok)]
            got_c = o2.get_converted_psd(sd)
            f2 = build(cls, a, mt)
            _ = f2.psd
            exp_c = np.asarray(f2.get_converted_psd(sd))
            if got_c is None or np.asarray(got_c).shape != exp_c.shape or rel(np.asarray(got_c), exp_c) > 1e-9:
                out.append("get_converted_psd('%s') right after the history differs from that of a fresh object with the same final "
                           "attribute values (%s values against %d) (%s)" % (
                               sd, "no" if got_c is None else len(got_c), len(exp_c), tag))
    if not out and (len(p["ops"]) + p["data0"]) % 2 == 0:
        # arithmetic through the data property (`p.data *= 3`, `p.data -= p.data.mean()`): the setter receives the SAME array
        # object with new contents - still an assignment of new data
        d = np.array(DATA[a["dataId"]], copy=True)
        o.data = d
        _ = o.psd
        if len(p["ops"]) % 4 < 2:
            o.data *= 3.0
        else:
            o.data += np.arange(len(d)) * 0.25
        got3 = np.array(o.psd)
        DATA[99] = np.array(o.data, copy=True)
        try:
            f3 = build(cls, dict(a, dataId=99), mt)
            exp3 = np.array(f3.psd)
            if f3.sides != o.sides:
                f3.sides = o.sides
                exp3 = np.array(f3.psd)
        finally:
            del DATA[99]
        if got3.shape != exp3.shape or rel(got3, exp3) > 1e-9:
            out.append("psd is stale after in-place arithmetic through the data property (p.data *= c / p.data += r): differs from a "
                       "fresh object on the final data (%s)" % tag)
    return out


def _key(p):
    return "%s%s|%d|%s" % (p["cls"], "" if p.get("mt", "unity") == "unity" else ":" + p["mt"], p["data0"],
                           [op_name(o) for o in p["ops"]])


def _nontrivial(p):
    ks = [o[0] for o in p["ops"]]
    return any(k not in ("read", "call", "cread") for k in ks)


def _tags(p):
    ops = [tuple(o) for o in p["ops"]]
    ks = [o[0] for o in ops]
    t = ["cls:" + p["cls"], "start:" + ("complex" if np.iscomplexobj(DATA[p["data0"]]) else "real"), "len:%d" % len(ops)]
    if p["cls"] == "MultiTapering":
        t.append("mt:" + p.get("mt", "unity"))
    for k in ("cread", "datalist", "data_y"):
        if k in ks:
            t.append("op:" + k)
    attr = [k for k in ks if k not in ("read", "call", "cread", "sides")]
    if attr and all(k == "detrend" for k in attr):
        # detrend='mean' changes no estimate: a stale value could not be told from a fresh one here
        t.append("only-detrend-assigned(no numerical effect)")
    for i, k in enumerate(ks):
        if k == "cread" and any(kk not in ("read", "call", "cread", "sides") for kk in ks[i + 1:]):
            t.append("converted-read-then-setter")
            break
    # NFFT below the data length / 'nextpow2' at an exact power of two, followed statically through the history
    N = len(DATA[p["data0"]])
    for k, v in ops:
        if k in ("data", "datalist"):
            N = len(DATA[v])
        elif k == "nfft" and isinstance(v, (int, np.integer)) and v < N:
            t.append("nfft<N")
            break
    N = len(DATA[p["data0"]])
    for k, v in ops:
        if k in ("data", "datalist"):
            N = len(DATA[v])
        elif k == "nfft" and v == "nextpow2" and N & (N - 1) == 0:
            t.append("nextpow2-at-power-of-two")
            break
    back = {"detrend": 0, "window": 0, "samp": 0, "scale": 0, "lag": 6, "ma": 2}
    seen = set()
    for k, v in ops:
        if k in back:
            if v == back[k] and k in seen:
                t.append("set-back-to-start-value")
                break
            if v != back[k]:
                seen.add(k)
    return t


# ----------------------------------------------------------------------------------------------------------------------
# kind "fhist": histories that contain FAILING computations, rejected assignments and temporaries.
#
# The histories of kind "hist" never leave the states in which the estimate can be computed.  Here an assignment (order >= N,
# lag >= N, a record that is too short for the order / NW, an NFFT below what the estimator needs) puts the object into a state
# in which the computation raises; the exception of the next read is caught (as a caller's try/except does, or `str(p)`, whose
# __str__ swallows it) and the history goes on: further reads, get_converted_psd, power(), `sides = ...`, explicit p() / p.run(),
# sometimes an assignment that makes the state computable again.  The oracle is agnostic about which states fail: every
# observation is compared with a freshly constructed object holding the same attribute values - where the fresh object raises,
# the re-used object has to raise too (same error family) instead of serving the estimate of an earlier state; where it returns,
# the values have to agree and len(frequencies()) == len(psd).
#
# The fhist histories are oracle only (their operation language is richer than the model's); the kind "fmodel" below runs
# histories with failing computations against the failing-estimator model of Model/ObjectF.lean.

_rng3 = np.random.default_rng(707)          # own stream: DATA[0..7] / DATAY keep their values
SHORT_LENS = (1, 2, 3, 4, 5, 6, 8)


def short_id(n, cplx):
    return 40 + 2 * n + int(cplx)


for _n in SHORT_LENS:
    _re = _rng3.standard_normal(_n) + np.cos(0.9 * np.arange(_n))
    _im = _rng3.standard_normal(_n)
    DATA[short_id(_n, 0)] = _re
    DATA[short_id(_n, 1)] = 0.5 * _re + 1j * _im + np.exp(0.7j * np.arange(_n))

# Assignments after which the class cannot compute its estimate from the N = 20 start data (constructor values: orders 4 / 6, MA
# order 2, lag 6, NW = 2.5); "short": lengths of replacement records that are too short.  Found by running the unchanged library
# over order / lag / NFFT / record-length grids; values whose estimate is *returned* but is numerical noise (pcovar, order > N;
# pminvar, order 17..20) are deliberately left out.  The oracle does not rely on this table (it asks a fresh object), the table
# only steers the generator towards states that fail.  Periodogram computes something for every state.
FAIL = {
    "Periodogram": {},
    "pcorrelogram": {"lag": [20, 21, 100], "nfft": [1, 3, 5], "short": [1, 3, 6]},
    "pburg": {"ar": [0, 20, 21, 100], "nfft": [1, 4], "short": [1, 2, 3]},
    "pyule": {"ar": [20, 25, 100], "nfft": [2, 4], "short": [1, 3, 4]},
    "pcovar": {"ar": [20], "nfft": [1, 4], "short": [4]},
    "pmodcovar": {"ar": [20, 21, 100], "nfft": [3, 4], "short": [1, 3, 4]},
    "parma": {"ar": [9, 20, 25], "lag": [0, 1, 19, 20, 100], "ma": [0, 10, 30], "nfft": [1, 4], "short": [2, 5, 8]},
    "pma": {"ar": [0, 1, 20, 100], "ma": [0, 10, 30], "nfft": [1, 2], "short": [1, 4, 6]},
    "pminvar": {"ar": [0, 1, 21, 25, 100], "nfft": [1, 3], "short": [1, 2]},
    "pmusic": {"ar": [0, 1, 17, 20, 100], "nfft": [1, 5], "short": [2, 6, 8]},
    "pev": {"ar": [0, 1, 17, 20, 100], "nfft": [1, 5], "short": [2, 6, 8]},
    "MultiTapering": {"short": [1, 3, 5]},
}

# assignments the setters reject (they raise): the object has to stay as it was
BAD_COMMON = [["NFFT", -3], ["NFFT", 0], ["NFFT", 2.5], ["NFFT", "bogus"], ["detrend", "bogus"], ["scale_by_freq", "yes"],
              ["scale_by_freq", 2], ["sides", "bogus"], ["data", None], ["data", 3.5]]
F_OBS = ("read", "cread", "power", "str", "call", "run")


def f_bad_ops(cls):
    par, has = CLS[cls]
    bad = [list(b) for b in BAD_COMMON]
    if "window" in has:
        bad.append(["window", "bogus"])
    if par:
        bad.append(["ar_order", -1])
        bad.append(["ma_order", -2])
    return [("bad", b) for b in bad]


def f_fail_ops(cls, data0):
    """(failing assignment, assignment that makes the state computable again) pairs"""
    t = FAIL[cls]
    a0 = init_attrs(cls, data0)
    out = []
    for k in ("ar", "ma", "lag"):
        for v in t.get(k, []):
            out.append(((k, v), (k, a0[k])))
    for j, v in enumerate(t.get("nfft", [])):
        out.append((("nfft", v), ("nfft", (None, 32)[j % 2])))
    for n in t.get("short", []):
        for c in (0, 1):
            out.append((("data", short_id(n, c)), ("data", data0)))
    return out


def f_filler(cls):
    """assignments that keep the record length (20): both start records, the NFFT values, sampling, detrend, scale, sides, the
    class's window / lag / order values"""
    par, has = CLS[cls]
    ops = [("data", 0), ("data", 1), ("datalist", 1), ("nfft", 32), ("nfft", 33), ("nfft", None), ("nfft", "nextpow2"), ("nfft", 15),
           ("samp", 1), ("samp", 0), ("detrend", 1), ("detrend", 0), ("scale", 1), ("scale", 0),
           ("sides", "centerdc"), ("sides", "twosided"), ("sides", "onesided"), ("sides", "default")]
    if "window" in has:
        ops += [("window", 1), ("window", 0)]
    if "lag" in has:
        ops += [("lag", 7), ("lag", 6)]
    if "ar" in has:
        ops += [("ar", 5 if cls not in ("pma", "pmusic", "pev") else 7), ("ar", init_attrs(cls, 0)["ar"])]
    if "ma" in has:
        ops += [("ma", 3), ("ma", 2)]
    return ops


F_TMPSEQ = [[0, 1], [1, 0], [0, "read", 1], [1, "read", 0], [0, "demean"], [1, "demean"], [0, "read", "demean"], [1, "triple"],
            [0, "triple", "read", "demean"], [2, 3], [3, "read", 2], [1, 1, "read", 0], [0, "read", 0, "demean", "read", "triple"]]


def f_init(cls, data0):
    a = init_attrs(cls, data0)
    return {"x": DATA[data0], "NFFT": a["nfft"], "sampling": SAMP[a["samp"]], "scale_by_freq": bool(a["scale"]),
            "detrend": DETREND[a["detrend"]], "window": WINDOWS[a["window"]], "lag": a["lag"], "ar_order": a["ar"],
            "ma_order": a["ma"]}


def f_build(cls, A, mt):
    if not isinstance(A["x"], (np.ndarray, list)):
        raise TypeError("data: %r" % (A["x"],))
    return build_raw(cls, A["x"], dict(NFFT=A["NFFT"], sampling=A["sampling"], scale_by_freq=A["scale_by_freq"]),
                     window=A["window"], detrend=A["detrend"], lag=A["lag"], ar=A["ar_order"], ma=A["ma_order"], mt=mt)


def _family(e):
    """error class family (the families of the runner's correspondence comparison)"""
    if isinstance(e, AssertionError):
        return "assert"
    if isinstance(e, (ZeroDivisionError, FloatingPointError, np.linalg.LinAlgError)):
        return "singular"
    if isinstance(e, ValueError):
        return "value"
    if isinstance(e, TypeError):
        return "type"
    if isinstance(e, (IndexError, KeyError)):
        return "index"
    return "other:" + type(e).__name__


def _f_err(e):
    return ("err", _family(e), "%s: %s" % (type(e).__name__, str(e)[:70]))


def _f_observe(o, k, sd):
    """one observation; the exception of a failing computation is caught, as a caller's try/except (or __str__) does"""
    try:
        if k == "read":
            return ("ok", np.array(o.psd))
        if k == "cread":
            return ("ok", np.array(o.get_converted_psd(sd)))
        if k == "power":
            return ("ok", np.array(o.power()))
        if k == "str":
            return ("ok", str(o))
        if k == "call":
            o()
            return ("ok", None)
        if k == "run":
            o.run()
            return ("ok", None)
    except Exception as e:
        return _f_err(e)
    raise ValueError(k)


def _f_fresh(cls, A, mt, o, k, sd):
    """the same observation on a freshly constructed object with the attribute values A, its estimate (when there is one) brought
    to the representation the re-used object reports"""
    try:
        f = f_build(cls, A, mt)
        if k in ("call", "run"):
            return _f_observe(f, k, sd)
        if k == "str":
            try:
                f.psd
            except Exception:
                pass
        else:
            f.psd
    except Exception as e:
        return _f_err(e)
    if f.sides != o.sides:
        try:
            f.sides = o.sides
        except AssertionError:
            return ("badsides", None)
    return _f_observe(f, k, sd)


def _f_snapshot(o):
    return [repr(o.NFFT), repr(o.sampling), repr(o.df), o.sides, repr(o.detrend), repr(o.scale_by_freq), o.N, o.datatype,
            len(o.frequencies()), repr(getattr(o, "window", None)), repr(getattr(o, "lag", None)),
            repr(getattr(o, "ar_order", None)), repr(getattr(o, "ma_order", None)), str(np.asarray(o.data).dtype),
            np.asarray(o.data).tobytes()]


SNAP_NAMES = ["NFFT", "sampling", "df", "sides", "detrend", "scale_by_freq", "N", "datatype", "len(frequencies())", "window", "lag",
              "ar_order", "ma_order", "data dtype", "data"]


def _f_same(a, b, tol):
    """arrays / scalars agree: same shape, same pattern of non-finite values, finite values within tol (relative to the largest
    magnitude).  Returns the relative difference found (inf for a shape / pattern mismatch)."""
    a = np.asarray(a)
    b = np.asarray(b)
    if a.shape != b.shape or a.dtype == object or b.dtype == object:
        return float("inf")
    if a.size == 0:
        return 0.0
    fa, fb = np.isfinite(a), np.isfinite(b)
    if not np.array_equal(fa, fb):
        return float("inf")
    if not np.all(fa):
        if not (np.array_equal(np.isnan(a), np.isnan(b)) and np.array_equal(a[~fa & ~np.isnan(a)], b[~fb & ~np.isnan(b)])):
            return float("inf")
        a, b = a[fa], b[fb]
        if a.size == 0:
            return 0.0
    return rel(a, b)


# worst relative difference seen by the fhist oracle between a re-used and a fresh object (diagnostic, read by the measuring script)
F_WORST = [0.0]


def f_tmpseq(o, items):
    """assignments of temporaries, no reference kept and nothing allocated in between (CPython hands the id() / address of a freed
    array to the next one): p.data = rec; [read;] p.data = rec2 / p.data = p.data - p.data.mean() / p.data = p.data * 3"""
    for it in items:
        if it == "read":
            try:
                o.psd
            except Exception:
                pass
        elif it == "demean":
            o.data = o.data - o.data.mean()
        elif it == "triple":
            o.data = o.data * 3.0
        else:
            o.data = np.array(DATA[it])


def f_tmpseq_expected(x, items):
    for it in items:
        if it == "read":
            continue
        if it == "demean":
            x = x - x.mean()
        elif it == "triple":
            x = x * 3.0
        else:
            x = DATA[it]
    return x


def _f_opname(op):
    k, v = op[0], op[1]
    if k == "bad":
        return "%s=%r(rejected)" % (v[0], v[1])
    if k == "tmpseq":
        return "tmp[%s]" % ",".join(str(i) for i in v)
    if k in ("power", "str", "run"):
        return k
    return op_name((k, v))


def oracle_fhist(p):
    """the property statement on the real code alone, for histories with failing computations: at every observation (psd,
    get_converted_psd, power(), str(), p(), p.run()) the re-used object behaves as a freshly constructed object with the same
    attribute values - raises where that one raises, returns the same values where that one returns; df = sampling/NFFT after
    every operation; len(frequencies()) = len(psd) whenever psd is returned; a rejected assignment leaves the object unchanged"""
    cls = p["cls"]
    mt = p.get("mt", "unity")
    ops = [(op[0], op[1]) for op in p["ops"]]
    A = f_init(cls, p["data0"])
    o = f_build(cls, A, mt)
    out = []
    names = [_f_opname(op) for op in ops]
    tag = "%s%s, start data %d, history %s" % (cls, "" if mt == "unity" else "(method=%s)" % mt, p["data0"], names)
    TOL = 1e-9       # the tolerance of kind "hist"; worst difference observed on the unchanged tree: 0.0 (see RULE)
    for i, (k, v) in enumerate(list(ops) + [("read", None)]):
        at = "operation %d (%s)" % (i, names[i]) if i < len(ops) else "the read after the history"
        if k in F_OBS:
            sd = cread_side(o, v) if k == "cread" else None
            got = _f_observe(o, k, sd)
            try:
                exp = _f_fresh(cls, A, mt, o, k, sd)
            except Exception as e:          # the observation itself is not expected to fail in any other way
                return ["fresh object for %s raised %r (%s)" % (at, e, tag)]
            what = {"read": "psd", "cread": "get_converted_psd('%s')" % sd, "power": "power()", "str": "str(p)", "call": "p()",
                    "run": "p.run()"}[k]
            if exp[0] == "badsides":
                return ["object reports sides=%s at %s, which a freshly constructed object with the same attribute values (%s data) "
                        "cannot have (%s)" % (o.sides, at, "complex" if np.iscomplexobj(A["x"]) else "real", tag)]
            if exp[0] == "err" and got[0] == "ok":
                shown = "" if got[1] is None or k == "str" else " %d value(s)" % np.asarray(got[1]).size
                out.append("%s at %s returns%s although a freshly constructed object with the same attribute values raises %s: an "
                           "estimate of an earlier state is served (NFFT = %s, %d frequencies) (%s)" % (
                               what, at, shown, exp[2], o.NFFT, len(o.frequencies()), tag))
            elif exp[0] == "ok" and got[0] == "err":
                out.append("%s at %s raises %s although a freshly constructed object with the same attribute values returns an "
                           "estimate (%s)" % (what, at, got[2], tag))
            elif exp[0] == "err":
                if exp[1] != got[1]:
                    out.append("%s at %s raises %s, a freshly constructed object with the same attribute values raises %s (%s)" % (
                        what, at, got[2], exp[2], tag))
            elif k == "str":
                if got[1] != exp[1]:
                    out.append("str(p) at %s differs from that of a freshly constructed object with the same attribute values: %r "
                               "against %r (%s)" % (at, got[1], exp[1], tag))
            elif k in ("read", "cread", "power"):
                d = _f_same(got[1], exp[1], TOL)
                if d != float("inf"):
                    F_WORST[0] = max(F_WORST[0], d)
                if not d <= TOL:
                    out.append("%s at %s is stale: differs from a freshly constructed object with the same attribute values (%s "
                               "values against %s, relative difference %.3g) (%s)" % (
                                   what, at, np.asarray(got[1]).size, np.asarray(exp[1]).size, d, tag))
                if k == "read" and len(o.frequencies()) != len(got[1]):
                    out.append("after %s: len(frequencies()) = %d != len(psd) = %d (%s)" % (at, len(o.frequencies()), len(got[1]), tag))
        elif k == "bad":
            before = _f_snapshot(o)
            try:
                setattr(o, v[0], v[1])
                raised = None
            except Exception as e:
                raised = e
            if raised is None:
                A["x" if v[0] == "data" else v[0]] = v[1]      # accepted: the fresh objects are constructed with it from now on
            else:
                after = _f_snapshot(o)
                diff = [n for n, b0, b1 in zip(SNAP_NAMES, before, after) if b0 != b1]
                if diff:
                    out.append("the rejected assignment %s at %s (%s) changed %s (%s)" % (
                        names[i], at, type(raised).__name__, ", ".join(diff), tag))
        elif k == "tmpseq":
            f_tmpseq(o, v)
            A["x"] = f_tmpseq_expected(A["x"], v)
        else:
            try:
                apply_op(o, (k, v))
            except Exception as e:
                # `sides = s`: converts the estimate, which has to be brought up to date first - it may fail the way a read does
                # (or, for complex data, refuse 'onesided'); the value of `sides` is not tracked (compared as reported)
                if k != "sides":
                    out.append("the assignment at %s raised %s: %s (%s)" % (at, type(e).__name__, str(e)[:80], tag))
                continue
            if k in ("data", "datalist"):
                A["x"] = DATA[v]
            elif k == "nfft":
                n_data = len(A["x"])
                A["NFFT"] = n_data if v is None else ((1 << (n_data - 1).bit_length()) if v == "nextpow2" else int(v))
            elif k == "samp":
                A["sampling"] = SAMP[v]
            elif k == "detrend":
                A["detrend"] = DETREND[v]
            elif k == "scale":
                A["scale_by_freq"] = bool(v)
            elif k == "window":
                A["window"] = WINDOWS[v]
            elif k == "lag":
                A["lag"] = v
            elif k == "ar":
                A["ar_order"] = v
            elif k == "ma":
                A["ma_order"] = v
        if isinstance(A["NFFT"], (int, np.integer)) and A["NFFT"] > 0 and isinstance(A["sampling"], float):
            if o.NFFT != A["NFFT"] or o.sampling != A["sampling"] or \
                    abs(o.df - o.sampling / o.NFFT) > 1e-12 * abs(o.sampling / o.NFFT):
                out.append("after %s: NFFT = %r (assigned: %r), sampling = %r (assigned: %r), df = %r (%s)" % (
                    at, o.NFFT, A["NFFT"], o.sampling, A["sampling"], o.df, tag))
        if len(out) >= 3:
            break
    return out


def _key_f(p):
    return "%s%s|%d|%s" % (p["cls"], "" if p.get("mt", "unity") == "unity" else ":" + p["mt"], p["data0"],
                           [_f_opname((o[0], o[1])) for o in p["ops"]])


def _nontrivial_f(p):
    ks = [o[0] for o in p["ops"]]
    return any(k not in F_OBS for k in ks)


def _is_fail_op(cls, op):
    k, v = op[0], op[1]
    t = FAIL[cls]
    if k in ("ar", "ma", "lag", "nfft"):
        return v in t.get(k, [])
    if k == "data" and isinstance(v, (int, np.integer)) and v >= 40:
        return (v - 40) // 2 in t.get("short", [])
    return False


def _tags_f(p):
    cls = p["cls"]
    ops = [(o[0], o[1]) for o in p["ops"]]
    ks = [o[0] for o in ops]
    t = ["f:cls:" + cls, "f:start:" + ("complex" if np.iscomplexobj(DATA[p["data0"]]) else "real"), "f:len:%d" % len(ops)]
    if cls == "MultiTapering":
        t.append("f:mt:" + p.get("mt", "unity"))
    for k in ("str", "power", "run", "call", "cread", "bad", "tmpseq"):
        if k in ks:
            t.append("f:op:" + k)
    fails = [i for i, op in enumerate(ops) if _is_fail_op(cls, op)]
    for i in fails[:1]:
        t.append("f:failing-assignment:" + ("short-record" if ops[i][0] == "data" else ops[i][0]))
        computed = any(k in ("read", "cread", "power", "str", "call", "run") for k in ks[:i])
        t.append("f:estimate-computed-before-the-failing-assignment" if computed else "f:never-computed-before-the-failing-assignment")
        obs_after = [j for j in range(i + 1, len(ops)) if ks[j] in ("read", "cread", "power", "str") or ks[j] == "sides"]
        if len(obs_after) >= 2:
            t.append("f:observed-twice-or-more-after-the-failing-assignment")
        if any(ks[j] in ("call", "run") for j in range(i + 1, len(ops))):
            t.append("f:explicit-computation-after-the-failing-assignment")
        if any(ks[j] not in F_OBS and ks[j] not in ("sides", "bad", "tmpseq") for j in range(i + 1, len(ops))):
            t.append("f:assignment-after-the-failing-one")
    if not fails:
        t.append("f:no-failing-assignment")
    return t


# ---- kind "fmodel": histories with failing computations against the failing-estimator model (Model/ObjectF.lean, driver `objhistf`)
#
# `ok` (does the estimator return for an attribute snapshot?) is an uninterpreted parameter of the model (theorems readF_raises_iff,
# readF_fail_again, freshF_eq_reachable hold for every `ok`).  To execute the model the harness supplies its value at the snapshot
# the object holds when an operation runs: it tracks the attribute values the history has assigned (pure bookkeeping, below) and
# asks a FRESHLY CONSTRUCTED object with those values whether its estimate can be computed.  An operation executed with
# ok = false is written `op!`.  Compared per operation: raised / returned, sides, NFFT, df, len(frequencies()), and for every read
# that returns the psd of a fresh object built from the snapshot the model says is stored.

_OK_CACHE = {}


def _track(a, op):
    """the attribute values after an assignment (mirrors what the setters store; observations change nothing)"""
    k, v = op
    a = dict(a)
    if k in ("data", "datalist"):
        a["dataId"], a["cplx"], a["N"] = v, int(np.iscomplexobj(DATA[v])), len(DATA[v])
    elif k == "nfft":
        if v is None:
            a["nfft"] = a["N"]
        elif v == "nextpow2":
            n = 1
            while n < a["N"]:
                n *= 2
            a["nfft"] = n
        else:
            a["nfft"] = v
    elif k in ("samp", "detrend", "scale", "window", "lag", "ar", "ma"):
        a[k] = v
    return a


def _estimable(cls, a, mt):
    key = (cls, mt) + tuple(a[f] for f in FIELDS)
    if key not in _OK_CACHE:
        try:
            f = build(cls, a, mt)
            _ = f.psd
            _OK_CACHE[key] = True
        except Exception:
            _OK_CACHE[key] = False
    return _OK_CACHE[key]


def model_fmodel(p):
    cls = p["cls"]
    mt = p.get("mt", "unity")
    a = init_attrs(cls, p["data0"])
    par = 1 if CLS[cls][0] else 0
    head = [par, a["cplx"], a["N"], a["nfft"], a["samp"], a["detrend"], a["scale"], a["window"], a["lag"], a["ar"], a["ma"], a["dataId"]]
    toks = []
    for op in p["ops"]:
        op = tuple(op)
        a = _track(a, op)
        t = op_token(op)
        if op[0] in ("read", "cread", "call") or op[0] == "sides":
            if not _estimable(cls, a, mt):
                t += "!"
        toks.append(t)
    return ("O", " ".join(["objhistf", "O"] + [str(h) for h in head] + toks))


def impl_fmodel(p):
    cls = p["cls"]
    o = build(cls, init_attrs(cls, p["data0"]), p.get("mt", "unity"))
    obs = []
    ncall = 0
    for op in p["ops"]:
        op = tuple(op)
        err = 0
        psd = None
        cside = None
        try:
            cside = cread_side(o, op[1]) if op[0] == "cread" else None
            if op[0] == "call":
                ncall += 1
            if op[0] == "call" and ncall % 2 == 0:
                o.run()
            else:
                psd = apply_op(o, op)
        except Exception:
            err = 1                     # a caller's try/except: the history goes on
        obs.append({"err": err, "sides": SIDE_CODE[o.sides], "nfft": o.NFFT, "df": o.df, "flen": len(o.frequencies()), "psd": psd,
                    "sampling": o.sampling, "cside": cside})
    return obs


def _gen_fmodel(nrng, quick):
    R, C = ("read", None), ("call", None)
    for ci, cls in enumerate(CLS):
        mts = MT_METHODS if cls == "MultiTapering" else ("unity",)
        for mt in mts[: (1 if quick else len(mts))]:
            base = {"cls": cls} if mt == "unity" else {"cls": cls, "mt": mt}
            for data0 in (0, 1):
                fails = f_fail_ops(cls, data0)
                filler = [o for o in f_filler(cls) if o[0] != "datalist"]
                for fi, (F, heal) in enumerate(fails):
                    if quick and (fi + ci + data0) % 2:
                        continue
                    obs = [R, C, ("sides", "centerdc"), ("sides", "twosided"), ("cread", "centerdc"), ("sides", "default")]
                    o1 = obs[int(nrng.integers(0, len(obs)))]
                    o2 = obs[int(nrng.integers(0, len(obs)))]
                    forms = [[R, F, R, R], [R, F, o1, o2, R], [F, R, heal, R], [C, ("nfft", 32), F, o1, R, heal, o2, R],
                             [R, ("sides", "centerdc"), F, ("sides", "twosided"), R, heal, R]]
                    for fj, form in enumerate(forms):
                        if quick and fj >= 2 and (fj + fi) % 3:
                            continue
                        yield ("fmodel", dict(base, data0=data0, ops=[list(o) for o in form]))
                for i in range(2 if quick else 40):
                    ln = int(nrng.integers(4, 11))
                    alpha = filler + [f for f, _ in fails] + [h for _, h in fails] + [R, R, C, ("cread", "centerdc"), ("cread", "twosided")]
                    h = [alpha[int(nrng.integers(0, len(alpha)))] for _ in range(ln)]
                    yield ("fmodel", dict(base, data0=data0, ops=[list(o) for o in h + [R]]))


KINDS = {
    "hist": {"impl": impl_hist, "model": model_hist, "post": post_hist, "oracle": oracle_hist, "rtol": 1e-9, "atol": 1e-300,
             "key": _key, "nontrivial": _nontrivial, "tags": _tags},
    # oracle only (no "model"): see the comment above FAIL
    "fhist": {"oracle": oracle_fhist, "key": _key_f, "nontrivial": _nontrivial_f, "tags": _tags_f},
    "fmodel": {"impl": impl_fmodel, "model": model_fmodel, "post": post_hist, "rtol": 1e-9, "atol": 0.0, "no_repeat": True,
               "key": lambda p: "fmodel|%s|%s|%d|%s" % (p["cls"], p.get("mt", "unity"), p["data0"], ";".join(op_name(tuple(o)) for o in p["ops"])),
               "nontrivial": lambda p: len(p["ops"]) >= 3,
               "tags": lambda p: ["fmodel", "cls:" + p["cls"]]},
}


def _sample(nrng, items, n):
    if len(items) <= n:
        return list(items)
    idx = nrng.choice(len(items), size=n, replace=False)
    return [items[int(i)] for i in idx]


def gen(rng, nrng, tier):
    classes = list(CLS)
    quick = tier == "quick"
    ex_len = 2 if quick else 3
    R = ("read", None)
    C = ("call", None)
    for ci, cls in enumerate(classes):
        core = alphabet_core(cls)
        ext = alphabet_ext(cls)
        ops = core + ext
        mixed = [(o1, o2) for o1 in ops for o2 in ops if (o1 in ext or o2 in ext)]
        for data0 in (0, 1):
            if quick:
                # exhaustive length 1 (whole alphabet) and 2 (core alphabet) for three classes, sampled pairs for the others
                full = cls in ("Periodogram", "pburg", "parma")
                for o1 in ops:
                    yield ("hist", {"cls": cls, "data0": data0, "ops": [o1, R]})
                pairs = list(itertools.product(core, repeat=2))
                if not full:
                    idx = nrng.choice(len(pairs), size=60, replace=False)
                    pairs = [pairs[i] for i in idx]
                for h in pairs:
                    yield ("hist", {"cls": cls, "data0": data0, "ops": [C] + list(h) + [R]})
                # pairs with at least one operation of the extended alphabet
                for j, h in enumerate(_sample(nrng, mixed, 60 if full else 30)):
                    yield ("hist", {"cls": cls, "data0": data0, "ops": ([C] if j % 3 else []) + list(h) + [R]})
            else:
                for ln in range(1, ex_len + 1):
                    if ln == 3 and cls not in ("Periodogram", "pburg", "parma", "pcorrelogram"):
                        continue
                    for h in itertools.product(ops if ln < 3 else core, repeat=ln):
                        yield ("hist", {"cls": cls, "data0": data0, "ops": [C] + list(h) + [R]})
                # length 3 with the extended alphabet: sampled
                for j in range(600):
                    h = [ops[int(nrng.integers(0, len(ops)))] for _ in range(3)]
                    h[j % 3] = ext[(j // 3) % len(ext)]
                    yield ("hist", {"cls": cls, "data0": data0, "ops": ([C] if j % 4 else []) + h + [R]})
        # every attribute set away from its start value, the estimate read (or computed), the attribute set back, read again:
        # the setters' equality guards must compare with the CURRENT value in both directions
        tg = toggles(cls)
        for data0 in (0, 1):
            for ti, (away, back) in enumerate(tg):
                mids = (R, C, ("cread", "centerdc"))
                for mi, mid in enumerate(mids):
                    if quick and (ti + ci + data0) % 3 != mi:
                        continue
                    b = back if back != ("data", None) else ("data", data0)
                    yield ("hist", {"cls": cls, "data0": data0, "ops": [away, mid, b, R]})
                    if not quick:
                        yield ("hist", {"cls": cls, "data0": data0, "ops": [C, away, mid, b, mid, away, R]})
        n_rand = 40 if quick else 400
        for i in range(n_rand):
            ln = int(nrng.integers(3, 13))
            h = [ops[int(nrng.integers(0, len(ops)))] for _ in range(ln)]
            if i % 3 == 0:
                h.insert(int(nrng.integers(0, len(h))), R)
            yield ("hist", {"cls": cls, "data0": int(nrng.integers(0, 2)), "ops": h + [R]})
        # start data whose length is a power of two (16, 32; real and complex): 'nextpow2' resolves to the current NFFT, NFFT = 16
        # and 15 lie at / below the data length
        small = [("nfft", "nextpow2"), ("nfft", 16), ("nfft", 15), ("nfft", None), ("nfft", 32), ("nfft", 33), ("data", 0), ("data", 4),
                 ("data", 5), ("datalist", 3), ("sides", "centerdc"), ("sides", "default"), ("samp", 1), ("scale", 1), C, R,
                 ("cread", "twosided")]
        starts = (4, 5, 6, 7) if not quick else ((4, 5) if ci % 2 == 0 else (6, 7))
        sp_pairs = list(itertools.product(small, repeat=2))
        for data0 in starts:
            for o1 in small:
                yield ("hist", {"cls": cls, "data0": data0, "ops": [o1, R]})
            for j, h in enumerate(_sample(nrng, sp_pairs, 10) if quick else sp_pairs):
                yield ("hist", {"cls": cls, "data0": data0, "ops": ([C] if j % 2 else []) + list(h) + [R]})
            for i in range(4 if quick else 60):
                ln = int(nrng.integers(3, 9))
                h = [(small if (i + q) % 3 else ops)[int(nrng.integers(0, len(small)))] for q in range(ln)]
                yield ("hist", {"cls": cls, "data0": data0, "ops": h + [R]})
    # MultiTapering with the adaptive and the eigenvalue weighting (constructor option)
    cls = "MultiTapering"
    ops = alphabet(cls)
    pairs = list(itertools.product(ops, repeat=2))
    for mi, mt in enumerate(MT_METHODS[1:]):
        for data0 in (0, 1):
            for o1 in ops:
                yield ("hist", {"cls": cls, "mt": mt, "data0": data0, "ops": [o1, R]})
            for j, h in enumerate(_sample(nrng, pairs, 24) if quick else pairs):
                yield ("hist", {"cls": cls, "mt": mt, "data0": data0, "ops": ([C] if j % 2 == 0 else []) + list(h) + [R]})
        for i in range(10 if quick else 150):
            ln = int(nrng.integers(3, 11))
            h = [ops[int(nrng.integers(0, len(ops)))] for _ in range(ln)]
            yield ("hist", {"cls": cls, "mt": mt, "data0": (i + mi) % 2 if i % 5 else 4 + (i // 5) % 4, "ops": h + [R]})
    # pcorrelogram with a second sequence (cross-correlogram): data_y assigned, replaced, removed
    cls = "pcorrelogram"
    keep, dy = alphabet_datay(cls)
    both = keep + dy
    dy_pairs = [(o1, o2) for o1 in both for o2 in both if (o1 in dy or o2 in dy)]
    for data0 in (0, 1):
        for o1 in dy:
            yield ("hist", {"cls": cls, "data0": data0, "ops": [o1, R]})
        for j, h in enumerate(_sample(nrng, dy_pairs, 60) if quick else dy_pairs):
            yield ("hist", {"cls": cls, "data0": data0, "ops": ([C] if j % 3 else []) + list(h) + [R]})
        for i in range(25 if quick else 400):
            ln = int(nrng.integers(3, 11))
            h = [both[int(nrng.integers(0, len(both)))] for _ in range(ln)]
            h[int(nrng.integers(0, ln))] = dy[i % len(dy)]
            if i % 2:
                h.insert(int(nrng.integers(0, len(h) + 1)), dy[(i // 2) % 2])
            yield ("hist", {"cls": cls, "data0": data0, "ops": h + [R]})
    # ------------------------------------------------------------------------------------------------------------------
    # kind "fhist" (generated last: the random streams of the cases above are the same as before)
    yield from gen_fhist(nrng, quick)
    yield from _gen_fmodel(nrng, quick)


def gen_fhist(nrng, quick):
    R = ("read", None)
    C = ("call", None)
    S = ("str", None)
    P = ("power", None)
    RUN = ("run", None)
    pres = [[R], [C], [R, ("sides", "centerdc")], [("nfft", 32), R], [], [("cread", "twosided")], [S]]
    # what happens in the failing state: the first entry meets the failing computation (exception caught / swallowed), the second
    # one looks again
    first = [R, S, ("cread", "centerdc"), ("cread", "twosided"), P, ("sides", "centerdc"), ("sides", "twosided"), C, RUN]
    second = [R, ("cread", "twosided"), ("cread", "centerdc"), P, S, ("sides", "centerdc"), ("sides", "default")]
    for ci, cls in enumerate(CLS):
        mts = MT_METHODS if cls == "MultiTapering" else ("unity",)
        filler = f_filler(cls)
        bad = f_bad_ops(cls)
        for mt in mts:
            base = {"cls": cls} if mt == "unity" else {"cls": cls, "mt": mt}
            for data0 in (0, 1):
                fails = f_fail_ops(cls, data0)
                # tails: nothing / the state becomes computable again / another (flagged) assignment that leaves it uncomputable
                for fi, (F, heal) in enumerate(fails):
                    tails = [[], [heal, R], [heal, ("cread", "centerdc")], [("samp", 1), R], [("scale", 1), S, R], [heal, C, P]]
                    combos = [(a, b) for a in range(len(first)) for b in range(len(second))]
                    if quick:
                        # the plain pattern (read, failing assignment, read, read) and sampled combinations
                        n_s = 3 if mt == "unity" else 2
                        pick = [(0, 0)] + [combos[int(j)] for j in nrng.choice(len(combos) - 1, size=n_s, replace=False) + 1]
                    else:
                        pick = combos
                    for (a, b) in pick:
                        plain = (a, b) == (0, 0)
                        pre = [R] if plain else pres[int(nrng.integers(0, len(pres)))]
                        tail = [] if plain else tails[int(nrng.integers(0, len(tails)))]
                        mid = [first[a], second[b]]
                        if not plain and int(nrng.integers(0, 4)) == 0:
                            mid.insert(1, filler[int(nrng.integers(0, len(filler)))])
                        yield ("fhist", dict(base, data0=data0, ops=[list(o) for o in pre + [F] + mid + tail + [R]]))
                # rejected assignments: on a new object, on an up-to-date one, on one with a pending recomputation
                for bi, b in enumerate(bad):
                    forms = [[b, R], [R, b, R], [C, filler[(bi + ci) % len(filler)], b, R], [R, ("sides", "centerdc"), b, R, b],
                             [R, b, ("cread", "centerdc"), b, S]]
                    if fails:
                        F, heal = fails[(bi + data0) % len(fails)]
                        forms.append([R, F, b, R, heal, b, R])
                    for fj, form in enumerate(forms):
                        if quick and (fj + bi + ci + data0) % 3 != 0:
                            continue
                        yield ("fhist", dict(base, data0=data0, ops=[list(o) for o in form]))
                # temporaries assigned to data
                for ti, items in enumerate(F_TMPSEQ):
                    T = ("tmpseq", items)
                    forms = [[T, R], [R, T, R], [C, T, ("cread", "centerdc"), T, R]]
                    for fj, form in enumerate(forms):
                        if quick and (fj + ti + ci + data0) % 3 != 0:
                            continue
                        yield ("fhist", dict(base, data0=data0, ops=[list(o) for o in form]))
                # random histories over everything
                alpha = (filler + [f for f, _ in fails] + [h for _, h in fails] + [R, R, S, P, C, RUN, ("cread", "centerdc"),
                         ("cread", "twosided"), ("cread", "onesided")] + bad + [("tmpseq", it) for it in F_TMPSEQ])
                n_rand = (12 if mt == "unity" else 6) if quick else 150
                for i in range(n_rand):
                    ln = int(nrng.integers(3, 11))
                    h = [alpha[int(nrng.integers(0, len(alpha)))] for _ in range(ln)]
                    if fails and i % 2 == 0:
                        # make sure a failing assignment is in, with observations after it
                        pos = int(nrng.integers(0, ln))
                        h[pos] = fails[int(nrng.integers(0, len(fails)))][0]
                        h.insert(pos + 1, first[int(nrng.integers(0, len(first)))])
                        h.insert(pos + 2, second[int(nrng.integers(0, len(second)))])
                        if i % 4 == 0:
                            h.insert(int(nrng.integers(0, pos + 1)), R)
                    yield ("fhist", dict(base, data0=data0, ops=[list(o) for o in h + [R]]))
