"""C15  MA and ARMA estimators return valid, invertible models."""
import numpy as np

import single

import proto
from common import gen_data, rel

TWO_PI = 2 * np.pi

TRUSTED_BASE = [
    "scipy.linalg.lstsq / the Marple covariance recursion inside arma_estimate are parameters (contract: least-squares "
    "solution); the model solves the normal equations exactly",
    "numpy.fft in arma2psd is the DFT parameter; class PSD cases run in float mode at rtol 1e-9",
    "exact mode for ma / arma_estimate: dyadic data, N <= 40; rtol 1e-6",
]
PARTIAL = []   # MA zeros strictly inside the unit circle for every Q: C15.ma_invertible / arma_ma_invertible
ASSUMPTIONS = ["domain of arma_estimate: Q <= lag, lag + 2P - Q <= N, 2Q < N - P, lag < N, lag - Q >= P (at least P equations); "
               "conditioning predicate on the modified Yule-Walker system cond <= 1e8",
               "model correspondence for arma_estimate only where lag >= 2P (unique least-squares solution); other in-domain cases are "
               "evaluated by the oracle only"]
RULE = ("real/complex noise-like and ARMA-generated data of length 16..256 (exact cases 16..40) x (P, Q, lag) in the domain "
        "incl. P = 4 and 5 (solver switch) x NFFT even/odd x sampling; class cases over parma/pma/pyule/pburg/pcovar/pmodcovar")


def _sp():
    import spectrum
    return spectrum


def c(v):
    return np.asarray(v).astype(complex).ravel()


def impl_ma(p):
    b, rho = _sp().ma(p["x"], p["Q"], p["M"])
    return [c(b), c([rho])]


def model_ma(p):
    return ("Q", proto.request("ma", "Q", [p["Q"], p["M"]], [np.asarray(p["x"])]))


def oracle_ma(p):
    sp = _sp()
    out = []
    b, rho = sp.ma(p["x"], p["Q"], p["M"])
    b = c(b)
    if len(b) != p["Q"]:
        out.append("ma returned %d coefficients for Q=%d" % (len(b), p["Q"]))
    z = np.roots(np.concatenate(([1], b)))
    if np.max(np.abs(z)) >= 1:
        out.append("MA polynomial has a zero outside the unit circle: max|z| = %.6f" % np.max(np.abs(z)))
    if not (np.isfinite(rho) and np.real(rho) > 0 and abs(np.imag(rho)) < 1e-12):
        out.append("MA variance %r is not positive" % (rho,))
    for (Q, M) in [(0, 3), (3, 3), (4, 2)]:
        try:
            sp.ma(p["x"], Q, M)
            out.append("ma accepted Q=%d M=%d (outside 0 < Q < M)" % (Q, M))
        except ValueError:
            pass
    return out


def impl_arma(p):
    A, B, rho = _sp().arma_estimate(p["x"], p["P"], p["Q"], p["lag"])
    return [c(A), c(B), c([rho])]


def model_arma(p):
    return ("Q", proto.request("arma", "Q", [p["P"], p["Q"], p["lag"]], [np.asarray(p["x"])]))


def _myw(x, P, Q, lag):
    sp = _sp()
    R = c(sp.CORRELATION(x, maxlags=lag, norm="unbiased"))

    def r(k):
        return R[k] if k >= 0 else np.conj(R[-k])
    Mx = np.array([[r(k - j) for j in range(1, P + 1)] for k in range(Q + 1, lag + 1)])
    rhs = -np.array([r(k) for k in range(Q + 1, lag + 1)])
    return Mx, rhs


def oracle_arma(p):
    sp = _sp()
    import scipy.linalg
    x, P, Q, lag = np.asarray(p["x"]), p["P"], p["Q"], p["lag"]
    out = []
    A, B, rho = sp.arma_estimate(x, P, Q, lag)
    A, B = c(A), c(B)
    if len(A) != P:
        out.append("arma_estimate returned %d AR coefficients for P=%d (Q=%d lag=%d)" % (len(A), P, Q, lag))
    if len(B) != Q:
        out.append("arma_estimate returned %d MA coefficients for Q=%d" % (len(B), Q))
    if Q > 0:
        z = np.roots(np.concatenate(([1], B)))
        if np.max(np.abs(z)) >= 1:
            out.append("ARMA: MA zero outside the unit circle: max|z| = %.6f" % np.max(np.abs(z)))
    if not (np.isfinite(rho) and np.real(rho) > 0):
        out.append("ARMA variance %r is not positive and finite" % (rho,))
    if P == Q and len(A) == P:
        Mx, rhs = _myw(x, P, Q, lag)
        als = scipy.linalg.lstsq(Mx, rhs)[0]
        if rel(A, c(als)) > 1e-6:
            out.append("P=Q=%d lag=%d: AR part is not the least-squares solution of the modified Yule-Walker equations: %.2e" % (
                P, lag, rel(A, c(als))))
    return out


CLASSES = ["parma", "pma", "pyule", "pburg", "pcovar", "pmodcovar"]


def _mk(p):
    sp = _sp()
    x = p["x"]
    kw = dict(NFFT=p["nfft"], sampling=p["fs"], scale_by_freq=p["scale"])
    cls = p["cls"]
    if cls == "parma":
        return sp.parma(x, p["P"], p["Q"], p["lag"], **kw)
    if cls == "pma":
        return sp.pma(x, p["Q"], 2 * p["Q"] + 1, **kw)
    if cls == "pyule":
        return sp.pyule(x, p["P"], **kw)
    if cls == "pburg":
        return sp.pburg(x, p["P"], **kw)
    if cls == "pcovar":
        return sp.pcovar(x, p["P"], **kw)
    if cls == "pmodcovar":
        return sp.pmodcovar(x, p["P"], **kw)
    raise ValueError(cls)


def _params(o, p):
    """(A, B, rho) the object exposes; rho None when the class does not expose it"""
    A = None if p["cls"] == "pma" else c(o.ar)
    B = c(o.ma) if p["cls"] in ("parma", "pma") else None
    rho = o.rho
    return A, B, rho


def impl_class(p):
    o = _mk(p)
    psd = np.asarray(o.psd)
    return [psd]


def model_class(p):
    o = _mk(p)
    _ = o.psd
    A, B, rho = _params(o, p)
    if rho is None:   # pyule does not expose rho: take it from the functional estimator the class calls
        rho = _sp().aryule(p["x"], p["P"])[1]
    isreal = np.isrealobj(np.asarray(p["x"]))
    nfft = o.NFFT
    return ("F", proto.request("armaclass", "F", [1 if isreal else 0, nfft, 1 if p["scale"] else 0,
                                                  0 if A is None else 1, 0 if B is None else 1],
                               [A if A is not None else [], B if B is not None else [], [rho], [p["fs"]], [TWO_PI]]))


def oracle_class(p):
    sp = _sp()
    o = _mk(p)
    psd = np.asarray(o.psd)
    out = []
    if np.iscomplexobj(psd) or not np.all(np.isfinite(psd)) or not np.all(psd > 0):
        out.append("%s PSD is not real, finite and strictly positive" % p["cls"])
        return out
    A, B, rho = _params(o, p)
    nfft = o.NFFT
    k = np.arange(nfft)
    z = np.exp(-2j * np.pi * k / nfft)
    Af = 1 + sum(A[i] * z ** (i + 1) for i in range(len(A))) if A is not None else np.ones(nfft)
    Bf = 1 + sum(B[i] * z ** (i + 1) for i in range(len(B))) if B is not None else np.ones(nfft)
    shape = np.abs(Bf) ** 2 / np.abs(Af) ** 2
    if np.isrealobj(np.asarray(p["x"])):
        L = nfft // 2 + 1 if nfft % 2 == 0 else (nfft + 1) // 2
        shape = 2 * shape[:L]
    if len(shape) != len(psd):
        return ["%s PSD has %d values, expected %d" % (p["cls"], len(psd), len(shape))]
    ratio = psd / shape
    if np.max(np.abs(ratio - ratio[0])) > 1e-8 * abs(ratio[0]):
        out.append("%s PSD is not proportional to |B|^2/|A|^2 of the exposed coefficients (NFFT=%d)" % (p["cls"], nfft))
    if rho is not None:
        const = rho / p["fs"] * (TWO_PI / (p["fs"] / nfft) if p["scale"] else 1.0)
        if abs(ratio[0] - const) > 1e-8 * abs(const):
            out.append("%s PSD constant %.10g != rho/sampling%s = %.10g (sampling=%g NFFT=%d)" % (
                p["cls"], ratio[0], " * 2pi/df" if p["scale"] else "", const, p["fs"], nfft))
    return out


def _key(p):
    x = np.asarray(p["x"])
    return "%s|%s|%s|%s|%s|%s|%s|%d" % (p.get("cls"), p.get("P"), p.get("Q"), p.get("lag"), p.get("M"), p.get("nfft"), p.get("fs"),
                                      hash(x.tobytes()) & 0xFFFFFF)


def _tags(p):
    t = ["complex" if np.iscomplexobj(p["x"]) else "real", "data:" + p.get("dkind", "?")]
    if "cls" in p:
        t.append("cls:" + p["cls"])
    if "P" in p and "lag" in p and "cls" not in p:
        t.append("solver:" + ("marple(P<=4)" if p["P"] <= 4 else "lstsq(P>4)"))
        t.append("P=Q" if p["P"] == p["Q"] else "P!=Q")
    return t


KINDS = {
    "ma": {"impl": impl_ma, "model": model_ma, "oracle": oracle_ma, "rtol": 1e-6, "atol": 1e-12, "key": _key, "tags": _tags},
    "arma": {"impl": impl_arma, "model": model_arma, "oracle": oracle_arma, "rtol": 1e-5, "atol": 1e-10, "key": _key, "tags": _tags},
    "arma_laws": {"oracle": oracle_arma, "key": _key, "tags": _tags},
    "class": {"impl": impl_class, "model": model_class, "oracle": oracle_class, "rtol": 1e-9, "atol": 1e-300, "key": _key, "tags": _tags},
}


def _arma_data(nrng, N, cplx, kind, exact):
    import scipy.signal
    e = nrng.standard_normal(N + 50) + (1j * nrng.standard_normal(N + 50) if cplx else 0)
    if kind == "arma":
        x = scipy.signal.lfilter([1, 0.5, 0.2], [1, -0.6, 0.3], e)[50:]
    else:
        x = e[50:]
    if exact:
        x = np.round(x * 64) / 64
    return np.asarray(x, dtype=complex if cplx else float)


PQL = [(1, 1, 3), (2, 2, 6), (3, 3, 8), (4, 4, 10), (5, 5, 12), (6, 6, 14), (4, 2, 8), (5, 2, 9), (2, 4, 8), (6, 3, 12),
       (1, 3, 6), (4, 1, 9), (3, 3, 10), (4, 4, 9), (5, 5, 11)]


def _in_domain(N, P, Q, lag):
    return Q <= lag and lag + 2 * P - Q <= N and 2 * Q < N - P and lag < N and lag - Q >= P and Q >= 1


KINDS["single"] = single.kind("C15")

def gen(rng, nrng, tier):
    yield from single.gen("C15", nrng, tier)
    n = 70 if tier == "quick" else 1000
    for i in range(n):
        cplx = bool(nrng.integers(0, 2))
        kind = ["noise", "arma"][i % 2]
        N = int(nrng.integers(16, 41))
        x = _arma_data(nrng, N, cplx, kind, True)
        Q = int(nrng.integers(1, 5))
        M = int(nrng.integers(Q + 1, min(N - 1, 2 * Q + 4) + 1))
        yield ("ma", {"x": x, "Q": Q, "M": M, "dkind": kind})
        P, Q2, lag = PQL[i % len(PQL)]
        if _in_domain(N, P, Q2, lag):
            Mx, _ = _myw(x, P, Q2, lag)
            if np.linalg.cond(Mx) <= 1e6:
                # the covariance solver sees `lag` samples: its least-squares problem has a unique solution
                # (what the model computes) only when lag - P >= P; otherwise lstsq returns a minimum-norm solution
                yield ("arma" if lag >= 2 * P else "arma_laws", {"x": x, "P": P, "Q": Q2, "lag": lag, "dkind": kind})
    for i in range(6 if tier == "quick" else 60):      # boundary of the MA domain: the longest admissible AR fit, M = N - 1
        cplx = bool(i % 2)
        N = int(nrng.integers(8, 15))
        x = _arma_data(nrng, N, cplx, "noise", True)
        yield ("ma", {"x": x, "Q": 1 + i % 3, "M": N - 1, "dkind": "noise"})
    for i in range(8 if tier == "quick" else 60):      # boundary of the domain: lag + 2P - Q == N
        cplx = bool(i % 2)
        P = 1 + i % 3
        N = int(nrng.integers(16, 31))
        x = _arma_data(nrng, N, cplx, "arma", True)
        lag = N - P
        Mx, _ = _myw(x, P, P, lag)
        if np.linalg.cond(Mx) <= 1e6:
            yield ("arma", {"x": x, "P": P, "Q": P, "lag": lag, "dkind": "arma"})
    n2 = 60 if tier == "quick" else 900
    for i in range(n2):
        cplx = bool(nrng.integers(0, 2))
        kind = ["noise", "arma"][i % 2]
        N = int(nrng.integers(16, 257))
        x = _arma_data(nrng, N, cplx, kind, False)
        P, Q, lag = PQL[i % len(PQL)]
        if _in_domain(N, P, Q, lag):
            Mx, _ = _myw(x, P, Q, lag)
            if np.linalg.cond(Mx) <= 1e8:
                yield ("arma_laws", {"x": x, "P": P, "Q": Q, "lag": lag, "dkind": kind})
        cls = CLASSES[i % len(CLASSES)]
        Pc, Qc, lagc = [(2, 2, 6), (4, 4, 10), (5, 5, 12), (3, 1, 6), (2, 4, 8), (1, 3, 7), (2, 3, 7)][i % 7]
        if not _in_domain(N, Pc, Qc, lagc) or 2 * Qc + 1 >= N:
            Pc, Qc, lagc = 2, 2, 6          # keep the class case inside arma_estimate's documented domain
        nfft = [64, 65, None, 48, 33][i % 5]
        if nfft is None and N <= max(Pc, Qc) + 1:
            nfft = 64
        fs = [1.0, 2.5, 250.0, 0.5][i % 4]
        yield ("class", {"x": x, "cls": cls, "P": Pc, "Q": Qc, "lag": lagc, "nfft": nfft, "fs": fs, "scale": bool(i % 3 == 0),
                         "dkind": kind})
