"""C15  MA and ARMA estimators return valid, invertible models."""
import numpy as np

import single

import proto
from common import gen_data, rel

TWO_PI = 2 * np.pi

TRUSTED_BASE = [
    "scipy.linalg.lstsq / the Marple covariance recursion inside arma_estimate are parameters (contract: least-squares "
    "solution); the model solves the normal equations exactly",
    "numpy.fft in arma2psd is the DFT parameter; class PSD cases run in float mode at rtol 1e-9",
    "exact mode for ma / arma_estimate: dyadic data, N <= 40; rtol 1e-6",
    "float-mode references written in this file (numpy): direct-sum biased/unbiased lags, Toeplitz solve of the two "
    "Yule-Walker stages of ma() (numpy.linalg.solve, compared where cond1*cond2 <= 1e5 at 1e-8), scipy.signal.lfilter "
    "for the AR residual, scipy.linalg.lstsq for the modified Yule-Walker least-squares problem",
]
PARTIAL = []   # MA zeros strictly inside the unit circle for every Q: C15.ma_invertible / arma_ma_invertible
ASSUMPTIONS = ["domain of arma_estimate: Q <= lag, lag + 2P - Q <= N, 2Q < N - P, lag < N, lag - Q >= P (at least P equations); "
               "conditioning predicate on the modified Yule-Walker system cond <= 1e8",
               "model correspondence for arma_estimate only where lag >= 2P (unique least-squares solution); other in-domain cases are "
               "evaluated by the oracle only",
               "pyule(norm='unbiased') may give a negative PSD (documented by the library: the unbiased lags need not be positive "
               "definite): out of domain, never generated; the classes are built with their default norm",
               "arma_estimate with lag - Q < P (e.g. lag = Q = P = 3 returns NaN) is outside the stated domain lag - Q >= P: never "
               "generated",
               "class NFFT > order (NFFT <= order raises IndexError in arma2psd: not generated)",
               "exactly determined P = Q cases (lag - Q == P): the least-squares clause is evaluated on the residual of the modified "
               "Yule-Walker system where cond <= 1e6 (coefficients compared as well where cond <= 1e3: the covariance recursion's "
               "coefficient error grows like cond^2); the residual clause is evaluated for every P = Q case with cond <= 1e6",
               "value of (B, rho) against the numpy reference of ma() only where the two Toeplitz systems have cond1*cond2 <= 1e5"]
RULE = ("real/complex noise-like and ARMA-generated data of length 16..256 (exact cases 16..40) x (P, Q, lag) in the domain "
        "incl. P = 4 and 5 (solver switch), the boundaries lag - Q == P, 2Q == N - P - 1, lag + 2P - Q == N, orders up to 20 and "
        "N + lag - 1 a power of two; MA estimator on float data N 16..256, Q 1..30, M in {Q+1, random, N-1} over noise, "
        "non-minimum-phase MA, zeros on the unit circle and a noisy tone; class cases over parma/pma/pyule/pburg/pcovar/pmodcovar "
        "with scale_by_freq, sampling and data kind drawn independently of the class, NFFT even/odd/None/'nextpow2'/order+1/4096, "
        "pma with M in {Q+1, 2Q+1, 3Q, N-1}, pburg with the six order-selection criteria; list / integer inputs")


def _sp():
    import spectrum
    return spectrum


def c(v):
    return np.asarray(v).astype(complex).ravel()


def impl_ma(p):
    b, rho = _sp().ma(p["x"], p["Q"], p["M"])
    return [c(b), c([rho])]


def model_ma(p):
    return ("Q", proto.request("ma", "Q", [p["Q"], p["M"]], [np.asarray(p["x"])]))


def oracle_ma(p):
    sp = _sp()
    out = []
    b, rho = sp.ma(p["x"], p["Q"], p["M"])
    b = c(b)
    if len(b) != p["Q"]:
        out.append("ma returned %d coefficients for Q=%d" % (len(b), p["Q"]))
    z = np.roots(np.concatenate(([1], b)))
    if np.max(np.abs(z)) >= 1:
        out.append("MA polynomial has a zero outside the unit circle: max|z| = %.6f" % np.max(np.abs(z)))
    if not (np.isfinite(rho) and np.real(rho) > 0 and abs(np.imag(rho)) < 1e-12):
        out.append("MA variance %r is not positive" % (rho,))
    for (Q, M) in [(0, 3), (3, 3), (4, 2)]:
        try:
            sp.ma(p["x"], Q, M)
            out.append("ma accepted Q=%d M=%d (outside 0 < Q < M)" % (Q, M))
        except ValueError:
            pass
    return out


def _lags(x, m, unbiased):
    """r[k] = sum_n x[n+k] conj(x[n]) / (N - k  or  N), k = 0..m, by direct summation (no library code)"""
    x = np.asarray(x).astype(complex).ravel()
    N = len(x)
    return np.array([np.sum(x[k:] * np.conj(x[:N - k])) / ((N - k) if unbiased else N) for k in range(m + 1)])


def _ref_yw(x, m):
    """Yule-Walker (biased lags) of order m by a dense solve of the Toeplitz system: (a, rho, cond)"""
    import scipy.linalg
    r = _lags(x, m, False)
    T = scipy.linalg.toeplitz(r[:m], np.conj(r[:m]))
    a = np.linalg.solve(T, -r[1:m + 1])
    rho = (r[0] + np.sum(a * np.conj(r[1:m + 1]))).real
    return a, rho, np.linalg.cond(T)


def _ref_ma(x, Q, M):
    """the defining two-stage computation of ma(): long AR(M) fit by Yule-Walker, then Yule-Walker of order Q on [1, a]"""
    a, rho, c1 = _ref_yw(x, M)
    b, _, c2 = _ref_yw(np.concatenate(([1], a)), Q)
    return b, rho, c1 * c2


def _ma_value_check(what, x, Q, M, b, rho):
    """(b, rho) against the numpy reference, where the reference itself is well conditioned"""
    try:
        b3, rho3, cc = _ref_ma(x, Q, M)
    except np.linalg.LinAlgError:
        return []
    if not (np.isfinite(cc) and cc <= 1e5):
        return []
    out = []
    if rel(c(b), c(b3)) > 1e-8:
        out.append("%s: MA coefficients differ from the two-stage Yule-Walker reference (Q=%d M=%d): %.2e" % (what, Q, M, rel(c(b), c(b3))))
    if abs(rho - rho3) > 1e-8 * abs(rho3):
        out.append("%s: variance %.12g differs from the long-AR Yule-Walker reference %.12g (Q=%d M=%d)" % (what, np.real(rho), rho3, Q, M))
    return out


def oracle_ma_laws(p):
    """float data, any admissible (Q, M): the statement's clauses plus the value of (b, rho) against the numpy reference"""
    out = oracle_ma(p)
    b, rho = _sp().ma(p["x"], p["Q"], p["M"])
    if np.isfinite(rho) and abs(np.imag(rho)) > 1e-12 * abs(rho):
        out.append("MA variance %r is not real" % (rho,))
    if len(c(b)) == p["Q"] and np.all(np.isfinite(c(b))) and np.isfinite(rho):
        out += _ma_value_check("ma", p["x"], p["Q"], p["M"], b, rho)
    return out


def impl_arma(p):
    A, B, rho = _sp().arma_estimate(p["x"], p["P"], p["Q"], p["lag"])
    return [c(A), c(B), c([rho])]


def model_arma(p):
    return ("Q", proto.request("arma", "Q", [p["P"], p["Q"], p["lag"]], [np.asarray(p["x"])]))


def _myw(x, P, Q, lag):
    """modified Yule-Walker system over the unbiased lags Q+1..lag; the lags are summed directly (independent of the library)"""
    R = _lags(x, lag, True)

    def r(k):
        return R[k] if k >= 0 else np.conj(R[-k])
    Mx = np.array([[r(k - j) for j in range(1, P + 1)] for k in range(Q + 1, lag + 1)])
    rhs = -np.array([r(k) for k in range(Q + 1, lag + 1)])
    return Mx, rhs


def oracle_arma(p):
    sp = _sp()
    import scipy.linalg
    x, P, Q, lag = np.asarray(p["x"]), p["P"], p["Q"], p["lag"]
    out = []
    A, B, rho = sp.arma_estimate(x, P, Q, lag)
    A, B = c(A), c(B)
    if not (np.all(np.isfinite(A)) and np.all(np.isfinite(B)) and np.isfinite(rho)):
        return ["arma_estimate(P=%d, Q=%d, lag=%d) returns non-finite coefficients / variance on in-domain data (N=%d, %s)" % (
            P, Q, lag, len(x), "complex" if np.iscomplexobj(x) else "real")]
    if len(A) != P:
        out.append("arma_estimate returned %d AR coefficients for P=%d (Q=%d lag=%d)" % (len(A), P, Q, lag))
    if len(B) != Q:
        out.append("arma_estimate returned %d MA coefficients for Q=%d" % (len(B), Q))
    if Q > 0:
        z = np.roots(np.concatenate(([1], B)))
        if np.max(np.abs(z)) >= 1:
            out.append("ARMA: MA zero outside the unit circle: max|z| = %.6f" % np.max(np.abs(z)))
    if not (np.isfinite(rho) and np.real(rho) > 0):
        out.append("ARMA variance %r is not positive and finite" % (rho,))
    elif abs(np.imag(rho)) > 1e-12 * abs(rho):
        out.append("ARMA variance %r is not real" % (rho,))
    finite = np.all(np.isfinite(A)) and np.all(np.isfinite(B)) and np.isfinite(rho)
    if P == Q and len(A) == P and finite:
        Mx, rhs = _myw(x, P, Q, lag)
        als = c(scipy.linalg.lstsq(Mx, rhs)[0])
        # least-squares optimality on the residual: no vector does better than the lstsq solution, the returned one must do as well
        r1, r2 = np.linalg.norm(Mx @ A - rhs), np.linalg.norm(Mx @ als - rhs)
        scale = np.linalg.norm(rhs) + np.linalg.norm(Mx) * max(np.linalg.norm(A), np.linalg.norm(als))
        cond = np.linalg.cond(Mx)
        if cond <= 1e6 and r1 > r2 + 1e-8 * scale:
            out.append("P=Q=%d lag=%d: residual of the modified Yule-Walker equations %.6e exceeds the least-squares minimum %.6e" % (
                P, lag, r1, r2))
        # exactly determined system (lag - Q == P): the coefficients are compared only where the square system is well conditioned
        # (the covariance recursion works on the normal equations: its coefficient error grows like cond^2)
        if (lag - Q > P or cond <= 1e3) and rel(A, als) > 1e-6:
            out.append("P=Q=%d lag=%d: AR part is not the least-squares solution of the modified Yule-Walker equations: %.2e" % (
                P, lag, rel(A, als)))
    if Q > 0 and len(A) == P and len(B) == Q and finite:
        # B and rho are the MA estimate (long AR of order 2Q) of the residual of the returned A:  e[k] = x[k] + sum_j A[j] x[k-1-j]
        import scipy.signal
        res = scipy.signal.lfilter(np.concatenate(([1], A)), [1], np.asarray(x).astype(complex).ravel())[P:]
        b2, rho2 = sp.ma(res, Q, 2 * Q)
        if rel(B, c(b2)) > 1e-9 or abs(rho - rho2) > 1e-9 * abs(rho2):
            out.append("ARMA (P=%d Q=%d lag=%d): B, rho are not ma(residual of A, Q, 2Q): %.2e, %.2e" % (
                P, Q, lag, rel(B, c(b2)), abs(rho - rho2) / abs(rho2)))
        out += _ma_value_check("ARMA (P=%d Q=%d lag=%d) residual" % (P, Q, lag), res, Q, 2 * Q, B, rho)
    return out


def _flat(r):
    return np.concatenate([c(v) for v in r])


def oracle_inputs(p):
    """lists and integer arrays are data as well: same result as for the float array of the same sample values, which is valid"""
    sp = _sp()
    x = np.asarray(p["x"])
    if p["fn"] == "ma":
        def f(v):
            return sp.ma(v, p["Q"], p["M"])
        out = oracle_ma(p)
    else:
        def f(v):
            return sp.arma_estimate(v, p["P"], p["Q"], p["lag"])
        out = oracle_arma(p)
    ref = _flat(f(x))
    forms = {"list": x.tolist()}
    if np.isrealobj(x) and np.all(x == np.round(x)) and np.max(np.abs(x)) < 2 ** 31:
        forms["int64 array"] = x.astype(np.int64)
        forms["list of int"] = [int(v) for v in x]
    elif np.iscomplexobj(x):
        forms["list of complex"] = [complex(v) for v in x]
    for name, v in forms.items():
        try:
            got = _flat(f(v))
        except Exception as e:          # noqa: BLE001
            out.append("%s raises %s for a %s of the samples it accepts as a float array" % (p["fn"], type(e).__name__, name))
            continue
        if rel(got, ref) > 1e-12:
            out.append("%s result for a %s differs from the float-array result: %.2e" % (p["fn"], name, rel(got, ref)))
    return out


CLASSES = ["parma", "pma", "pyule", "pburg", "pcovar", "pmodcovar"]


def _pma_M(p):
    return p["M"] if p.get("M") else 2 * p["Q"] + 1


def _mk(p):
    sp = _sp()
    x = p["x"]
    kw = dict(NFFT=p["nfft"], sampling=p["fs"], scale_by_freq=p["scale"])
    cls = p["cls"]
    if cls == "parma":
        return sp.parma(x, p["P"], p["Q"], p["lag"], **kw)
    if cls == "pma":
        return sp.pma(x, p["Q"], _pma_M(p), **kw)
    if cls == "pyule":
        return sp.pyule(x, p["P"], **kw)
    if cls == "pburg":
        if p.get("criteria"):
            return sp.pburg(x, p["P"], criteria=p["criteria"], **kw)
        return sp.pburg(x, p["P"], **kw)
    if cls == "pcovar":
        return sp.pcovar(x, p["P"], **kw)
    if cls == "pmodcovar":
        return sp.pmodcovar(x, p["P"], **kw)
    raise ValueError(cls)


def _params(o, p):
    """(A, B, rho) the object exposes; rho None when the class does not expose it"""
    A = None if p["cls"] == "pma" else c(o.ar)
    B = c(o.ma) if p["cls"] in ("parma", "pma") else None
    rho = o.rho
    return A, B, rho


def impl_class(p):
    o = _mk(p)
    psd = np.asarray(o.psd)
    return [psd]


def model_class(p):
    o = _mk(p)
    _ = o.psd
    A, B, rho = _params(o, p)
    if rho is None:   # pyule does not expose rho: take it from the functional estimator the class calls
        rho = _sp().aryule(p["x"], p["P"])[1]
    isreal = np.isrealobj(np.asarray(p["x"]))
    nfft = o.NFFT
    return ("F", proto.request("armaclass", "F", [1 if isreal else 0, nfft, 1 if p["scale"] else 0,
                                                  0 if A is None else 1, 0 if B is None else 1],
                               [A if A is not None else [], B if B is not None else [], [rho], [p["fs"]], [TWO_PI]]))


def oracle_class(p):
    sp = _sp()
    o = _mk(p)
    psd = np.asarray(o.psd)
    out = []
    if np.iscomplexobj(psd) or not np.all(np.isfinite(psd)) or not np.all(psd > 0):
        out.append("%s PSD is not real, finite and strictly positive" % p["cls"])
        return out
    A, B, rho = _params(o, p)
    cls = p["cls"]
    # the exposed model has the requested orders, an invertible MA part, and is the functional estimator's result
    if A is not None:
        if p.get("criteria"):
            if len(A) > p["P"]:
                out.append("pburg(criteria=%s) exposes %d AR coefficients for a maximum order %d" % (p["criteria"], len(A), p["P"]))
        elif len(A) != p["P"]:
            out.append("%s exposes %d AR coefficients for order %d" % (cls, len(A), p["P"]))
    if B is not None:
        if len(B) != p["Q"]:
            out.append("%s exposes %d MA coefficients for Q=%d" % (cls, len(B), p["Q"]))
        if np.all(np.isfinite(B)) and len(B) and np.max(np.abs(np.roots(np.concatenate(([1], B))))) >= 1:
            out.append("%s exposes an MA polynomial with a zero outside the unit circle" % cls)
    if cls == "parma":
        a2, b2, r2 = sp.arma_estimate(p["x"], p["P"], p["Q"], p["lag"])
        if rel(A, c(a2)) > 1e-12 or rel(B, c(b2)) > 1e-12 or not abs(rho - r2) <= 1e-12 * abs(r2):
            out.append("parma(x, %d, %d, %d) does not expose the result of arma_estimate on the same arguments" % (p["P"], p["Q"], p["lag"]))
    if cls == "pma":
        b2, r2 = sp.ma(p["x"], p["Q"], _pma_M(p))
        if rel(B, c(b2)) > 1e-12 or not abs(rho - r2) <= 1e-12 * abs(r2):
            out.append("pma(x, %d, %d) does not expose the result of ma on the same arguments" % (p["Q"], _pma_M(p)))
    nfft = o.NFFT
    k = np.arange(nfft)
    z = np.exp(-2j * np.pi * k / nfft)
    Af = 1 + sum(A[i] * z ** (i + 1) for i in range(len(A))) if A is not None else np.ones(nfft)
    Bf = 1 + sum(B[i] * z ** (i + 1) for i in range(len(B))) if B is not None else np.ones(nfft)
    shape = np.abs(Bf) ** 2 / np.abs(Af) ** 2
    if np.isrealobj(np.asarray(p["x"])):
        L = nfft // 2 + 1 if nfft % 2 == 0 else (nfft + 1) // 2
        shape = 2 * shape[:L]
    if len(shape) != len(psd):
        return ["%s PSD has %d values, expected %d" % (p["cls"], len(psd), len(shape))]
    ratio = psd / shape
    if np.max(np.abs(ratio - ratio[0])) > 1e-8 * abs(ratio[0]):
        out.append("%s PSD is not proportional to |B|^2/|A|^2 of the exposed coefficients (NFFT=%d)" % (p["cls"], nfft))
    if rho is not None:
        const = rho / p["fs"] * (TWO_PI / (p["fs"] / nfft) if p["scale"] else 1.0)
        if abs(ratio[0] - const) > 1e-8 * abs(const):
            out.append("%s PSD constant %.10g != rho/sampling%s = %.10g (sampling=%g NFFT=%d)" % (
                p["cls"], ratio[0], " * 2pi/df" if p["scale"] else "", const, p["fs"], nfft))
    return out


def _key(p):
    x = np.asarray(p["x"])
    return "%s|%s|%s|%s|%s|%s|%s|%s|%s|%s|%d" % (p.get("cls"), p.get("P"), p.get("Q"), p.get("lag"), p.get("M"), p.get("nfft"), p.get("fs"),
                                               p.get("scale"), p.get("criteria"), p.get("fn"), hash(x.tobytes()) & 0xFFFFFF)


def _tags(p):
    t = ["complex" if np.iscomplexobj(p["x"]) else "real", "data:" + p.get("dkind", "?")]
    if "cls" in p:
        t.append("cls:" + p["cls"])
        t.append("cls:%s|scale=%d" % (p["cls"], bool(p["scale"])))
        t.append("nfft:%s" % ("int" if isinstance(p["nfft"], (int, np.integer)) else p["nfft"]))
        if p.get("criteria"):
            t.append("criteria:" + p["criteria"])
    if p.get("fam"):
        t.append("family:" + p["fam"])
    if "fn" in p:
        t.append("inputs:" + p["fn"])
    if "P" in p and "lag" in p and "cls" not in p:
        t.append("solver:" + ("marple(P<=4)" if p["P"] <= 4 else "lstsq(P>4)"))
        t.append("P=Q" if p["P"] == p["Q"] else "P!=Q")
    return t


KINDS = {
    "ma": {"impl": impl_ma, "model": model_ma, "oracle": oracle_ma, "rtol": 1e-6, "atol": 1e-12, "key": _key, "tags": _tags},
    "arma": {"impl": impl_arma, "model": model_arma, "oracle": oracle_arma, "rtol": 1e-5, "atol": 1e-10, "key": _key, "tags": _tags},
    "arma_laws": {"oracle": oracle_arma, "key": _key, "tags": _tags},
    "class": {"impl": impl_class, "model": model_class, "oracle": oracle_class, "rtol": 1e-9, "atol": 1e-300, "key": _key, "tags": _tags},
    # oracle-only kinds (float data, any size of the quantifier)
    "ma_laws": {"oracle": oracle_ma_laws, "key": _key, "tags": _tags},
    "class_laws": {"oracle": oracle_class, "key": _key, "tags": _tags},
    "inputs": {"oracle": oracle_inputs, "key": _key, "tags": _tags},
}


def _arma_data(nrng, N, cplx, kind, exact):
    import scipy.signal
    e = nrng.standard_normal(N + 50) + (1j * nrng.standard_normal(N + 50) if cplx else 0)
    if kind == "arma":
        x = scipy.signal.lfilter([1, 0.5, 0.2], [1, -0.6, 0.3], e)[50:]
    elif kind == "ar4":
        # AR(4), poles of radius 0.85 at +-0.6 and +-1.9 rad (a moderate dynamic range: the PSD of the fitted model stays well
        # conditioned as a function of the coefficients, also for the dominant-tone variants of vcheck.vary)
        zz = 0.85 * np.exp(1j * np.array([0.6, -0.6, 1.9, -1.9]))
        x = scipy.signal.lfilter([1], np.real(np.poly(zz)), e)[50:]
    else:
        x = e[50:]
    if exact:
        x = np.round(x * 64) / 64
    return np.asarray(x, dtype=complex if cplx else float)


PQL = [(1, 1, 3), (2, 2, 6), (3, 3, 8), (4, 4, 10), (5, 5, 12), (6, 6, 14), (4, 2, 8), (5, 2, 9), (2, 4, 8), (6, 3, 12),
       (1, 3, 6), (4, 1, 9), (3, 3, 10), (4, 4, 9), (5, 5, 11)]


FS = [1.0, 2.5, 250.0, 0.5]
CRITERIA = ["AIC", "AICc", "KIC", "FPE", "AKICc", "MDL"]
MA_DATA = ["noise", "nonminphase", "unitcircle", "tone"]
# (N or None = random, P, Q, lag, family): boundaries of the domain, both solvers (arcovar_marple for P <= 4, arcovar for P > 4)
ARMA_EXTRA = [(None, 1, 1, 2, "lag-Q==P"), (None, 2, 2, 4, "lag-Q==P"), (None, 3, 3, 6, "lag-Q==P"), (None, 4, 4, 8, "lag-Q==P"),
              (None, 5, 5, 10, "lag-Q==P"),
              (16, 1, 7, 9, "2Q==N-P-1"), (17, 2, 7, 10, "2Q==N-P-1"), (20, 5, 7, 14, "2Q==N-P-1"),
              (20, 2, 1, 17, "lag+2P-Q==N,P>Q"), (24, 4, 2, 18, "lag+2P-Q==N,P>Q"), (24, 5, 2, 16, "lag+2P-Q==N,P>Q"),
              (30, 6, 3, 21, "lag+2P-Q==N,P>Q"),
              (256, 15, 15, 30, "order>6"), (256, 20, 20, 50, "order>6"), (200, 3, 10, 20, "order>6"), (200, 10, 3, 25, "order>6")]


def _ma_data(nrng, N, cplx, kind):
    import scipy.signal
    e = nrng.standard_normal(N + 50) + (1j * nrng.standard_normal(N + 50) if cplx else 0)
    if kind == "nonminphase":
        x = scipy.signal.lfilter([1, -2.5, 1.2], [1], e)[50:]
    elif kind == "unitcircle":
        x = scipy.signal.lfilter([1, -2 * np.cos(1.0), 1], [1], e)[50:]
    elif kind == "tone":
        x = np.cos(0.7 * np.arange(N)) + 1e-3 * e[50:]
    else:
        x = e[50:]
    return np.asarray(x, dtype=complex if cplx else float)


def _in_domain(N, P, Q, lag):
    return Q <= lag and lag + 2 * P - Q <= N and 2 * Q < N - P and lag < N and lag - Q >= P and Q >= 1


KINDS["single"] = single.kind("C15")

def gen(rng, nrng, tier):
    yield from single.gen("C15", nrng, tier)
    n = 70 if tier == "quick" else 1000
    for i in range(n):
        cplx = bool(nrng.integers(0, 2))
        kind = ["noise", "arma"][i % 2]
        N = int(nrng.integers(16, 41))
        x = _arma_data(nrng, N, cplx, kind, True)
        Q = int(nrng.integers(1, 5))
        M = int(nrng.integers(Q + 1, min(N - 1, 2 * Q + 4) + 1))
        yield ("ma", {"x": x, "Q": Q, "M": M, "dkind": kind})
        P, Q2, lag = PQL[i % len(PQL)]
        if _in_domain(N, P, Q2, lag):
            Mx, _ = _myw(x, P, Q2, lag)
            if np.linalg.cond(Mx) <= 1e6:
                # the covariance solver sees `lag` samples: its least-squares problem has a unique solution
                # (what the model computes) only when lag - P >= P; otherwise lstsq returns a minimum-norm solution
                yield ("arma" if lag >= 2 * P else "arma_laws", {"x": x, "P": P, "Q": Q2, "lag": lag, "dkind": kind})
    for i in range(6 if tier == "quick" else 60):      # boundary of the MA domain: the longest admissible AR fit, M = N - 1
        cplx = bool(i % 2)
        N = int(nrng.integers(8, 15))
        x = _arma_data(nrng, N, cplx, "noise", True)
        yield ("ma", {"x": x, "Q": 1 + i % 3, "M": N - 1, "dkind": "noise"})
    for i in range(8 if tier == "quick" else 60):      # boundary of the domain: lag + 2P - Q == N
        cplx = bool(i % 2)
        P = 1 + i % 3
        N = int(nrng.integers(16, 31))
        x = _arma_data(nrng, N, cplx, "arma", True)
        lag = N - P
        Mx, _ = _myw(x, P, P, lag)
        if np.linalg.cond(Mx) <= 1e6:
            yield ("arma", {"x": x, "P": P, "Q": P, "lag": lag, "dkind": "arma"})
    n2 = 60 if tier == "quick" else 900
    off = 2 * int(nrng.integers(0, 48 * 6))      # a per-seed rotation of the index-derived choices below (even: i % 2 keeps its meaning)
    for i in range(n2):
        cplx = bool(nrng.integers(0, 2))
        kind = ["noise", "arma"][i % 2]
        N = int(nrng.integers(16, 257))
        x = _arma_data(nrng, N, cplx, kind, False)
        P, Q, lag = PQL[i % len(PQL)]
        if _in_domain(N, P, Q, lag):
            Mx, _ = _myw(x, P, Q, lag)
            if np.linalg.cond(Mx) <= 1e8:
                yield ("arma_laws", {"x": x, "P": P, "Q": Q, "lag": lag, "dkind": kind})
        # class, scale_by_freq, sampling and data kind are drawn independently: kind = i % 2, then (class, scale, sampling) from
        # the mixed-radix digits of (i + off) // 2; NFFT (period 5) and the orders (period 7) are coprime to all of them
        j = (i + off) // 2
        cls = CLASSES[j % 6]
        scale = bool((j // 6) % 2)
        fs = FS[(j // 12) % 4]
        Pc, Qc, lagc = [(2, 2, 6), (4, 4, 10), (5, 5, 12), (3, 1, 6), (2, 4, 8), (1, 3, 7), (2, 3, 7)][i % 7]
        if not _in_domain(N, Pc, Qc, lagc) or 2 * Qc + 1 >= N:
            Pc, Qc, lagc = 2, 2, 6          # keep the class case inside arma_estimate's documented domain
        nfft = [64, 65, None, 48, 33][i % 5]
        if nfft is None and N <= max(Pc, Qc) + 1:
            nfft = 64
        yield ("class", {"x": x, "cls": cls, "P": Pc, "Q": Qc, "lag": lagc, "nfft": nfft, "fs": fs, "scale": scale, "dkind": kind})

    # ---- MA estimator over the whole quantifier (float data, oracle only): N 16..256, Q up to 30, M from Q+1 to N-1
    for i in range(24 if tier == "quick" else 900):
        i2 = i + off
        cplx = bool(i2 % 2)
        kind = MA_DATA[(i2 // 2) % 4]
        N = int(nrng.integers(16, 257))
        Q = int(nrng.integers(1, min(30, N // 2 - 2) + 1))
        M = [Q + 1, int(nrng.integers(Q + 1, N)), N - 1][(i2 // 8) % 3]
        yield ("ma_laws", {"x": _ma_data(nrng, N, cplx, kind), "Q": Q, "M": M, "dkind": kind})

    # ---- ARMA estimator at the boundaries of its domain, on both sides of the P <= 4 / P > 4 solver switch, and at high orders
    reps = 1 if tier == "quick" else 24
    for r in range(reps):
        for t, (N0, P, Q, lag, fam) in enumerate(ARMA_EXTRA):
            i2 = r * len(ARMA_EXTRA) + t + off
            cplx = bool((i2 + r) % 2)
            kind = ["noise", "arma"][((i2 + r) // 2) % 2]
            N = N0 if N0 else int(nrng.integers(max(16, lag + 2 * P - Q), 257))
            x = _arma_data(nrng, N, cplx, kind, False)
            if _in_domain(N, P, Q, lag) and np.linalg.cond(_myw(x, P, Q, lag)[0]) <= 1e8:
                yield ("arma_laws", {"x": x, "P": P, "Q": Q, "lag": lag, "dkind": kind, "fam": fam})
    # KNOWN FINDING (known_findings.json, not repaired: the unedited test suite pins parma(marple_data, 8, 4, 10).power(), which any
    # repair of the lag sequence changes).  For P > Q the lag sequence of lag-Q+P values is truncated to `lag` samples before the
    # covariance fit, which then sees lag-P equations for P unknowns: with lag < 2P the system is singular and arma_estimate returns
    # NaN/inf on some records ((2,1,3): ~2% of complex records; (4,1,5): ~20%).  In the stated domain (Q <= lag, lag+2P-Q <= N,
    # 2Q < N-P).  Two fixed reproducers run in every tier, plus random records of the two call sites.
    r53 = np.random.default_rng(53)
    yield ("arma_laws", {"x": r53.standard_normal(32) + 1j * r53.standard_normal(32), "P": 2, "Q": 1, "lag": 3, "dkind": "noise",
                         "fam": "known:P>Q,lag<2P"})
    r6 = np.random.default_rng(6)
    yield ("arma_laws", {"x": r6.standard_normal(32), "P": 4, "Q": 1, "lag": 5, "dkind": "noise", "fam": "known:P>Q,lag<2P"})
    for r in range(reps * 4):
        x = _arma_data(nrng, int(nrng.integers(16, 257)), bool(r % 2), ["noise", "arma"][(r // 2) % 2], False)
        P_, Q_, lag_ = [(2, 1, 3), (4, 1, 5)][(r // 4) % 2]
        yield ("arma_laws", {"x": x, "P": P_, "Q": Q_, "lag": lag_, "dkind": ["noise", "arma"][(r // 2) % 2], "fam": "known:P>Q,lag<2P"})
    # N + lag - 1 a power of two (size boundaries of the lag computation) for the P = Q triples: the least-squares clause is
    # evaluated against directly summed lags
    pq = [t for t in PQL if t[0] == t[1]]
    for i in range(4 if tier == "quick" else 4 * len(pq) * 4):
        i2 = i + off
        P, Q, lag = pq[(i2 // 4) % len(pq)]
        N = [32, 64, 128, 256][i2 % 4] - lag + 1
        cplx = bool((i2 // (4 * len(pq))) % 2)
        kind = ["noise", "arma"][(i2 // (8 * len(pq))) % 2]
        x = _arma_data(nrng, N, cplx, kind, False)
        if _in_domain(N, P, Q, lag) and np.linalg.cond(_myw(x, P, Q, lag)[0]) <= 1e8:
            yield ("arma_laws", {"x": x, "P": P, "Q": Q, "lag": lag, "dkind": kind, "fam": "N+lag-1=2^m"})

    # ---- classes: NFFT 'nextpow2' / order + 1 / 4096, pma with other long-AR orders, pburg with order selection
    for i in range(6 if tier == "quick" else 72):
        i2 = i + off
        cls = CLASSES[i2 % 6]
        cplx = bool((i2 // 6) % 2)
        kind = ["noise", "arma"][(i2 // 12) % 2]
        N = int(nrng.integers(16, 257))
        x = _arma_data(nrng, N, cplx, kind, False)
        order = {"parma": 3, "pma": 3}.get(cls, 3 + (i2 // 24) % 3)
        base = {"x": x, "cls": cls, "P": order, "Q": 3, "lag": 8, "dkind": kind}
        for w, nfft in enumerate(["nextpow2", order + 1, 4096]):
            q = dict(base, nfft=nfft, fs=FS[(i2 + w) % 4], scale=bool((i2 // 2 + w) % 2))
            # the float model's DFT is quadratic in NFFT: 4096 points are evaluated by the oracle only
            yield ("class_laws" if nfft == 4096 else "class", q)
    for i in range(3 if tier == "quick" else 48):
        i2 = i + off
        cplx = bool((i2 // 3) % 2)
        kind = ["noise", "arma"][(i2 // 6) % 2]
        N = int(nrng.integers(16, 257))
        Q = 1 + (i2 // 12) % 4
        M = [Q + 1, 3 * Q, N - 1][i2 % 3]
        x = _arma_data(nrng, N, cplx, kind, False)
        yield ("class", {"x": x, "cls": "pma", "P": 2, "Q": Q, "lag": 8, "M": M, "nfft": [64, 33, None][(i2 // 2) % 3],
                         "fs": FS[(i2 // 4) % 4], "scale": bool((i2 // 5) % 2), "dkind": kind})
    for i in range(6 if tier == "quick" else 72):
        i2 = i + off
        crit = CRITERIA[i2 % 6]
        cplx = bool((i2 // 6) % 2)
        kind = ["ar4", "arma", "noise"][(i2 // 12) % 3]
        N = int(nrng.integers(32, 257))
        x = _arma_data(nrng, N, cplx, kind, False)
        yield ("class", {"x": x, "cls": "pburg", "P": 8, "Q": 2, "lag": 8, "criteria": crit, "nfft": [64, 33, None][(i2 // 5) % 3],
                         "fs": FS[(i2 // 7) % 4], "scale": bool((i2 // 3) % 2), "dkind": kind})
    if tier != "quick":
        # the full product class x scale x sampling x data kind x real/complex x NFFT (576 cases), oracle only
        for t in range(576):
            cls = CLASSES[t % 6]
            scale = bool((t // 6) % 2)
            fs = FS[(t // 12) % 4]
            kind = ["noise", "arma"][(t // 48) % 2]
            cplx = bool((t // 96) % 2)
            nfft = [64, 33, None][(t // 192) % 3]
            N = int(nrng.integers(16, 257))
            Pc, Qc, lagc = [(2, 2, 6), (4, 4, 10), (5, 5, 12), (3, 1, 6), (2, 4, 8), (1, 3, 7), (2, 3, 7)][t % 7]
            if not _in_domain(N, Pc, Qc, lagc) or 2 * Qc + 1 >= N:
                Pc, Qc, lagc = 2, 2, 6
            x = _arma_data(nrng, N, cplx, kind, False)
            yield ("class_laws", {"x": x, "cls": cls, "P": Pc, "Q": Qc, "lag": lagc, "nfft": nfft, "fs": fs, "scale": scale,
                                  "dkind": kind})

    # ---- lists and integer arrays as data (integer-valued samples; the amplitude variants exercise non-integral lists)
    for i in range(4 if tier == "quick" else 48):
        i2 = i + off
        cplx = bool((i2 // 2) % 2)
        N = int(nrng.integers(16, 65))
        x = nrng.integers(-5, 6, N).astype(float)
        if cplx:
            x = x + 1j * nrng.integers(-5, 6, N)
        if not np.any(x != x[0]):
            x[0] += 1
        if i2 % 2 == 0:
            Q = 1 + (i2 // 4) % 4
            yield ("inputs", {"x": x, "fn": "ma", "Q": Q, "M": [Q + 1, 2 * Q, N - 1][(i2 // 16) % 3], "dkind": "int"})
        else:
            P, Q, lag = [(3, 3, 10), (5, 5, 12), (2, 4, 8), (4, 2, 8)][(i2 // 4) % 4]
            if _in_domain(N, P, Q, lag) and np.linalg.cond(_myw(x, P, Q, lag)[0]) <= 1e6:
                yield ("inputs", {"x": x, "fn": "arma", "P": P, "Q": Q, "lag": lag, "dkind": "int"})
