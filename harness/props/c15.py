"""C15  MA and ARMA estimators return valid, invertible models."""
import numpy as np

import single

import proto
from common import gen_data, rel

TWO_PI = 2 * np.pi

TRUSTED_BASE = [
    "scipy.linalg.lstsq / the Marple covariance recursion inside arma_estimate are parameters (contract: least-squares "
    "solution); the model solves the normal equations exactly",
    "numpy.fft in arma2psd is the DFT parameter; class PSD cases run in float mode at rtol 1e-9",
    "exact mode for ma / arma_estimate: dyadic data, N <= 40; rtol 1e-6",
    "float-mode references written in this file (numpy): direct-sum biased/unbiased lags, Toeplitz solve of the two "
    "Yule-Walker stages of ma() (numpy.linalg.solve, compared where cond1*cond2 <= 1e5 at 1e-8), scipy.signal.lfilter "
    "for the AR residual, scipy.linalg.lstsq for the modified Yule-Walker least-squares problem",
    "typed-scalar cases: the type is applied by the harness from its name (STYPE table in props/c15.py) at call time; the reference "
    "for 'same PSD as for Python int / float' is the library itself called with plain types, the absolute level is fixed by the "
    "rho/sampling clause (direct numpy evaluation) and by the float model",
]
PARTIAL = []   # MA zeros strictly inside the unit circle for every Q: C15.ma_invertible / arma_ma_invertible
ASSUMPTIONS = ["domain of arma_estimate: Q <= lag, lag + 2P - Q <= N, 2Q < N - P, lag < N, lag - Q >= P (at least P equations); "
               "conditioning predicate on the modified Yule-Walker system cond <= 1e8",
               "model correspondence for arma_estimate only where lag >= 2P (unique least-squares solution); other in-domain cases are "
               "evaluated by the oracle only",
               "pyule(norm='unbiased') may give a negative PSD (documented by the library: the unbiased lags need not be positive "
               "definite): out of domain, never generated; the classes are built with their default norm",
               "arma_estimate with lag - Q < P (e.g. lag = Q = P = 3 returns NaN) is outside the stated domain lag - Q >= P: never "
               "generated",
               "class NFFT > order (NFFT <= order raises IndexError in arma2psd: not generated)",
               "exactly determined P = Q cases (lag - Q == P): the least-squares clause is evaluated on the residual of the modified "
               "Yule-Walker system where cond <= 1e6 (coefficients compared as well where cond <= 1e3: the covariance recursion's "
               "coefficient error grows like cond^2); the residual clause is evaluated for every P = Q case with cond <= 1e6",
               "value of (B, rho) against the numpy reference of ma() only where the two Toeplitz systems have cond1*cond2 <= 1e5",
               "typed scalar arguments: sampling / T >= 1 integral when given as an integer type (non-integral values only as float "
               "types); NFFT and the orders only as integer types (the library rejects float NFFT / orders with ValueError / TypeError: "
               "not generated); orders as Python int and SIGNED numpy integers (pmodcovar raises OverflowError for an unsigned numpy "
               "order: pending finding, /tmp/finding_C15.py)",
               "single-precision scalars (numpy.float32 sampling / T / rho): numpy evaluates rho/sampling in single precision, the "
               "clauses are evaluated at 5e-6 (38x the worst 1.3e-7 measured on the unchanged tree) and without the float model",
               "arma2psd cases on given coefficients: |A(f)| and |B(f)| >= 0.05 on the NFFT grid (otherwise the PSD of the GIVEN model "
               "is itself infinite / zero at a bin); NFFT > number of coefficients"]
RULE = ("real/complex noise-like and ARMA-generated data of length 16..256 (exact cases 16..40) x (P, Q, lag) in the domain "
        "incl. P = 4 and 5 (solver switch), the boundaries lag - Q == P, 2Q == N - P - 1, lag + 2P - Q == N, orders up to 20 and "
        "N + lag - 1 a power of two; MA estimator on float data N 16..256, Q 1..30, M in {Q+1, random, N-1} over noise, "
        "non-minimum-phase MA, zeros on the unit circle and a noisy tone; class cases over parma/pma/pyule/pburg/pcovar/pmodcovar "
        "with scale_by_freq, sampling and data kind drawn independently of the class, NFFT even/odd/None/'nextpow2'/order+1/4096, "
        "pma with M in {Q+1, 2Q+1, 3Q, N-1}, pburg with the six order-selection criteria; list / integer inputs; "
        "numeric TYPE of the scalar arguments: the six classes x sampling in {2, 3, 8, 250, 1000, 44100, 1} given as Python int / "
        "numpy int64, int32, intp, uint16 / float32 / float64 / integral Python float, x scale_by_freq, with NFFT (Python int, int64, "
        "int32, intp, uint16, uint8) and the orders P, Q, lag, M (Python int, int64, int32, int16, intp) typed independently, over "
        "float, complex and integer-dtype (int64 / int32 / int16 array or list of int) records: all clauses of the class cases plus "
        "equality with the PSD of the same values given as Python int / float on float64 data; arma2psd itself on given AR / MA / ARMA "
        "coefficients (stable-invertible float models and small-integer polynomials without zeros near the NFFT grid; float64, "
        "complex128, int64, int32, int8 arrays, lists of float / complex / int) x T, rho of the same eight types x NFFT typed or None "
        "(4096): strictly positive, finite, equal to rho/T |B|^2/|A|^2 by direct evaluation, equal to the all-float call, and "
        "compared with the float model (armaclass command, raw two-sided layout)")


def _sp():
    import spectrum
    return spectrum


def c(v):
    return np.asarray(v).astype(complex).ravel()


def impl_ma(p):
    b, rho = _sp().ma(p["x"], p["Q"], p["M"])
    return [c(b), c([rho])]


def model_ma(p):
    return ("Q", proto.request("ma", "Q", [p["Q"], p["M"]], [np.asarray(p["x"])]))


def oracle_ma(p):
    sp = _sp()
    out = []
    b, rho = sp.ma(p["x"], p["Q"], p["M"])
    b = c(b)
    if len(b) != p["Q"]:
        out.append("ma returned %d coefficients for Q=%d" % (len(b), p["Q"]))
    z = np.roots(np.concatenate(([1], b)))
    if np.max(np.abs(z)) >= 1:
        out.append("MA polynomial has a zero outside the unit circle: max|z| = %.6f" % np.max(np.abs(z)))
    if not (np.isfinite(rho) and np.real(rho) > 0 and abs(np.imag(rho)) < 1e-12):
        out.append("MA variance %r is not positive" % (rho,))
    for (Q, M) in [(0, 3), (3, 3), (4, 2)]:
        try:
            sp.ma(p["x"], Q, M)
            out.append("ma accepted Q=%d M=%d (outside 0 < Q < M)" % (Q, M))
        except ValueError:
            pass
    return out


def _lags(x, m, unbiased):
    """r[k] = sum_n x[n+k] conj(x[n]) / (N - k  or  N), k = 0..m, by direct summation (no library code)"""
    x = np.asarray(x).astype(complex).ravel()
    N = len(x)
    return np.array([np.sum(x[k:] * np.conj(x[:N - k])) / ((N - k) if unbiased else N) for k in range(m + 1)])


def _ref_yw(x, m):
    """Yule-Walker (biased lags) of order m by a dense solve of the Toeplitz system: (a, rho, cond)"""
    import scipy.linalg
    r = _lags(x, m, False)
    T = scipy.linalg.toeplitz(r[:m], np.conj(r[:m]))
    a = np.linalg.solve(T, -r[1:m + 1])
    rho = (r[0] + np.sum(a * np.conj(r[1:m + 1]))).real
    return a, rho, np.linalg.cond(T)


def _ref_ma(x, Q, M):
    """the defining two-stage computation of ma(): long AR(M) fit by Yule-Walker, then Yule-Walker of order Q on [1, a]"""
    a, rho, c1 = _ref_yw(x, M)
    b, _, c2 = _ref_yw(np.concatenate(([1], a)), Q)
    return b, rho, c1 * c2


def _ma_value_check(what, x, Q, M, b, rho):
    """(b, rho) against the numpy reference, where the reference itself is well conditioned"""
    try:
        b3, rho3, cc = _ref_ma(x, Q, M)
    except np.linalg.LinAlgError:
        return []
    if not (np.isfinite(cc) and cc <= 1e5):
        return []
    out = []
    if rel(c(b), c(b3)) > 1e-8:
        out.append("%s: MA coefficients differ from the two-stage Yule-Walker reference (Q=%d M=%d): %.2e" % (what, Q, M, rel(c(b), c(b3))))
    if abs(rho - rho3) > 1e-8 * abs(rho3):
        out.append("%s: variance %.12g differs from the long-AR Yule-Walker reference %.12g (Q=%d M=%d)" % (what, np.real(rho), rho3, Q, M))
    return out


def oracle_ma_laws(p):
    """float data, any admissible (Q, M): the statement's clauses plus the value of (b, rho) against the numpy reference"""
    out = oracle_ma(p)
    b, rho = _sp().ma(p["x"], p["Q"], p["M"])
    if np.isfinite(rho) and abs(np.imag(rho)) > 1e-12 * abs(rho):
        out.append("MA variance %r is not real" % (rho,))
    if len(c(b)) == p["Q"] and np.all(np.isfinite(c(b))) and np.isfinite(rho):
        out += _ma_value_check("ma", p["x"], p["Q"], p["M"], b, rho)
    return out


def impl_arma(p):
    A, B, rho = _sp().arma_estimate(p["x"], p["P"], p["Q"], p["lag"])
    return [c(A), c(B), c([rho])]


def model_arma(p):
    return ("Q", proto.request("arma", "Q", [p["P"], p["Q"], p["lag"]], [np.asarray(p["x"])]))


def _myw(x, P, Q, lag):
    """modified Yule-Walker system over the unbiased lags Q+1..lag; the lags are summed directly (independent of the library)"""
    R = _lags(x, lag, True)

    def r(k):
        return R[k] if k >= 0 else np.conj(R[-k])
    Mx = np.array([[r(k - j) for j in range(1, P + 1)] for k in range(Q + 1, lag + 1)])
    rhs = -np.array([r(k) for k in range(Q + 1, lag + 1)])
    return Mx, rhs


def oracle_arma(p):
    sp = _sp()
    import scipy.linalg
    x, P, Q, lag = np.asarray(p["x"]), p["P"], p["Q"], p["lag"]
    out = []
    A, B, rho = sp.arma_estimate(x, P, Q, lag)
    A, B = c(A), c(B)
    if not (np.all(np.isfinite(A)) and np.all(np.isfinite(B)) and np.isfinite(rho)):
        return ["arma_estimate(P=%d, Q=%d, lag=%d) returns non-finite coefficients / variance on in-domain data (N=%d, %s)" % (
            P, Q, lag, len(x), "complex" if np.iscomplexobj(x) else "real")]
    if len(A) != P:
        out.append("arma_estimate returned %d AR coefficients for P=%d (Q=%d lag=%d)" % (len(A), P, Q, lag))
    if len(B) != Q:
        out.append("arma_estimate returned %d MA coefficients for Q=%d" % (len(B), Q))
    if Q > 0:
        z = np.roots(np.concatenate(([1], B)))
        if np.max(np.abs(z)) >= 1:
            out.append("ARMA: MA zero outside the unit circle: max|z| = %.6f" % np.max(np.abs(z)))
    if not (np.isfinite(rho) and np.real(rho) > 0):
        out.append("ARMA variance %r is not positive and finite" % (rho,))
    elif abs(np.imag(rho)) > 1e-12 * abs(rho):
        out.append("ARMA variance %r is not real" % (rho,))
    finite = np.all(np.isfinite(A)) and np.all(np.isfinite(B)) and np.isfinite(rho)
    if P == Q and len(A) == P and finite:
        Mx, rhs = _myw(x, P, Q, lag)
        als = c(scipy.linalg.lstsq(Mx, rhs)[0])
        # least-squares optimality on the residual: no vector does better than the lstsq solution, the returned one must do as well
        r1, r2 = np.linalg.norm(Mx @ A - rhs), np.linalg.norm(Mx @ als - rhs)
        scale = np.linalg.norm(rhs) + np.linalg.norm(Mx) * max(np.linalg.norm(A), np.linalg.norm(als))
        cond = np.linalg.cond(Mx)
        if cond <= 1e6 and r1 > r2 + 1e-8 * scale:
            out.append("P=Q=%d lag=%d: residual of the modified Yule-Walker equations %.6e exceeds the least-squares minimum %.6e" % (
                P, lag, r1, r2))
        # exactly determined system (lag - Q == P): the coefficients are compared only where the square system is well conditioned
        # (the covariance recursion works on the normal equations: its coefficient error grows like cond^2)
        if (lag - Q > P or cond <= 1e3) and rel(A, als) > 1e-6:
            out.append("P=Q=%d lag=%d: AR part is not the least-squares solution of the modified Yule-Walker equations: %.2e" % (
                P, lag, rel(A, als)))
    if Q > 0 and len(A) == P and len(B) == Q and finite:
        # B and rho are the MA estimate (long AR of order 2Q) of the residual of the returned A:  e[k] = x[k] + sum_j A[j] x[k-1-j]
        import scipy.signal
        res = scipy.signal.lfilter(np.concatenate(([1], A)), [1], np.asarray(x).astype(complex).ravel())[P:]
        b2, rho2 = sp.ma(res, Q, 2 * Q)
        if rel(B, c(b2)) > 1e-9 or abs(rho - rho2) > 1e-9 * abs(rho2):
            out.append("ARMA (P=%d Q=%d lag=%d): B, rho are not ma(residual of A, Q, 2Q): %.2e, %.2e" % (
                P, Q, lag, rel(B, c(b2)), abs(rho - rho2) / abs(rho2)))
        out += _ma_value_check("ARMA (P=%d Q=%d lag=%d) residual" % (P, Q, lag), res, Q, 2 * Q, B, rho)
    return out


def _flat(r):
    return np.concatenate([c(v) for v in r])


def oracle_inputs(p):
    """lists and integer arrays are data as well: same result as for the float array of the same sample values, which is valid"""
    sp = _sp()
    x = np.asarray(p["x"])
    if p["fn"] == "ma":
        def f(v):
            return sp.ma(v, p["Q"], p["M"])
        out = oracle_ma(p)
    else:
        def f(v):
            return sp.arma_estimate(v, p["P"], p["Q"], p["lag"])
        out = oracle_arma(p)
    ref = _flat(f(x))
    forms = {"list": x.tolist()}
    if np.isrealobj(x) and np.all(x == np.round(x)) and np.max(np.abs(x)) < 2 ** 31:
        forms["int64 array"] = x.astype(np.int64)
        forms["list of int"] = [int(v) for v in x]
    elif np.iscomplexobj(x):
        forms["list of complex"] = [complex(v) for v in x]
    for name, v in forms.items():
        try:
            got = _flat(f(v))
        except Exception as e:          # noqa: BLE001
            out.append("%s raises %s for a %s of the samples it accepts as a float array" % (p["fn"], type(e).__name__, name))
            continue
        if rel(got, ref) > 1e-12:
            out.append("%s result for a %s differs from the float-array result: %.2e" % (p["fn"], name, rel(got, ref)))
    return out


CLASSES = ["parma", "pma", "pyule", "pburg", "pcovar", "pmodcovar"]


def _pma_M(p):
    return p["M"] if p.get("M") else 2 * p["Q"] + 1


# numeric TYPES of the scalar arguments (the values are kept as plain numbers in the params, the type as a name: replay files
# are JSON, which would turn numpy.int64(8) into 8 and 2.0 into 2.0 -- the name is what reproduces the case)
STYPE = {"int": int, "float": float, "int64": np.int64, "int32": np.int32, "int16": np.int16, "int8": np.int8, "intp": np.intp,
         "uint8": np.uint8, "uint16": np.uint16, "uint64": np.uint64, "float32": np.float32, "float64": np.float64}
FS_TYPES = ["int", "int64", "int32", "float32", "float64", "float", "uint16", "intp"]       # sampling / T / rho
NFFT_TYPES = ["int", "int64", "int32", "uint16", "intp", "uint8"]
ORDER_TYPES = ["int", "int64", "int32", "int16", "intp"]     # signed only: see PENDING-FINDING in gen (unsigned order in pmodcovar)
FS_INT = [2, 3, 8, 250, 1000, 44100, 1]
# scalars of single precision make numpy evaluate rho / sampling and the scale_by_freq factor in single precision (numpy >= 2
# promotion rules): the PSD is then the defined quantity to single precision only.  Measured on the unchanged tree over
# 6 classes x 10 samplings x 3 NFFT x real/complex x scale_by_freq and over 43 seeds of the generator below (quick) + 3 (thorough):
# worst relative deviation from the float64 result 1.3e-7 (arma2psd alone: 7.7e-8) -> 5e-6 (38x)
F32_TOL = 5e-6


def _cast(v, tname):
    if tname is None or v is None or isinstance(v, str):
        return v
    return STYPE[tname](v)


def _has_f32(p):
    return "float32" in (p.get("types") or {}).values()


def _data(p, plain=False):
    """the data record as handed to the library: p["x"] itself (float64 / complex128 / an integer dtype), or its list form"""
    x = p["x"]
    if plain:
        return np.asarray(x).astype(complex if np.iscomplexobj(x) else float)
    if p.get("xform") == "list":
        return np.asarray(x).tolist()
    return x


def _args(p, plain=False):
    """(x, P, Q, lag, M, keywords) with the scalar types of p["types"] applied (plain: Python int orders / NFFT, float sampling,
    float64 / complex128 data -- the form every other case of this file uses)"""
    ty = {} if plain else (p.get("types") or {})
    nfft = p["nfft"]
    if isinstance(nfft, (int, np.integer)):
        nfft = _cast(int(nfft), ty.get("nfft"))
    fs = _cast(p["fs"], ty.get("fs")) if ty.get("fs") else p["fs"]
    kw = dict(NFFT=nfft, sampling=fs, scale_by_freq=p["scale"])
    ot = ty.get("order")
    return _data(p, plain), _cast(p["P"], ot), _cast(p["Q"], ot), _cast(p["lag"], ot), _cast(_pma_M(p), ot), kw


def _typed(p):
    return bool(p.get("types")) or p.get("xform") == "list" or np.asarray(p["x"]).dtype.kind in "iu"


def _mk(p, plain=False):
    sp = _sp()
    x, P, Q, lag, M, kw = _args(p, plain)
    cls = p["cls"]
    if cls == "parma":
        return sp.parma(x, P, Q, lag, **kw)
    if cls == "pma":
        return sp.pma(x, Q, M, **kw)
    if cls == "pyule":
        return sp.pyule(x, P, **kw)
    if cls == "pburg":
        if p.get("criteria"):
            return sp.pburg(x, P, criteria=p["criteria"], **kw)
        return sp.pburg(x, P, **kw)
    if cls == "pcovar":
        return sp.pcovar(x, P, **kw)
    if cls == "pmodcovar":
        return sp.pmodcovar(x, P, **kw)
    raise ValueError(cls)


def _params(o, p):
    """(A, B, rho) the object exposes; rho None when the class does not expose it"""
    A = None if p["cls"] == "pma" else c(o.ar)
    B = c(o.ma) if p["cls"] in ("parma", "pma") else None
    rho = o.rho
    return A, B, rho


def impl_class(p):
    o = _mk(p)
    psd = np.asarray(o.psd)
    return [psd]


def model_class(p):
    o = _mk(p)
    _ = o.psd
    A, B, rho = _params(o, p)
    if rho is None:   # pyule does not expose rho: take it from the functional estimator the class calls
        rho = _sp().aryule(_data(p, plain=True), p["P"])[1]
    isreal = np.isrealobj(np.asarray(p["x"]))
    nfft = int(o.NFFT)
    return ("F", proto.request("armaclass", "F", [1 if isreal else 0, nfft, 1 if p["scale"] else 0,
                                                  0 if A is None else 1, 0 if B is None else 1],
                               [A if A is not None else [], B if B is not None else [], [rho], [float(p["fs"])], [TWO_PI]]))


def oracle_class(p):
    sp = _sp()
    o = _mk(p)
    psd = np.asarray(o.psd)
    out = []
    if np.iscomplexobj(psd) or not np.all(np.isfinite(psd)) or not np.all(psd > 0):
        out.append("%s PSD is not real, finite and strictly positive%s (sampling=%g: min %.6g max %.6g)" % (
            p["cls"], _tydesc(p), float(p["fs"]), np.min(np.real(psd)), np.max(np.real(psd))))
        return out
    A, B, rho = _params(o, p)
    cls = p["cls"]
    # the exposed model has the requested orders, an invertible MA part, and is the functional estimator's result
    if A is not None:
        if p.get("criteria"):
            if len(A) > p["P"]:
                out.append("pburg(criteria=%s) exposes %d AR coefficients for a maximum order %d" % (p["criteria"], len(A), p["P"]))
        elif len(A) != p["P"]:
            out.append("%s exposes %d AR coefficients for order %d" % (cls, len(A), p["P"]))
    if B is not None:
        if len(B) != p["Q"]:
            out.append("%s exposes %d MA coefficients for Q=%d" % (cls, len(B), p["Q"]))
        if np.all(np.isfinite(B)) and len(B) and np.max(np.abs(np.roots(np.concatenate(([1], B))))) >= 1:
            out.append("%s exposes an MA polynomial with a zero outside the unit circle" % cls)
    xa, Pa, Qa, laga, Ma, _kw = _args(p)        # the same (typed) arguments the class was built with
    if cls == "parma":
        a2, b2, r2 = sp.arma_estimate(xa, Pa, Qa, laga)
        if rel(A, c(a2)) > 1e-12 or rel(B, c(b2)) > 1e-12 or not abs(rho - r2) <= 1e-12 * abs(r2):
            out.append("parma(x, %d, %d, %d) does not expose the result of arma_estimate on the same arguments" % (p["P"], p["Q"], p["lag"]))
    if cls == "pma":
        b2, r2 = sp.ma(xa, Qa, Ma)
        if rel(B, c(b2)) > 1e-12 or not abs(rho - r2) <= 1e-12 * abs(r2):
            out.append("pma(x, %d, %d) does not expose the result of ma on the same arguments" % (p["Q"], _pma_M(p)))
    nfft = int(o.NFFT)
    fs = float(p["fs"])
    # single-precision scalar arguments: the statement holds to single precision (F32_TOL, measured); otherwise 1e-8 as before
    tol = F32_TOL if _has_f32(p) else 1e-8
    k = np.arange(nfft)
    z = np.exp(-2j * np.pi * k / nfft)
    Af = 1 + sum(A[i] * z ** (i + 1) for i in range(len(A))) if A is not None else np.ones(nfft)
    Bf = 1 + sum(B[i] * z ** (i + 1) for i in range(len(B))) if B is not None else np.ones(nfft)
    shape = np.abs(Bf) ** 2 / np.abs(Af) ** 2
    if np.isrealobj(np.asarray(p["x"])):
        L = nfft // 2 + 1 if nfft % 2 == 0 else (nfft + 1) // 2
        shape = 2 * shape[:L]
    if len(shape) != len(psd):
        return ["%s PSD has %d values, expected %d" % (p["cls"], len(psd), len(shape))]
    ratio = psd / shape
    if np.max(np.abs(ratio - ratio[0])) > tol * abs(ratio[0]):
        out.append("%s PSD is not proportional to |B|^2/|A|^2 of the exposed coefficients (NFFT=%d)" % (p["cls"], nfft))
    if rho is not None:
        const = rho / fs * (TWO_PI / (fs / nfft) if p["scale"] else 1.0)
        if abs(ratio[0] - const) > tol * abs(const):
            out.append("%s PSD constant %.10g != rho/sampling%s = %.10g (sampling=%g%s NFFT=%d)" % (
                p["cls"], ratio[0], " * 2pi/df" if p["scale"] else "", const, fs, _tydesc(p), nfft))
    if _typed(p):
        # the numeric type of a scalar argument / the container and integer dtype of the record are not part of the value:
        # the same numbers given as Python int / float and float64 data give the same PSD.  Measured on the unchanged tree
        # (6 classes x 9 scalar types x 7 samplings x 4 NFFT x scale_by_freq, integer records of 6 dtypes): every non-single type
        # reproduces the plain result bit for bit (worst 0) -> 1e-12; single-precision scalars F32_TOL
        ref = np.asarray(_mk(p, plain=True).psd)
        t2 = F32_TOL if _has_f32(p) else 1e-12
        if ref.shape != psd.shape:
            out.append("%s PSD has %d values%s, %d for the same arguments as Python int / float" % (cls, len(psd), _tydesc(p), len(ref)))
        elif np.max(np.abs(psd - ref) / np.abs(ref)) > t2:
            out.append("%s PSD%s differs from the PSD for the same values given as Python int / float and float64 data: "
                       "max relative difference %.3e (sampling=%g NFFT=%d)" % (cls, _tydesc(p), np.max(np.abs(psd - ref) / np.abs(ref)),
                                                                               fs, nfft))
    return out


def _tydesc(p):
    ty = p.get("types") or {}
    d = ["%s as %s" % (k, v) for k, v in sorted(ty.items())]
    xd = np.asarray(p["x"]).dtype if "x" in p else None
    if xd is not None and xd.kind in "iu":
        d.append("data as %s%s" % (xd, " list" if p.get("xform") == "list" else ""))
    elif p.get("xform") == "list":
        d.append("data as list")
    return (" [" + ", ".join(d) + "]") if d else ""


# ---- arma2psd itself (what every AR/MA/ARMA class calls): given coefficients, variance, sampling frequency and NFFT of any
# numeric type / container
COEF_FORMS = ["array", "list", "int64", "int32", "int8", "intlist"]     # the integer forms only for integer-valued real coefficients


def _coef(v, form, plain=False):
    if v is None:
        return None
    v = np.asarray(v)
    if plain or form in (None, "array"):
        return v.astype(complex if np.iscomplexobj(v) else float)
    if form == "list":
        return v.tolist()
    if form == "intlist":
        return v.astype(np.int64).tolist()
    return v.astype(form)


def _a2p_call(p, plain=False):
    ty = {} if plain else (p.get("types") or {})
    nfft = p["nfft"]
    if nfft is not None:
        nfft = _cast(int(nfft), ty.get("nfft"))
    return _sp().arma2psd(_coef(p["A"], ty.get("coef"), plain), _coef(p["B"], ty.get("coef"), plain),
                          rho=_cast(p["rho"], ty.get("rho") or "float"), T=_cast(p["T"], ty.get("T") or "float"), NFFT=nfft)


def _a2p_shape(p):
    n = 4096 if p["nfft"] is None else int(p["nfft"])
    z = np.exp(-2j * np.pi * np.arange(n) / n)
    A, B = p["A"], p["B"]
    Af = 1 + sum(complex(A[i]) * z ** (i + 1) for i in range(len(A))) if A is not None else np.ones(n)
    Bf = 1 + sum(complex(B[i]) * z ** (i + 1) for i in range(len(B))) if B is not None else np.ones(n)
    return np.abs(Af), np.abs(Bf)


def impl_a2p(p):
    return [np.asarray(_a2p_call(p))]


def model_a2p(p):
    A, B = p["A"], p["B"]
    return ("F", proto.request("armaclass", "F", [0, int(p["nfft"]), 0, 0 if A is None else 1, 0 if B is None else 1],
                               [c(A) if A is not None else [], c(B) if B is not None else [], [float(p["rho"])], [float(p["T"])],
                                [TWO_PI]]))


def oracle_a2p(p):
    n = 4096 if p["nfft"] is None else int(p["nfft"])
    desc = "arma2psd(%s, rho=%g, T=%g, NFFT=%s)%s" % ("ARMA" if p["A"] is not None and p["B"] is not None else "AR" if p["A"] is not None
                                                      else "MA", p["rho"], p["T"], p["nfft"], _tydesc(p))
    psd = np.asarray(_a2p_call(p))
    if psd.shape != (n,):
        return ["%s returns an array of shape %s, expected (%d,)" % (desc, psd.shape, n)]
    if np.iscomplexobj(psd) or not np.all(np.isfinite(psd)) or not np.all(psd > 0):
        return ["%s is not real, finite and strictly positive (min %.6g max %.6g)" % (desc, np.min(np.real(psd)), np.max(np.real(psd)))]
    out = []
    Af, Bf = _a2p_shape(p)
    direct = float(p["rho"]) / float(p["T"]) * Bf ** 2 / Af ** 2
    # direct evaluation of rho/T |B(f)|^2/|A(f)|^2 on the grid k/NFFT: the generated coefficients keep |A|, |B| >= 0.05 on the grid;
    # measured on the unchanged tree (300 coefficient sets x 12 (rho, T)): worst per-bin relative difference 5.0e-14 -> 1e-10
    tol = F32_TOL if _has_f32(p) else 1e-10
    e = np.max(np.abs(psd - direct) / direct)
    if e > tol:
        out.append("%s differs from rho/T |B(f)|^2/|A(f)|^2: max relative difference %.3e" % (desc, e))
    # same numbers as Python float / int and float64 (complex128) arrays: measured worst 0 for every non-single type -> 1e-12
    ref = np.asarray(_a2p_call(p, plain=True))
    e = np.max(np.abs(psd - ref) / np.abs(ref))
    if e > (F32_TOL if _has_f32(p) else 1e-12):
        out.append("%s differs from the PSD for the same values given as Python float / int and float64 arrays: max relative "
                   "difference %.3e" % (desc, e))
    return out


def _key_a2p(p):
    h = hash((np.asarray(p["A"]).tobytes() if p["A"] is not None else b"-") + (np.asarray(p["B"]).tobytes() if p["B"] is not None else b"-"))
    return "%s|%s|%s|%s|%d" % (p["rho"], p["T"], p["nfft"], sorted((p.get("types") or {}).items()), h & 0xFFFFFF)


def _tags_a2p(p):
    ty = p.get("types") or {}
    t = ["a2p:" + ("ARMA" if p["A"] is not None and p["B"] is not None else "AR" if p["A"] is not None else "MA"),
         "a2p:coef=" + (ty.get("coef") or "array"), "a2p:" + p.get("fam", "?"),
         "complex" if any(v is not None and np.iscomplexobj(v) for v in (p["A"], p["B"])) else "real"]
    for k in ("T", "rho", "nfft"):
        t.append("a2p:%s-type:%s" % (k, ty.get(k) or ("float" if k != "nfft" else "int")))
    if ty.get("T") in INT_TYPES and p["T"] >= 2:
        t.append("a2p:T integer-typed >= 2")
    return t


INT_TYPES = {"int", "int64", "int32", "int16", "int8", "intp", "uint8", "uint16", "uint64"}


def _key(p):
    x = np.asarray(p["x"])
    return "%s|%s|%s|%s|%s|%s|%s|%s|%s|%s|%d" % (p.get("cls"), p.get("P"), p.get("Q"), p.get("lag"), p.get("M"), p.get("nfft"), p.get("fs"),
                                               p.get("scale"), p.get("criteria"), p.get("fn"), hash(x.tobytes()) & 0xFFFFFF) + (
        "|%s|%s|%s" % (sorted(p["types"].items()) if p.get("types") else "", x.dtype, p.get("xform")) if "cls" in p and _typed(p) else "")


def _tags(p):
    t = ["complex" if np.iscomplexobj(p["x"]) else "real", "data:" + p.get("dkind", "?")]
    if "cls" in p:
        t.append("cls:" + p["cls"])
        t.append("cls:%s|scale=%d" % (p["cls"], bool(p["scale"])))
        t.append("nfft:%s" % ("int" if isinstance(p["nfft"], (int, np.integer)) else p["nfft"]))
        if p.get("criteria"):
            t.append("criteria:" + p["criteria"])
        if _typed(p):
            ty = p.get("types") or {}
            t.append("typed-scalars")
            for k in ("fs", "nfft", "order"):
                if ty.get(k):
                    t.append("%s-type:%s" % (k, ty[k]))
            if ty.get("fs") in INT_TYPES:
                t.append("fs integer-typed %s|scale=%d" % (">= 2" if p["fs"] >= 2 else "== 1", bool(p["scale"])))
            xd = np.asarray(p["x"]).dtype
            if xd.kind in "iu" or p.get("xform") == "list":
                t.append("class-data:%s%s" % (xd, " list" if p.get("xform") == "list" else ""))
    if p.get("fam"):
        t.append("family:" + p["fam"])
    if "fn" in p:
        t.append("inputs:" + p["fn"])
    if "P" in p and "lag" in p and "cls" not in p:
        t.append("solver:" + ("marple(P<=4)" if p["P"] <= 4 else "lstsq(P>4)"))
        t.append("P=Q" if p["P"] == p["Q"] else "P!=Q")
    return t


KINDS = {
    "ma": {"impl": impl_ma, "model": model_ma, "oracle": oracle_ma, "rtol": 1e-6, "atol": 1e-12, "key": _key, "tags": _tags},
    "arma": {"impl": impl_arma, "model": model_arma, "oracle": oracle_arma, "rtol": 1e-5, "atol": 1e-10, "key": _key, "tags": _tags},
    "arma_laws": {"oracle": oracle_arma, "key": _key, "tags": _tags},
    "class": {"impl": impl_class, "model": model_class, "oracle": oracle_class, "rtol": 1e-9, "atol": 1e-300, "key": _key, "tags": _tags},
    # oracle-only kinds (float data, any size of the quantifier)
    "ma_laws": {"oracle": oracle_ma_laws, "key": _key, "tags": _tags},
    "class_laws": {"oracle": oracle_class, "key": _key, "tags": _tags},
    "inputs": {"oracle": oracle_inputs, "key": _key, "tags": _tags},
    # arma2psd on given coefficients with typed scalars / containers; float model = the raw two-sided PSD of the armaclass command
    "arma2psd": {"impl": impl_a2p, "model": model_a2p, "oracle": oracle_a2p, "rtol": 1e-9, "atol": 1e-300, "key": _key_a2p,
                 "tags": _tags_a2p},
    "arma2psd_laws": {"oracle": oracle_a2p, "key": _key_a2p, "tags": _tags_a2p},      # NFFT None (4096) or single-precision scalars
}


def _arma_data(nrng, N, cplx, kind, exact):
    import scipy.signal
    e = nrng.standard_normal(N + 50) + (1j * nrng.standard_normal(N + 50) if cplx else 0)
    if kind == "arma":
        x = scipy.signal.lfilter([1, 0.5, 0.2], [1, -0.6, 0.3], e)[50:]
    elif kind == "ar4":
        # AR(4), poles of radius 0.85 at +-0.6 and +-1.9 rad (a moderate dynamic range: the PSD of the fitted model stays well
        # conditioned as a function of the coefficients, also for the dominant-tone variants of vcheck.vary)
        zz = 0.85 * np.exp(1j * np.array([0.6, -0.6, 1.9, -1.9]))
        x = scipy.signal.lfilter([1], np.real(np.poly(zz)), e)[50:]
    else:
        x = e[50:]
    if exact:
        x = np.round(x * 64) / 64
    return np.asarray(x, dtype=complex if cplx else float)


PQL = [(1, 1, 3), (2, 2, 6), (3, 3, 8), (4, 4, 10), (5, 5, 12), (6, 6, 14), (4, 2, 8), (5, 2, 9), (2, 4, 8), (6, 3, 12),
       (1, 3, 6), (4, 1, 9), (3, 3, 10), (4, 4, 9), (5, 5, 11)]


FS = [1.0, 2.5, 250.0, 0.5]
CRITERIA = ["AIC", "AICc", "KIC", "FPE", "AKICc", "MDL"]
MA_DATA = ["noise", "nonminphase", "unitcircle", "tone"]
# (N or None = random, P, Q, lag, family): boundaries of the domain, both solvers (arcovar_marple for P <= 4, arcovar for P > 4)
ARMA_EXTRA = [(None, 1, 1, 2, "lag-Q==P"), (None, 2, 2, 4, "lag-Q==P"), (None, 3, 3, 6, "lag-Q==P"), (None, 4, 4, 8, "lag-Q==P"),
              (None, 5, 5, 10, "lag-Q==P"),
              (16, 1, 7, 9, "2Q==N-P-1"), (17, 2, 7, 10, "2Q==N-P-1"), (20, 5, 7, 14, "2Q==N-P-1"),
              (20, 2, 1, 17, "lag+2P-Q==N,P>Q"), (24, 4, 2, 18, "lag+2P-Q==N,P>Q"), (24, 5, 2, 16, "lag+2P-Q==N,P>Q"),
              (30, 6, 3, 21, "lag+2P-Q==N,P>Q"),
              (256, 15, 15, 30, "order>6"), (256, 20, 20, 50, "order>6"), (200, 3, 10, 20, "order>6"), (200, 10, 3, 25, "order>6")]


def _ma_data(nrng, N, cplx, kind):
    import scipy.signal
    e = nrng.standard_normal(N + 50) + (1j * nrng.standard_normal(N + 50) if cplx else 0)
    if kind == "nonminphase":
        x = scipy.signal.lfilter([1, -2.5, 1.2], [1], e)[50:]
    elif kind == "unitcircle":
        x = scipy.signal.lfilter([1, -2 * np.cos(1.0), 1], [1], e)[50:]
    elif kind == "tone":
        x = np.cos(0.7 * np.arange(N)) + 1e-3 * e[50:]
    else:
        x = e[50:]
    return np.asarray(x, dtype=complex if cplx else float)


def _in_domain(N, P, Q, lag):
    return Q <= lag and lag + 2 * P - Q <= N and 2 * Q < N - P and lag < N and lag - Q >= P and Q >= 1


KINDS["single"] = single.kind("C15")

def gen(rng, nrng, tier):
    yield from single.gen("C15", nrng, tier)
    n = 70 if tier == "quick" else 1000
    for i in range(n):
        cplx = bool(nrng.integers(0, 2))
        kind = ["noise", "arma"][i % 2]
        N = int(nrng.integers(16, 41))
        x = _arma_data(nrng, N, cplx, kind, True)
        Q = int(nrng.integers(1, 5))
        M = int(nrng.integers(Q + 1, min(N - 1, 2 * Q + 4) + 1))
        yield ("ma", {"x": x, "Q": Q, "M": M, "dkind": kind})
        P, Q2, lag = PQL[i % len(PQL)]
        if _in_domain(N, P, Q2, lag):
            Mx, _ = _myw(x, P, Q2, lag)
            if np.linalg.cond(Mx) <= 1e6:
                # the covariance solver sees `lag` samples: its least-squares problem has a unique solution
                # (what the model computes) only when lag - P >= P; otherwise lstsq returns a minimum-norm solution
                yield ("arma" if lag >= 2 * P else "arma_laws", {"x": x, "P": P, "Q": Q2, "lag": lag, "dkind": kind})
    for i in range(6 if tier == "quick" else 60):      # boundary of the MA domain: the longest admissible AR fit, M = N - 1
        cplx = bool(i % 2)
        N = int(nrng.integers(8, 15))
        x = _arma_data(nrng, N, cplx, "noise", True)
        yield ("ma", {"x": x, "Q": 1 + i % 3, "M": N - 1, "dkind": "noise"})
    for i in range(8 if tier == "quick" else 60):      # boundary of the domain: lag + 2P - Q == N
        cplx = bool(i % 2)
        P = 1 + i % 3
        N = int(nrng.integers(16, 31))
        x = _arma_data(nrng, N, cplx, "arma", True)
        lag = N - P
        Mx, _ = _myw(x, P, P, lag)
        if np.linalg.cond(Mx) <= 1e6:
            yield ("arma", {"x": x, "P": P, "Q": P, "lag": lag, "dkind": "arma"})
    n2 = 60 if tier == "quick" else 900
    off = 2 * int(nrng.integers(0, 48 * 6))      # a per-seed rotation of the index-derived choices below (even: i % 2 keeps its meaning)
    for i in range(n2):
        cplx = bool(nrng.integers(0, 2))
        kind = ["noise", "arma"][i % 2]
        N = int(nrng.integers(16, 257))
        x = _arma_data(nrng, N, cplx, kind, False)
        P, Q, lag = PQL[i % len(PQL)]
        if _in_domain(N, P, Q, lag):
            Mx, _ = _myw(x, P, Q, lag)
            if np.linalg.cond(Mx) <= 1e8:
                yield ("arma_laws", {"x": x, "P": P, "Q": Q, "lag": lag, "dkind": kind})
        # class, scale_by_freq, sampling and data kind are drawn independently: kind = i % 2, then (class, scale, sampling) from
        # the mixed-radix digits of (i + off) // 2; NFFT (period 5) and the orders (period 7) are coprime to all of them
        j = (i + off) // 2
        cls = CLASSES[j % 6]
        scale = bool((j // 6) % 2)
        fs = FS[(j // 12) % 4]
        Pc, Qc, lagc = [(2, 2, 6), (4, 4, 10), (5, 5, 12), (3, 1, 6), (2, 4, 8), (1, 3, 7), (2, 3, 7)][i % 7]
        if not _in_domain(N, Pc, Qc, lagc) or 2 * Qc + 1 >= N:
            Pc, Qc, lagc = 2, 2, 6          # keep the class case inside arma_estimate's documented domain
        nfft = [64, 65, None, 48, 33][i % 5]
        if nfft is None and N <= max(Pc, Qc) + 1:
            nfft = 64
        yield ("class", {"x": x, "cls": cls, "P": Pc, "Q": Qc, "lag": lagc, "nfft": nfft, "fs": fs, "scale": scale, "dkind": kind})

    # ---- MA estimator over the whole quantifier (float data, oracle only): N 16..256, Q up to 30, M from Q+1 to N-1
    for i in range(24 if tier == "quick" else 900):
        i2 = i + off
        cplx = bool(i2 % 2)
        kind = MA_DATA[(i2 // 2) % 4]
        N = int(nrng.integers(16, 257))
        Q = int(nrng.integers(1, min(30, N // 2 - 2) + 1))
        M = [Q + 1, int(nrng.integers(Q + 1, N)), N - 1][(i2 // 8) % 3]
        yield ("ma_laws", {"x": _ma_data(nrng, N, cplx, kind), "Q": Q, "M": M, "dkind": kind})

    # ---- ARMA estimator at the boundaries of its domain, on both sides of the P <= 4 / P > 4 solver switch, and at high orders
    reps = 1 if tier == "quick" else 24
    for r in range(reps):
        for t, (N0, P, Q, lag, fam) in enumerate(ARMA_EXTRA):
            i2 = r * len(ARMA_EXTRA) + t + off
            cplx = bool((i2 + r) % 2)
            kind = ["noise", "arma"][((i2 + r) // 2) % 2]
            N = N0 if N0 else int(nrng.integers(max(16, lag + 2 * P - Q), 257))
            x = _arma_data(nrng, N, cplx, kind, False)
            if _in_domain(N, P, Q, lag) and np.linalg.cond(_myw(x, P, Q, lag)[0]) <= 1e8:
                yield ("arma_laws", {"x": x, "P": P, "Q": Q, "lag": lag, "dkind": kind, "fam": fam})
    # KNOWN FINDING (known_findings.json, not repaired: the unedited test suite pins parma(marple_data, 8, 4, 10).power(), which any
    # repair of the lag sequence changes).  For P > Q the lag sequence of lag-Q+P values is truncated to `lag` samples before the
    # covariance fit, which then sees lag-P equations for P unknowns: with lag < 2P the system is singular and arma_estimate returns
    # NaN/inf on some records ((2,1,3): ~2% of complex records; (4,1,5): ~20%).  In the stated domain (Q <= lag, lag+2P-Q <= N,
    # 2Q < N-P).  Two fixed reproducers run in every tier, plus random records of the two call sites.
    r53 = np.random.default_rng(53)
    yield ("arma_laws", {"x": r53.standard_normal(32) + 1j * r53.standard_normal(32), "P": 2, "Q": 1, "lag": 3, "dkind": "noise",
                         "fam": "known:P>Q,lag<2P"})
    r6 = np.random.default_rng(6)
    yield ("arma_laws", {"x": r6.standard_normal(32), "P": 4, "Q": 1, "lag": 5, "dkind": "noise", "fam": "known:P>Q,lag<2P"})
    for r in range(reps * 4):
        x = _arma_data(nrng, int(nrng.integers(16, 257)), bool(r % 2), ["noise", "arma"][(r // 2) % 2], False)
        P_, Q_, lag_ = [(2, 1, 3), (4, 1, 5)][(r // 4) % 2]
        yield ("arma_laws", {"x": x, "P": P_, "Q": Q_, "lag": lag_, "dkind": ["noise", "arma"][(r // 2) % 2], "fam": "known:P>Q,lag<2P"})
    # N + lag - 1 a power of two (size boundaries of the lag computation) for the P = Q triples: the least-squares clause is
    # evaluated against directly summed lags
    pq = [t for t in PQL if t[0] == t[1]]
    for i in range(4 if tier == "quick" else 4 * len(pq) * 4):
        i2 = i + off
        P, Q, lag = pq[(i2 // 4) % len(pq)]
        N = [32, 64, 128, 256][i2 % 4] - lag + 1
        cplx = bool((i2 // (4 * len(pq))) % 2)
        kind = ["noise", "arma"][(i2 // (8 * len(pq))) % 2]
        x = _arma_data(nrng, N, cplx, kind, False)
        if _in_domain(N, P, Q, lag) and np.linalg.cond(_myw(x, P, Q, lag)[0]) <= 1e8:
            yield ("arma_laws", {"x": x, "P": P, "Q": Q, "lag": lag, "dkind": kind, "fam": "N+lag-1=2^m"})

    # ---- classes: NFFT 'nextpow2' / order + 1 / 4096, pma with other long-AR orders, pburg with order selection
    for i in range(6 if tier == "quick" else 72):
        i2 = i + off
        cls = CLASSES[i2 % 6]
        cplx = bool((i2 // 6) % 2)
        kind = ["noise", "arma"][(i2 // 12) % 2]
        N = int(nrng.integers(16, 257))
        x = _arma_data(nrng, N, cplx, kind, False)
        order = {"parma": 3, "pma": 3}.get(cls, 3 + (i2 // 24) % 3)
        base = {"x": x, "cls": cls, "P": order, "Q": 3, "lag": 8, "dkind": kind}
        for w, nfft in enumerate(["nextpow2", order + 1, 4096]):
            q = dict(base, nfft=nfft, fs=FS[(i2 + w) % 4], scale=bool((i2 // 2 + w) % 2))
            # the float model's DFT is quadratic in NFFT: 4096 points are evaluated by the oracle only
            yield ("class_laws" if nfft == 4096 else "class", q)
    for i in range(3 if tier == "quick" else 48):
        i2 = i + off
        cplx = bool((i2 // 3) % 2)
        kind = ["noise", "arma"][(i2 // 6) % 2]
        N = int(nrng.integers(16, 257))
        Q = 1 + (i2 // 12) % 4
        M = [Q + 1, 3 * Q, N - 1][i2 % 3]
        x = _arma_data(nrng, N, cplx, kind, False)
        yield ("class", {"x": x, "cls": "pma", "P": 2, "Q": Q, "lag": 8, "M": M, "nfft": [64, 33, None][(i2 // 2) % 3],
                         "fs": FS[(i2 // 4) % 4], "scale": bool((i2 // 5) % 2), "dkind": kind})
    for i in range(6 if tier == "quick" else 72):
        i2 = i + off
        crit = CRITERIA[i2 % 6]
        cplx = bool((i2 // 6) % 2)
        kind = ["ar4", "arma", "noise"][(i2 // 12) % 3]
        N = int(nrng.integers(32, 257))
        x = _arma_data(nrng, N, cplx, kind, False)
        yield ("class", {"x": x, "cls": "pburg", "P": 8, "Q": 2, "lag": 8, "criteria": crit, "nfft": [64, 33, None][(i2 // 5) % 3],
                         "fs": FS[(i2 // 7) % 4], "scale": bool((i2 // 3) % 2), "dkind": kind})
    if tier != "quick":
        # the full product class x scale x sampling x data kind x real/complex x NFFT (576 cases), oracle only
        for t in range(576):
            cls = CLASSES[t % 6]
            scale = bool((t // 6) % 2)
            fs = FS[(t // 12) % 4]
            kind = ["noise", "arma"][(t // 48) % 2]
            cplx = bool((t // 96) % 2)
            nfft = [64, 33, None][(t // 192) % 3]
            N = int(nrng.integers(16, 257))
            Pc, Qc, lagc = [(2, 2, 6), (4, 4, 10), (5, 5, 12), (3, 1, 6), (2, 4, 8), (1, 3, 7), (2, 3, 7)][t % 7]
            if not _in_domain(N, Pc, Qc, lagc) or 2 * Qc + 1 >= N:
                Pc, Qc, lagc = 2, 2, 6
            x = _arma_data(nrng, N, cplx, kind, False)
            yield ("class_laws", {"x": x, "cls": cls, "P": Pc, "Q": Qc, "lag": lagc, "nfft": nfft, "fs": fs, "scale": scale,
                                  "dkind": kind})

    # ---- lists and integer arrays as data (integer-valued samples; the amplitude variants exercise non-integral lists)
    for i in range(4 if tier == "quick" else 48):
        i2 = i + off
        cplx = bool((i2 // 2) % 2)
        N = int(nrng.integers(16, 65))
        x = nrng.integers(-5, 6, N).astype(float)
        if cplx:
            x = x + 1j * nrng.integers(-5, 6, N)
        if not np.any(x != x[0]):
            x[0] += 1
        if i2 % 2 == 0:
            Q = 1 + (i2 // 4) % 4
            yield ("inputs", {"x": x, "fn": "ma", "Q": Q, "M": [Q + 1, 2 * Q, N - 1][(i2 // 16) % 3], "dkind": "int"})
        else:
            P, Q, lag = [(3, 3, 10), (5, 5, 12), (2, 4, 8), (4, 2, 8)][(i2 // 4) % 4]
            if _in_domain(N, P, Q, lag) and np.linalg.cond(_myw(x, P, Q, lag)[0]) <= 1e6:
                yield ("inputs", {"x": x, "fn": "arma", "P": P, "Q": Q, "lag": lag, "dkind": "int"})

    # ---- numeric TYPE of the scalar arguments, container / integer dtype of the record (class cases): class (period 6) x type of
    # `sampling` (period 8) x scale_by_freq from the digits of i + off; value of sampling, NFFT and its type, type of the orders,
    # kind of record drawn independently.  Single-precision sampling: oracle only at F32_TOL (kind class_laws).
    for i in range(36 if tier == "quick" else 576):
        i2 = i + off
        cls = CLASSES[i2 % 6]
        fst = FS_TYPES[(i2 // 6) % 8]
        scale = bool((i2 // 6 + i2) % 2)
        fsv = FS_INT[int(nrng.integers(0, len(FS_INT)))]
        N = int(nrng.integers(16, 257))
        dk = int(nrng.integers(0, 6))
        if dk < 4:
            kind = ["noise", "arma"][dk % 2]
            x = _arma_data(nrng, N, dk >= 2, kind, False)
            xform = None
        else:
            # integer-valued records held in an integer dtype / a list of Python int
            kind = "int"
            x = nrng.integers(-5, 6, N)
            if not np.any(x != x[0]):
                x[0] += 1
            x = x.astype([np.int64, np.int32, np.int16][int(nrng.integers(0, 3))])
            xform = [None, "list"][int(nrng.integers(0, 2))]
        Pc, Qc, lagc = [(2, 2, 6), (4, 4, 10), (5, 5, 12), (3, 1, 6), (2, 4, 8), (1, 3, 7), (2, 3, 7)][int(nrng.integers(0, 7))]
        if not _in_domain(N, Pc, Qc, lagc) or 2 * Qc + 1 >= N:
            Pc, Qc, lagc = 2, 2, 6
        if np.linalg.cond(_myw(x, Pc, Qc, lagc)[0]) > 1e8:
            continue
        nfft = [64, 65, None, 48, 33, "nextpow2", max(Pc, Qc) + 1][int(nrng.integers(0, 7))]
        if nfft is None and N <= max(Pc, Qc) + 1:
            nfft = 64
        types = {"fs": fst}
        if isinstance(nfft, int):
            types["nfft"] = NFFT_TYPES[int(nrng.integers(0, len(NFFT_TYPES)))]
        # Ruling (not a finding: orders are documented as int; an unsigned numpy order is negated inside modcovar): pmodcovar(x, numpy.uint8(3)) / numpy.uint64 raise OverflowError ("Python integer -3 out of bounds for uint8":
        # modcovar negates the order); the other five classes accept unsigned orders.  /tmp/finding_C15.py.  Orders are generated as
        # Python int and SIGNED numpy integers only.
        types["order"] = ORDER_TYPES[int(nrng.integers(0, len(ORDER_TYPES)))]
        q = {"x": x, "cls": cls, "P": Pc, "Q": Qc, "lag": lagc, "nfft": nfft, "fs": float(fsv), "scale": scale, "dkind": kind,
             "types": types}
        if xform:
            q["xform"] = xform
        yield ("class_laws" if fst == "float32" else "class", q)

    # ---- arma2psd on given coefficients: AR / MA / ARMA x type of T (period 8) from the digits of i + off; type and value of rho,
    # type of NFFT, container / dtype of the coefficient arrays drawn independently.  Coefficients: (a) a stable, invertible model
    # (poles and zeros of modulus <= 0.9), (b) small integers, kept when |A(f)|, |B(f)| >= 0.05 on the NFFT grid (finite, positive
    # PSD).  NFFT None (4096 points) and single-precision scalars: oracle only.
    for i in range(24 if tier == "quick" else 384):
        i2 = i + off
        mode = i2 % 3                                   # 0 ARMA, 1 AR, 2 MA
        Tt = FS_TYPES[(i2 // 3) % 8]
        isint = Tt in INT_TYPES
        Tv = (FS_INT + ([] if isint else [0.5, 2.5]))[int(nrng.integers(0, len(FS_INT) + (0 if isint else 2)))]
        rt = FS_TYPES[int(nrng.integers(0, 8))]
        rv = [1, 2, 5, 40][int(nrng.integers(0, 4))] if rt in INT_TYPES else [1.0, 0.7, 1e-3, 12.5, 3.0][int(nrng.integers(0, 5))]
        nfft = [16, 33, 48, 64, 65, 128, None][int(nrng.integers(0, 7))]
        n = 4096 if nfft is None else nfft
        cplx = bool(nrng.integers(0, 2))
        fam = ["stable", "integer"][int(nrng.integers(0, 2))]
        p_, q_ = int(nrng.integers(1, 7)), int(nrng.integers(1, 7))
        for _try in range(50):
            if fam == "stable":
                def poly(m):
                    r = 0.9 * nrng.random(m) * np.exp(2j * np.pi * nrng.random(m))
                    if not cplx:
                        r = np.concatenate([r[:m // 2], np.conj(r[:m // 2]), np.real(r[:m % 2])])
                    cf = np.poly(r)[1:]
                    return cf if cplx else np.real(cf)
                A, B = poly(p_), poly(q_)
            else:
                A = nrng.integers(-3, 4, p_).astype(float)
                B = nrng.integers(-3, 4, q_).astype(float)
                if cplx:
                    A = A + 1j * nrng.integers(-3, 4, p_)
                    B = B + 1j * nrng.integers(-3, 4, q_)
            pp = {"A": A if mode != 2 else None, "B": B if mode != 1 else None, "nfft": nfft}
            Af, Bf = _a2p_shape(pp)
            if min(np.min(Af), np.min(Bf)) >= 0.05:
                break
        else:
            continue
        forms = COEF_FORMS if (fam == "integer" and not cplx) else COEF_FORMS[:2]
        types = {"T": Tt, "rho": rt, "coef": forms[int(nrng.integers(0, len(forms)))]}
        if nfft is not None:
            types["nfft"] = NFFT_TYPES[int(nrng.integers(0, len(NFFT_TYPES)))]
        pp.update({"rho": rv, "T": Tv, "types": types, "fam": fam})
        oracle_only = nfft is None or "float32" in (Tt, rt)
        yield ("arma2psd_laws" if oracle_only else "arma2psd", pp)
