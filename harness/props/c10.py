"""C10  Levinson and the Toeplitz/Hermitian solvers solve their equations."""
import zlib

import numpy as np

import single
from scipy.linalg import toeplitz as sp_toeplitz

import proto
from common import gen_data, rel, dyadic

TRUSTED_BASE = [
    "CHOLESKY is glue around LAPACK (numpy.linalg.cholesky/solve, scipy.linalg.cholesky/cho_solve): a parameter, "
    "checked by the residual oracle (all three back ends and the default one, which must also agree with each other)",
    "exact mode: the model runs the recursions in exact Gaussian rationals on the doubles the implementation receives; "
    "agreement required to rtol 1e-7 (conditioning predicate: every stage error P_j >= 1e-6 r0)",
    "near-singular class: positive definiteness is certified by the harness's own exact rational Levinson recursion "
    "(fractions.Fraction, props/c10.py:_exact_lev) and, independently, by the Lean model in exact mode (it must return: an "
    "implementation that raises is a correspondence failure); agreement required to rtol max(1e-7, Cerr*eps/rho), "
    "rho = exact P/r0, Cerr = 30 x the measured error constant of the family",
]
PARTIAL = ["CHOLESKY: LAPACK glue, no model: residual oracle on every back end plus mutual agreement of the back ends (stability of the prediction polynomial is proved for every order: "
           "C10.levinson_stable, Schur-Cohn by the elementary |A| >= |B| invariant)",
           "near-singular positive-definite class: the value comparison with the exact model degrades with eps/rho (vacuous "
           "within ~Cerr of the lower edge; the return / P > 0 / |k_i| < 1 / nesting / residual clauses stay sharp); "
           "positive-definite sequences with rho < Kdom*eps are not generated (double-precision round-off limit)"]
ASSUMPTIONS = ["positive-definite sequences are biased autocorrelations of random data; 'clearly indefinite' ones have a "
               "stage error <= -1e-3 r0 (and no stage error within 1e-6 r0 of zero); exactly singular ones have a stage "
               "error that is 0.0 in double precision (small integer / dyadic lags)",
               "positive definiteness is quantified per order: a sequence whose leading (order+1) lags are positive "
               "definite is in the PD class for that order whatever the later lags are",
               "HERMTOEP / LEVINSON: the zero-lag value is real (the stage error P is real), so numpy's lexicographic "
               "complex `<=` and the model's `re P <= 0` coincide; TOEPLITZ: exact zero test on both sides",
               "entry forms: numpy arrays (float64, complex128, integer dtypes), lists, tuples, nested lists, numpy "
               "scalars for T0 / order; a Python complex T0 for HERMTOEP is outside the statement",
               "argument protocol: a scalar argument may be any object that holds one number -- Python and numpy scalars and "
               "0-dimensional numpy arrays (numpy.array(r0), a scalar read back by numpy.load, buf[0, ...]), integer-valued "
               "ones in integer containers; 1-element 1-D arrays are not scalars (numpy 2 rejects them); the solvers are "
               "functions of the VALUES of their arguments: they must not write into any argument object",
               "nearly singular positive-definite sequences (1e-6 > rho = P_p/r0): the class is rho >= Kdom*eps with Kdom = 8 "
               "(AR(1)), 32 (constant + floor), 200..3200 (rounded phases, tones, lattices): below a few eps (tens of eps "
               "for the less structured families) the double-precision recursion loses the pivot to its own rounding and "
               "raises on an exactly positive-definite sequence (ruling: round-off limit, DESIGN 0.9); the "
               "exact Schur-Cohn stability test is demanded for rho >= Kstab*eps (64..640 by family)"]
RULE = ("PD sequences = biased autocorrelation of random dyadic data (real/complex), length 2..40, all orders (incl. 0), "
        "amplitudes 2^-100..2^70, leading-block-PD sequences with an indefinite tail, exactly zero first / later "
        "reflection coefficients; clearly indefinite sequences (strict and allow_singularity=True, full and partial "
        "orders) and exactly singular ones; random diagonally dominant Toeplitz / Hermitian-PD systems and "
        "right-hand sides at independent amplitudes 2^-80..2^70; Cholesky on Toeplitz and on G^H G + I matrices "
        "(n = 1..24, 1-D and (n,3) right-hand sides, C / Fortran order); every entry form; non-trivial = order >= 1; "
        "CERTIFIED nearly singular positive-definite sequences (exact rational recursion: all stage errors > 0), "
        "Kdom*eps <= P/r0 <= 1e-6, half of them within 8x of the lower edge: constant / AR(1) signals with exact (1,-1,i,-i) "
        "or rounded random unit-phase modulation (c, a = 1-t, also 1-2^-m), 1-3 strong tones + tiny white floor, lattices "
        "with one |k| next to 1; n = 2..40, the largest or a random order of the class, amplitudes 2^-200..2^200, lists; "
        "a fixed core at n = 24..40 with P/r0 within a few (order+1)*eps; LEVINSON must return with P > 0, |k_i| < 1, the "
        "identity residual <= 400 eps r0 |[1,a]|_1, a stable polynomial (exact Schur-Cohn), EVERY lower order returning "
        "the same leading reflection coefficients, allow_singularity=True / order omitted giving the identical result; "
        "the same matrices (n <= 12) as systems for HERMTOEP and TOEPLITZ (return, finite, backward-error residual); "
        "well-conditioned Hermitian / real symmetric INDEFINITE and negative-definite systems through the general solver "
        "(first row = conj(first column), real diagonal; cond <= 1e3, every stage error >= 1e-3 |T0| in modulus); "
        "ARGUMENT PROTOCOL (kinds lev-args / herm-args / toep-args / chol-args, n <= 13): the argument objects are built once "
        "and used for 2-3 calls (second right-hand side, the same solve repeated, the normalised solution fed back as the "
        "next right-hand side, LEVINSON at order p / a lower order / order p again); T0 (and r[0] inside a list / tuple, and "
        "the order) in every scalar container: Python float / int / complex with zero imaginary part, numpy float64 / "
        "complex128 / int64, 0-d numpy array (float, int, complex, read-only), 0-d view of the caller's autocorrelation "
        "buffer (buf[0:1].reshape(()), buf[0, ...]); array arguments as ndarray, read-only, strided view, views of one "
        "common buffer, list, tuple, integer dtype, Fortran order / interior view (CHOLESKY); aliasing arguments (Z the "
        "whole buffer T0 and T are views of, TC and TR the same object, B a row / column view of A); after EVERY call every "
        "argument (0-d arrays, list elements, underlying buffers) must be byte-for-byte unchanged, the solution of that call "
        "must satisfy the residual clause against the independently held matrix and against the matrix rebuilt from the "
        "passed objects, earlier solutions must be unchanged, a repeated LEVINSON call must return the identical result; the "
        "last call is compared with the exact model")


def _sp():
    import spectrum
    return spectrum


def _T(r, p):
    return sp_toeplitz(r[: p + 1], np.conj(r[: p + 1]))


def _form(v, form):
    """the object handed to the library for the canonical array `v`: the array itself, a list / tuple of Python numbers,
    a list mixing Python floats and complex numbers, nested lists (2-D), or an integer-dtype array (integer values)"""
    if form in (None, "ndarray"):
        return v
    a = np.asarray(v)
    if form == "list":
        return a.tolist()
    if form == "tuple":
        return tuple(a.tolist())
    if form == "mixedlist":
        return [float(z.real) if z.imag == 0 else complex(z) for z in a.astype(complex)]
    if form in ("int", "int32"):
        b = np.real(a).astype(np.int64 if form == "int" else np.int32)
        assert np.array_equal(b, a), "integer form of a non-integer array"
        return b
    raise ValueError(form)


def _scalar(v, form):
    if form in (None, "python"):
        return v
    if form == "npfloat":
        return np.float64(v)
    if form == "int":
        assert int(v) == v
        return int(v)
    if form == "npint":
        assert int(v) == v
        return np.int64(v)
    raise ValueError(form)


def _lev_call(p, order="__p__", allow=None):
    """LEVINSON on the entry form of the case"""
    sp = _sp()
    r = _form(p["r"], p.get("form"))
    o = p["order"] if isinstance(order, str) else order
    if o is not None and p.get("oform") == "int64":
        o = np.int64(o)
    al = p["allow"] if allow is None else allow
    if p.get("bare") and o is None and al is False:
        return sp.LEVINSON(r)
    if p.get("bare") and al is False:
        return sp.LEVINSON(r, o)
    return sp.LEVINSON(r, o, allow_singularity=al)


def impl_lev(p):
    A, P, k = _lev_call(p)
    return [np.asarray(A), np.array([P]), np.asarray(k)]


def model_lev(p):
    r = np.asarray(p["r"])
    order = len(r) - 1 if p["order"] is None else p["order"]
    return ("Q", proto.request("lev", "Q", [order, 1 if p["allow"] else 0], [[np.real(r[0])], r[1:]]))


def oracle_lev(p):
    r = np.asarray(p["r"])
    order = len(r) - 1 if p["order"] is None else p["order"]
    out = []
    if p["cls"] == "pd":
        try:
            A, P, k = _lev_call(p)
        except Exception as e:
            return ["LEVINSON raised %r on a positive-definite sequence (n=%d order=%s form=%s)" % (
                e, len(r), p["order"], p.get("form"))]
        A = np.asarray(A)
        k = np.asarray(k)
        if len(A) != order or len(k) != order:
            return ["LEVINSON returned %d coefficients for order %d" % (len(A), order)]
        T = _T(r, order)
        lhs = T @ np.concatenate(([1], A))
        rhs = np.zeros(order + 1, dtype=complex)
        rhs[0] = P
        tol = 1e-8 * abs(r[0])
        if not np.max(np.abs(lhs - rhs)) <= tol:
            out.append("T_p [1,a]^T != [P,0..0]^T: residual %.2e (n=%d order=%d %s)" % (
                np.max(np.abs(lhs - rhs)), len(r), order, "complex" if np.iscomplexobj(r) else "real"))
        if not (np.isreal(P) and P > 0):
            out.append("P = %r is not a positive real" % (P,))
        Pk = np.real(r[0]) * np.prod(1 - np.abs(k) ** 2)
        if not abs(P - Pk) <= 1e-9 * abs(r[0]):
            out.append("P != r0*prod(1-|k_i|^2): %r vs %r" % (P, Pk))
        if not np.all(np.abs(k) < 1):
            out.append("reflection coefficient of modulus >= 1 on PD input")
        if order >= 1:
            roots = np.roots(np.concatenate(([1], A)))
            if np.max(np.abs(roots)) >= 1:
                out.append("prediction polynomial not stable: max|root| = %.6f" % np.max(np.abs(roots)))
        # nesting
        q = p.get("q")
        if q is not None and 1 <= q <= order:
            A2, P2, k2 = _lev_call(p, order=q)
            if rel(np.asarray(k2).astype(complex), k[:q].astype(complex)) > 1e-9:
                out.append("order-%d reflection coefficients are not a prefix of the order-%d ones" % (q, order))
    elif p["cls"] == "singular":
        # exactly singular: a stage error is exactly 0.0 (boundary of the `<= 0` test); not positive definite -> raises
        try:
            res = _lev_call(p, allow=False)
        except ValueError:
            return []
        except Exception as e:
            return ["LEVINSON raised %r instead of ValueError on an exactly singular sequence" % (e,)]
        return ["LEVINSON did not raise on the exactly singular sequence r=%s order=%s (returned P=%r)" % (
            r, p["order"], res[1])]
    else:  # clearly indefinite
        raised = False
        try:
            _lev_call(p, allow=False)
        except ValueError:
            raised = True
        except Exception as e:
            return ["LEVINSON raised %r instead of ValueError on an indefinite sequence" % (e,)]
        if not raised:
            out.append("LEVINSON did not raise on a clearly indefinite sequence r=%s order=%s" % (np.round(r, 4), p["order"]))
        try:
            A, P, k = _lev_call(p, allow=True)
        except Exception as e:
            out.append("LEVINSON(allow_singularity=True) raised %r" % (e,))
            return out
        if p["allow"]:
            # singularity allowed: the recursion runs through; what it returns still solves the (indefinite) normal
            # equations and P is still the product formula (P may be negative, |k_i| may exceed 1)
            A = np.asarray(A)
            k = np.asarray(k)
            if len(A) != order or len(k) != order:
                return out + ["LEVINSON(allow_singularity=True) returned %d coefficients for order %d" % (len(A), order)]
            if not (np.all(np.isfinite(A)) and np.isfinite(P) and np.all(np.isfinite(k))):
                return out + ["LEVINSON(allow_singularity=True): non-finite output on a clearly indefinite sequence"]
            v = np.concatenate(([1], A))
            lhs = _T(r, order) @ v
            rhs = np.zeros(order + 1, dtype=complex)
            rhs[0] = P
            # the recursion divides by the stage errors: the accuracy is that of the worst-conditioned stage
            amp = 1.0 / min(1.0, min(abs(x) for x in _stage_errors(r[: order + 1])))
            scale = np.sum(np.abs(r[: order + 1])) * np.max(np.abs(v))
            res = np.max(np.abs(lhs - rhs))
            if not res <= 1e-11 * amp * scale:
                out.append("allow_singularity=True: T_p [1,a]^T != [P,0..0]^T: residual %.2e (scale %.2e, n=%d order=%d %s)" % (
                    res, scale, len(r), order, "complex" if np.iscomplexobj(r) else "real"))
            if np.imag(P) != 0:
                out.append("allow_singularity=True: P = %r is not real" % (P,))
            Pk = np.real(r[0]) * np.prod(1 - np.abs(k) ** 2)
            if not abs(P - Pk) <= 1e-9 * amp * max(abs(P), abs(Pk)):
                out.append("allow_singularity=True: P != r0*prod(1-|k_i|^2): %r vs %r" % (P, Pk))
    return out


def impl_herm(p):
    from spectrum.toeplitz import HERMTOEP
    f = p.get("form")
    return [np.asarray(HERMTOEP(_scalar(p["T0"], p.get("t0form")), _form(p["T"], f), _form(p["Z"], p.get("zform", f))))]


def model_herm(p):
    return ("Q", proto.request("hermtoep", "Q", [], [[p["T0"]], p["T"], p["Z"]]))


def oracle_herm(p):
    x = impl_herm(p)[0]
    r = np.concatenate(([p["T0"]], np.asarray(p["T"])))
    T = sp_toeplitz(r, np.conj(r))
    z = np.asarray(p["Z"])
    if x.shape != z.shape:
        return ["HERMTOEP: solution of shape %s for a right-hand side of shape %s" % (x.shape, z.shape)]
    res = np.max(np.abs(T @ x - z))
    if not res <= 1e-8 * max(np.max(np.abs(z)), 1e-300) * max(1.0, np.linalg.cond(T)):
        return ["HERMTOEP: T x != z, residual %.2e (n=%d, T/Z dtypes %s/%s, form %s)" % (
            res, len(r), np.asarray(p["T"]).dtype, z.dtype, p.get("form"))]
    return []


def impl_toep(p):
    from spectrum.toeplitz import TOEPLITZ
    f = p.get("form")
    return [np.asarray(TOEPLITZ(_scalar(p["T0"], p.get("t0form")), _form(p["TC"], f), _form(p["TR"], f),
                                _form(p["Z"], p.get("zform", f))))]


def model_toep(p):
    return ("Q", proto.request("toeplitz", "Q", [], [[p["T0"]], p["TC"], p["TR"], p["Z"]]))


def oracle_toep(p):
    try:
        x = impl_toep(p)[0]
    except Exception as e:
        return ["TOEPLITZ raised %r on a non-singular Toeplitz system (n=%d, T0=%r, %s, form %s)" % (
            e, len(np.asarray(p["Z"])), p["T0"], p.get("fam", "general"), p.get("form"))]
    T = sp_toeplitz(np.concatenate(([p["T0"]], np.asarray(p["TC"]))), np.concatenate(([p["T0"]], np.asarray(p["TR"]))))
    z = np.asarray(p["Z"])
    if x.shape != z.shape:
        return ["TOEPLITZ: solution of shape %s for a right-hand side of shape %s" % (x.shape, z.shape)]
    res = np.max(np.abs(T @ x - z))
    if not res <= 1e-8 * max(np.max(np.abs(z)), 1e-300) * max(1.0, np.linalg.cond(T)):
        return ["TOEPLITZ: T x != z, residual %.2e (n=%d, form %s)" % (res, len(z), p.get("form"))]
    return []


def oracle_chol(p):
    sp = _sp()
    A = np.asarray(p["A"])
    B = np.asarray(p["B"])
    Ain = _form(A, p.get("form"))
    Bin = _form(B, p.get("form"))
    if p.get("fortran"):
        Ain = np.asfortranarray(Ain)
        if B.ndim == 2:
            Bin = np.asfortranarray(Bin)
    out = []
    xs = []
    cond = max(1.0, np.linalg.cond(A))
    for m in ["scipy", "numpy", "numpy_solver", None]:
        try:
            # None: the method argument is omitted (documented default)
            X = np.asarray(sp.CHOLESKY(Ain, Bin) if m is None else sp.CHOLESKY(Ain, Bin, method=m))
        except Exception as e:
            out.append("CHOLESKY(method=%s) raised %r on a Hermitian positive-definite system" % (m, e))
            continue
        if X.shape != B.shape:
            out.append("CHOLESKY(method=%s): solution of shape %s for a right-hand side of shape %s" % (m, X.shape, B.shape))
            continue
        xs.append((m, X))
        res = np.max(np.abs(A @ X - B))
        if not res <= 1e-9 * max(np.max(np.abs(B)), 1e-300) * cond:
            out.append("CHOLESKY(method=%s): A x != B, residual %.2e (n=%d %s, B %s)" % (m, res, len(B), A.dtype, B.shape))
    # the back ends solve the same system: their solutions agree to the accuracy the conditioning allows
    for m, X in xs[1:]:
        m0, X0 = xs[0]
        d = np.max(np.abs(X - X0))
        if not d <= 1e-9 * max(np.max(np.abs(X0)), 1e-300) * cond:
            out.append("CHOLESKY: methods %s and %s disagree by %.2e (n=%d %s, B %s)" % (m0, m, d, len(B), A.dtype, B.shape))
    return out


def _key(p):
    h = 0
    extra = []
    for name in sorted(p):
        v = p[name]
        if isinstance(v, np.ndarray):
            h = zlib.crc32(("%s %s %s" % (name, v.dtype, v.shape)).encode() + np.ascontiguousarray(v).tobytes(), h)
        elif name not in ("order", "cls", "q"):
            extra.append("%s=%r" % (name, v))
    return "%s|%s|%d|%s" % (p.get("order"), p.get("cls"), h & 0xFFFFFFF, ",".join(extra))


def _forms(p):
    t = []
    for name in ("form", "zform", "t0form", "oform"):
        if p.get(name):
            t.append("%s:%s" % (name, p[name]))
    for name in ("bare", "fortran"):
        if p.get(name):
            t.append(name)
    if p.get("amp"):
        t.append("amp:" + p["amp"])
    return t


KINDS = {
    "lev": {"impl": impl_lev, "model": model_lev, "oracle": oracle_lev, "rtol": 1e-7, "atol": 1e-300, "key": _key,
            "strict_errors": True,
            "tags": lambda p: ["lev:" + p["cls"], "complex" if np.iscomplexobj(p["r"]) else "real",
                               "allow" if p["allow"] else "strict", "order:" + ("None" if p["order"] is None else "given")]
            + (["lev:" + p["fam"]] if p.get("fam") else []) + _forms(p),
            "nontrivial": lambda p: len(p["r"]) >= 2},
    "hermtoep": {"impl": impl_herm, "model": model_herm, "oracle": oracle_herm, "rtol": 1e-7, "atol": 1e-300, "key": _key,
                 "tags": lambda p: ["herm:T-" + ("complex" if np.iscomplexobj(p["T"]) else "real") + "/Z-" + ("complex" if np.iscomplexobj(p["Z"]) else "real")] + _forms(p)},
    "toeplitz": {"impl": impl_toep, "model": model_toep, "oracle": oracle_toep, "rtol": 1e-7, "atol": 1e-300, "key": _key,
                 "tags": lambda p: ["toep:" + ("complex" if np.iscomplexobj(p["TC"]) else "real")]
                 + (["toep:" + p["fam"]] if p.get("fam") else []) + _forms(p)},
    "cholesky": {"oracle": oracle_chol, "key": _key,
                 "tags": lambda p: ["chol:" + str(np.asarray(p["A"]).dtype), "chol:B%dd" % np.asarray(p["B"]).ndim,
                                    "chol:" + p.get("fam", "toeplitz")] + _forms(p)},
}


def _pd_seq(nrng, n, cplx):
    x, _ = gen_data(nrng, 3 * n + 2, cplx, kind=["noise", "int", "trend"][int(nrng.integers(0, 3))], exact=True)
    x = np.asarray(x, dtype=complex if cplx else float)
    N = len(x)
    r = np.array([np.sum(x[k:] * np.conj(x[: N - k])) / N for k in range(n)])
    if not cplx:
        r = np.real(r)
    return r


def _stage_errors(r):
    """P_j / r0 for all stages, in float (conditioning predicate only)"""
    r = np.asarray(r, dtype=complex)
    P = np.real(r[0])
    A = np.zeros(0, dtype=complex)
    out = []
    for k in range(len(r) - 1):
        save = r[k + 1] + np.sum(A * r[k:0:-1][: len(A)]) if len(A) else r[k + 1]
        t = -save / P
        P = P * (1 - abs(t) ** 2)
        out.append(P / np.real(r[0]))
        A = np.concatenate((A + t * np.conj(A[::-1]), [t]))
        if P == 0:
            break
    return out


# --------------------------------------------------------------------------------------------------------------------
# Positive-definite sequences that are NEARLY SINGULAR IN THE RELATIVE SENSE: final prediction-error ratio
# rho = P_p / r0 between K*eps (K a small family constant, below) and 1e-6 -- the zone between "a stage error within 1e-6 r0
# of zero" (where the ordinary families above stop) and the round-off level.  Positive definiteness is CERTIFIED, not
# assumed: the Levinson recursion is run in exact Gaussian rationals (fractions.Fraction) on the doubles handed to the
# library; all stage errors P_1..P_p > 0 <=> the leading (p+1)x(p+1) block is positive definite.  The Lean model in exact
# mode does the same computation independently (correspondence: it must return, and so must the implementation).

_EPS = 2.0 ** -52
_NS_MAX = 1e-6          # upper end of the class (rho); the ordinary families take over above it

# family: (Kdom, Cerr, Kstab)   -- all measured on the unchanged tree: every order 1..n-1 of about 13 000 sequences (n = 2..40,
#                                  rho/eps in 1..2^32, two thirds of them in 1..2^10), 10 000 - 20 000 (sequence, order) samples per family
#   Kdom : the class is rho >= Kdom*eps.  Below a few eps (a few tens for the less structured families) the double-precision
#          recursion itself loses the pivot: its computed P goes <= 0 and LEVINSON raises on an exactly positive-definite r
#          (the round-off limit of double precision; reported as a finding and excluded here -- # RULING (round-off limit of the double recursion within a few eps of singularity: float conditioning, outside the model; DESIGN 0.9)).
#          Largest rho/eps at which that was observed: const 3.65 (a sharp limit: 393 failures, all <= 3.65), ar1 none at all
#          (19 500 samples down to rho = eps), constphi 5.96, ar1phi 12.5, toner 26.9, tonec 37.6, rc 60.9, rcc 103.
#          Kdom = 8 x that for the two structured families (their failure limit is sharp, and a guard of the form
#          `P <= (order+1)*eps*r0` lives just above it), 30 x that for the others (heavier tails).
#   Cerr : |impl - exact| <= Cerr * eps / rho (relative to the largest entry of the output) for [1,a], P and k; 30 x the worst
#          observed errP*rho/eps, errk*rho/eps, errA*rho/eps of the family (0.88, 15.3, 4.87, 10.2, 41.4, 32, 128, 107 for ar1, ar1phi, const, constphi, toner, tonec, rc, rcc).
#   Kstab: the Schur-Cohn test on the returned doubles (exact rational step-down) is demanded for rho >= Kstab*eps; 30 x the
#          largest rho/eps at which the returned polynomial was observed to be (marginally) unstable although all |k_i| < 1
#          (none, 3.06, 12.8, 20.5, 4.29, 15.1, 21.2, 13 in the same order; const and ar1 also from a grid over n, 1-c and all orders).
_NS = {
    "const":    (32.0, 150.0, 400.0),
    "constphi": (200.0, 320.0, 640.0),
    "ar1":      (8.0, 32.0, 64.0),
    "ar1phi":   (400.0, 500.0, 128.0),
    "toner":    (800.0, 1300.0, 256.0),
    "tonec":    (1200.0, 1000.0, 512.0),
    "rc":       (2000.0, 4000.0, 640.0),
    "rcc":      (3200.0, 3500.0, 512.0),
}
_NS_RES = 400.0         # |T_p [1,a] - [P,0..]| <= _NS_RES * eps * r0 * sum|[1,a]|   (worst observed ratio 10.5)
_NS_PROD = 32.0         # |P - r0 prod(1-|k|^2)| <= _NS_PROD * eps * P * sum_j 1/(1-|k_j|^2)   (worst observed 1.01)
_NS_FAMS = list(_NS)

_exact_cache = {}


def _exact_lev(r, p):
    """exact Levinson recursion (Gaussian rationals) on the doubles r[0..p] -> (k, P, a): the reflection coefficients
    [(re, im)], stage errors [P_1..] and final predictor ([re], [im]) of the stages that have a positive stage error;
    fewer than p stages: the leading block of that order is NOT positive definite"""
    from fractions import Fraction as F
    r = np.asarray(r)
    ck = (r[: p + 1].astype(complex).tobytes(), p)
    if ck in _exact_cache:
        return _exact_cache[ck]
    re = [F(float(np.real(z))) for z in r[: p + 1]]
    im = [F(float(np.imag(z))) for z in r[: p + 1]]
    cplx = any(v != 0 for v in im)
    P = re[0]
    Ar, Ai, ks, Ps = [], [], [], []
    for k in range(p if P > 0 else 0):
        sr, si = re[k + 1], im[k + 1]
        for j in range(k):
            tr, ti = re[k - j], im[k - j]
            sr += Ar[j] * tr - Ai[j] * ti
            if cplx:
                si += Ar[j] * ti + Ai[j] * tr
        kr, ki = -sr / P, -si / P
        P = P * (1 - (kr * kr + ki * ki))
        if P <= 0:
            break
        ks.append((kr, ki))
        Ps.append(P)
        nAr = [Ar[j] + kr * Ar[k - 1 - j] + ki * Ai[k - 1 - j] for j in range(k)]
        nAi = [Ai[j] + ki * Ar[k - 1 - j] - kr * Ai[k - 1 - j] for j in range(k)] if cplx else [F(0)] * k
        Ar, Ai = nAr + [kr], nAi + [ki]
    if len(_exact_cache) > 4000:
        _exact_cache.clear()
    _exact_cache[ck] = (ks, Ps, (Ar, Ai))
    return _exact_cache[ck]


def _schur_cohn_exact(a):
    """exact step-down recursion on the doubles a_1..a_p: True iff 1 + a_1 z^-1 + ... has all its zeros inside the unit circle"""
    from fractions import Fraction as F
    Ar = [F(float(np.real(z))) for z in a]
    Ai = [F(float(np.imag(z))) for z in a]
    while Ar:
        kr, ki = Ar[-1], Ai[-1]
        d = 1 - (kr * kr + ki * ki)
        if d <= 0:
            return False
        m = len(Ar) - 1
        Ar, Ai = ([(Ar[j] - (kr * Ar[m - 1 - j] + ki * Ai[m - 1 - j])) / d for j in range(m)],
                  [(Ai[j] - (ki * Ar[m - 1 - j] - kr * Ai[m - 1 - j])) / d for j in range(m)])
    return True


def _ns_ratio(r, order):
    """(rho/eps, number of positive stages) of the exact recursion to `order`"""
    from fractions import Fraction as F
    ks, Ps, _ = _exact_lev(r, order)
    if not Ps:
        return 0.0, 0
    return float(Ps[-1] / F(float(np.real(r[0])))) / _EPS, len(Ps)


def _ns_domain(p, r, order):
    """None when (r, order) is in the near-singular class of family p['fam'], else the reason"""
    x, stages = _ns_ratio(r, order)
    if stages < order:
        return "not positive definite to order %d (exact recursion: stage error %d is <= 0)" % (order, stages + 1)
    if not _NS[p["fam"]][0] <= x <= _NS_MAX / _EPS:
        return "P/r0 = %.3g eps outside the class [%g eps, %g]" % (x, _NS[p["fam"]][0], _NS_MAX)
    return None


def _same(u, v, tol=1e-13):
    u = np.asarray(u, dtype=complex)
    v = np.asarray(v, dtype=complex)
    return u.shape == v.shape and (u.size == 0 or bool(np.max(np.abs(u - v)) <= tol * max(np.max(np.abs(v)), 1e-300)))


def oracle_levns(p):
    r = np.asarray(p["r"])
    n = len(r)
    order = n - 1 if p["order"] is None else p["order"]
    why = _ns_domain(p, r, order)
    if why:
        return ["harness: case outside the near-singular positive-definite class: " + why]
    Kdom, Cerr, Kstab = _NS[p["fam"]]
    x, _ = _ns_ratio(r, order)
    r0 = float(np.real(r[0]))
    what = "exact rational certificate: all %d stage errors > 0, P/r0 = %.3g = %.1f eps; n=%d order=%s %s fam=%s" % (
        order, x * _EPS, x, n, p["order"], "complex" if np.iscomplexobj(r) else "real", p["fam"])
    try:
        A, P, k = _lev_call(p, allow=False)
    except Exception as e:
        return ["LEVINSON raised %r on a positive-definite sequence (%s)" % (e, what)]
    A = np.asarray(A)
    k = np.asarray(k)
    if len(A) != order or len(k) != order:
        return ["LEVINSON returned %d coefficients for order %d" % (len(A), order)]
    out = []
    if not (np.isreal(P) and np.isfinite(P) and P > 0):
        return ["P = %r is not a positive real on a positive-definite sequence (%s)" % (P, what)]
    kc = k.astype(complex)
    m2 = kc.real ** 2 + kc.imag ** 2
    if not np.all(m2 < 1):
        return ["reflection coefficient of modulus >= 1 on a positive-definite sequence (%s)" % what]
    v = np.concatenate(([1], A))
    lhs = _T(r, order) @ v
    lhs[0] -= P
    # measured: at most 10.5 * eps * r0 * sum|[1,a]| on the unchanged code (backward-stable in this sense whatever rho is)
    if not np.max(np.abs(lhs)) <= _NS_RES * _EPS * r0 * np.sum(np.abs(v)):
        out.append("T_p [1,a]^T != [P,0..0]^T: residual %.2e > %.2e (%s)" % (
            np.max(np.abs(lhs)), _NS_RES * _EPS * r0 * np.sum(np.abs(v)), what))
    # the doubles k_i carry 1-|k_i|^2 to a relative accuracy eps/(1-|k_i|^2) only: measured at most 1.01 x eps x that sum
    Pk = r0 * np.prod(1 - m2)
    if not abs(P - Pk) <= _NS_PROD * _EPS * P * np.sum(1 / (1 - m2)):
        out.append("P != r0*prod(1-|k_i|^2): %r vs %r (%s)" % (P, Pk, what))
    if x >= Kstab and not _schur_cohn_exact(A):
        out.append("prediction polynomial not stable (exact Schur-Cohn test on the returned coefficients; %s)" % what)
    # the outcome depends on the data only: every lower order returns as well, with the SAME reflection coefficients (the
    # first q stages are the same floating-point operations: observed difference 0), a larger error, and the full-order
    # result does not depend on how the order is passed or on allow_singularity
    Pprev = None
    for q in range(order - 1, 0, -1):
        try:
            A2, P2, k2 = _lev_call(p, order=q, allow=False)
        except Exception as e:
            out.append("LEVINSON(order=%d) raised %r although order %d returns on the same sequence (%s)" % (q, e, order, what))
            break
        if not _same(k2, kc[:q]):
            out.append("order-%d reflection coefficients are not the first %d of the order-%d ones (max diff %.2e; %s)" % (
                q, q, order, np.max(np.abs(np.asarray(k2, dtype=complex) - kc[:q])), what))
            break
        if not (P2 >= (P if Pprev is None else Pprev) > 0):
            out.append("prediction error not non-increasing with the order: P_%d = %r < P_%d = %r (%s)" % (
                q, P2, q + 1, P if Pprev is None else Pprev, what))
            break
        Pprev = P2
    try:
        A3, P3, k3 = _lev_call(p, allow=True)
        if not (_same(A3, A) and _same([P3], [P]) and _same(k3, k)):
            out.append("allow_singularity=True changes the result on a positive-definite sequence (%s)" % what)
    except Exception as e:
        out.append("LEVINSON(allow_singularity=True) raised %r on a positive-definite sequence (%s)" % (e, what))
    if order == n - 1:
        for al in (False, True):
            try:
                A4, P4, k4 = _sp().LEVINSON(_form(r, p.get("form")), allow_singularity=al)
                if not (_same(A4, A) and _same([P4], [P]) and _same(k4, k)):
                    out.append("LEVINSON(r) and LEVINSON(r, len(r)-1) differ (%s)" % what)
            except Exception as e:
                out.append("LEVINSON(r, allow_singularity=%s) raised %r although order=%d returns (%s)" % (al, e, order, what))
    return out


def _shrink(iv, mv, s):
    """impl' = model + s*(impl - model): compare_vectors(impl', model, rtol) is then |impl - model| <= (rtol/s) * scale"""
    iv2 = []
    for a, b in zip(iv, mv):
        a = np.atleast_1d(np.asarray(a)).astype(complex).ravel()
        b = np.atleast_1d(np.asarray(b)).astype(complex).ravel()
        iv2.append(b + (a - b) * s if a.shape == b.shape and np.all(np.isfinite(a)) else a)
    return iv2, mv


def _post_ns(p, iv, mv):
    """correspondence with the exact model on a near-singular sequence: agreement to rtol max(1e-7, Cerr*eps/rho), rho = the
    exact P/r0 of the MODEL's reply (the difference is shrunk by the factor that maps this onto the kind's rtol 1e-7)"""
    if len(iv) != 3 or len(mv) != 3:
        return iv, mv
    rho = abs(np.asarray(mv[1]).ravel()[0]) / abs(np.real(np.asarray(p["r"]).ravel()[0]))
    # the predictor is compared as the polynomial [1, a_1..a_p] (its coefficients can all be << 1)
    iv = [np.concatenate(([1], np.asarray(iv[0]).ravel())), iv[1], iv[2]]
    mv = [np.concatenate(([1], np.asarray(mv[0]).ravel())), mv[1], mv[2]]
    return _shrink(iv, mv, min(1.0, 1e-7 * rho / (_NS[p["fam"]][1] * _EPS)))


KINDS["levns"] = {"impl": impl_lev, "model": model_lev, "oracle": oracle_levns, "post": _post_ns, "rtol": 1e-7, "atol": 1e-300,
                  "key": _key, "strict_errors": True,
                  "tags": lambda p: ["lev:near-singular", "levns:" + p["fam"], "levns:" + ("complex" if np.iscomplexobj(p["r"]) else "real"),
                                     "levns:" + p.get("zone", "?"), "levns:" + ("allow" if p["allow"] else "strict")] + _forms(p),
                  "nontrivial": lambda p: len(p["r"]) >= 2}

# the Hermitian solver has the same `P <= 0` guard (and the general one `P == 0`): the same certified near-singular
# positive-definite matrices as SYSTEMS T x = z (n <= 12).  Both solvers must return a finite x; |T x - z| is held to the
# existing (condition-scaled) tolerance and to the backward-error form  _NS_SOLRES * eps * 2 sum|r| * max|x|  (worst observed
# ratio 2.37 over 18 000 systems of this generator on the unchanged tree, none raising / non-finite); correspondence with
# the exact model to rtol max(1e-7, Csol*eps/rho), Csol = 30 x the worst observed err*rho/eps of the family
# (2.9, 4.3, 2.9, 3.3, 66, 9.4, 19.3, 23.2 for ar1, ar1phi, const, constphi, toner, tonec, rc, rcc).
_NS_SOLRES = 80.0
_NS_SOL = {"const": 100.0, "constphi": 120.0, "ar1": 100.0, "ar1phi": 150.0, "toner": 2000.0, "tonec": 300.0,
           "rc": 600.0, "rcc": 700.0}


def _oracle_solns(p, name):
    herm = name == "HERMTOEP"
    Tl = np.asarray(p["T"] if herm else p["TC"])
    r = np.concatenate(([p["T0"]], Tl))
    if not herm and not np.array_equal(np.asarray(p["TR"]), np.conj(Tl)):
        return ["harness: near-singular TOEPLITZ case whose first row is not the conjugate of its first column"]
    order = len(Tl)
    why = _ns_domain(p, r, order)
    if why:
        return ["harness: case outside the near-singular positive-definite class: " + why]
    x0, _ = _ns_ratio(r, order)
    what = "exact rational certificate: all %d stage errors > 0, P/r0 = %.3g = %.1f eps; n=%d %s fam=%s" % (
        order, x0 * _EPS, x0, order + 1, "complex" if np.iscomplexobj(r) else "real", p["fam"])
    try:
        x = (impl_herm if herm else impl_toep)(p)[0]
    except Exception as e:
        return ["%s raised %r on a Hermitian positive-definite Toeplitz system (%s)" % (name, e, what)]
    z = np.asarray(p["Z"])
    if x.shape != z.shape:
        return ["%s: solution of shape %s for a right-hand side of shape %s" % (name, x.shape, z.shape)]
    if not np.all(np.isfinite(x)):
        return ["%s: non-finite solution of a Hermitian positive-definite Toeplitz system (%s)" % (name, what)]
    out = list((oracle_herm if herm else oracle_toep)(p))
    T = sp_toeplitz(r, np.conj(r))
    res = np.max(np.abs(T @ x - z))
    tol = _NS_SOLRES * _EPS * 2 * np.sum(np.abs(r)) * np.max(np.abs(x))
    if not res <= tol:
        out.append("%s: T x != z, residual %.2e > %.2e (%s)" % (name, res, tol, what))
    return out


def _post_solns(p, iv, mv):
    Tl = np.asarray(p["T"] if "T" in p else p["TC"])
    x0, _ = _ns_ratio(np.concatenate(([p["T0"]], Tl)), len(Tl))
    return _shrink(iv, mv, min(1.0, 1e-7 * x0 / _NS_SOL[p["fam"]]))


def _soltags(p):
    return ["sol:near-singular", "solns:" + p["fam"], "solns:" + p.get("zone", "?")] + _forms(p)


KINDS["hermns"] = {"impl": impl_herm, "model": model_herm, "oracle": lambda p: _oracle_solns(p, "HERMTOEP"), "post": _post_solns,
                   "rtol": 1e-7, "atol": 1e-300, "key": _key, "strict_errors": True, "tags": _soltags}
KINDS["toepns"] = {"impl": impl_toep, "model": model_toep, "oracle": lambda p: _oracle_solns(p, "TOEPLITZ"), "post": _post_solns,
                   "rtol": 1e-7, "atol": 1e-300, "key": _key, "strict_errors": True, "tags": _soltags}


def _ns_phases(nrng, n, exact):
    if exact:
        u = [1, -1, 1j, -1j][int(nrng.integers(0, 4))]
        return np.array([u ** k for k in range(n)])         # integer powers of 1, -1, i, -i: exact
    return np.exp(1j * float(nrng.uniform(0.1, 3.0)) * np.arange(n))


def _ns_sequence(nrng, fam, n, x):
    """a member of family `fam` of length n whose final prediction-error ratio is about x*eps (what it really is, and whether
    the rounded sequence is positive definite at all, is decided afterwards by the exact recursion)"""
    t = x * _EPS
    if fam in ("const", "constphi"):
        # constant signal, modulated by an exact (1, -1, i, -i) or a rounded random unit phase, on a white floor 1-c below it:
        # r = [1, c, ..., c] * u^k
        c = 1.0 - t / (1 + 1.0 / max(1, n - 1))
        if fam == "const" and nrng.integers(0, 2):
            c = 1.0 - 2.0 ** np.floor(np.log2(1.0 - c))            # c = 1 - 2^-m
        r = np.array([1.0] + [c] * (n - 1), dtype=complex) * _ns_phases(nrng, n, fam == "const")
    elif fam in ("ar1", "ar1phi"):
        # first-order autoregression with its pole next to the unit circle: r_k = a^k u^k
        a = 1.0 - t / 2
        if fam == "ar1" and nrng.integers(0, 2):
            a = 1.0 - 2.0 ** np.floor(np.log2(1.0 - a))
        r = np.array([a ** k for k in range(n)], dtype=complex) * _ns_phases(nrng, n, fam == "ar1")
    elif fam in ("toner", "tonec"):
        # 1..3 strong, well separated real / complex tones + a tiny white floor
        q = int(nrng.integers(1, 4))
        while True:
            ws = nrng.uniform(0.4, 2.7, q)
            d = [abs(u - v) for i, u in enumerate(ws) for v in ws[:i]]
            if not d or min(d) >= 0.5:
                break
        amps = nrng.uniform(0.5, 1.0, q)
        kk = np.arange(n)
        r = sum(a * (np.exp(1j * w * kk) if fam == "tonec" else np.cos(w * kk)) for w, a in zip(ws, amps))
        r = np.asarray(r / np.real(r[0]), dtype=complex)
        r[0] = 1.0 + t
    elif fam in ("rc", "rcc"):
        # autocorrelation of a lattice filter with ONE reflection coefficient next to the unit circle at a random stage (the
        # others moderate, a sparse tail): inverse Levinson recursion in double precision
        ks = nrng.uniform(-0.5, 0.5, n - 1) * (np.exp(1j * nrng.uniform(0, 6.28, n - 1)) if fam == "rcc" else 1)
        ks[int(nrng.integers(0, n - 1)):][1::2] = 0
        j = int(nrng.integers(0, n - 1))
        others = np.prod(1 - np.abs(np.delete(ks, j)) ** 2)
        ks[j] = np.sqrt(max(0.0, 1 - min(0.75, t / others))) * (ks[j] / abs(ks[j]) if ks[j] != 0 else 1.0)
        r = np.zeros(n, dtype=complex)
        r[0] = 1.0
        A = np.zeros(0, dtype=complex)
        P = 1.0
        for j in range(n - 1):
            r[j + 1] = -ks[j] * P - (np.sum(A * r[j:0:-1][: len(A)]) if len(A) else 0)
            A = np.concatenate((A + ks[j] * np.conj(A[::-1]), [ks[j]]))
            P = P * (1 - abs(ks[j]) ** 2)
    else:
        raise ValueError(fam)
    if np.all(r.imag == 0):
        r = r.real.copy()
    return r


def _ns_draw(nrng, fam, nmin, nmax, i):
    """(r, order, zone) in the near-singular class of `fam`, or None.  Half of the draws aim at the lower edge of the class
    (rho within 8x of Kdom*eps: where a guard of the kind `P <= small * r0` would bite), half anywhere up to 1e-6."""
    Kdom = _NS[fam][0]
    n = int(nrng.integers(nmin, nmax + 1))
    edge = i % 2 == 0
    x = Kdom * 2.0 ** nrng.uniform(0, 3) if edge else 2.0 ** nrng.uniform(np.log2(Kdom), np.log2(_NS_MAX / _EPS))
    r = _ns_sequence(nrng, fam, n, x)
    from fractions import Fraction as F
    ks, Ps, _ = _exact_lev(r, n - 1)
    r0 = F(float(np.real(r[0])))
    ok = [q for q in range(1, len(Ps) + 1) if Kdom <= float(Ps[q - 1] / r0) / _EPS <= _NS_MAX / _EPS]
    if not ok:
        return None
    order = ok[-1] if (i // 2) % 2 == 0 else ok[int(nrng.integers(0, len(ok)))]
    xo = float(Ps[order - 1] / r0) / _EPS
    return r, order, ("rho<64eps" if xo < 64 else "rho<1e-12" if xo * _EPS < 1e-12 else "rho<1e-9" if xo * _EPS < 1e-9 else "rho<1e-6")


def _gen_nearsing(nrng, tier):
    thorough = tier != "quick"
    # a fixed core (every run): exactly representable members with a closed-form spectrum -- Toeplitz([1,c,..,c] u^k) has the
    # eigenvalues 1-c and 1+(n-1)c; r_k = a^k is the autocorrelation of a stable first-order recursion -- at the longest
    # length, all at orders where rho is within a few (order+1)*eps
    core = []
    for n, m in [(40, 47), (40, 46), (33, 47), (24, 44)]:
        for u in (1, 1j, -1):
            core.append(("const", np.array([1.0] + [1.0 - 2.0 ** -m] * (n - 1)) * np.array([u ** k for k in range(n)])))
    for n, m in [(40, 49), (40, 48), (24, 49), (12, 50), (12, 46)]:
        for u in (1, -1j):
            core.append(("ar1", np.array([(1.0 - 2.0 ** -m) ** k for k in range(n)]) * np.array([u ** k for k in range(n)])))
    for i, (fam, r) in enumerate(core):
        if np.all(np.imag(r) == 0):
            r = np.real(r).copy()
        n = len(r)
        for order in ([None, n - 2] if i % 3 == 0 else [n - 1] if i % 3 == 1 else [None]):
            o = n - 1 if order is None else order
            sc = [1.0, 2.0 ** -150, 2.0 ** 150, 2.0 ** -40][i % 4]
            p = {"r": r * sc, "order": order, "allow": bool(i % 2), "cls": "pd", "fam": fam}
            if _ns_domain(p, p["r"], o) is None:
                x, _ = _ns_ratio(p["r"], o)
                p["zone"] = "rho<64eps" if x < 64 else "rho<1e-12"
                if sc != 1.0:
                    p["amp"] = "2^%d" % round(np.log2(sc))
                yield ("levns", p)
    # random members of every family
    per = 8 if not thorough else 40
    plan = [(_NS_FAMS[i % len(_NS_FAMS)], 2, i // len(_NS_FAMS)) for i in range(per * len(_NS_FAMS))]
    # the two structured families reach down to a few eps: extra draws at the lower edge of the class on LONG sequences at
    # the largest order (where a guard that grows with the order / the length would bite first)
    plan += [(["ar1", "const"][i % 2], 24, 4 * (i // 2)) for i in range(2 * per)]
    for fam, nmin, j in plan:
        d = _ns_draw(nrng, fam, nmin, 40, j)
        if d is None:
            continue
        r, order, zone = d
        p = {"r": r, "order": None if (order == len(r) - 1 and j % 3 == 0) else order, "allow": bool((j // 2) % 2), "cls": "pd",
             "fam": fam, "zone": zone}
        if j % 3 == 1:
            # positive definiteness and rho do not depend on the amplitude (powers of two: the certificate stays exact)
            e = int(nrng.integers(-200, 201))
            p["r"] = r * 2.0 ** e
            p["amp"] = "2^%d" % e
        if j % 5 == 4:
            p["form"] = "list"
        yield ("levns", p)
    # the same matrices as systems for HERMTOEP and TOEPLITZ (n <= 12: the exact model of the solvers is slow beyond)
    per = 2 if not thorough else 12
    for i in range(per * len(_NS_FAMS)):
        fam = _NS_FAMS[i % len(_NS_FAMS)]
        j = i // len(_NS_FAMS)
        d = _ns_draw(nrng, fam, 2, 12, j)
        if d is None:
            continue
        r, order, zone = d
        r = r[: order + 1]
        zc = bool(nrng.integers(0, 2))
        Z = dyadic(nrng, order + 1) + (1j * dyadic(nrng, order + 1) if zc else 0)
        if not np.any(Z):
            Z[0] = 1.0
        s1 = _AMPS[int(nrng.integers(0, 4))] if j % 3 == 1 else 1.0
        s2 = _AMPS[int(nrng.integers(0, 4))] if j % 3 == 2 else 1.0
        p = {"T0": float(np.real(r[0])) * s1, "T": r[1:] * s1, "Z": Z * s2, "fam": fam, "zone": zone}
        if s1 != 1.0 or s2 != 1.0:
            p["amp"] = "2^%d/2^%d" % (round(np.log2(s1)), round(np.log2(s2)))
        yield ("hermns", p)
        q = {k: v for k, v in p.items() if k != "T"}
        q["TC"] = p["T"]
        q["TR"] = np.conj(p["T"])
        yield ("toepns", q)


def _gen_herm_general(nrng, tier):
    """Hermitian / real symmetric systems that are NOT positive definite (indefinite or negative definite, well conditioned,
    every leading minor away from zero) handed to the GENERAL solver with the first row exactly the conjugate of the first
    column and a real diagonal: admissible for TOEPLITZ (only P = 0 is singular there), not for HERMTOEP; plus the
    positive-definite case of the same shape"""
    fixed = [(1.0, np.array([2.0, 0.5])), (-3.0, np.array([1.0, 0.5, -0.25])), (0.5, np.array([1.0 + 0.5j, -0.25j])),
             (-2.0, np.array([0.5j, 0.25, 0.125 - 0.5j])), (2.0, np.array([0.5, -0.25, 0.125]))]
    cases = [(t0, tc, k) for k, (t0, tc) in enumerate(fixed)]
    for i in range(10 if tier == "quick" else 80):
        n = int(nrng.integers(1, 9))
        cplx = bool(i % 2)
        tc = dyadic(nrng, n, bits=4, scale=1) + (1j * dyadic(nrng, n, bits=4, scale=1) if cplx else 0)
        t0 = [-1.0, 0.5, 1.0, -2.5, 0.25][i % 5] * float(np.round(np.max(np.abs(tc)) * 8 + 1) / 8)
        cases.append((t0, tc, i))
    for t0, tc, i in cases:
        r = np.concatenate(([t0], tc))
        T = sp_toeplitz(r, np.conj(r))
        se = _stage_errors(r) if t0 != 0 else [0.0]
        if len(se) < len(tc) or min(abs(v) for v in se) < 1e-3 or np.linalg.cond(T) > 1e3:
            continue
        n = len(tc)
        Z = dyadic(nrng, n + 1) + (1j * dyadic(nrng, n + 1) if (i // 2) % 2 else 0)
        cls = "pd" if (t0 > 0 and min(np.real(se)) > 0) else "negdef" if (t0 < 0 and min(np.real(se)) > 0) else "indef"
        p = {"T0": t0, "TC": tc, "TR": np.conj(tc), "Z": Z, "fam": "hermitian-" + cls}
        if i % 3 == 2:
            p["form"] = "list"
        yield ("toeplitz", p)


KINDS["single"] = single.kind("C10")

def gen(rng, nrng, tier):
    yield from single.gen("C10", nrng, tier)
    n_lev = 160 if tier == "quick" else 2500
    maxn = 24 if tier == "quick" else 40
    for i in range(n_lev):
        cplx = bool(nrng.integers(0, 2))
        n = int(nrng.integers(2, maxn + 1))
        if i % 4 != 3:
            r = _pd_seq(nrng, n, cplx)
            se = _stage_errors(r)
            if min(se) < 1e-6:
                continue
            order = [None, n - 1, int(nrng.integers(1, n)), 1][i % 4]
            o = n - 1 if order is None else order
            if (i // 4) % 3 == 1:
                # the recursion is homogeneous in r: a positive-definite sequence stays one at any amplitude
                r = r * [2.0 ** -80, 2.0 ** -60, 2.0 ** 40, 2.0 ** -100, 2.0 ** 70][(i // 12) % 5]
            yield ("lev", {"r": r, "order": order, "allow": bool(i % 2), "cls": "pd", "q": int(nrng.integers(1, o + 1))})
        else:
            # clearly indefinite: perturb a PD sequence so that some stage error is <= -1e-3 r0
            for _ in range(20):
                r = _pd_seq(nrng, n, cplx).copy()
                j = int(nrng.integers(1, n))
                r[j] = r[j] + float(nrng.integers(1, 4)) * np.real(r[0])
                se = _stage_errors(r)
                if min(se) < -1e-3 and all(abs(v) > 1e-6 for v in se):
                    order = [None, n - 1][i % 2] if (i // 4) % 2 == 0 else None
                    # the order actually run must reach the bad stage
                    yield ("lev", {"r": r, "order": order, "allow": False, "cls": "indef"})
                    # "unless singularity is allowed": the same sequence with allow_singularity=True (compared with the
                    # model, and the oracle checks the normal equations / the product formula on what is returned)
                    yield ("lev", {"r": r, "order": order, "allow": True, "cls": "indef"})
                    # explicit order that reaches the first clearly negative stage but stops below n-1
                    bad = next(jj for jj, v in enumerate(se) if v < -1e-3) + 1
                    o2 = bad + (i // 8) % 2
                    if o2 < n - 1:
                        yield ("lev", {"r": r, "order": o2, "allow": False, "cls": "indef", "fam": "partial-order"})
                        yield ("lev", {"r": r, "order": o2, "allow": True, "cls": "indef", "fam": "partial-order"})
                    if (i // 4) % 5 == 2:
                        # indefiniteness does not depend on the amplitude either
                        sc = [2.0 ** -80, 2.0 ** 40, 2.0 ** -30, 2.0 ** 70][(i // 20) % 4]
                        yield ("lev", {"r": r * sc, "order": order, "allow": bool((i // 40) % 2), "cls": "indef",
                                       "amp": "2^%d" % round(np.log2(sc))})
                    break
    # sequences with an EXACTLY zero reflection coefficient at a stage >= 2 followed by non-zero ones: r = [1, a, a^2, ...]
    # has k_2 = 0 exactly for dyadic a (a*a is exact); further stages are made non-trivial by perturbing later lags
    for i in range(12 if tier == "quick" else 120):
        cplx = bool(i % 2)
        a = [0.75, -0.5, 0.25, 0.5][i % 4] * (1j if (cplx and i % 4 == 1) else 1)
        n = int(nrng.integers(4, 9))
        r = np.array([a ** k for k in range(n)], dtype=complex if cplx else float)
        if cplx:
            r = r.astype(complex)
        r[3:] = r[3:] + (np.array([0.1875, -0.0625, 0.03125, 0.0, 0.015625, 0.0][: n - 3]))
        se = _stage_errors(r)
        if min(se) > 1e-6:
            yield ("lev", {"r": r, "order": None, "allow": bool(i % 2), "cls": "pd", "q": int(nrng.integers(1, n))})
    n_sol = 60 if tier == "quick" else 800
    for i in range(n_sol):
        n = int(nrng.integers(1, 13 if tier == "quick" else 25))
        tcplx = bool(nrng.integers(0, 2))
        zcplx = bool(nrng.integers(0, 2))
        r = _pd_seq(nrng, n + 1, tcplx).copy()
        r[0] = r[0] * 1.25
        Z = dyadic(nrng, n + 1) + (1j * dyadic(nrng, n + 1) if zcplx else 0)
        yield ("hermtoep", {"T0": float(np.real(r[0])), "T": r[1:], "Z": Z})
        # general Toeplitz, diagonally dominant
        TC = dyadic(nrng, n, bits=4, scale=1) / (2 * n) + (1j * dyadic(nrng, n, bits=4, scale=1) / (2 * n) if tcplx else 0)
        TR = dyadic(nrng, n, bits=4, scale=1) / (2 * n) + (1j * dyadic(nrng, n, bits=4, scale=1) / (2 * n) if tcplx else 0)
        yield ("toeplitz", {"T0": 2.0, "TC": TC, "TR": TR, "Z": Z})
        A = sp_toeplitz(r, np.conj(r))
        yield ("cholesky", {"A": A, "B": Z})
        # special relations between the first column and the first row of a GENERAL Toeplitz system: row = conj(column)
        # with a complex diagonal (Hermitian off-diagonals only), row = column (symmetric), real column = row
        if i % 3 == 1:
            # well-conditioned general Toeplitz systems that are not positive definite: negative or complex diagonal
            T0n = [-2.0, -2.0 + 1.0j, 2.0j, -3.0][(i // 3) % 4]
            yield ("toeplitz", {"T0": T0n, "TC": TC, "TR": TR, "Z": Z})
        if i % 3 == 0:
            T0c = [2.0 + 1.0j, 2.0 - 0.5j, 2.0, 2.5j + 2.0][(i // 3) % 4]
            yield ("toeplitz", {"T0": T0c, "TC": TC, "TR": np.conj(TC), "Z": Z})
            yield ("toeplitz", {"T0": T0c, "TC": TC, "TR": TC.copy(), "Z": Z})
            yield ("toeplitz", {"T0": T0c, "TC": np.real(TC).astype(float), "TR": np.real(TC).astype(float), "Z": Z})
        if i % 2 == 1 and n <= 12:
            # (n <= 12: the exact model of the general solver on scaled Gaussian rationals takes seconds per case beyond)
            # the solvers are homogeneous: (matrix * s1) x = (z * s2) has the solution x * s2 / s1 at every amplitude (an
            # absolute threshold in a singularity guard, or in LAPACK glue, would show here); matrix and right-hand side
            # are scaled by the same or by different powers of two (exact: the model cases stay exact)
            s1 = _AMPS[(i // 2) % 4]
            s2 = _AMPS[((i // 2) + (i // 8)) % 4]
            tag = "2^%d/2^%d" % (round(np.log2(s1)), round(np.log2(s2)))
            yield ("hermtoep", {"T0": float(np.real(r[0])) * s1, "T": r[1:] * s1, "Z": Z * s2, "amp": tag})
            T0g = [2.0, -2.0 + 1.0j, 2.0 + 1.0j, -3.0][(i // 2) % 4]
            yield ("toeplitz", {"T0": T0g * s1, "TC": TC * s1, "TR": TR * s1, "Z": Z * s2, "amp": tag})
            yield ("cholesky", {"A": A * s1, "B": Z * s2, "amp": tag})
    yield from _gen_extra(nrng, tier, maxn)
    # certified near-singular positive-definite sequences / systems (after everything else: the other families keep their
    # random stream)
    yield from _gen_nearsing(nrng, tier)
    yield from _gen_herm_general(nrng, tier)
    # the argument protocol (containers of the scalar arguments, re-use of the argument objects, aliasing arguments)
    yield from _gen_args(nrng, tier)


_AMPS = [2.0 ** -80, 2.0 ** -30, 2.0 ** 40, 2.0 ** 70]


def _int_pd_seq(nrng, n):
    """integer-valued positive-definite sequence: N times the biased autocorrelation of small-integer data"""
    while True:
        x = nrng.integers(-4, 5, 3 * n + 2).astype(float)
        N = len(x)
        r = np.array([np.sum(x[k:] * x[: N - k]) for k in range(n)])
        r[0] += 1.0
        if min(_stage_errors(r) or [1.0]) > 1e-6:
            return r


def _gen_extra(nrng, tier, maxn):
    """case families added after the audit of the check (placed after the original ones: these keep their random stream)"""
    thorough = tier != "quick"
    # ---- positive definiteness is a property of the leading (order+1) lags: PD leading block, a later lag makes the whole
    # sequence indefinite, the order stops before the bad stage (pd oracle + correspondence); the order that reaches the
    # bad stage, explicit and below n-1 where possible, is an indefinite case
    fixed = [(np.array([1, .5, 2, .1]), 1, 2), (np.array([1, .5, .3, 5]), 2, 3), (np.array([2, .5 + .5j, .25j, 9]), 2, 3)]
    for i, (r, o, bad) in enumerate(fixed):
        for allow in (False, True):
            yield ("lev", {"r": r, "order": o, "allow": allow, "cls": "pd", "q": 1 + (i + allow) % o, "fam": "leading-pd"})
            yield ("lev", {"r": r, "order": bad, "allow": allow, "cls": "indef", "fam": "partial-order"})
    for i in range(24 if not thorough else 300):
        cplx = bool(i % 2)
        n = int(nrng.integers(4, maxn + 1))
        r = _pd_seq(nrng, n, cplx).copy()
        j = int(nrng.integers(2, n))                       # first lag that is spoilt: stages 1..j-1 are untouched
        r[j] = r[j] + float(nrng.integers(1, 4)) * np.real(r[0]) * [1, -1, 1j, -1j][(i // 2) % 4 if cplx else (i // 2) % 2]
        se = _stage_errors(r)
        if min(se[: j - 1]) < 1e-6 or not se[j - 1] < -1e-3:
            continue
        o = int(nrng.integers(1, j))
        if (i // 8) % 3 == 0:
            o = j - 1                                      # the last order that is still positive definite
        sc = 1.0 if (i // 3) % 4 else _AMPS[(i // 12) % 4]
        yield ("lev", {"r": r * sc, "order": o, "allow": bool((i // 2) % 2), "cls": "pd", "q": int(nrng.integers(1, o + 1)),
                       "fam": "leading-pd"})
        if all(abs(v) > 1e-6 for v in se[:j]):
            yield ("lev", {"r": r * sc, "order": j, "allow": bool((i // 4) % 2), "cls": "indef", "fam": "partial-order"})
    # ---- boundary of the singularity test: a stage error that is EXACTLY 0.0 (the sequence is singular, not positive
    # definite): ValueError from the code and from the model.  (With allow_singularity=True the result is NaN: not asserted.)
    sing = [np.array([1., 1, 1]), np.array([2., -2, 2]), np.array([1, 1j, -1]), np.array([1., 0, -1, 0]),
            np.array([4., 2, -2, -4]), np.array([1., -1]), np.array([3, 3j]), np.array([4., 2, 1, .5, 3.25]),
            np.array([2, 1j, -.5, -.25j, .125 + 1.5j])]
    for i, r in enumerate(sing):
        assert _stage_errors(r)[-1] == 0.0 and all(v > 0 for v in _stage_errors(r)[:-1]), r
        reach = len(_stage_errors(r))
        for jv in range(6 if not thorough else 12):
            order = [None, reach, len(r) - 1][jv % 3]
            sc = [1.0, 2.0 ** -80, 1.0, 2.0 ** 40, 2.0 ** -30, 2.0 ** 70][(jv // 3 + i) % 6] if jv >= 3 else 1.0
            p = {"r": r * sc, "order": order, "allow": False, "cls": "singular"}
            if sc == 1.0 and jv >= 3:
                f = ["list", "tuple", "int"][(jv + i) % 3]
                if f == "int" and (np.iscomplexobj(r) or not np.array_equal(r, np.round(r))):
                    f = "list"
                p["form"] = f
            if jv % 4 == 1:
                p["bare"] = True
            yield ("lev", p)
    # ---- exactly zero FIRST reflection coefficient (r1 = 0), followed by zero and non-zero ones
    zfirst = [np.array([1, 0, .5, 0, .125]), np.array([2., 0, 0, 0]), np.array([1, 0, .5j, .25, 0]), np.array([1, 0, 0, .5]),
              np.array([1, 0, 0, 0, -.5j, .25]), np.array([4., 0, -1, 2, 0, .5])]
    for i, r in enumerate(zfirst):
        assert min(_stage_errors(r)) > 1e-6
        for jv in range(4 if not thorough else 8):
            order = [None, 2, len(r) - 1, 1][jv % 4]
            o = len(r) - 1 if order is None else order
            sc = 1.0 if jv < 4 else _AMPS[(jv + i) % 4]
            yield ("lev", {"r": r * sc, "order": order, "allow": bool((jv + i) % 2), "cls": "pd", "q": min(2, o),
                           "fam": "zero-k1"})
    # ---- entry forms: lists, tuples, lists mixing floats and complex numbers, integer dtypes, omitted optional arguments,
    # numpy-integer order, order 0
    docs = [np.array([4., 2., 1.5]), np.array([4., 2 + 1j, 1.5]), np.array([4., 2, 1]), np.array([3., -2 + 0.5j, .7 - 1j])]
    k = 0
    for r in docs:
        cplx = np.iscomplexobj(r)
        integer = (not cplx) and np.array_equal(r, np.round(r))
        for f in ["list", "tuple", "mixedlist" if cplx else None, "int" if integer else None, "int32" if integer else None, "ndarray"]:
            if f is None:
                continue
            for order, bare, oform in [(None, True, None), (None, False, None), (2, True, None), (1, False, "int64"),
                                       (2, False, "int64"), (0, False, None), (0, True, "int64")]:
                k += 1
                p = {"r": r, "order": order, "allow": bool(k % 2) and not bare, "cls": "pd", "form": f, "fam": "forms"}
                if order:
                    p["q"] = 1 + k % order
                if bare:
                    p["bare"] = True
                if oform:
                    p["oform"] = oform
                yield ("lev", p)
    for i in range(18 if not thorough else 150):
        cplx = bool(i % 2)
        n = int(nrng.integers(2, 13))
        integer = (i % 3 == 0) and not cplx
        r = _int_pd_seq(nrng, n) if integer else _pd_seq(nrng, n, cplx)
        if min(_stage_errors(r)) < 1e-6:
            continue
        f = (["int", "int32", "list"] if integer else ["list", "tuple", "mixedlist" if cplx else "list"])[(i // 2) % 3]
        order = [None, n - 1, int(nrng.integers(0, n)), 0][(i // 6) % 4]
        o = n - 1 if order is None else order
        p = {"r": r, "order": order, "allow": bool((i // 2) % 2), "cls": "pd", "form": f, "fam": "forms"}
        if o >= 1:
            p["q"] = int(nrng.integers(1, o + 1))
        if (i // 4) % 2 and order is not None:
            p["oform"] = "int64"
        if (i // 3) % 3 == 0 and not p["allow"]:
            p["bare"] = True
        yield ("lev", p)
    # order 0 on ordinary arrays as well (the zeroth-order predictor: a = [], P = r0)
    for i in range(4 if not thorough else 20):
        r = _pd_seq(nrng, int(nrng.integers(1, 8)), bool(i % 2))
        if r[0] > 0:
            yield ("lev", {"r": r * (1.0 if i % 4 < 2 else _AMPS[(i // 4) % 4]), "order": 0, "allow": bool((i // 2) % 2),
                           "cls": "pd", "fam": "order0"})
    # solver entry forms.  HERMTOEP / LEVINSON keep a real zero-lag value: the stage error P is then real, and numpy's
    # lexicographic complex `<=` coincides with the model's `re P <= 0` (no case with Re P = 0, Im P != 0 exists)
    for i in range(24 if not thorough else 240):
        n = int(nrng.integers(1, 9))
        cplx = bool(i % 2)
        zcplx = bool((i // 2) % 2)
        integer = (i % 3 == 0) and not cplx
        if integer:
            r = _int_pd_seq(nrng, n + 1)
            r[0] += 1.0
            Z = nrng.integers(-9, 10, n + 1).astype(float)
            TC = nrng.integers(-3, 4, n).astype(float)
            TR = nrng.integers(-3, 4, n).astype(float)
            T0 = float(np.sum(np.abs(TC)) + np.sum(np.abs(TR)) + 1 + int(nrng.integers(0, 3))) * [1, -1][(i // 3) % 2]
            f = ["int", "int32", "list", "tuple"][(i // 3) % 4]
            t0f = ["int", "npint", "python", "npfloat"][(i // 6) % 4]
            zf = f
        else:
            r = _pd_seq(nrng, n + 1, cplx).copy()
            r[0] = r[0] * 1.25
            Z = dyadic(nrng, n + 1) + (1j * dyadic(nrng, n + 1) if zcplx else 0)
            TC = dyadic(nrng, n, bits=4, scale=1) / (2 * n) + (1j * dyadic(nrng, n, bits=4, scale=1) / (2 * n) if cplx else 0)
            TR = dyadic(nrng, n, bits=4, scale=1) / (2 * n) + (1j * dyadic(nrng, n, bits=4, scale=1) / (2 * n) if cplx else 0)
            T0 = [2.0, -2.0, 2.5, 3.0][(i // 4) % 4]
            f = ["list", "tuple", "ndarray", "mixedlist" if cplx else "list"][(i // 2) % 4]
            t0f = ["npfloat", "python"][(i // 8) % 2]
            zf = [f, "ndarray", "list"][(i // 4) % 3]
        if not (r[0] > 0 and min(_stage_errors(r) or [1.0]) > 1e-6):
            continue
        yield ("hermtoep", {"T0": float(np.real(r[0])), "T": r[1:], "Z": Z, "form": f, "zform": zf, "t0form": t0f})
        yield ("toeplitz", {"T0": T0, "TC": TC, "TR": TR, "Z": Z, "form": f, "zform": zf, "t0form": t0f})
        if not integer:
            # real first column with a complex first row, and the converse (the result is complex either way)
            TCr = dyadic(nrng, n, bits=4, scale=1) / (2 * n)
            TRc = TCr[::-1] + 1j * dyadic(nrng, n, bits=4, scale=1) / (2 * n)
            a, b = (TCr, TRc) if (i // 2) % 2 else (TRc, TCr)
            yield ("toeplitz", {"T0": [2.0, -2.0 + 1.0j][(i // 4) % 2], "TC": a, "TR": b, "Z": Z,
                                "form": ["ndarray", "list"][(i // 8) % 2]})
    # ---- CHOLESKY on Hermitian positive-definite matrices that are NOT Toeplitz (no persymmetry: A[i,j] != A[n-1-j,n-1-i]),
    # A = G^H G + I; n = 1 included; right-hand sides with several columns; Fortran order; integer arrays; nested lists
    for i in range(24 if not thorough else 200):
        n = [1, 3, 6, 2, 4, int(nrng.integers(5, 13))][i % 6]
        cplx = bool((i // 6) % 2)
        integer = (i % 4 == 3) and not cplx
        if integer:
            G = nrng.integers(-3, 4, (n + 1, n)).astype(float)
            B = nrng.integers(-9, 10, (n, 3) if (i // 2) % 2 else n).astype(float)
        else:
            G = dyadic(nrng, (n + 1) * n, bits=4, scale=1).reshape(n + 1, n)
            if cplx:
                G = G + 1j * dyadic(nrng, (n + 1) * n, bits=4, scale=1).reshape(n + 1, n)
            shape = (n, 3) if (i // 2) % 2 else (n,)
            B = dyadic(nrng, int(np.prod(shape))).reshape(shape)
            if (i // 3) % 2:
                B = B + 1j * dyadic(nrng, int(np.prod(shape))).reshape(shape)
        A = np.conj(G.T) @ G + np.eye(n)
        p = {"A": A, "B": B, "fam": "gram"}
        if integer:
            p["form"] = ["int", "list", "int32"][(i // 4) % 3]
        elif (i // 4) % 3 == 1:
            p["form"] = "list"
        elif (i // 4) % 3 == 2:
            p["fortran"] = True
        if (i // 12) % 3 == 2 and not integer:
            s1 = _AMPS[(i // 2) % 4]
            s2 = _AMPS[(i // 5) % 4]
            p["A"] = A * s1
            p["B"] = B * s2
            p["amp"] = "2^%d/2^%d" % (round(np.log2(s1)), round(np.log2(s2)))
        yield ("cholesky", p)


# --------------------------------------------------------------------------------------------------------------------
# ARGUMENT PROTOCOL (kinds lev-args / herm-args / toep-args / chol-args).  The solvers are called the way a caller who keeps
# his system around calls them: the argument OBJECTS are built once and then used for several calls (a second right-hand
# side, the same solve repeated, the solution fed back as the next right-hand side as the inverse iteration of
# spectrum.eigen.MINEIGVAL does, a lower order on the same autocorrelation sequence).  Generated dimensions:
#   * the CONTAINER of every scalar argument (T0, the zero lag r[0] inside a list, the order): Python float / int / complex
#     with zero imaginary part, numpy.float64 / complex128 / int64, a 0-dimensional numpy array (float, int, complex,
#     read-only), a 0-d VIEW of the caller's autocorrelation buffer (buf[0:1].reshape(()), buf[0, ...]);
#   * the container of every array argument: ndarray, read-only ndarray, views of one common buffer (T0, T, Z all looking
#     into the same memory), list, tuple, integer dtype, Fortran order / interior view of a larger matrix (CHOLESKY);
#   * arguments that ALIAS each other: Z the caller's whole autocorrelation buffer of which T0 and T are views (solution
#     e_0), TC and TR the same object, B a row / column view of A;
#   * the history: second right-hand side / repeated solve / fed-back solution / lower order in between.
# Demanded after EVERY call: (1) every argument object -- 0-d arrays, list elements and the whole underlying buffer
# included -- is byte-for-byte what it was before the first call (type, dtype, shape, bytes); (2) the solution of THAT call
# satisfies the residual clause of the property (same tolerances as the one-shot kinds: nothing new to calibrate) against
# the matrix the harness holds independently; (3) the solutions handed out earlier are unchanged.  At the end the residual
# is evaluated once more with the matrix rebuilt from the very objects that were passed.  The last call's result is what is
# compared with the exact Lean model (lev / hermtoep / toeplitz requests on the canonical values).

_T0C_H = ["pyfloat", "npfloat", "0d", "0d-slice", "0d-elem", "npcomplex", "0d-complex", "0d-readonly", "pyint", "0d-int", "npint"]
_T0C_T = _T0C_H + ["pycomplex"]


def _snap(o):
    """byte-exact record of an argument object"""
    if isinstance(o, np.ndarray):
        return ("ndarray", o.dtype.str, o.shape, o.strides, o.tobytes(), bool(o.flags.writeable))
    if isinstance(o, (list, tuple)):
        return (type(o).__name__, tuple(_snap(e) for e in o))
    return (type(o).__name__, repr(o))


def _describe(o):
    if isinstance(o, np.ndarray):
        return "%d-d %s array %s" % (o.ndim, o.dtype, np.array2string(o, precision=6, threshold=6))
    if isinstance(o, (list, tuple)):
        return "%s [%s%s]" % (type(o).__name__, ", ".join(_describe(e) for e in o[:3]), ", ..." if len(o) > 3 else "")
    return "%s %r" % (type(o).__name__, o)


class _Args:
    """named argument objects + their snapshot"""

    def __init__(self):
        self.objs = {}
        self.before = {}
        self.shown = {}

    def add(self, name, o):
        self.objs[name] = o
        self.before[name] = _snap(o)
        self.shown[name] = _describe(o)
        return o

    def changed(self, fn, when):
        out = []
        for name, o in self.objs.items():
            if _snap(o) != self.before[name]:
                out.append("%s changed its argument %s in place (%s): it was the %s, it is now the %s" % (
                    fn, name, when, self.shown[name], _describe(o)))
                self.before[name] = _snap(o)        # reported once
                self.shown[name] = _describe(o)
        return out


def _is_int(v):
    return np.all(np.imag(v) == 0) and np.array_equal(np.real(v), np.round(np.real(v)))


def _scalar_obj(v, cont, buf=None):
    """the scalar v in the container `cont` (buf: the caller's buffer whose element 0 holds v, for the view containers)"""
    if cont == "pyfloat":
        return float(np.real(v)) if np.imag(v) == 0 else complex(v)
    if cont == "pycomplex":
        return complex(v)
    if cont == "npfloat":
        return np.float64(np.real(v)) if np.imag(v) == 0 else np.complex128(v)
    if cont == "npcomplex":
        return np.complex128(v)
    if cont in ("pyint", "npint", "0d-int"):
        assert _is_int(v), "integer container of a non-integer scalar"
        i = int(np.real(v))
        return i if cont == "pyint" else np.int64(i) if cont == "npint" else np.array(i)
    if cont in ("0d", "0d-readonly"):
        a = np.array(float(np.real(v)) if np.imag(v) == 0 else complex(v))
        if cont == "0d-readonly":
            a.setflags(write=False)
        return a
    if cont == "0d-complex":
        return np.array(complex(v))
    if cont == "0d-slice":
        assert buf[0] == v
        return buf[0:1].reshape(())
    if cont == "0d-elem":
        assert buf[0] == v
        return buf[0, ...]
    raise ValueError(cont)


def _array_obj(v, cont):
    v = np.asarray(v)
    if cont == "ndarray":
        return v.copy()
    if cont == "readonly":
        a = v.copy()
        a.setflags(write=False)
        return a
    if cont == "strided":
        big = np.full(2 * v.size + 1, 7.25e3, dtype=v.dtype)
        big[1::2] = v
        return big[1::2]
    if cont in ("list", "tuple", "int", "int32", "mixedlist"):
        return _form(v, cont)
    raise ValueError(cont)


def _res_tol(T, z):
    # the residual clause of the one-shot kinds (oracle_herm / oracle_toep)
    return 1e-8 * max(np.max(np.abs(z)), 1e-300) * max(1.0, np.linalg.cond(T))


def _sol_args(p, herm, check=True):
    """HERMTOEP / TOEPLITZ under the argument protocol -> (failures, last solution)"""
    from spectrum.toeplitz import HERMTOEP, TOEPLITZ
    name = "HERMTOEP" if herm else "TOEPLITZ"
    T0 = p["T0"]
    TC = np.asarray(p["T"] if herm else p["TC"])
    TR = np.conj(TC) if herm else np.asarray(p["TR"])
    Z = np.asarray(p["Z"])
    n = len(TC)
    Tm = sp_toeplitz(np.concatenate(([T0], TC)), np.concatenate(([T0], TR)))     # held by the harness, never passed
    ar = _Args()
    tc, zc, t0c = p.get("tc", "ndarray"), p.get("zc", "ndarray"), p["t0c"]
    buf = None
    if tc == "bufview" or t0c in ("0d-slice", "0d-elem") or zc == "alias":
        # the caller's autocorrelation buffer [T0, first column (, first row)]: T0 / TC / TR / Z are views of it
        cplx = np.iscomplexobj(TC) or np.iscomplexobj(TR) or np.imag(T0) != 0
        buf = ar.add("(the buffer the arguments are views of)",
                     np.concatenate(([T0], TC) if herm else ([T0], TC, TR)).astype(complex if cplx else float))
    t0o = ar.add("T0", _scalar_obj(T0, t0c, buf))
    if tc == "bufview" or (buf is not None and zc == "alias"):
        tco = ar.add("T" if herm else "TC", buf[1:n + 1])
        tro = None if herm else ar.add("TR", buf[n + 1:])
    elif tc == "same":
        assert not herm and np.array_equal(TC, TR)
        tco = tro = ar.add("TC (and TR: the same object)", TC.copy())
    else:
        tco = ar.add("T" if herm else "TC", _array_obj(TC, tc))
        tro = None if herm else ar.add("TR", _array_obj(TR, tc))

    def zobj(z, label):
        if zc == "alias":
            assert np.array_equal(z, buf[:n + 1]), "alias: Z must be the first column"
            return ar.add(label, buf[:n + 1])
        return ar.add(label, _array_obj(z, zc))
    pattern = p["pattern"]
    zo = zobj(Z, "Z")
    if pattern == "repeat":
        steps = [(zo, Z), (zo, Z)]
    else:
        Z1 = np.asarray(p["Z1"])
        steps = [(ar.add("Z (first right-hand side)", _array_obj(Z1, "ndarray" if zc == "alias" else zc)), Z1)]
        if pattern == "feedback":
            steps.append(("feedback", None))
        steps.append((zo, Z))
    out = []
    sols = []
    x = None
    for j, (zj, zv) in enumerate(steps):
        when = "call %d of %d with the same T0 / T objects, T0 given as %s, pattern %s" % (j + 1, len(steps), t0c, pattern)
        if isinstance(zj, str):
            # inverse iteration: the normalised previous solution is the next right-hand side
            zv = np.array(x) / max(np.max(np.abs(x)), 1e-300)
            zj = ar.add("Z (the previous solution, normalised)", zv.copy())
        try:
            x = HERMTOEP(t0o, tco, zj) if herm else TOEPLITZ(t0o, tco, tro, zj)
        except Exception as e:
            if not check:
                raise
            return out + ["%s raised %r on an admissible system (n=%d; %s)" % (name, e, n + 1, when)] + ar.changed(name, when), None
        x = np.asarray(x)
        if not check:
            continue
        if x.shape != zv.shape:
            return out + ["%s: solution of shape %s for a right-hand side of shape %s (%s)" % (name, x.shape, zv.shape, when)], None
        res = np.max(np.abs(Tm @ x - zv))
        if not res <= _res_tol(Tm, zv):
            out.append("%s: T x != z, residual %.2e > %.2e (n=%d, tc=%s zc=%s; %s)" % (name, res, _res_tol(Tm, zv), n + 1, tc, zc, when))
        out += ar.changed(name, when)
        for i, (xo, xc) in enumerate(sols):
            if not np.array_equal(xo, xc, equal_nan=True):
                out.append("%s: the solution returned by call %d was overwritten by call %d" % (name, i + 1, j + 1))
        sols.append((x, x.copy()))
    if check and x is not None:
        # the residual of the last solve from the very objects that were passed
        t0v = complex(np.asarray(t0o))
        T2 = sp_toeplitz(np.concatenate(([t0v], np.asarray(tco, dtype=complex))),
                         np.concatenate(([t0v], np.conj(np.asarray(tco, dtype=complex)) if herm else np.asarray(tro, dtype=complex))))
        z2 = np.asarray(steps[-1][0], dtype=complex)
        res = np.max(np.abs(T2 @ x - z2))
        if not res <= _res_tol(Tm, Z):
            out.append("%s: residual %.2e > %.2e when the matrix is rebuilt from the objects that were passed (T0 is now the %s)" % (
                name, res, _res_tol(Tm, Z), _describe(t0o)))
    return out, x


def _lev_args(p, check=True):
    """LEVINSON under the argument protocol: order p, a lower order, order p again on the same objects"""
    sp = _sp()
    r = np.asarray(p["r"])
    n = len(r)
    order = n - 1 if p["order"] is None else p["order"]
    ar = _Args()
    rc, r0c, oc = p["rc"], p.get("r0c"), p.get("oc", "pyint")
    if rc in ("list", "tuple"):
        # the zero lag inside the sequence in its own container
        side = ar.add("(the array r[0] is a view of)", np.array([np.real(r[0]), 7.25e3])) if r0c in ("0d-slice", "0d-elem") else None
        lst = _form(r, "list")
        if r0c:
            lst[0] = _scalar_obj(np.real(r[0]), r0c, side)
        ro = ar.add("r", lst if rc == "list" else tuple(lst))
    else:
        ro = ar.add("r", _array_obj(r, rc))
        if rc == "strided":
            ar.add("(the buffer r is a view of)", ro.base)

    def oobj(o):
        return None if o is None else ar.add("order", _scalar_obj(o, oc))
    q = p.get("q")
    calls = [("order=%s" % p["order"], p["order"])]
    if q is not None and 1 <= q <= order:
        calls.append(("order=%d" % q, q))
    calls.append(("order=%s again" % p["order"], p["order"]))
    out = []
    results = []
    for j, (label, o) in enumerate(calls):
        when = "call %d of %d (%s) on the same r object, r given as %s%s" % (j + 1, len(calls), label, rc, "/r[0] as " + r0c if r0c else "")
        try:
            A, P, k = sp.LEVINSON(ro, oobj(o), allow_singularity=p["allow"])
        except Exception as e:
            if not check:
                raise
            return out + ["LEVINSON raised %r on a positive-definite sequence (n=%d; %s)" % (e, n, when)] + ar.changed("LEVINSON", when), None
        A, k = np.asarray(A), np.asarray(k)
        if check:
            out += ar.changed("LEVINSON", when)
            oo = n - 1 if o is None else o
            if len(A) != oo or len(k) != oo:
                return out + ["LEVINSON returned %d coefficients for order %d (%s)" % (len(A), oo, when)], None
            for rr, what in ((r, "the sequence held by the harness"), (np.asarray(ro, dtype=complex), "the object that was passed")):
                lhs = _T(rr, oo) @ np.concatenate(([1], A))
                lhs[0] -= P
                if not np.max(np.abs(lhs)) <= 1e-8 * abs(r[0]):
                    out.append("T_p [1,a]^T != [P,0..0]^T: residual %.2e with %s (n=%d; %s)" % (np.max(np.abs(lhs)), what, n, when))
            if not (np.isreal(P) and P > 0 and np.all(np.abs(k) < 1)):
                out.append("P = %r / max|k| = %r on a positive-definite sequence (%s)" % (P, np.max(np.abs(k)) if len(k) else 0, when))
            for i, (res0, cop0) in enumerate(results):
                if not all(np.array_equal(np.asarray(u), v) for u, v in zip(res0, cop0)):
                    out.append("LEVINSON: the result of call %d was changed by call %d (%s)" % (i + 1, j + 1, when))
        results.append(((A, P, k), (A.copy(), np.array(P, copy=True), k.copy())))
    if check:
        first, last = results[0][1], results[-1][1]
        if not all(np.array_equal(u, v) for u, v in zip(first, last)):
            out.append("LEVINSON called again with the same objects does not return the same result: P %r then %r (r as %s/%s)" % (
                first[1], last[1], rc, r0c))
        if len(calls) == 3 and rel(results[1][1][2].astype(complex), last[2][:q].astype(complex)) > 1e-9:
            out.append("order-%d reflection coefficients are not a prefix of the order-%d ones (same r object)" % (q, order))
    A, P, k = results[-1][1]
    return out, [A, np.array([P]).ravel(), k]


def _chol_args(p):
    sp = _sp()
    A = np.asarray(p["A"])
    B = np.asarray(p["B"])
    B1 = np.asarray(p["B1"])
    n = len(A)
    ac, bc = p["ac"], p["bc"]
    ar = _Args()
    if ac == "interior":
        big = ar.add("(the matrix A is a view of)", np.full((n + 2, n + 3), 7.25e3, dtype=A.dtype))
        big[1:n + 1, 2:n + 2] = A
        ar.before["(the matrix A is a view of)"] = _snap(big)
        Ao = ar.add("A", big[1:n + 1, 2:n + 2])
    elif ac == "fortran":
        Ao = ar.add("A", np.asfortranarray(A.copy()))
    elif ac in ("list", "int", "int32"):
        Ao = ar.add("A", _form(A, ac))
    else:
        Ao = ar.add("A", _array_obj(A, ac))
    if bc in ("rowview", "colview"):
        Bo = ar.add("B", Ao[0] if bc == "rowview" else Ao[:, 0])
        assert np.array_equal(Bo, B)
        B1o = ar.add("B (first right-hand side)", B1.copy())
    else:
        Bo = ar.add("B", _array_obj(B, bc))
        B1o = ar.add("B (first right-hand side)", _array_obj(B1, bc))
    cond = max(1.0, np.linalg.cond(A))
    out = []
    for m in ["scipy", "numpy", "numpy_solver", None]:
        for j, (bo, bv) in enumerate([(B1o, B1), (Bo, B), (Bo, B)] if p["pattern"] == "repeat" else [(B1o, B1), (Bo, B)]):
            when = "method=%s, call %d with the same A object, A as %s, B as %s" % (m, j + 1, ac, bc)
            try:
                X = np.asarray(sp.CHOLESKY(Ao, bo) if m is None else sp.CHOLESKY(Ao, bo, method=m))
            except Exception as e:
                out.append("CHOLESKY raised %r on a Hermitian positive-definite system (n=%d; %s)" % (e, n, when))
                out += ar.changed("CHOLESKY", when)
                break
            out += ar.changed("CHOLESKY", when)
            if X.shape != bv.shape:
                out.append("CHOLESKY: solution of shape %s for a right-hand side of shape %s (%s)" % (X.shape, bv.shape, when))
                break
            res = np.max(np.abs(A @ X - bv))
            # the residual clause of the one-shot kind (oracle_chol)
            if not res <= 1e-9 * max(np.max(np.abs(bv)), 1e-300) * cond:
                out.append("CHOLESKY: A x != B, residual %.2e (n=%d %s; %s)" % (res, n, A.dtype, when))
            res2 = np.max(np.abs(np.asarray(Ao, dtype=complex) @ X - np.asarray(bo, dtype=complex)))
            if not res2 <= 1e-9 * max(np.max(np.abs(bv)), 1e-300) * cond:
                out.append("CHOLESKY: residual %.2e with the objects that were passed (n=%d; %s)" % (res2, n, when))
    return out


def _argtags(p):
    t = []
    for name in ("t0c", "r0c", "oc", "rc", "tc", "zc", "ac", "bc", "pattern"):
        if p.get(name):
            t.append("args:%s=%s" % (name, p[name]))
    return t


KINDS["herm-args"] = {"impl": lambda p: [_sol_args(p, True, check=False)[1]], "model": model_herm,
                      "oracle": lambda p: _sol_args(p, True)[0], "rtol": 1e-7, "atol": 1e-300, "key": _key,
                      "tags": lambda p: ["args:HERMTOEP"] + _argtags(p)}
KINDS["toep-args"] = {"impl": lambda p: [_sol_args(p, False, check=False)[1]], "model": model_toep,
                      "oracle": lambda p: _sol_args(p, False)[0], "rtol": 1e-7, "atol": 1e-300, "key": _key,
                      "tags": lambda p: ["args:TOEPLITZ"] + _argtags(p)}
KINDS["lev-args"] = {"impl": lambda p: _lev_args(p, check=False)[1], "model": model_lev,
                     "oracle": lambda p: _lev_args(p)[0], "rtol": 1e-7, "atol": 1e-300, "key": _key, "strict_errors": True,
                     "tags": lambda p: ["args:LEVINSON"] + _argtags(p), "nontrivial": lambda p: len(p["r"]) >= 2}
KINDS["chol-args"] = {"oracle": _chol_args, "key": _key, "tags": lambda p: ["args:CHOLESKY"] + _argtags(p)}


def _gen_args(nrng, tier):
    thorough = tier != "quick"
    reps = 1 if not thorough else 6
    patterns = ["second-rhs", "repeat", "feedback"]
    k = 0
    # ---- HERMTOEP / TOEPLITZ: every container of T0 x every history, the array containers and the aliasing rotating
    for rep in range(reps):
        for ci, t0c in enumerate(_T0C_T):
            for pi, pattern in enumerate(patterns):
                k += 1
                integer = t0c in ("pyint", "0d-int", "npint")
                cplx = bool((k + rep) % 2) and not integer
                zcplx = bool((k // 2) % 2) and not integer
                n = int(nrng.integers(1, 9))
                tcs = (["int", "list", "int32"] if integer else ["ndarray", "bufview", "readonly", "list", "strided", "tuple"])
                tc = tcs[(k + ci) % len(tcs)]
                if t0c in ("0d-slice", "0d-elem"):
                    tc = "bufview"
                zcs = ["int", "list"] if integer else ["ndarray", "list", "readonly", "alias", "strided"]
                zc = zcs[(k // 3 + pi) % len(zcs)]
                if tc == "bufview" and (k + pi) % 2:
                    zc = "alias"                       # Z is the caller's whole buffer, T0 / T views of it
                if zc == "alias" and tc != "bufview":
                    zc = "ndarray"
                if integer:
                    r = _int_pd_seq(nrng, n + 1)
                    r[0] += 1.0
                    Z = nrng.integers(-9, 10, n + 1).astype(float)
                    Z1 = nrng.integers(-9, 10, n + 1).astype(float)
                    TC = nrng.integers(-3, 4, n).astype(float)
                    TR = nrng.integers(-3, 4, n).astype(float)
                    T0g = float(np.sum(np.abs(TC)) + np.sum(np.abs(TR)) + 1 + int(nrng.integers(0, 3))) * [1, -1][k % 2]
                else:
                    r = _pd_seq(nrng, n + 1, cplx).copy()
                    r[0] = r[0] * 1.25
                    Z = dyadic(nrng, n + 1) + (1j * dyadic(nrng, n + 1) if zcplx else 0)
                    Z1 = dyadic(nrng, n + 1) + (1j * dyadic(nrng, n + 1) if zcplx else 0)
                    TC = dyadic(nrng, n, bits=4, scale=1) / (2 * n) + (1j * dyadic(nrng, n, bits=4, scale=1) / (2 * n) if cplx else 0)
                    TR = dyadic(nrng, n, bits=4, scale=1) / (2 * n) + (1j * dyadic(nrng, n, bits=4, scale=1) / (2 * n) if cplx else 0)
                    T0g = [2.0, -2.0, 2.5, 3.0][(k // 4) % 4]
                    if t0c in ("pycomplex", "npcomplex", "0d-complex") and k % 2:
                        T0g = [2.0 + 1.0j, -2.0 + 1.0j, 2.5j + 2.0][(k // 2) % 3]    # the general solver: complex diagonal
                if not np.any(Z1):
                    Z1[0] = 1.0
                if not np.any(Z):
                    Z[0] = 1.0
                if r[0] > 0 and min(_stage_errors(r) or [1.0]) > 1e-6 and t0c != "pycomplex":
                    # (a Python complex T0 for HERMTOEP is outside the statement: see ASSUMPTIONS)
                    p = {"T0": float(np.real(r[0])), "T": r[1:], "Z": Z, "Z1": Z1, "t0c": t0c, "tc": tc, "zc": zc, "pattern": pattern}
                    if zc == "alias":
                        p["Z"] = np.concatenate(([p["T0"]], r[1:]))
                    yield ("herm-args", p)
                tct = tc
                if (k // 5) % 4 == 3 and not integer and t0c not in ("0d-slice", "0d-elem"):
                    tct = "same"                       # symmetric system: first row and first column the same object
                    TR = TC.copy()
                    zc = "ndarray" if zc == "alias" else zc
                p = {"T0": T0g, "TC": TC, "TR": TR, "Z": Z, "Z1": Z1, "t0c": t0c, "tc": tct, "zc": zc, "pattern": pattern}
                if zc == "alias":
                    p["Z"] = np.concatenate(([T0g], TC))
                yield ("toep-args", p)
    # ---- LEVINSON: r as array / read-only / strided view / int / list / tuple; inside lists the zero lag in every container;
    # the order in every integer container
    r0cs = ["pyfloat", "pycomplex", "npfloat", "0d", "0d-slice", "0d-elem", "0d-readonly", "npcomplex", "0d-complex", "pyint", "0d-int", "npint"]
    rcs = ["ndarray", "readonly", "strided", "int"]
    for i in range((36 if not thorough else 240)):
        cplx = bool(i % 2)
        n = int(nrng.integers(2, 13))
        rc = [rcs[(i // 3) % 4], "list", "tuple"][i % 3]
        r0c = r0cs[(i // 3) % len(r0cs)] if rc in ("list", "tuple") else None
        integer = rc == "int" or r0c in ("pyint", "0d-int", "npint")
        if integer:
            cplx = False
        r = _int_pd_seq(nrng, n) if integer else _pd_seq(nrng, n, cplx)
        if min(_stage_errors(r)) < 1e-6:
            continue
        order = [None, n - 1, int(nrng.integers(1, n))][(i // 2) % 3]
        o = n - 1 if order is None else order
        yield ("lev-args", {"r": r, "order": order, "allow": bool((i // 4) % 2), "cls": "pd", "q": int(nrng.integers(1, o + 1)) if i % 5 else None,
                            "rc": rc, "r0c": r0c, "oc": ["pyint", "npint", "0d-int"][(i // 2) % 3]})
    # ---- CHOLESKY: the same A object for two right-hand sides and the four back ends; B a row / column view of A
    acs = ["ndarray", "readonly", "fortran", "interior", "list", "int"]
    bcs = ["ndarray", "readonly", "rowview", "colview", "list", "strided"]
    for i in range(18 if not thorough else 120):
        n = [1, 3, 6, 2, 4, int(nrng.integers(5, 13))][i % 6]
        ac = acs[(i // 2) % 6]
        bc = bcs[i % 6]
        integer = ac == "int"
        cplx = bool((i // 3) % 2) and not integer
        if integer:
            G = nrng.integers(-3, 4, (n + 1, n)).astype(float)
            bc = ["int", "list", "ndarray"][i % 3]
        else:
            G = dyadic(nrng, (n + 1) * n, bits=4, scale=1).reshape(n + 1, n)
            if cplx:
                G = G + 1j * dyadic(nrng, (n + 1) * n, bits=4, scale=1).reshape(n + 1, n)
        A = np.conj(G.T) @ G + np.eye(n)
        if bc in ("rowview", "colview") and ac in ("list", "int"):
            bc = "ndarray"
        if integer:
            B = nrng.integers(-9, 10, n).astype(float)
            B1 = nrng.integers(-9, 10, n).astype(float)
        else:
            B = dyadic(nrng, n) + (1j * dyadic(nrng, n) if (i // 2) % 2 else 0)
            B1 = dyadic(nrng, n) + (1j * dyadic(nrng, n) if (i // 2) % 2 else 0)
        if bc == "rowview":
            B = A[0].copy()
        elif bc == "colview":
            B = A[:, 0].copy()
        yield ("chol-args", {"A": A, "B": B, "B1": B1, "ac": ac, "bc": bc, "pattern": ["second-rhs", "repeat"][(i // 6) % 2]})
