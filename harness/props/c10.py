"""C10  Levinson and the Toeplitz/Hermitian solvers solve their equations."""
import zlib

import numpy as np

import single
from scipy.linalg import toeplitz as sp_toeplitz

import proto
from common import gen_data, rel, dyadic

TRUSTED_BASE = [
    "CHOLESKY is glue around LAPACK (numpy.linalg.cholesky/solve, scipy.linalg.cholesky/cho_solve): a parameter, "
    "checked by the residual oracle (all three back ends and the default one, which must also agree with each other)",
    "exact mode: the model runs the recursions in exact Gaussian rationals on the doubles the implementation receives; "
    "agreement required to rtol 1e-7 (conditioning predicate: every stage error P_j >= 1e-6 r0)",
]
PARTIAL = ["CHOLESKY: LAPACK glue, no model: residual oracle on every back end plus mutual agreement of the back ends (stability of the prediction polynomial is proved for every order: "
           "C10.levinson_stable, Schur-Cohn by the elementary |A| >= |B| invariant)"]
ASSUMPTIONS = ["positive-definite sequences are biased autocorrelations of random data; 'clearly indefinite' ones have a "
               "stage error <= -1e-3 r0 (and no stage error within 1e-6 r0 of zero); exactly singular ones have a stage "
               "error that is 0.0 in double precision (small integer / dyadic lags)",
               "positive definiteness is quantified per order: a sequence whose leading (order+1) lags are positive "
               "definite is in the PD class for that order whatever the later lags are",
               "HERMTOEP / LEVINSON: the zero-lag value is real (the stage error P is real), so numpy's lexicographic "
               "complex `<=` and the model's `re P <= 0` coincide; TOEPLITZ: exact zero test on both sides",
               "entry forms: numpy arrays (float64, complex128, integer dtypes), lists, tuples, nested lists, numpy "
               "scalars for T0 / order; a Python complex T0 for HERMTOEP is outside the statement"]
RULE = ("PD sequences = biased autocorrelation of random dyadic data (real/complex), length 2..40, all orders (incl. 0), "
        "amplitudes 2^-100..2^70, leading-block-PD sequences with an indefinite tail, exactly zero first / later "
        "reflection coefficients; clearly indefinite sequences (strict and allow_singularity=True, full and partial "
        "orders) and exactly singular ones; random diagonally dominant Toeplitz / Hermitian-PD systems and "
        "right-hand sides at independent amplitudes 2^-80..2^70; Cholesky on Toeplitz and on G^H G + I matrices "
        "(n = 1..24, 1-D and (n,3) right-hand sides, C / Fortran order); every entry form; non-trivial = order >= 1")


def _sp():
    import spectrum
    return spectrum


def _T(r, p):
    return sp_toeplitz(r[: p + 1], np.conj(r[: p + 1]))


def _form(v, form):
    """the object handed to the library for the canonical array `v`: the array itself, a list / tuple of Python numbers,
    a list mixing Python floats and complex numbers, nested lists (2-D), or an integer-dtype array (integer values)"""
    if form in (None, "ndarray"):
        return v
    a = np.asarray(v)
    if form == "list":
        return a.tolist()
    if form == "tuple":
        return tuple(a.tolist())
    if form == "mixedlist":
        return [float(z.real) if z.imag == 0 else complex(z) for z in a.astype(complex)]
    if form in ("int", "int32"):
        b = np.real(a).astype(np.int64 if form == "int" else np.int32)
        assert np.array_equal(b, a), "integer form of a non-integer array"
        return b
    raise ValueError(form)


def _scalar(v, form):
    if form in (None, "python"):
        return v
    if form == "npfloat":
        return np.float64(v)
    if form == "int":
        assert int(v) == v
        return int(v)
    if form == "npint":
        assert int(v) == v
        return np.int64(v)
    raise ValueError(form)


def _lev_call(p, order="__p__", allow=None):
    """LEVINSON on the entry form of the case"""
    sp = _sp()
    r = _form(p["r"], p.get("form"))
    o = p["order"] if isinstance(order, str) else order
    if o is not None and p.get("oform") == "int64":
        o = np.int64(o)
    al = p["allow"] if allow is None else allow
    if p.get("bare") and o is None and al is False:
        return sp.LEVINSON(r)
    if p.get("bare") and al is False:
        return sp.LEVINSON(r, o)
    return sp.LEVINSON(r, o, allow_singularity=al)


def impl_lev(p):
    A, P, k = _lev_call(p)
    return [np.asarray(A), np.array([P]), np.asarray(k)]


def model_lev(p):
    r = np.asarray(p["r"])
    order = len(r) - 1 if p["order"] is None else p["order"]
    return ("Q", proto.request("lev", "Q", [order, 1 if p["allow"] else 0], [[np.real(r[0])], r[1:]]))


def oracle_lev(p):
    r = np.asarray(p["r"])
    order = len(r) - 1 if p["order"] is None else p["order"]
    out = []
    if p["cls"] == "pd":
        try:
            A, P, k = _lev_call(p)
        except Exception as e:
            return ["LEVINSON raised %r on a positive-definite sequence (n=%d order=%s form=%s)" % (
                e, len(r), p["order"], p.get("form"))]
        A = np.asarray(A)
        k = np.asarray(k)
        if len(A) != order or len(k) != order:
            return ["LEVINSON returned %d coefficients for order %d" % (len(A), order)]
        T = _T(r, order)
        lhs = T @ np.concatenate(([1], A))
        rhs = np.zeros(order + 1, dtype=complex)
        rhs[0] = P
        tol = 1e-8 * abs(r[0])
        if not np.max(np.abs(lhs - rhs)) <= tol:
            out.append("T_p [1,a]^T != [P,0..0]^T: residual %.2e (n=%d order=%d %s)" % (
                np.max(np.abs(lhs - rhs)), len(r), order, "complex" if np.iscomplexobj(r) else "real"))
        if not (np.isreal(P) and P > 0):
            out.append("P = %r is not a positive real" % (P,))
        Pk = np.real(r[0]) * np.prod(1 - np.abs(k) ** 2)
        if not abs(P - Pk) <= 1e-9 * abs(r[0]):
            out.append("P != r0*prod(1-|k_i|^2): %r vs %r" % (P, Pk))
        if not np.all(np.abs(k) < 1):
            out.append("reflection coefficient of modulus >= 1 on PD input")
        if order >= 1:
            roots = np.roots(np.concatenate(([1], A)))
            if np.max(np.abs(roots)) >= 1:
                out.append("prediction polynomial not stable: max|root| = %.6f" % np.max(np.abs(roots)))
        # nesting
        q = p.get("q")
        if q is not None and 1 <= q <= order:
            A2, P2, k2 = _lev_call(p, order=q)
            if rel(np.asarray(k2).astype(complex), k[:q].astype(complex)) > 1e-9:
                out.append("order-%d reflection coefficients are not a prefix of the order-%d ones" % (q, order))
    elif p["cls"] == "singular":
        # exactly singular: a stage error is exactly 0.0 (boundary of the `<= 0` test); not positive definite -> raises
        try:
            res = _lev_call(p, allow=False)
        except ValueError:
            return []
        except Exception as e:
            return ["LEVINSON raised %r instead of ValueError on an exactly singular sequence" % (e,)]
        return ["LEVINSON did not raise on the exactly singular sequence r=%s order=%s (returned P=%r)" % (
            r, p["order"], res[1])]
    else:  # clearly indefinite
        raised = False
        try:
            _lev_call(p, allow=False)
        except ValueError:
            raised = True
        except Exception as e:
            return ["LEVINSON raised %r instead of ValueError on an indefinite sequence" % (e,)]
        if not raised:
            out.append("LEVINSON did not raise on a clearly indefinite sequence r=%s order=%s" % (np.round(r, 4), p["order"]))
        try:
            A, P, k = _lev_call(p, allow=True)
        except Exception as e:
            out.append("LEVINSON(allow_singularity=True) raised %r" % (e,))
            return out
        if p["allow"]:
            # singularity allowed: the recursion runs through; what it returns still solves the (indefinite) normal
            # equations and P is still the product formula (P may be negative, |k_i| may exceed 1)
            A = np.asarray(A)
            k = np.asarray(k)
            if len(A) != order or len(k) != order:
                return out + ["LEVINSON(allow_singularity=True) returned %d coefficients for order %d" % (len(A), order)]
            if not (np.all(np.isfinite(A)) and np.isfinite(P) and np.all(np.isfinite(k))):
                return out + ["LEVINSON(allow_singularity=True): non-finite output on a clearly indefinite sequence"]
            v = np.concatenate(([1], A))
            lhs = _T(r, order) @ v
            rhs = np.zeros(order + 1, dtype=complex)
            rhs[0] = P
            # the recursion divides by the stage errors: the accuracy is that of the worst-conditioned stage
            amp = 1.0 / min(1.0, min(abs(x) for x in _stage_errors(r[: order + 1])))
            scale = np.sum(np.abs(r[: order + 1])) * np.max(np.abs(v))
            res = np.max(np.abs(lhs - rhs))
            if not res <= 1e-11 * amp * scale:
                out.append("allow_singularity=True: T_p [1,a]^T != [P,0..0]^T: residual %.2e (scale %.2e, n=%d order=%d %s)" % (
                    res, scale, len(r), order, "complex" if np.iscomplexobj(r) else "real"))
            if np.imag(P) != 0:
                out.append("allow_singularity=True: P = %r is not real" % (P,))
            Pk = np.real(r[0]) * np.prod(1 - np.abs(k) ** 2)
            if not abs(P - Pk) <= 1e-9 * amp * max(abs(P), abs(Pk)):
                out.append("allow_singularity=True: P != r0*prod(1-|k_i|^2): %r vs %r" % (P, Pk))
    return out


def impl_herm(p):
    from spectrum.toeplitz import HERMTOEP
    f = p.get("form")
    return [np.asarray(HERMTOEP(_scalar(p["T0"], p.get("t0form")), _form(p["T"], f), _form(p["Z"], p.get("zform", f))))]


def model_herm(p):
    return ("Q", proto.request("hermtoep", "Q", [], [[p["T0"]], p["T"], p["Z"]]))


def oracle_herm(p):
    x = impl_herm(p)[0]
    r = np.concatenate(([p["T0"]], np.asarray(p["T"])))
    T = sp_toeplitz(r, np.conj(r))
    z = np.asarray(p["Z"])
    if x.shape != z.shape:
        return ["HERMTOEP: solution of shape %s for a right-hand side of shape %s" % (x.shape, z.shape)]
    res = np.max(np.abs(T @ x - z))
    if not res <= 1e-8 * max(np.max(np.abs(z)), 1e-300) * max(1.0, np.linalg.cond(T)):
        return ["HERMTOEP: T x != z, residual %.2e (n=%d, T/Z dtypes %s/%s, form %s)" % (
            res, len(r), np.asarray(p["T"]).dtype, z.dtype, p.get("form"))]
    return []


def impl_toep(p):
    from spectrum.toeplitz import TOEPLITZ
    f = p.get("form")
    return [np.asarray(TOEPLITZ(_scalar(p["T0"], p.get("t0form")), _form(p["TC"], f), _form(p["TR"], f),
                                _form(p["Z"], p.get("zform", f))))]


def model_toep(p):
    return ("Q", proto.request("toeplitz", "Q", [], [[p["T0"]], p["TC"], p["TR"], p["Z"]]))


def oracle_toep(p):
    x = impl_toep(p)[0]
    T = sp_toeplitz(np.concatenate(([p["T0"]], np.asarray(p["TC"]))), np.concatenate(([p["T0"]], np.asarray(p["TR"]))))
    z = np.asarray(p["Z"])
    if x.shape != z.shape:
        return ["TOEPLITZ: solution of shape %s for a right-hand side of shape %s" % (x.shape, z.shape)]
    res = np.max(np.abs(T @ x - z))
    if not res <= 1e-8 * max(np.max(np.abs(z)), 1e-300) * max(1.0, np.linalg.cond(T)):
        return ["TOEPLITZ: T x != z, residual %.2e (n=%d, form %s)" % (res, len(z), p.get("form"))]
    return []


def oracle_chol(p):
    sp = _sp()
    A = np.asarray(p["A"])
    B = np.asarray(p["B"])
    Ain = _form(A, p.get("form"))
    Bin = _form(B, p.get("form"))
    if p.get("fortran"):
        Ain = np.asfortranarray(Ain)
        if B.ndim == 2:
            Bin = np.asfortranarray(Bin)
    out = []
    xs = []
    cond = max(1.0, np.linalg.cond(A))
    for m in ["scipy", "numpy", "numpy_solver", None]:
        try:
            # None: the method argument is omitted (documented default)
            X = np.asarray(sp.CHOLESKY(Ain, Bin) if m is None else sp.CHOLESKY(Ain, Bin, method=m))
        except Exception as e:
            out.append("CHOLESKY(method=%s) raised %r on a Hermitian positive-definite system" % (m, e))
            continue
        if X.shape != B.shape:
            out.append("CHOLESKY(method=%s): solution of shape %s for a right-hand side of shape %s" % (m, X.shape, B.shape))
            continue
        xs.append((m, X))
        res = np.max(np.abs(A @ X - B))
        if not res <= 1e-9 * max(np.max(np.abs(B)), 1e-300) * cond:
            out.append("CHOLESKY(method=%s): A x != B, residual %.2e (n=%d %s, B %s)" % (m, res, len(B), A.dtype, B.shape))
    # the back ends solve the same system: their solutions agree to the accuracy the conditioning allows
    for m, X in xs[1:]:
        m0, X0 = xs[0]
        d = np.max(np.abs(X - X0))
        if not d <= 1e-9 * max(np.max(np.abs(X0)), 1e-300) * cond:
            out.append("CHOLESKY: methods %s and %s disagree by %.2e (n=%d %s, B %s)" % (m0, m, d, len(B), A.dtype, B.shape))
    return out


def _key(p):
    h = 0
    extra = []
    for name in sorted(p):
        v = p[name]
        if isinstance(v, np.ndarray):
            h = zlib.crc32(("%s %s %s" % (name, v.dtype, v.shape)).encode() + np.ascontiguousarray(v).tobytes(), h)
        elif name not in ("order", "cls", "q"):
            extra.append("%s=%r" % (name, v))
    return "%s|%s|%d|%s" % (p.get("order"), p.get("cls"), h & 0xFFFFFFF, ",".join(extra))


def _forms(p):
    t = []
    for name in ("form", "zform", "t0form", "oform"):
        if p.get(name):
            t.append("%s:%s" % (name, p[name]))
    for name in ("bare", "fortran"):
        if p.get(name):
            t.append(name)
    if p.get("amp"):
        t.append("amp:" + p["amp"])
    return t


KINDS = {
    "lev": {"impl": impl_lev, "model": model_lev, "oracle": oracle_lev, "rtol": 1e-7, "atol": 1e-300, "key": _key,
            "strict_errors": True,
            "tags": lambda p: ["lev:" + p["cls"], "complex" if np.iscomplexobj(p["r"]) else "real",
                               "allow" if p["allow"] else "strict", "order:" + ("None" if p["order"] is None else "given")]
            + (["lev:" + p["fam"]] if p.get("fam") else []) + _forms(p),
            "nontrivial": lambda p: len(p["r"]) >= 2},
    "hermtoep": {"impl": impl_herm, "model": model_herm, "oracle": oracle_herm, "rtol": 1e-7, "atol": 1e-300, "key": _key,
                 "tags": lambda p: ["herm:T-" + ("complex" if np.iscomplexobj(p["T"]) else "real") + "/Z-" + ("complex" if np.iscomplexobj(p["Z"]) else "real")] + _forms(p)},
    "toeplitz": {"impl": impl_toep, "model": model_toep, "oracle": oracle_toep, "rtol": 1e-7, "atol": 1e-300, "key": _key,
                 "tags": lambda p: ["toep:" + ("complex" if np.iscomplexobj(p["TC"]) else "real")] + _forms(p)},
    "cholesky": {"oracle": oracle_chol, "key": _key,
                 "tags": lambda p: ["chol:" + str(np.asarray(p["A"]).dtype), "chol:B%dd" % np.asarray(p["B"]).ndim,
                                    "chol:" + p.get("fam", "toeplitz")] + _forms(p)},
}


def _pd_seq(nrng, n, cplx):
    x, _ = gen_data(nrng, 3 * n + 2, cplx, kind=["noise", "int", "trend"][int(nrng.integers(0, 3))], exact=True)
    x = np.asarray(x, dtype=complex if cplx else float)
    N = len(x)
    r = np.array([np.sum(x[k:] * np.conj(x[: N - k])) / N for k in range(n)])
    if not cplx:
        r = np.real(r)
    return r


def _stage_errors(r):
    """P_j / r0 for all stages, in float (conditioning predicate only)"""
    r = np.asarray(r, dtype=complex)
    P = np.real(r[0])
    A = np.zeros(0, dtype=complex)
    out = []
    for k in range(len(r) - 1):
        save = r[k + 1] + np.sum(A * r[k:0:-1][: len(A)]) if len(A) else r[k + 1]
        t = -save / P
        P = P * (1 - abs(t) ** 2)
        out.append(P / np.real(r[0]))
        A = np.concatenate((A + t * np.conj(A[::-1]), [t]))
        if P == 0:
            break
    return out


KINDS["single"] = single.kind("C10")

def gen(rng, nrng, tier):
    yield from single.gen("C10", nrng, tier)
    n_lev = 160 if tier == "quick" else 2500
    maxn = 24 if tier == "quick" else 40
    for i in range(n_lev):
        cplx = bool(nrng.integers(0, 2))
        n = int(nrng.integers(2, maxn + 1))
        if i % 4 != 3:
            r = _pd_seq(nrng, n, cplx)
            se = _stage_errors(r)
            if min(se) < 1e-6:
                continue
            order = [None, n - 1, int(nrng.integers(1, n)), 1][i % 4]
            o = n - 1 if order is None else order
            if (i // 4) % 3 == 1:
                # the recursion is homogeneous in r: a positive-definite sequence stays one at any amplitude
                r = r * [2.0 ** -80, 2.0 ** -60, 2.0 ** 40, 2.0 ** -100, 2.0 ** 70][(i // 12) % 5]
            yield ("lev", {"r": r, "order": order, "allow": bool(i % 2), "cls": "pd", "q": int(nrng.integers(1, o + 1))})
        else:
            # clearly indefinite: perturb a PD sequence so that some stage error is <= -1e-3 r0
            for _ in range(20):
                r = _pd_seq(nrng, n, cplx).copy()
                j = int(nrng.integers(1, n))
                r[j] = r[j] + float(nrng.integers(1, 4)) * np.real(r[0])
                se = _stage_errors(r)
                if min(se) < -1e-3 and all(abs(v) > 1e-6 for v in se):
                    order = [None, n - 1][i % 2] if (i // 4) % 2 == 0 else None
                    # the order actually run must reach the bad stage
                    yield ("lev", {"r": r, "order": order, "allow": False, "cls": "indef"})
                    # "unless singularity is allowed": the same sequence with allow_singularity=True (compared with the
                    # model, and the oracle checks the normal equations / the product formula on what is returned)
                    yield ("lev", {"r": r, "order": order, "allow": True, "cls": "indef"})
                    # explicit order that reaches the first clearly negative stage but stops below n-1
                    bad = next(jj for jj, v in enumerate(se) if v < -1e-3) + 1
                    o2 = bad + (i // 8) % 2
                    if o2 < n - 1:
                        yield ("lev", {"r": r, "order": o2, "allow": False, "cls": "indef", "fam": "partial-order"})
                        yield ("lev", {"r": r, "order": o2, "allow": True, "cls": "indef", "fam": "partial-order"})
                    if (i // 4) % 5 == 2:
                        # indefiniteness does not depend on the amplitude either
                        sc = [2.0 ** -80, 2.0 ** 40, 2.0 ** -30, 2.0 ** 70][(i // 20) % 4]
                        yield ("lev", {"r": r * sc, "order": order, "allow": bool((i // 40) % 2), "cls": "indef",
                                       "amp": "2^%d" % round(np.log2(sc))})
                    break
    # sequences with an EXACTLY zero reflection coefficient at a stage >= 2 followed by non-zero ones: r = [1, a, a^2, ...]
    # has k_2 = 0 exactly for dyadic a (a*a is exact); further stages are made non-trivial by perturbing later lags
    for i in range(12 if tier == "quick" else 120):
        cplx = bool(i % 2)
        a = [0.75, -0.5, 0.25, 0.5][i % 4] * (1j if (cplx and i % 4 == 1) else 1)
        n = int(nrng.integers(4, 9))
        r = np.array([a ** k for k in range(n)], dtype=complex if cplx else float)
        if cplx:
            r = r.astype(complex)
        r[3:] = r[3:] + (np.array([0.1875, -0.0625, 0.03125, 0.0, 0.015625, 0.0][: n - 3]))
        se = _stage_errors(r)
        if min(se) > 1e-6:
            yield ("lev", {"r": r, "order": None, "allow": bool(i % 2), "cls": "pd", "q": int(nrng.integers(1, n))})
    n_sol = 60 if tier == "quick" else 800
    for i in range(n_sol):
        n = int(nrng.integers(1, 13 if tier == "quick" else 25))
        tcplx = bool(nrng.integers(0, 2))
        zcplx = bool(nrng.integers(0, 2))
        r = _pd_seq(nrng, n + 1, tcplx).copy()
        r[0] = r[0] * 1.25
        Z = dyadic(nrng, n + 1) + (1j * dyadic(nrng, n + 1) if zcplx else 0)
        yield ("hermtoep", {"T0": float(np.real(r[0])), "T": r[1:], "Z": Z})
        # general Toeplitz, diagonally dominant
        TC = dyadic(nrng, n, bits=4, scale=1) / (2 * n) + (1j * dyadic(nrng, n, bits=4, scale=1) / (2 * n) if tcplx else 0)
        TR = dyadic(nrng, n, bits=4, scale=1) / (2 * n) + (1j * dyadic(nrng, n, bits=4, scale=1) / (2 * n) if tcplx else 0)
        yield ("toeplitz", {"T0": 2.0, "TC": TC, "TR": TR, "Z": Z})
        A = sp_toeplitz(r, np.conj(r))
        yield ("cholesky", {"A": A, "B": Z})
        # special relations between the first column and the first row of a GENERAL Toeplitz system: row = conj(column)
        # with a complex diagonal (Hermitian off-diagonals only), row = column (symmetric), real column = row
        if i % 3 == 1:
            # well-conditioned general Toeplitz systems that are not positive definite: negative or complex diagonal
            T0n = [-2.0, -2.0 + 1.0j, 2.0j, -3.0][(i // 3) % 4]
            yield ("toeplitz", {"T0": T0n, "TC": TC, "TR": TR, "Z": Z})
        if i % 3 == 0:
            T0c = [2.0 + 1.0j, 2.0 - 0.5j, 2.0, 2.5j + 2.0][(i // 3) % 4]
            yield ("toeplitz", {"T0": T0c, "TC": TC, "TR": np.conj(TC), "Z": Z})
            yield ("toeplitz", {"T0": T0c, "TC": TC, "TR": TC.copy(), "Z": Z})
            yield ("toeplitz", {"T0": T0c, "TC": np.real(TC).astype(float), "TR": np.real(TC).astype(float), "Z": Z})
        if i % 2 == 1 and n <= 12:
            # (n <= 12: the exact model of the general solver on scaled Gaussian rationals takes seconds per case beyond)
            # the solvers are homogeneous: (matrix * s1) x = (z * s2) has the solution x * s2 / s1 at every amplitude (an
            # absolute threshold in a singularity guard, or in LAPACK glue, would show here); matrix and right-hand side
            # are scaled by the same or by different powers of two (exact: the model cases stay exact)
            s1 = _AMPS[(i // 2) % 4]
            s2 = _AMPS[((i // 2) + (i // 8)) % 4]
            tag = "2^%d/2^%d" % (round(np.log2(s1)), round(np.log2(s2)))
            yield ("hermtoep", {"T0": float(np.real(r[0])) * s1, "T": r[1:] * s1, "Z": Z * s2, "amp": tag})
            T0g = [2.0, -2.0 + 1.0j, 2.0 + 1.0j, -3.0][(i // 2) % 4]
            yield ("toeplitz", {"T0": T0g * s1, "TC": TC * s1, "TR": TR * s1, "Z": Z * s2, "amp": tag})
            yield ("cholesky", {"A": A * s1, "B": Z * s2, "amp": tag})
    yield from _gen_extra(nrng, tier, maxn)


_AMPS = [2.0 ** -80, 2.0 ** -30, 2.0 ** 40, 2.0 ** 70]


def _int_pd_seq(nrng, n):
    """integer-valued positive-definite sequence: N times the biased autocorrelation of small-integer data"""
    while True:
        x = nrng.integers(-4, 5, 3 * n + 2).astype(float)
        N = len(x)
        r = np.array([np.sum(x[k:] * x[: N - k]) for k in range(n)])
        r[0] += 1.0
        if min(_stage_errors(r) or [1.0]) > 1e-6:
            return r


def _gen_extra(nrng, tier, maxn):
    """case families added after the audit of the check (placed after the original ones: these keep their random stream)"""
    thorough = tier != "quick"
    # ---- positive definiteness is a property of the leading (order+1) lags: PD leading block, a later lag makes the whole
    # sequence indefinite, the order stops before the bad stage (pd oracle + correspondence); the order that reaches the
    # bad stage, explicit and below n-1 where possible, is an indefinite case
    fixed = [(np.array([1, .5, 2, .1]), 1, 2), (np.array([1, .5, .3, 5]), 2, 3), (np.array([2, .5 + .5j, .25j, 9]), 2, 3)]
    for i, (r, o, bad) in enumerate(fixed):
        for allow in (False, True):
            yield ("lev", {"r": r, "order": o, "allow": allow, "cls": "pd", "q": 1 + (i + allow) % o, "fam": "leading-pd"})
            yield ("lev", {"r": r, "order": bad, "allow": allow, "cls": "indef", "fam": "partial-order"})
    for i in range(24 if not thorough else 300):
        cplx = bool(i % 2)
        n = int(nrng.integers(4, maxn + 1))
        r = _pd_seq(nrng, n, cplx).copy()
        j = int(nrng.integers(2, n))                       # first lag that is spoilt: stages 1..j-1 are untouched
        r[j] = r[j] + float(nrng.integers(1, 4)) * np.real(r[0]) * [1, -1, 1j, -1j][(i // 2) % 4 if cplx else (i // 2) % 2]
        se = _stage_errors(r)
        if min(se[: j - 1]) < 1e-6 or not se[j - 1] < -1e-3:
            continue
        o = int(nrng.integers(1, j))
        if (i // 8) % 3 == 0:
            o = j - 1                                      # the last order that is still positive definite
        sc = 1.0 if (i // 3) % 4 else _AMPS[(i // 12) % 4]
        yield ("lev", {"r": r * sc, "order": o, "allow": bool((i // 2) % 2), "cls": "pd", "q": int(nrng.integers(1, o + 1)),
                       "fam": "leading-pd"})
        if all(abs(v) > 1e-6 for v in se[:j]):
            yield ("lev", {"r": r * sc, "order": j, "allow": bool((i // 4) % 2), "cls": "indef", "fam": "partial-order"})
    # ---- boundary of the singularity test: a stage error that is EXACTLY 0.0 (the sequence is singular, not positive
    # definite): ValueError from the code and from the model.  (With allow_singularity=True the result is NaN: not asserted.)
    sing = [np.array([1., 1, 1]), np.array([2., -2, 2]), np.array([1, 1j, -1]), np.array([1., 0, -1, 0]),
            np.array([4., 2, -2, -4]), np.array([1., -1]), np.array([3, 3j]), np.array([4., 2, 1, .5, 3.25]),
            np.array([2, 1j, -.5, -.25j, .125 + 1.5j])]
    for i, r in enumerate(sing):
        assert _stage_errors(r)[-1] == 0.0 and all(v > 0 for v in _stage_errors(r)[:-1]), r
        reach = len(_stage_errors(r))
        for jv in range(6 if not thorough else 12):
            order = [None, reach, len(r) - 1][jv % 3]
            sc = [1.0, 2.0 ** -80, 1.0, 2.0 ** 40, 2.0 ** -30, 2.0 ** 70][(jv // 3 + i) % 6] if jv >= 3 else 1.0
            p = {"r": r * sc, "order": order, "allow": False, "cls": "singular"}
            if sc == 1.0 and jv >= 3:
                f = ["list", "tuple", "int"][(jv + i) % 3]
                if f == "int" and (np.iscomplexobj(r) or not np.array_equal(r, np.round(r))):
                    f = "list"
                p["form"] = f
            if jv % 4 == 1:
                p["bare"] = True
            yield ("lev", p)
    # ---- exactly zero FIRST reflection coefficient (r1 = 0), followed by zero and non-zero ones
    zfirst = [np.array([1, 0, .5, 0, .125]), np.array([2., 0, 0, 0]), np.array([1, 0, .5j, .25, 0]), np.array([1, 0, 0, .5]),
              np.array([1, 0, 0, 0, -.5j, .25]), np.array([4., 0, -1, 2, 0, .5])]
    for i, r in enumerate(zfirst):
        assert min(_stage_errors(r)) > 1e-6
        for jv in range(4 if not thorough else 8):
            order = [None, 2, len(r) - 1, 1][jv % 4]
            o = len(r) - 1 if order is None else order
            sc = 1.0 if jv < 4 else _AMPS[(jv + i) % 4]
            yield ("lev", {"r": r * sc, "order": order, "allow": bool((jv + i) % 2), "cls": "pd", "q": min(2, o),
                           "fam": "zero-k1"})
    # ---- entry forms: lists, tuples, lists mixing floats and complex numbers, integer dtypes, omitted optional arguments,
    # numpy-integer order, order 0
    docs = [np.array([4., 2., 1.5]), np.array([4., 2 + 1j, 1.5]), np.array([4., 2, 1]), np.array([3., -2 + 0.5j, .7 - 1j])]
    k = 0
    for r in docs:
        cplx = np.iscomplexobj(r)
        integer = (not cplx) and np.array_equal(r, np.round(r))
        for f in ["list", "tuple", "mixedlist" if cplx else None, "int" if integer else None, "int32" if integer else None, "ndarray"]:
            if f is None:
                continue
            for order, bare, oform in [(None, True, None), (None, False, None), (2, True, None), (1, False, "int64"),
                                       (2, False, "int64"), (0, False, None), (0, True, "int64")]:
                k += 1
                p = {"r": r, "order": order, "allow": bool(k % 2) and not bare, "cls": "pd", "form": f, "fam": "forms"}
                if order:
                    p["q"] = 1 + k % order
                if bare:
                    p["bare"] = True
                if oform:
                    p["oform"] = oform
                yield ("lev", p)
    for i in range(18 if not thorough else 150):
        cplx = bool(i % 2)
        n = int(nrng.integers(2, 13))
        integer = (i % 3 == 0) and not cplx
        r = _int_pd_seq(nrng, n) if integer else _pd_seq(nrng, n, cplx)
        if min(_stage_errors(r)) < 1e-6:
            continue
        f = (["int", "int32", "list"] if integer else ["list", "tuple", "mixedlist" if cplx else "list"])[(i // 2) % 3]
        order = [None, n - 1, int(nrng.integers(0, n)), 0][(i // 6) % 4]
        o = n - 1 if order is None else order
        p = {"r": r, "order": order, "allow": bool((i // 2) % 2), "cls": "pd", "form": f, "fam": "forms"}
        if o >= 1:
            p["q"] = int(nrng.integers(1, o + 1))
        if (i // 4) % 2 and order is not None:
            p["oform"] = "int64"
        if (i // 3) % 3 == 0 and not p["allow"]:
            p["bare"] = True
        yield ("lev", p)
    # order 0 on ordinary arrays as well (the zeroth-order predictor: a = [], P = r0)
    for i in range(4 if not thorough else 20):
        r = _pd_seq(nrng, int(nrng.integers(1, 8)), bool(i % 2))
        if r[0] > 0:
            yield ("lev", {"r": r * (1.0 if i % 4 < 2 else _AMPS[(i // 4) % 4]), "order": 0, "allow": bool((i // 2) % 2),
                           "cls": "pd", "fam": "order0"})
    # solver entry forms.  HERMTOEP / LEVINSON keep a real zero-lag value: the stage error P is then real, and numpy's
    # lexicographic complex `<=` coincides with the model's `re P <= 0` (no case with Re P = 0, Im P != 0 exists)
    for i in range(24 if not thorough else 240):
        n = int(nrng.integers(1, 9))
        cplx = bool(i % 2)
        zcplx = bool((i // 2) % 2)
        integer = (i % 3 == 0) and not cplx
        if integer:
            r = _int_pd_seq(nrng, n + 1)
            r[0] += 1.0
            Z = nrng.integers(-9, 10, n + 1).astype(float)
            TC = nrng.integers(-3, 4, n).astype(float)
            TR = nrng.integers(-3, 4, n).astype(float)
            T0 = float(np.sum(np.abs(TC)) + np.sum(np.abs(TR)) + 1 + int(nrng.integers(0, 3))) * [1, -1][(i // 3) % 2]
            f = ["int", "int32", "list", "tuple"][(i // 3) % 4]
            t0f = ["int", "npint", "python", "npfloat"][(i // 6) % 4]
            zf = f
        else:
            r = _pd_seq(nrng, n + 1, cplx).copy()
            r[0] = r[0] * 1.25
            Z = dyadic(nrng, n + 1) + (1j * dyadic(nrng, n + 1) if zcplx else 0)
            TC = dyadic(nrng, n, bits=4, scale=1) / (2 * n) + (1j * dyadic(nrng, n, bits=4, scale=1) / (2 * n) if cplx else 0)
            TR = dyadic(nrng, n, bits=4, scale=1) / (2 * n) + (1j * dyadic(nrng, n, bits=4, scale=1) / (2 * n) if cplx else 0)
            T0 = [2.0, -2.0, 2.5, 3.0][(i // 4) % 4]
            f = ["list", "tuple", "ndarray", "mixedlist" if cplx else "list"][(i // 2) % 4]
            t0f = ["npfloat", "python"][(i // 8) % 2]
            zf = [f, "ndarray", "list"][(i // 4) % 3]
        if not (r[0] > 0 and min(_stage_errors(r) or [1.0]) > 1e-6):
            continue
        yield ("hermtoep", {"T0": float(np.real(r[0])), "T": r[1:], "Z": Z, "form": f, "zform": zf, "t0form": t0f})
        yield ("toeplitz", {"T0": T0, "TC": TC, "TR": TR, "Z": Z, "form": f, "zform": zf, "t0form": t0f})
        if not integer:
            # real first column with a complex first row, and the converse (the result is complex either way)
            TCr = dyadic(nrng, n, bits=4, scale=1) / (2 * n)
            TRc = TCr[::-1] + 1j * dyadic(nrng, n, bits=4, scale=1) / (2 * n)
            a, b = (TCr, TRc) if (i // 2) % 2 else (TRc, TCr)
            yield ("toeplitz", {"T0": [2.0, -2.0 + 1.0j][(i // 4) % 2], "TC": a, "TR": b, "Z": Z,
                                "form": ["ndarray", "list"][(i // 8) % 2]})
    # ---- CHOLESKY on Hermitian positive-definite matrices that are NOT Toeplitz (no persymmetry: A[i,j] != A[n-1-j,n-1-i]),
    # A = G^H G + I; n = 1 included; right-hand sides with several columns; Fortran order; integer arrays; nested lists
    for i in range(24 if not thorough else 200):
        n = [1, 3, 6, 2, 4, int(nrng.integers(5, 13))][i % 6]
        cplx = bool((i // 6) % 2)
        integer = (i % 4 == 3) and not cplx
        if integer:
            G = nrng.integers(-3, 4, (n + 1, n)).astype(float)
            B = nrng.integers(-9, 10, (n, 3) if (i // 2) % 2 else n).astype(float)
        else:
            G = dyadic(nrng, (n + 1) * n, bits=4, scale=1).reshape(n + 1, n)
            if cplx:
                G = G + 1j * dyadic(nrng, (n + 1) * n, bits=4, scale=1).reshape(n + 1, n)
            shape = (n, 3) if (i // 2) % 2 else (n,)
            B = dyadic(nrng, int(np.prod(shape))).reshape(shape)
            if (i // 3) % 2:
                B = B + 1j * dyadic(nrng, int(np.prod(shape))).reshape(shape)
        A = np.conj(G.T) @ G + np.eye(n)
        p = {"A": A, "B": B, "fam": "gram"}
        if integer:
            p["form"] = ["int", "list", "int32"][(i // 4) % 3]
        elif (i // 4) % 3 == 1:
            p["form"] = "list"
        elif (i // 4) % 3 == 2:
            p["fortran"] = True
        if (i // 12) % 3 == 2 and not integer:
            s1 = _AMPS[(i // 2) % 4]
            s2 = _AMPS[(i // 5) % 4]
            p["A"] = A * s1
            p["B"] = B * s2
            p["amp"] = "2^%d/2^%d" % (round(np.log2(s1)), round(np.log2(s2)))
        yield ("cholesky", p)
