"""C10  Levinson and the Toeplitz/Hermitian solvers solve their equations."""
import numpy as np

import single
from scipy.linalg import toeplitz as sp_toeplitz

import proto
from common import gen_data, rel, dyadic

TRUSTED_BASE = [
    "CHOLESKY is glue around LAPACK (numpy.linalg.cholesky/solve, scipy.linalg.cholesky/cho_solve): a parameter, "
    "checked by the residual oracle only",
    "exact mode: the model runs the recursions in exact Gaussian rationals on the doubles the implementation receives; "
    "agreement required to rtol 1e-7 (conditioning predicate: every stage error P_j >= 1e-6 r0)",
]
PARTIAL = ["CHOLESKY: LAPACK glue, residual oracle only (stability of the prediction polynomial is proved for every order: "
           "C10.levinson_stable, Schur-Cohn by the elementary |A| >= |B| invariant)"]
ASSUMPTIONS = ["positive-definite sequences are biased autocorrelations of random data; 'clearly indefinite' ones have a "
               "stage error <= -1e-3 r0"]
RULE = ("PD sequences = biased autocorrelation of random dyadic data (real/complex), length 2..40, all orders; "
        "indefinite sequences; random diagonally dominant Toeplitz / Hermitian-PD systems; non-trivial = order >= 1")


def _sp():
    import spectrum
    return spectrum


def _T(r, p):
    return sp_toeplitz(r[: p + 1], np.conj(r[: p + 1]))


def impl_lev(p):
    sp = _sp()
    A, P, k = sp.LEVINSON(p["r"], p["order"], allow_singularity=p["allow"])
    return [np.asarray(A), np.array([P]), np.asarray(k)]


def model_lev(p):
    r = np.asarray(p["r"])
    order = len(r) - 1 if p["order"] is None else p["order"]
    return ("Q", proto.request("lev", "Q", [order, 1 if p["allow"] else 0], [[np.real(r[0])], r[1:]]))


def oracle_lev(p):
    sp = _sp()
    r = np.asarray(p["r"])
    order = len(r) - 1 if p["order"] is None else p["order"]
    out = []
    if p["cls"] == "pd":
        try:
            A, P, k = sp.LEVINSON(r, p["order"], allow_singularity=p["allow"])
        except Exception as e:
            return ["LEVINSON raised %r on a positive-definite sequence (n=%d order=%s)" % (e, len(r), p["order"])]
        A = np.asarray(A)
        k = np.asarray(k)
        if len(A) != order or len(k) != order:
            return ["LEVINSON returned %d coefficients for order %d" % (len(A), order)]
        T = _T(r, order)
        lhs = T @ np.concatenate(([1], A))
        rhs = np.zeros(order + 1, dtype=complex)
        rhs[0] = P
        tol = 1e-8 * abs(r[0])
        if np.max(np.abs(lhs - rhs)) > tol:
            out.append("T_p [1,a]^T != [P,0..0]^T: residual %.2e (n=%d order=%d %s)" % (
                np.max(np.abs(lhs - rhs)), len(r), order, "complex" if np.iscomplexobj(r) else "real"))
        if not (np.isreal(P) and P > 0):
            out.append("P = %r is not a positive real" % (P,))
        Pk = np.real(r[0]) * np.prod(1 - np.abs(k) ** 2)
        if abs(P - Pk) > 1e-9 * abs(r[0]):
            out.append("P != r0*prod(1-|k_i|^2): %r vs %r" % (P, Pk))
        if not np.all(np.abs(k) < 1):
            out.append("reflection coefficient of modulus >= 1 on PD input")
        if order >= 1:
            roots = np.roots(np.concatenate(([1], A)))
            if np.max(np.abs(roots)) >= 1:
                out.append("prediction polynomial not stable: max|root| = %.6f" % np.max(np.abs(roots)))
        # nesting
        q = p.get("q")
        if q is not None and 1 <= q <= order:
            A2, P2, k2 = sp.LEVINSON(r, q, allow_singularity=p["allow"])
            if rel(np.asarray(k2).astype(complex), k[:q].astype(complex)) > 1e-9:
                out.append("order-%d reflection coefficients are not a prefix of the order-%d ones" % (q, order))
    else:  # clearly indefinite
        raised = False
        try:
            sp.LEVINSON(r, p["order"], allow_singularity=False)
        except ValueError:
            raised = True
        except Exception as e:
            return ["LEVINSON raised %r instead of ValueError on an indefinite sequence" % (e,)]
        if not raised:
            out.append("LEVINSON did not raise on a clearly indefinite sequence r=%s order=%s" % (np.round(r, 4), p["order"]))
        try:
            sp.LEVINSON(r, p["order"], allow_singularity=True)
        except Exception as e:
            out.append("LEVINSON(allow_singularity=True) raised %r" % (e,))
    return out


def impl_herm(p):
    from spectrum.toeplitz import HERMTOEP
    return [np.asarray(HERMTOEP(p["T0"], p["T"], p["Z"]))]


def model_herm(p):
    return ("Q", proto.request("hermtoep", "Q", [], [[p["T0"]], p["T"], p["Z"]]))


def oracle_herm(p):
    x = impl_herm(p)[0]
    r = np.concatenate(([p["T0"]], np.asarray(p["T"])))
    T = sp_toeplitz(r, np.conj(r))
    z = np.asarray(p["Z"])
    res = np.max(np.abs(T @ x - z))
    if not res <= 1e-8 * max(np.max(np.abs(z)), 1e-300) * max(1.0, np.linalg.cond(T)):
        return ["HERMTOEP: T x != z, residual %.2e (n=%d, T/Z dtypes %s/%s)" % (res, len(r), np.asarray(p["T"]).dtype, z.dtype)]
    return []


def impl_toep(p):
    from spectrum.toeplitz import TOEPLITZ
    return [np.asarray(TOEPLITZ(p["T0"], p["TC"], p["TR"], p["Z"]))]


def model_toep(p):
    return ("Q", proto.request("toeplitz", "Q", [], [[p["T0"]], p["TC"], p["TR"], p["Z"]]))


def oracle_toep(p):
    x = impl_toep(p)[0]
    T = sp_toeplitz(np.concatenate(([p["T0"]], np.asarray(p["TC"]))), np.concatenate(([p["T0"]], np.asarray(p["TR"]))))
    z = np.asarray(p["Z"])
    res = np.max(np.abs(T @ x - z))
    if not res <= 1e-8 * max(np.max(np.abs(z)), 1e-300) * max(1.0, np.linalg.cond(T)):
        return ["TOEPLITZ: T x != z, residual %.2e (n=%d)" % (res, len(z))]
    return []


def oracle_chol(p):
    sp = _sp()
    A = np.asarray(p["A"])
    B = np.asarray(p["B"])
    out = []
    xs = []
    for m in ["scipy", "numpy", "numpy_solver"]:
        try:
            X = np.asarray(sp.CHOLESKY(A, B, method=m))
        except Exception as e:
            out.append("CHOLESKY(method=%s) raised %r on a Hermitian positive-definite system" % (m, e))
            continue
        xs.append(X)
        res = np.max(np.abs(A @ X - B))
        if not res <= 1e-9 * max(np.max(np.abs(B)), 1e-300) * max(1.0, np.linalg.cond(A)):
            out.append("CHOLESKY(method=%s): A x != B, residual %.2e (n=%d %s)" % (m, res, len(B), A.dtype))
    return out


def _key(p):
    arrs = [np.asarray(v) for v in p.values() if isinstance(v, np.ndarray)]
    h = 0
    for a in arrs:
        h ^= hash(a.tobytes())
    return "%s|%s|%d" % (p.get("order"), p.get("cls"), h & 0xFFFFFFF)


KINDS = {
    "lev": {"impl": impl_lev, "model": model_lev, "oracle": oracle_lev, "rtol": 1e-7, "atol": 1e-300, "key": _key,
            "tags": lambda p: ["lev:" + p["cls"], "complex" if np.iscomplexobj(p["r"]) else "real",
                               "allow" if p["allow"] else "strict", "order:" + ("None" if p["order"] is None else "given")],
            "nontrivial": lambda p: len(p["r"]) >= 2},
    "hermtoep": {"impl": impl_herm, "model": model_herm, "oracle": oracle_herm, "rtol": 1e-7, "atol": 1e-300, "key": _key,
                 "tags": lambda p: ["herm:T-" + ("complex" if np.iscomplexobj(p["T"]) else "real") + "/Z-" + ("complex" if np.iscomplexobj(p["Z"]) else "real")]},
    "toeplitz": {"impl": impl_toep, "model": model_toep, "oracle": oracle_toep, "rtol": 1e-7, "atol": 1e-300, "key": _key,
                 "tags": lambda p: ["toep:" + ("complex" if np.iscomplexobj(p["TC"]) else "real")]},
    "cholesky": {"oracle": oracle_chol, "key": _key, "tags": lambda p: ["chol:" + str(np.asarray(p["A"]).dtype)]},
}


def _pd_seq(nrng, n, cplx):
    x, _ = gen_data(nrng, 3 * n + 2, cplx, kind=["noise", "int", "trend"][int(nrng.integers(0, 3))], exact=True)
    x = np.asarray(x, dtype=complex if cplx else float)
    N = len(x)
    r = np.array([np.sum(x[k:] * np.conj(x[: N - k])) / N for k in range(n)])
    if not cplx:
        r = np.real(r)
    return r


def _stage_errors(r):
    """P_j / r0 for all stages, in float (conditioning predicate only)"""
    r = np.asarray(r, dtype=complex)
    P = np.real(r[0])
    A = np.zeros(0, dtype=complex)
    out = []
    for k in range(len(r) - 1):
        save = r[k + 1] + np.sum(A * r[k:0:-1][: len(A)]) if len(A) else r[k + 1]
        t = -save / P
        P = P * (1 - abs(t) ** 2)
        out.append(P / np.real(r[0]))
        A = np.concatenate((A + t * np.conj(A[::-1]), [t]))
        if P == 0:
            break
    return out


KINDS["single"] = single.kind("C10")

def gen(rng, nrng, tier):
    yield from single.gen("C10", nrng, tier)
    n_lev = 160 if tier == "quick" else 2500
    maxn = 24 if tier == "quick" else 40
    for i in range(n_lev):
        cplx = bool(nrng.integers(0, 2))
        n = int(nrng.integers(2, maxn + 1))
        if i % 4 != 3:
            r = _pd_seq(nrng, n, cplx)
            se = _stage_errors(r)
            if min(se) < 1e-6:
                continue
            order = [None, n - 1, int(nrng.integers(1, n)), 1][i % 4]
            o = n - 1 if order is None else order
            if (i // 4) % 3 == 1:
                # the recursion is homogeneous in r: a positive-definite sequence stays one at any amplitude
                r = r * [2.0 ** -80, 2.0 ** -60, 2.0 ** 40, 2.0 ** -100, 2.0 ** 70][(i // 12) % 5]
            yield ("lev", {"r": r, "order": order, "allow": bool(i % 2), "cls": "pd", "q": int(nrng.integers(1, o + 1))})
        else:
            # clearly indefinite: perturb a PD sequence so that some stage error is <= -1e-3 r0
            for _ in range(20):
                r = _pd_seq(nrng, n, cplx).copy()
                j = int(nrng.integers(1, n))
                r[j] = r[j] + float(nrng.integers(1, 4)) * np.real(r[0])
                se = _stage_errors(r)
                if min(se) < -1e-3 and all(abs(v) > 1e-6 for v in se):
                    order = [None, n - 1][i % 2] if (i // 4) % 2 == 0 else None
                    # the order actually run must reach the bad stage
                    yield ("lev", {"r": r, "order": order, "allow": False, "cls": "indef"})
                    break
    # sequences with an EXACTLY zero reflection coefficient at a stage >= 2 followed by non-zero ones: r = [1, a, a^2, ...]
    # has k_2 = 0 exactly for dyadic a (a*a is exact); further stages are made non-trivial by perturbing later lags
    for i in range(12 if tier == "quick" else 120):
        cplx = bool(i % 2)
        a = [0.75, -0.5, 0.25, 0.5][i % 4] * (1j if (cplx and i % 4 == 1) else 1)
        n = int(nrng.integers(4, 9))
        r = np.array([a ** k for k in range(n)], dtype=complex if cplx else float)
        if cplx:
            r = r.astype(complex)
        r[3:] = r[3:] + (np.array([0.1875, -0.0625, 0.03125, 0.0, 0.015625, 0.0][: n - 3]))
        se = _stage_errors(r)
        if min(se) > 1e-6:
            yield ("lev", {"r": r, "order": None, "allow": bool(i % 2), "cls": "pd", "q": int(nrng.integers(1, n))})
    n_sol = 60 if tier == "quick" else 800
    for i in range(n_sol):
        n = int(nrng.integers(1, 13 if tier == "quick" else 25))
        tcplx = bool(nrng.integers(0, 2))
        zcplx = bool(nrng.integers(0, 2))
        r = _pd_seq(nrng, n + 1, tcplx).copy()
        r[0] = r[0] * 1.25
        Z = dyadic(nrng, n + 1) + (1j * dyadic(nrng, n + 1) if zcplx else 0)
        yield ("hermtoep", {"T0": float(np.real(r[0])), "T": r[1:], "Z": Z})
        # general Toeplitz, diagonally dominant
        TC = dyadic(nrng, n, bits=4, scale=1) / (2 * n) + (1j * dyadic(nrng, n, bits=4, scale=1) / (2 * n) if tcplx else 0)
        TR = dyadic(nrng, n, bits=4, scale=1) / (2 * n) + (1j * dyadic(nrng, n, bits=4, scale=1) / (2 * n) if tcplx else 0)
        yield ("toeplitz", {"T0": 2.0, "TC": TC, "TR": TR, "Z": Z})
        A = sp_toeplitz(r, np.conj(r))
        yield ("cholesky", {"A": A, "B": Z})
        # special relations between the first column and the first row of a GENERAL Toeplitz system: row = conj(column)
        # with a complex diagonal (Hermitian off-diagonals only), row = column (symmetric), real column = row
        if i % 3 == 1:
            # well-conditioned general Toeplitz systems that are not positive definite: negative or complex diagonal
            T0n = [-2.0, -2.0 + 1.0j, 2.0j, -3.0][(i // 3) % 4]
            yield ("toeplitz", {"T0": T0n, "TC": TC, "TR": TR, "Z": Z})
        if i % 3 == 0:
            T0c = [2.0 + 1.0j, 2.0 - 0.5j, 2.0, 2.5j + 2.0][(i // 3) % 4]
            yield ("toeplitz", {"T0": T0c, "TC": TC, "TR": np.conj(TC), "Z": Z})
            yield ("toeplitz", {"T0": T0c, "TC": TC, "TR": TC.copy(), "Z": Z})
            yield ("toeplitz", {"T0": T0c, "TC": np.real(TC).astype(float), "TR": np.real(TC).astype(float), "Z": Z})
