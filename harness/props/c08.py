"""C08  Sampling-rate and scale_by_freq normalisation is uniform."""
import numpy as np

import proto
import classes as C
from common import rel

TRUSTED_BASE = [
    "numpy.fft is the DFT parameter (arma2psd); float mode rtol 1e-9",
    "class glue correspondence: the raw two-sided unscaled estimate is taken from the functional API of the implementation "
    "(each functional estimator is tied to the model under its own property) and the model applies the class glue "
    "(slice / double / reverse, then scale() once with df = sampling/NFFT)",
]
PARTIAL = []
ASSUMPTIONS = ["pi is an abstract positive constant in the theorems; 2*pi = 6.283185307179586 in the correspondence"]
RULE = ("all 14 estimator class variants x real/complex data x NFFT in {None, nextpow2, even, odd} x sampling in (1e-2, 1e5) x "
        "scale_by_freq in {False, True}; arma2psd with random real/complex/mixed-dtype A, B (incl. None), rho, T, NFFT > max(len)")


def c(v):
    return np.asarray(v).astype(complex).ravel()


# ---- arma2psd ---------------------------------------------------------------------------------------

def impl_a2p(p):
    return [np.asarray(C.sp().arma2psd(A=p["A"], B=p["B"], rho=p["rho"], T=p["T"], NFFT=p["nfft"]))]


def model_a2p(p):
    A, B = p["A"], p["B"]
    return ("F", proto.request("arma2psd", "F", [p["nfft"], 0 if A is None else 1, 0 if B is None else 1],
                               [A if A is not None else [], B if B is not None else [], [p["rho"]], [p["T"]]]))


def oracle_a2p(p):
    A, B, rho, T, nfft = p["A"], p["B"], p["rho"], p["T"], p["nfft"]
    got = impl_a2p(p)[0]
    k = np.arange(nfft)
    z = np.exp(-2j * np.pi * k / nfft)
    Af = 1 + sum(A[i] * z ** (i + 1) for i in range(len(A))) if A is not None else np.ones(nfft)
    Bf = 1 + sum(B[i] * z ** (i + 1) for i in range(len(B))) if B is not None else np.ones(nfft)
    ref = rho / T * np.abs(Bf) ** 2 / np.abs(Af) ** 2
    if got.shape != ref.shape or np.iscomplexobj(got) or rel(got, ref) > 1e-9:
        return ["arma2psd(A %s, B %s, rho=%g, T=%g, NFFT=%d) != (rho/T)|B|^2/|A|^2: %.2e" % (
            "None" if A is None else "%s[%d]" % (np.asarray(A).dtype, len(A)),
            "None" if B is None else "%s[%d]" % (np.asarray(B).dtype, len(B)), rho, T, nfft,
            rel(got, ref) if got.shape == ref.shape else float("inf"))]
    return []


# ---- class glue + scaling ----------------------------------------------------------------------------

def impl_glue(p):
    o = C.make(p["cls"], p["x"], p["nfft"], p["fs"], p["scale"], p.get("cfg"))
    return [np.asarray(o.psd)]


def model_glue(p):
    x = np.asarray(p["x"])
    nfft = C.resolved_nfft(x, p["nfft"])
    raw = C.raw_two_sided(p["cls"], x, nfft, p["fs"], p.get("cfg"))
    return C.glue_request(p["cls"], raw, np.isrealobj(x), nfft, p["scale"], p["fs"])


def oracle_glue(p):
    x = np.asarray(p["x"])
    cls, nfft_arg, fs = p["cls"], p["nfft"], p["fs"]
    out = []
    o0 = C.make(cls, x, nfft_arg, fs, False, p.get("cfg"))
    o1 = C.make(cls, x, nfft_arg, fs, True, p.get("cfg"))
    a0, a1 = np.asarray(o0.psd), np.asarray(o1.psd)
    nfft = C.resolved_nfft(x, nfft_arg)
    df = fs / nfft
    if abs(o1.df - df) > 1e-12 * df or abs(o0.df - df) > 1e-12 * df:
        out.append("%s: df = %r, expected sampling/NFFT = %r (NFFT=%d)" % (cls, o1.df, df, nfft))
    if a0.shape != a1.shape or rel(a1, a0 * TWO_PI_over(df)) > 1e-10:
        ratio = float(np.median(a1 / a0)) / TWO_PI_over(df) if a0.shape == a1.shape else float("nan")
        out.append("%s (%s, NFFT=%s, sampling=%g): scale_by_freq=True is not the unscaled estimate times 2*pi/df once "
                   "(observed factor / expected = %.6f)" % (cls, "complex" if np.iscomplexobj(x) else "real", nfft_arg, fs, ratio))
    # changing the sampling frequency with scaling off
    cfac = p["c"]
    o2 = C.make(cls, x, nfft_arg, cfac * fs, False, p.get("cfg"))
    a2 = np.asarray(o2.psd)
    f0, f2 = np.asarray(o0.frequencies()), np.asarray(o2.frequencies())
    if f0.shape != f2.shape or rel(f2, cfac * f0) > 1e-12:
        out.append("%s: frequency axis is not rescaled proportionally to the sampling frequency" % cls)
    if cls in C.AR_FAMILY:
        if a2.shape != a0.shape or rel(a2, a0 / cfac) > 1e-10:
            out.append("%s: model spectrum is not divided by the sampling factor (ratio %.6g, expected %.6g)" % (
                cls, float(np.median(a0 / a2)) if a2.shape == a0.shape else float("nan"), cfac))
    elif cls in C.FOURIER_FAMILY:
        if a2.shape != a0.shape or rel(a2, a0) > 1e-10:
            out.append("%s: values change with the sampling frequency although scaling is off" % cls)
    return out


def oracle_funcscale(p):
    """speriodogram(scale_by_freq=True) and FourierSpectrum(...).periodogram(): the unscaled estimate times 2*pi/df once"""
    sp = C.sp()
    x = np.asarray(p["x"])
    nfft, fs = p["nfft"], p["fs"]
    out = []
    a0 = np.asarray(sp.speriodogram(x, NFFT=nfft, detrend=False, scale_by_freq=False, sampling=fs, window="hamming"))
    a1 = np.asarray(sp.speriodogram(x, NFFT=nfft, detrend=False, scale_by_freq=True, sampling=fs, window="hamming"))
    fac = C.TWO_PI / (fs / nfft)
    if a0.shape != a1.shape or rel(a1, a0 * fac) > 1e-10:
        out.append("speriodogram(scale_by_freq=True, N=%d, NFFT=%d, sampling=%g) is not the unscaled periodogram times 2*pi/df "
                   "(observed/expected factor %.6f)" % (len(x), nfft, fs, float(np.median(a1 / a0)) / fac if a0.shape == a1.shape else float("nan")))
    f0 = sp.FourierSpectrum(x, sampling=fs, NFFT=nfft, window="hamming", scale_by_freq=False)
    f0.periodogram()
    f1 = sp.FourierSpectrum(x, sampling=fs, NFFT=nfft, window="hamming", scale_by_freq=True)
    f1.periodogram()
    b0, b1 = np.asarray(f0.psd), np.asarray(f1.psd)
    if b0.shape != b1.shape or rel(b1, b0 * fac) > 1e-10:
        out.append("FourierSpectrum.periodogram() with scale_by_freq=True is not the unscaled estimate times 2*pi/df (N=%d NFFT=%d)" % (len(x), nfft))
    return out


def TWO_PI_over(df):
    return C.TWO_PI / df


def _key(p):
    if "cls" in p:
        x = np.asarray(p["x"])
        return "%s|%d|%s|%s|%s|%s|%d" % (p["cls"], len(x), p["nfft"], p["fs"], p["scale"], np.iscomplexobj(x), hash(x.tobytes()) & 0xFFFFF)
    return "a2p|%s|%s|%s|%s" % (p["nfft"], None if p["A"] is None else np.asarray(p["A"]).tobytes().hex()[:16],
                                None if p["B"] is None else np.asarray(p["B"]).tobytes().hex()[:16], p["rho"])


KINDS = {
    "funcscale": {"oracle": oracle_funcscale, "key": lambda p: "fs|%d|%d|%g" % (len(p["x"]), p["nfft"], p["fs"]), "tags": lambda p: ["funcscale"]},
    "arma2psd": {"impl": impl_a2p, "model": model_a2p, "oracle": oracle_a2p, "rtol": 1e-9, "atol": 1e-300, "key": _key,
                 "tags": lambda p: ["a2p:A-%s/B-%s" % ("None" if p["A"] is None else np.asarray(p["A"]).dtype.kind,
                                                      "None" if p["B"] is None else np.asarray(p["B"]).dtype.kind)]},
    "glue": {"impl": impl_glue, "model": model_glue, "oracle": oracle_glue, "rtol": 1e-9, "atol": 1e-300, "key": _key,
             "tags": lambda p: ["cls:" + p["cls"], "complex" if np.iscomplexobj(p["x"]) else "real", "nfft:%s" % (
                 p["nfft"] if not isinstance(p["nfft"], int) else ("odd" if p["nfft"] % 2 else "even")), "scale:%s" % p["scale"]]},
}


def gen(rng, nrng, tier):
    n = 120 if tier == "quick" else 1500
    for i in range(n):
        pa = int(nrng.integers(1, 6))
        qa = int(nrng.integers(1, 6))
        kindA = i % 4   # 0 real, 1 complex, 2 None, 3 real
        kindB = (i // 4) % 4
        A = None if kindA == 2 else (nrng.standard_normal(pa) * 0.4 + (1j * nrng.standard_normal(pa) * 0.4 if kindA == 1 else 0))
        B = None if kindB == 2 else (nrng.standard_normal(qa) * 0.4 + (1j * nrng.standard_normal(qa) * 0.4 if kindB == 1 else 0))
        if A is None and B is None:
            A = nrng.standard_normal(pa) * 0.4
        nfft = int(nrng.integers(max(pa, qa) + 1, 40))
        yield ("arma2psd", {"A": A, "B": B, "rho": float(nrng.uniform(0.1, 3)), "T": float(10 ** nrng.uniform(-2, 2)), "nfft": nfft})
    # long FFTs, the same NFFT requested repeatedly with shrinking / growing coefficient vectors (work buffers must not leak)
    for nfft in ((1024, 1025) if tier == "quick" else (1024, 1025, 2048)):
        for ln in (6, 3, 1, 4, 2, 5):
            A = nrng.standard_normal(ln) * 0.3
            B = nrng.standard_normal(max(1, 7 - ln)) * 0.3
            yield ("arma2psd", {"A": A, "B": B, "rho": 1.5, "T": 2.0, "nfft": nfft})
            yield ("arma2psd", {"A": A, "B": None, "rho": 1.0, "T": 1.0, "nfft": nfft})
    # coefficient vectors with exact zeros at the front, at the back and inside (a zero coefficient is a coefficient)
    for i in range(12 if tier == "quick" else 120):
        pa = int(nrng.integers(2, 6))
        A = nrng.standard_normal(pa) * 0.4 + (1j * nrng.standard_normal(pa) * 0.4 if i % 2 else 0)
        B = nrng.standard_normal(pa) * 0.4
        tgt = [A, B][(i // 2) % 2]
        pos = [0, pa - 1, pa // 2][(i // 4) % 3]
        tgt[pos] = 0
        if i % 6 == 5:
            tgt[: pa - 1] = 0
        yield ("arma2psd", {"A": A, "B": B if i % 3 else None, "rho": 1.0, "T": 1.0, "nfft": [16, 17, 33][i % 3]})
    # exactly real coefficients stored in complex arrays, odd and even NFFT
    for i in range(12 if tier == "quick" else 100):
        pa = int(nrng.integers(1, 6))
        A = (nrng.standard_normal(pa) * 0.4).astype(complex)
        B = (nrng.standard_normal(pa) * 0.4).astype(complex) if i % 2 else None
        yield ("arma2psd", {"A": A, "B": B, "rho": 1.0, "T": 1.0, "nfft": [31, 32, 45, 64, 49, 98][i % 6]})
    for i in range(10 if tier == "quick" else 100):
        cplx = bool(i % 2)
        N = [30, 31, 64][i % 3]
        yield ("funcscale", {"x": C.test_data(nrng, N, cplx), "nfft": [N, 2 * N, 2 * N + 1, N + 7][i % 4], "fs": float(10 ** nrng.uniform(-2, 5))})
    m = 84 if tier == "quick" else 1200
    for i in range(m):
        cls = C.CLASSES[i % len(C.CLASSES)]
        cplx = bool((i // len(C.CLASSES)) % 2)
        N = [30, 31, 40][i % 3]
        x = C.test_data(nrng, N, cplx)
        nfft = [None, "nextpow2", 64, 45, 127, 48][(i // 2) % 6]
        fs = float(10 ** nrng.uniform(-2, 5))
        q = {"cls": cls, "x": x, "nfft": nfft, "fs": fs, "scale": bool(i % 2), "c": float(nrng.choice([2.0, 250.0, 0.5]))}
        if (i // 7) % 2:
            q["cfg"] = C.random_cfg(nrng, cls, N, boundary=(i % 5 == 4))
            need = C.min_nfft(cls, N, q["cfg"])
            if isinstance(nfft, int) and nfft < need:
                q["nfft"] = need
            elif not isinstance(nfft, int) and C.resolved_nfft(x, nfft) < need:
                q["nfft"] = need
        yield ("glue", q)
