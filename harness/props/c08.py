"""C08  Sampling-rate and scale_by_freq normalisation is uniform."""
import zlib

import numpy as np

import proto
import classes as C
from common import rel

TRUSTED_BASE = [
    "numpy.fft is the DFT parameter (arma2psd); float mode rtol 1e-9",
    "class glue correspondence: the raw two-sided unscaled estimate is taken from the functional API of the implementation "
    "(each functional estimator is tied to the model under its own property) and the model applies the class glue "
    "(slice / double / reverse, then scale() once with df = sampling/NFFT)",
    "pminvar (kind mvglue): the raw estimate is NOT taken from the implementation: the model's own minimum-variance estimator "
    "(Burg model, psi sequence, sampling / Re FFT psi) computes it from the data and the sampling frequency, the model's class glue "
    "folds / scales it; float mode rtol 1e-7 (the tolerance of the minvar correspondence of C16)",
    "option variants (kind opts): the raw estimate comes from the functional API called with the same option "
    "(aryule(norm=), arburg(criteria=), pmtm(e=, v=), music(threshold=), ev(criteria=)); Periodogram(detrend=) is oracle-only",
    "kind hist: the fresh objects (constructor path, default layout; brought to another layout through the sides setter) are the reference "
    "of the histories; the harness's own to_layout (a one-sided value is the sum of the two two-sided values at +-f; DC / Nyquist single) "
    "carries the formula to the other layouts",
    "numpy.hamming / hanning / blackman / ones are the independent window references of the speriodogram scaling oracle",
    "kind a2pbin: numpy.longdouble (eps %.2e on this platform) cos / sin / sqrt are the reference of the per-bin enclosure of arma2psd; the "
    "enclosure allows a double precision evaluation of B(f), A(f) an absolute error of 256 eps (1 + sum|coefficients|) (worst needed by the "
    "unchanged code: 5.7 eps) and the quotient a relative 256 eps" % float(np.finfo(np.longdouble).eps),
]
PARTIAL = []
ASSUMPTIONS = ["pi is an abstract positive constant in the theorems; 2*pi = 6.283185307179586 in the correspondence",
               "pminvar is not named in the statement's two families: its estimate is sampling / (e^H R^-1 e) (property C16), so with scaling "
               "off a sampling change by c MULTIPLIES it by c; the oracle asserts exactly that",
               "scale_by_freq 'on' is the Python bool True only (quantifier: {False, True}); complex data has no one-sided representation "
               "(get_converted_psd / sides = 'onesided' are documented to be rejected there and are not generated)",
               "histories (kind hist): nothing is demanded about WHICH layout an object is in after scale_by_freq / sampling / NFFT was assigned "
               "(the library recomputes and resets it to the default one): only that psd, sides and frequencies(), read in that order, describe the "
               "same function of frequency and that it is the one of the statement.  frequencies() called between such an assignment and the next "
               "read of psd is executed but not compared (it still reports the old layout on the unchanged tree: candidate finding, "
               "/tmp/finding_C08.py, marked RULING (DESIGN 0.9: frequencies() follows the current `sides` attribute and does not recompute; a psd read that recomputes resets `sides`; the properties observe psd first) in the module); sampling values assigned in a history stay inside (1e-2, 1e5), except the questionable ones of template try, "
               "which are replaced by the last valid value before anything is observed (whether the library accepts or refuses them is not C08's business: "
               "only that nothing of them is left once a valid value has been assigned again)",
               "arma2psd bin by bin (a2pbin): AR parts with |A(f)| < 2e-10 at a grid frequency are redrawn (a pole of the spectrum ON the grid has "
               "no value to compare); zeros of B exactly on the grid are kept (the value there is 0 or ~1e-32 and must come out as >= 0 "
               "and at most the rounding enclosure)"]
RULE = ("all 14 estimator class variants x real/complex data x NFFT in {None, nextpow2, even, odd, below N} x N in {8, 9, 30, 31, 32, 40, 64} x "
        "sampling in (1e-2, 1e5) (float and int) x scale_by_freq in {False, True}, given as constructor keyword, by attribute assignment "
        "after a computed psd, with repeated explicit calls, and read through sides / get_converted_psd; option variants (pyule norm, "
        "pburg criteria, MultiTapering(e, v), pmusic/pev NSIG=None with threshold / criteria, Periodogram detrend); speriodogram 1-D / 2-D, "
        "detrend on/off, four windows, NFFT below / at / above N and default; arma2psd with random real/complex/mixed-dtype A, B "
        "(ndarray float/complex/int, list, tuple, empty, None), int/float rho, T incl. 1e-6 / 1e5, keyword / positional / default NFFT, "
        "NFFT > max(len) incl. the boundary max(len)+1, len up to 50; arma2psd BIN BY BIN (kind a2pbin, every bin against an enclosure of its own "
        "value (rho/T)|B|^2/|A|^2 computed in longdouble, no max-norm): MA / ARMA / AR models whose zeros and poles lie 1e-2 .. 1e-9 from the "
        "unit circle (and zeros exactly on it) at angles on, or 1e-6 .. 0.5 bin away from, a grid frequency (DC, Nyquist, quarter, random bin): "
        "notches [-2r cos th, r^2], single real / complex zeros, notch filters with pulled-in or random AR part, near-circle resonances, "
        "pole + zero, near-circle zero times a random factor, random models; real and complex, ndarray and list, NFFT 4..64 and "
        "100..4097; per bin also: finite, never negative, T -> c*T divides and rho -> c*rho multiplies every bin (nulls included) by one factor; "
        "HISTORIES ON ONE OBJECT (kind hist): all 14 class variants x real/complex (NFFT 64 / 45 / None / nextpow2 / 127 / 48, default and random "
        "configurations in the thorough tier; also the option variants: 6 of the 34 combinations per quick run, all in the thorough tier), a second "
        "object of the class kept alive in a non-default layout must come out untouched: the estimate is computed, the object is put in a non-default layout (sides = twosided / centerdc for "
        "real data, centerdc for complex data, 'default'), then scale_by_freq is flipped (either direction, twice without a read in between, to the "
        "value it has), sampling re-assigned (float and int, and back), NFFT changed (and back), in every order, before the first computation, "
        "interleaved with psd / o() / run() / get_converted_psd / frequencies reads and with rejected assignments (unknown sides, NFFT 0 / 2.5, "
        "complex one-sided), seven templates + a random walk over the same alphabet; at every observation psd (read first), sides, frequencies(), "
        "df, the attributes and get_converted_psd(L) / frequencies(L) for every layout are compared with a fresh object built with the final values "
        "(template try, every class variant x real/complex in the quick tier: QUESTIONABLE assignments the library may accept or refuse -- sampling = 0 / 0.0 / "
        "-100.0 / -sampling / nan / +-inf / a string / None, NFFT = -3 / a string, scale_by_freq = 'yes' / None --, alone or followed by a psd read at that "
        "value, inside try/except, each immediately followed by re-assigning the last valid value of that attribute, then an NFFT change / a flip / "
        "another sampling frequency / nothing, fixed part + random walk: the final values are valid in both cases and df, frequencies() of every "
        "layout, psd and the 2*pi/df factor must be those of the fresh object; a df that is nan is reported) "
        "and brought to the claimed layout, and with the formula (fresh unscaled estimate x sampling factor x 2*pi/df once), the values paired with "
        "frequencies() by frequency bin; len(psd) == len(frequencies()); bin-wise rtol 1e-12")


def c(v):
    return np.asarray(v).astype(complex).ravel()


# ---- arma2psd ---------------------------------------------------------------------------------------

def impl_a2p(p):
    return [np.asarray(C.sp().arma2psd(A=p["A"], B=p["B"], rho=p["rho"], T=p["T"], NFFT=p["nfft"]))]


def model_a2p(p):
    A, B = p["A"], p["B"]
    return ("F", proto.request("arma2psd", "F", [p["nfft"], 0 if A is None else 1, 0 if B is None else 1],
                               [A if A is not None else [], B if B is not None else [], [p["rho"]], [p["T"]]]))


def oracle_a2p(p):
    A, B, rho, T, nfft = p["A"], p["B"], p["rho"], p["T"], p["nfft"]
    got = impl_a2p(p)[0]
    k = np.arange(nfft)
    z = np.exp(-2j * np.pi * k / nfft)
    Af = 1 + sum(A[i] * z ** (i + 1) for i in range(len(A))) if A is not None else np.ones(nfft)
    Bf = 1 + sum(B[i] * z ** (i + 1) for i in range(len(B))) if B is not None else np.ones(nfft)
    ref = rho / T * np.abs(Bf) ** 2 / np.abs(Af) ** 2
    if got.shape != ref.shape or np.iscomplexobj(got) or rel(got, ref) > 1e-9:
        return ["arma2psd(A %s, B %s, rho=%g, T=%g, NFFT=%d) != (rho/T)|B|^2/|A|^2: %.2e" % (
            "None" if A is None else "%s[%d]" % (np.asarray(A).dtype, len(A)),
            "None" if B is None else "%s[%d]" % (np.asarray(B).dtype, len(B)), rho, T, nfft,
            rel(got, ref) if got.shape == ref.shape else float("inf"))]
    return []


# arma2psd, other input forms.  The parameters hold plain arrays (or None) plus `form`: how they are handed to the function.
#   form = "<A-form>/<B-form>/<call>"; A-form, B-form in {array, list, tuple}; call in {kw, pos, default, none}
#   (default: NFFT omitted -> 4096; none: NFFT=None -> 4096; both are oracle-only, the model's DFT is too slow at 4096)

def _as_form(v, form):
    if v is None or form == "array":
        return v
    items = np.asarray(v).tolist()          # Python int / float / complex scalars
    return items if form == "list" else tuple(items)


def _call_a2p_form(p):
    fa, fb, call = p["form"].split("/")
    A, B = _as_form(p["A"], fa), _as_form(p["B"], fb)
    f = C.sp().arma2psd
    if call == "pos":
        return np.asarray(f(A, B, p["rho"], p["T"], p["nfft"]))
    if call == "default":
        return np.asarray(f(A, B, rho=p["rho"], T=p["T"]))
    if call == "none":
        return np.asarray(f(A=A, B=B, rho=p["rho"], T=p["T"], NFFT=None))
    return np.asarray(f(A=A, B=B, rho=p["rho"], T=p["T"], NFFT=p["nfft"]))


def impl_a2pform(p):
    return [_call_a2p_form(p)]


def model_a2pform(p):
    if p["form"].split("/")[2] in ("default", "none"):
        return None
    A, B = p["A"], p["B"]
    return ("F", proto.request("arma2psd", "F", [p["nfft"], 0 if A is None else 1, 0 if B is None else 1],
                               [np.asarray(A, dtype=complex) if A is not None else [],
                                np.asarray(B, dtype=complex) if B is not None else [], [float(p["rho"])], [float(p["T"])]]))


def oracle_a2pform(p):
    A, B, rho, T = p["A"], p["B"], p["rho"], p["T"]
    nfft = 4096 if p["form"].split("/")[2] in ("default", "none") else p["nfft"]
    got = _call_a2p_form(p)
    k = np.arange(nfft)
    z = np.exp(-2j * np.pi * k / nfft)
    Af = np.ones(nfft, dtype=complex)
    Bf = np.ones(nfft, dtype=complex)
    for i in range(0 if A is None else len(A)):
        Af = Af + complex(A[i]) * z ** (i + 1)
    for i in range(0 if B is None else len(B)):
        Bf = Bf + complex(B[i]) * z ** (i + 1)
    ref = float(rho) / float(T) * np.abs(Bf) ** 2 / np.abs(Af) ** 2
    if got.shape != ref.shape or np.iscomplexobj(got) or rel(got, ref) > 1e-9:
        return ["arma2psd(%s; A %s, B %s, rho=%r, T=%r, NFFT=%d) != (rho/T)|B|^2/|A|^2 on k/NFFT: %s" % (
            p["form"], "None" if A is None else "%s[%d]" % (np.asarray(A).dtype, len(A)),
            "None" if B is None else "%s[%d]" % (np.asarray(B).dtype, len(B)), rho, T, nfft,
            "%.2e" % rel(got, ref) if got.shape == ref.shape else "length %d" % got.size)]
    return []


# arma2psd, bin by bin.  The two kinds above compare in max-norm relative to the PEAK of the spectrum: a value that is wrong only in
# a bin lying 100 dB below the peak (a spectral null: zero of B(z) next to the unit circle at a grid frequency) is invisible there.
# Kind a2pbin compares EVERY bin with an enclosure of its own true value.
#
# Reference: B(f_k) = 1 + sum_i b_i e^{-2 pi j k (i+1)/NFFT} (and A likewise) summed term by term in numpy.longdouble, the angle
# reduced exactly in integers (k(i+1) mod NFFT, then to a quarter turn so that 0 / +-1 twiddles are exact): no FFT, no squaring of
# anything before the sum, absolute error ~ eps_LD * (1 + sum|b|) (1e-19 here), i.e. it resolves a null of depth |B| = 1e-9 to 1e-10.
# Enclosure: a double precision evaluation of the polynomial on the grid returns B_k + e, |e| <= dB = K*eps*(1 + sum|b|)
# (backward-stable DFT / Horner / direct sum all satisfy this with a small K), hence |B|^2 in [max(|B_k|-dB, 0)^2, (|B_k|+dB)^2];
# same for A; the quotient times rho/T carries a further relative K*eps.  This is the "eps/sqrt(D)" conditioning of a bin D below
# the peak written as an interval (it stays meaningful when the null is an exact zero: 0 <= value <= (rho/T) dB^2/|A|^2).
# K: the smallest K (stepped by sqrt 2) that encloses every bin of the UNCHANGED arma2psd was measured over ~7000 models (the families
# of gen_a2pbin, 6 thorough + 5 quick seeds, + models with up to 50 coefficients, NFFT up to 8192 incl. primes 4099 / 8191):
# worst 5.7 (NFFT = 4097, Bluestein); A2P_K = 256 leaves a margin of 45x.  (The seeded numerator-through-autocorrelation change
# needs K >= 1e7 in a null 120 dB down.)
A2P_K = 256.0
_LD = np.longdouble
_EPS = float(np.finfo(float).eps)
_EPS_LD = float(np.finfo(np.longdouble).eps)     # 1.08e-19 (x87 extended); enters the enclosure so that a platform whose
                                                 # longdouble is a plain double widens the bound instead of raising false alarms


def _grid_poly_ld(cf, nfft):
    """Re, Im of 1 + sum_i cf[i] exp(-2j pi k (i+1) / nfft), k = 0..nfft-1, in longdouble (cf None: the constant 1)"""
    re = np.ones(nfft, dtype=_LD)
    im = np.zeros(nfft, dtype=_LD)
    if cf is None:
        return re, im
    half_pi = np.arccos(_LD(-1)) / _LD(2)
    k = np.arange(nfft, dtype=np.int64)
    for i in range(len(cf)):
        j4 = 4 * ((k * (i + 1)) % nfft)                  # exact: angle = (j4 / nfft) quarter turns
        q = j4 // nfft
        phi = half_pi * (j4 - q * nfft).astype(_LD) / _LD(nfft)      # in [0, pi/2)
        cc, ss = np.cos(phi), np.sin(phi)
        co = np.where(q == 0, cc, np.where(q == 1, -ss, np.where(q == 2, -cc, ss)))
        si = np.where(q == 0, ss, np.where(q == 1, cc, np.where(q == 2, -ss, -cc)))
        zc = complex(cf[i])
        a, b = _LD(zc.real), _LD(zc.imag)
        re = re + a * co + b * si                        # (a + jb)(co - j si)
        im = im + b * co - a * si
    return re, im


def a2p_enclosure(A, B, rho, T, nfft, K=A2P_K):
    """(ref, lo, hi) per bin, longdouble: the value (rho/T)|B|^2/|A|^2 and the interval any K-stable double evaluation lies in"""
    br, bi = _grid_poly_ld(B, nfft)
    ar, ai = _grid_poly_ld(A, nfft)
    mB, mA = np.sqrt(br * br + bi * bi), np.sqrt(ar * ar + ai * ai)
    u = K * _EPS + 64 * _EPS_LD
    dB = _LD(0 if B is None else u * (1.0 + float(np.sum(np.abs(np.asarray(B, dtype=complex))))))
    dA = _LD(0 if A is None else u * (1.0 + float(np.sum(np.abs(np.asarray(A, dtype=complex))))))
    sc = _LD(float(rho)) / _LD(float(T))
    with np.errstate(all="ignore"):
        ref = sc * mB ** 2 / mA ** 2
        lo = sc * np.maximum(mB - dB, 0) ** 2 / (mA + dA) ** 2 * (1 - _LD(u))
        hi = np.where(mA > dA, sc * (mB + dB) ** 2 / np.maximum(mA - dA, _LD(0)) ** 2 * (1 + _LD(u)), _LD(np.inf))
    return ref, lo, hi


def _a2p_call(p, rho=None, T=None):
    A, B = p["A"], p["B"]
    if p.get("aslist"):
        A, B = _as_form(A, "list"), _as_form(B, "list")
    return np.asarray(C.sp().arma2psd(A=A, B=B, rho=p["rho"] if rho is None else rho, T=p["T"] if T is None else T, NFFT=p["nfft"]))


def oracle_a2pbin(p):
    A, B, rho, T, nfft = p["A"], p["B"], p["rho"], p["T"], p["nfft"]
    what = "arma2psd(A %s, B %s, rho=%r, T=%r, NFFT=%d) [%s]" % (
        "None" if A is None else "%s[%d]" % (np.asarray(A).dtype, len(A)),
        "None" if B is None else "%s[%d]" % (np.asarray(B).dtype, len(B)), rho, T, nfft, p.get("fam", ""))
    got = _a2p_call(p)
    if got.shape != (nfft,) or np.iscomplexobj(got):
        return ["%s: returns shape %s dtype %s, expected %d real values" % (what, got.shape, got.dtype, nfft)]
    out = []
    ref, lo, hi = a2p_enclosure(A, B, rho, T, nfft)
    g = got.astype(_LD)
    sure = np.isfinite(hi)            # bins whose denominator is certainly non-zero (everywhere, for the generated models)
    nonfin = sure & ~np.isfinite(got)
    neg = np.isfinite(got) & (got < 0)
    if np.any(nonfin):
        k = int(np.argmax(nonfin))
        out.append("%s: bin %d is %r where (rho/T)|B|^2/|A|^2 = %.17g" % (what, k, float(got[k]), float(ref[k])))
    if np.any(neg):
        k = int(np.argmin(np.where(neg, got, 0)))
        out.append("%s: bin %d (f = %d/%d) is NEGATIVE: %.17g where (rho/T)|B|^2/|A|^2 = %.17g >= 0" % (
            what, k, k, nfft, float(got[k]), float(ref[k])))
    with np.errstate(all="ignore"):
        outside = sure & np.isfinite(got) & ~neg & ((g < lo) | (g > hi))
        if np.any(outside):
            err = np.where(outside, np.abs(g - ref) / np.where(ref > 0, ref, _LD(1)), 0)
            k = int(np.argmax(err))
            allowed = max(float(hi[k] - ref[k]), float(ref[k] - lo[k]))
            peak = float(np.max(np.where(np.isfinite(ref), ref, 0)))
            out.append("%s != (rho/T)|B|^2/|A|^2 in bin %d (f = %d/%d, %.0f dB below the peak): returned %.17g, formula %.17g, "
                       "error %.3e (rel. %.3e) where a double precision evaluation of B(f), A(f) is within %.3e (rel. %.3e); %d bin(s) outside" % (
                           what, k, k, nfft, 10 * np.log10(peak / float(ref[k])) if ref[k] > 0 else float("inf"), float(got[k]), float(ref[k]),
                           float(abs(g[k] - ref[k])), float(err[k]) if ref[k] > 0 else float("nan"), allowed,
                           allowed / float(ref[k]) if ref[k] > 0 else float("nan"), int(np.sum(outside))))
    # sampling clause and noise variance, bin by bin (nulls included): one scalar factor per bin.  The unchanged code forms rho / T
    # first and multiplies: x*(rho/(cT)) against x*(rho/T)/c differs by <= 3 roundings (worst measured on the unchanged tree, factors 0.5 .. 250, ~1000 models: 6.5e-16); 2.5e-14 is 38x that.
    cfac = p.get("c", 4.0)
    ok = np.isfinite(got)
    for name, g2, fac in (("T -> %g*T divides" % cfac, _a2p_call(p, T=cfac * T), 1.0 / cfac),
                          ("rho -> %g*rho multiplies" % cfac, _a2p_call(p, rho=cfac * rho), cfac)):
        if g2.shape != got.shape or not close(g2[ok], got[ok] * fac, 2.5e-14):
            out.append("%s: %s every bin by the same factor: violated (%s)" % (what, name, worst(g2, got * fac)))
    return out


# ---- class glue + scaling ----------------------------------------------------------------------------

SIDES =("twosided", "centerdc", "onesided")


def close(a, b, tol=1e-10):
    """element-wise: every |a_k - b_k| <= tol |b_k| (the relations checked with it are one scalar multiplication per bin)"""
    a, b = np.asarray(a), np.asarray(b)
    if a.shape != b.shape or not (np.all(np.isfinite(a)) and np.all(np.isfinite(b))):
        return False
    return bool(np.all(np.abs(a - b) <= tol * np.abs(b)))


def worst(a, b):
    a, b = np.asarray(a), np.asarray(b)
    if a.shape != b.shape:
        return "lengths %s / %s" % (a.shape, b.shape)
    with np.errstate(all="ignore"):
        r = a / b
    r = r[np.isfinite(r)]
    return "observed / expected in [%.6g, %.6g]" % (float(np.min(r)), float(np.max(r))) if r.size else "no finite ratio"


def samp_factor(cls, cfac):
    """estimate(c * sampling) / estimate(sampling) with scaling off: 1/c for the AR / MA / ARMA model spectra, 1 for periodogram,
    correlogram, multitaper and subspace estimates, c for the minimum-variance estimate (sampling / (e^H R^-1 e), C16)"""
    base = cls.split(":")[0]
    if base in C.AR_FAMILY:
        return 1.0 / cfac
    if base == "pminvar":
        return float(cfac)
    if base in C.FOURIER_FAMILY or base.startswith("MT"):
        return 1.0
    raise ValueError(cls)


def axis_bins(sd, nfft):
    if sd == "twosided":
        return np.arange(nfft)
    if sd == "centerdc":
        return np.arange(nfft) - nfft // 2
    return np.arange(nfft // 2 + 1 if nfft % 2 == 0 else (nfft + 1) // 2)


def check_axes(tag, o, isreal, nfft, fs):
    """absolute frequency axes: bin * sampling / NFFT for the three representations, and the default one next to the psd"""
    out = []
    for sd in SIDES + (None,):
        f = np.asarray(o.frequencies(sd) if sd else o.frequencies(), dtype=float)
        ref = axis_bins(sd or ("onesided" if isreal else "twosided"), nfft) * float(fs) / nfft
        if f.shape != ref.shape or not np.all(np.abs(f - ref) <= 1e-12 * abs(float(fs))):
            out.append("%s: frequencies(%s) at sampling=%r, NFFT=%d is not bin*sampling/NFFT (%s)" % (
                tag, repr(sd) if sd else "", fs, nfft,
                "length %d, expected %d" % (f.size, ref.size) if f.shape != ref.shape else
                "max deviation %.3e" % float(np.max(np.abs(f - ref)))))
    return out


def impl_glue(p):
    o = C.make(p["cls"], p["x"], p["nfft"], p["fs"], p["scale"], p.get("cfg"))
    return [np.asarray(o.psd)]


def model_glue(p):
    x = np.asarray(p["x"])
    nfft = C.resolved_nfft(x, p["nfft"])
    raw = C.raw_two_sided(p["cls"], x, nfft, p["fs"], p.get("cfg"))
    return C.glue_request(p["cls"], raw, np.isrealobj(x), nfft, p["scale"], p["fs"])


def oracle_glue(p):
    x = np.asarray(p["x"])
    cls, nfft_arg, fs = p["cls"], p["nfft"], p["fs"]
    out = []
    o0 = C.make(cls, x, nfft_arg, fs, False, p.get("cfg"))
    o1 = C.make(cls, x, nfft_arg, fs, True, p.get("cfg"))
    a0, a1 = np.asarray(o0.psd), np.asarray(o1.psd)
    nfft = C.resolved_nfft(x, nfft_arg)
    df = fs / nfft
    if abs(o1.df - df) > 1e-12 * df or abs(o0.df - df) > 1e-12 * df:
        out.append("%s: df = %r, expected sampling/NFFT = %r (NFFT=%d)" % (cls, o1.df, df, nfft))
    if a0.shape != a1.shape or rel(a1, a0 * TWO_PI_over(df)) > 1e-10:
        ratio = float(np.median(a1 / a0)) / TWO_PI_over(df) if a0.shape == a1.shape else float("nan")
        out.append("%s (%s, NFFT=%s, sampling=%g): scale_by_freq=True is not the unscaled estimate times 2*pi/df once "
                   "(observed factor / expected = %.6f)" % (cls, "complex" if np.iscomplexobj(x) else "real", nfft_arg, fs, ratio))
    # changing the sampling frequency with scaling off
    cfac = p["c"]
    o2 = C.make(cls, x, nfft_arg, cfac * fs, False, p.get("cfg"))
    a2 = np.asarray(o2.psd)
    f0, f2 = np.asarray(o0.frequencies()), np.asarray(o2.frequencies())
    if f0.shape != f2.shape or rel(f2, cfac * f0) > 1e-12:
        out.append("%s: frequency axis is not rescaled proportionally to the sampling frequency" % cls)
    if cls in C.AR_FAMILY:
        if a2.shape != a0.shape or rel(a2, a0 / cfac) > 1e-10:
            out.append("%s: model spectrum is not divided by the sampling factor (ratio %.6g, expected %.6g)" % (
                cls, float(np.median(a0 / a2)) if a2.shape == a0.shape else float("nan"), cfac))
    elif cls in C.FOURIER_FAMILY:
        if a2.shape != a0.shape or rel(a2, a0) > 1e-10:
            out.append("%s: values change with the sampling frequency although scaling is off" % cls)
    elif cls == "pminvar":
        # minimum variance: sampling / (e^H R^-1 e)  (C16) -> multiplied by the sampling factor
        if a2.shape != a0.shape or rel(a2, a0 * cfac) > 1e-10:
            out.append("pminvar: the minimum-variance estimate sampling/(e^H R^-1 e) is not multiplied by the sampling factor "
                       "(ratio %.6g, expected %.6g)" % (float(np.median(a2 / a0)) if a2.shape == a0.shape else float("nan"), cfac))
    else:
        out.append("%s: no sampling rule known to the oracle" % cls)
    # every class, element-wise (the sampling dependence is one scalar factor per bin), scaled and unscaled
    sf = samp_factor(cls, cfac)
    if not close(a2, a0 * sf):
        out.append("%s: bin-wise, estimate(%g*sampling) is not %.6g * estimate(sampling) with scaling off (%s)" % (
            cls, cfac, sf, worst(a2, a0 * sf)))
    a3 = np.asarray(C.make(cls, x, nfft_arg, cfac * fs, True, p.get("cfg")).psd)
    if not close(a3, a0 * sf * (C.TWO_PI / (cfac * fs / nfft))):
        out.append("%s: scaled estimate at %g*sampling is not the unscaled one at sampling times %.6g * 2*pi/df' (%s)" % (
            cls, cfac, sf, worst(a3, a0 * sf * (C.TWO_PI / (cfac * fs / nfft)))))
    # absolute frequency axes in the three representations, before and after the sampling change
    isreal = np.isrealobj(x)
    out += check_axes(cls, o0, isreal, nfft, fs)
    out += check_axes(cls, o1, isreal, nfft, fs)
    out += check_axes(cls, o2, isreal, nfft, cfac * fs)
    if a0.shape != np.shape(f0):
        out.append("%s: default frequencies() has %d points, psd %d" % (cls, np.size(f0), a0.size))
    return out


# pminvar with the raw estimate computed by the model itself (Burg -> psi -> sampling / Re FFT psi), then the model's class glue

def impl_mvglue(p):
    o = C.sp().pminvar(p["x"], p["order"], NFFT=p["nfft"], sampling=p["fs"], scale_by_freq=p["scale"])
    return [np.asarray(o.psd)]


def model_mvglue(p):
    x = np.asarray(p["x"])
    nfft = C.resolved_nfft(x, p["nfft"])
    rep = proto.run_driver([proto.request("minvarx", "F", [p["order"], nfft], [x, [p["fs"]]])])
    st, val = proto.parse_reply(rep[0], "F")
    if st != "ok":
        raise RuntimeError("model minvar rejects the input: %s" % val)
    return C.glue_request("pminvar", val[0], np.isrealobj(x), nfft, p["scale"], p["fs"])


def oracle_mvglue(p):
    """statement on pminvar alone: df, one scaling, sampling factor c (element-wise)"""
    x = np.asarray(p["x"])
    nfft = C.resolved_nfft(x, p["nfft"])
    s = C.sp()
    fs, cfac = p["fs"], p["c"]

    def mk(f, sc):
        return s.pminvar(x, p["order"], NFFT=p["nfft"], sampling=f, scale_by_freq=sc)
    return check_class("pminvar(order %d)" % p["order"], "pminvar", mk, np.isrealobj(x), nfft, fs, cfac)


def check_class(tag, cls, mk, isreal, nfft, fs, cfac):
    """the statement for one way `mk(sampling, scale_by_freq)` of building an estimator object"""
    out = []
    o0, o1, o2, o3 = mk(fs, False), mk(fs, True), mk(cfac * fs, False), mk(cfac * fs, True)
    a0, a1, a2, a3 = [np.array(o.psd) for o in (o0, o1, o2, o3)]
    df = fs / nfft
    for o, d in ((o0, df), (o1, df), (o2, cfac * df), (o3, cfac * df)):
        if abs(o.df - d) > 1e-12 * d:
            out.append("%s: df = %r, expected sampling/NFFT = %r (NFFT=%d)" % (tag, o.df, d, nfft))
    n_exp = C.expected_len(isreal, nfft)
    if a0.shape != (n_exp,):
        out.append("%s: psd has %s values, expected %d (NFFT=%d, %s data)" % (tag, a0.shape, n_exp, nfft, "real" if isreal else "complex"))
    if not close(a1, a0 * (C.TWO_PI / df)):
        out.append("%s (NFFT=%d, sampling=%g): scale_by_freq=True is not the unscaled estimate times 2*pi/df once (%s)" % (
            tag, nfft, fs, worst(a1, a0 * (C.TWO_PI / df))))
    sf = samp_factor(cls, cfac)
    if not close(a2, a0 * sf):
        out.append("%s: estimate(%g*sampling) is not %.6g * estimate(sampling) with scaling off (%s)" % (tag, cfac, sf, worst(a2, a0 * sf)))
    if not close(a3, a0 * sf * (C.TWO_PI / (cfac * df))):
        out.append("%s: scaled estimate at %g*sampling is not %.6g * 2*pi/df' times the unscaled one (%s)" % (
            tag, cfac, sf, worst(a3, a0 * sf * (C.TWO_PI / (cfac * df)))))
    out += check_axes(tag, o0, isreal, nfft, fs)
    out += check_axes(tag, o3, isreal, nfft, cfac * fs)
    return out


# ---- entry points other than constructor keywords --------------------------------------------------------

def oracle_entry(p):
    """scale_by_freq / sampling given by attribute assignment after a computed psd, repeated explicit calls, reads through
    sides / get_converted_psd, integer sampling: always the unscaled estimate times 2*pi/df exactly once"""
    x = np.asarray(p["x"])
    cls, nfft_arg, fs, cfac, cfg = p["cls"], p["nfft"], p["fs"], p["c"], p.get("cfg")
    isreal = np.isrealobj(x)
    nfft = C.resolved_nfft(x, nfft_arg)
    df = fs / nfft
    fac = C.TWO_PI / df
    sf = samp_factor(cls, cfac)
    tag = "%s (%s, NFFT=%s, sampling=%g)" % (cls, "real" if isreal else "complex", nfft_arg, fs)
    out = []

    def mk(f, sc):
        return C.make(cls, x, nfft_arg, f, sc, cfg)

    def want(what, got, ref):
        if not close(got, ref):
            out.append("%s: %s (%s)" % (tag, what, worst(got, ref)))

    a0 = np.array(mk(fs, False).psd)          # fresh, unscaled: the reference of every clause below
    want("fresh scale_by_freq=True object is not the unscaled estimate times 2*pi/df", np.array(mk(fs, True).psd), a0 * fac)
    # (a) scale_by_freq assigned after a computed psd, toggled back and forth
    o = mk(fs, False)
    o.psd
    o.scale_by_freq = True
    want("scale_by_freq = True assigned after a computed psd: psd is not the unscaled estimate times 2*pi/df once", np.array(o.psd), a0 * fac)
    o.scale_by_freq = False
    want("scale_by_freq = False assigned after a scaled psd: psd is not the unscaled estimate", np.array(o.psd), a0)
    o.scale_by_freq = True
    want("scale_by_freq toggled True/False/True: psd is not the unscaled estimate times 2*pi/df once", np.array(o.psd), a0 * fac)
    o = mk(fs, True)
    o.psd
    o.scale_by_freq = False
    want("scale_by_freq = False assigned to a scaled object: psd is not the unscaled estimate", np.array(o.psd), a0)
    # (b) sampling assigned after a computed psd
    for sc in (False, True):
        o = mk(fs, sc)
        o.psd
        o.sampling = cfac * fs
        d = np.array(o.psd)
        if abs(o.df - cfac * df) > 1e-12 * cfac * df:
            out.append("%s: sampling = %g*sampling assigned after a computed psd: df = %r, expected %r" % (tag, cfac, o.df, cfac * df))
        want("sampling = %g*sampling assigned after a computed psd (scale_by_freq=%s): psd is not %.6g%s times the unscaled estimate" % (
            cfac, sc, sf, " * 2*pi/df'" if sc else ""), d, a0 * sf * (C.TWO_PI / (cfac * df) if sc else 1.0))
        out += check_axes(tag + " after sampling assignment", o, isreal, nfft, cfac * fs)
        o.sampling = fs
        want("sampling assigned back (scale_by_freq=%s): psd is not the original estimate" % sc, np.array(o.psd), a0 * (fac if sc else 1.0))
    # (c) explicit repeated calls before / after reading psd
    for sc in (False, True):
        o = mk(fs, sc)
        o()
        o()
        o.run()
        want("o(); o(); o.run(); o.psd (scale_by_freq=%s) is not the unscaled estimate%s" % (sc, " times 2*pi/df once" if sc else ""),
             np.array(o.psd), a0 * (fac if sc else 1.0))
        o = mk(fs, sc)
        o.psd
        o()
        want("o.psd; o(); o.psd (scale_by_freq=%s) is not the unscaled estimate%s" % (sc, " times 2*pi/df once" if sc else ""),
             np.array(o.psd), a0 * (fac if sc else 1.0))
    # (d) every representation of the scaled object is 2*pi/df times the same representation of the unscaled one, bin-wise
    for sd in (SIDES if isreal else SIDES[:2]):
        c0 = np.array(mk(fs, False).get_converted_psd(sd))
        c1 = np.array(mk(fs, True).get_converted_psd(sd))
        want("get_converted_psd(%r) of the scaled object is not 2*pi/df times that of the unscaled one" % sd, c1, c0 * fac)
        p0, p1 = mk(fs, False), mk(fs, True)
        p0.psd
        p1.psd
        p0.sides = sd
        p1.sides = sd
        want("sides = %r: psd of the scaled object is not 2*pi/df times that of the unscaled one" % sd, np.array(p1.psd), np.array(p0.psd) * fac)
        want("sides = %r and get_converted_psd(%r) differ on the unscaled object" % (sd, sd), np.array(p0.psd), c0)
        if c0.shape != np.shape(p0.frequencies()):
            out.append("%s: sides = %r: psd has %d values, frequencies() %d" % (tag, sd, c0.size, np.size(p0.frequencies())))
    # (e) integer sampling frequency (the documented sampling=1024)
    ifs = p["ifs"]
    b0 = np.array(mk(float(ifs), False).psd)
    oi0, oi1 = mk(int(ifs), False), mk(int(ifs), True)
    want("integer sampling=%d, scaling off: not the estimate at sampling=%d.0" % (ifs, ifs), np.array(oi0.psd), b0)
    want("integer sampling=%d: scale_by_freq=True is not the unscaled estimate times 2*pi*NFFT/sampling" % ifs,
         np.array(oi1.psd), b0 * (C.TWO_PI / (float(ifs) / nfft)))
    want("integer sampling=%d: unscaled estimate is not %.6g times the one at sampling=%g" % (ifs, samp_factor(cls, ifs / fs), fs),
         b0, a0 * samp_factor(cls, float(ifs) / fs), )
    if abs(oi1.df - float(ifs) / nfft) > 1e-12 * ifs / nfft:
        out.append("%s: integer sampling=%d: df = %r, expected %r" % (tag, ifs, oi1.df, float(ifs) / nfft))
    out += check_axes(tag + " integer sampling", oi1, isreal, nfft, ifs)
    return out


# ---- histories on ONE object: layout changes, then scale_by_freq / sampling / NFFT assignments ------------------
#
# Kinds glue / entry / opts evaluate every clause on freshly constructed objects in their DEFAULT layout (one-sided for real data,
# two-sided for complex data), or flip scale_by_freq on an object that still is in that layout.  Kind hist drives ONE object through a
# history `ops` (a list of small lists, replayable from the parameters alone):
#     ["read"] o.psd   ["call"] o()   ["run"] o.run()   ["sides", s] o.sides = s   ["scale", b] o.scale_by_freq = b
#     ["fs", v] o.sampling = v   ["nfft", n] o.NFFT = n   ["conv", s] o.get_converted_psd(s) (its value is checked)
#     ["freq"] o.frequencies() (value not compared, see RULING (DESIGN 0.9: frequencies() follows the current `sides` attribute and does not recompute; a psd read that recomputes resets `sides`; the properties observe psd first) below)   ["bad", what] an assignment / call the library rejects
#     ["obs"] observe
# and at every "obs" takes a snapshot of what the object reports -- psd (read first), then sides, frequencies(), df, scale_by_freq,
# sampling, NFFT, get_converted_psd(L) / frequencies(L) for every layout L -- and compares it with
#   (a) a FRESH object constructed with the attribute values the history has assigned last, brought to the layout the object claims, and
#   (b) the formula of the statement: fresh unscaled estimate at the original sampling frequency (default layout) times the sampling
#       factor of the class family (1/c, 1, c) times 2*pi/df exactly once if scale_by_freq is on, every value carried to the entry whose
#       reported frequency matches (the values are paired with frequencies() through the frequency bin, not through the position).
# Nothing is demanded about WHICH layout the object is in after an assignment (the library resets it to the default one when it
# recomputes): only that psd, sides and frequencies() describe the same, correct, function of frequency.
#
# Tolerance HIST_TOL = 1e-12, bin-wise relative.  Measured on the unchanged tree (8 quick seeds + 2 thorough generator rounds, all input variants,
# ~62000 compared arrays): (a) is bit-identical (0.0) -- both objects run the same computation --; (b) differs by at most 4.5e-16 (three
# roundings: sampling factor, 2*pi/df, the halving of a two-sided layout); 1e-12 is > 2000x that.

HIST_TOL = 1e-12
_HIST_DEV = {"a": 0.0, "b": 0.0, "n": 0}        # worst deviations seen (filled only when C08_HIST_MEASURE is set in the environment)


def to_layout(a, isreal, nfft, sd):
    """default-layout estimate (one-sided for real data, two-sided for complex data) -> layout sd, every value carried to the entries
    whose frequency matches: a one-sided value is the sum of the two two-sided values at +-f (DC and Nyquist have one partner only)"""
    a = np.asarray(a, dtype=float)
    if isreal:
        if sd == "onesided":
            return a
        t = np.empty(nfft)
        t[0] = a[0]
        for k in range(1, len(a)):
            if nfft % 2 == 0 and k == nfft // 2:
                t[k] = a[k]
            else:
                t[k] = t[nfft - k] = a[k] / 2.0
    else:
        t = a
    if sd == "twosided":
        return t
    return t[axis_bins("centerdc", nfft) % nfft]


def to_plain(o):
    return [to_plain(v) for v in o] if isinstance(o, (list, tuple)) else (o.item() if isinstance(o, np.generic) else o)


def _devs(got, ref):
    with np.errstate(all="ignore"):
        d = np.abs(np.asarray(got, dtype=float) - ref) / np.abs(ref)
    d = d[np.isfinite(d)]
    return float(np.max(d)) if d.size else 0.0


def _hist_bad(o, what, isreal):
    """assignments / calls the library rejects: they must leave the object as it was (whether they raise is not C08's business)"""
    try:
        if what == "sides":
            o.sides = "bothsided"
        elif what == "nfft0":
            o.NFFT = 0
        elif what == "nfftf":
            o.NFFT = 2.5
        elif what == "freq":
            o.frequencies("bothsided")
        elif what == "conv":
            o.get_converted_psd("bothsided" if isreal else "onesided")
    except Exception:
        pass


# Questionable assignments (op ["try", name] / ["try", name, "read"]): values a library may accept OR refuse -- the unchanged tree accepts
# sampling = 0 / 0.0 / -100.0 / -sampling / nan / inf (df becomes 0, negative, nan, inf) and refuses a string / None (TypeError, after having
# stored it), refuses NFFT = -3 / 'many' and scale_by_freq = 'yes' / None.  The assignment (and, with "read", a psd read at that value: it
# may fail or return garbage) runs inside try/except; whatever happened, the LAST VALID value of that attribute is assigned again right
# after it, so the final attribute values are valid and inside the quantifier in both cases and every later observation must equal a
# fresh object built with them (df = sampling/NFFT): a setter that stores part of a refused value before raising (in the Range helper,
# say), or an early "same value, nothing to do" return of the re-assignment, must not leave anything behind.
HIST_TRY = {"fs:0": ("sampling", 0), "fs:0.0": ("sampling", 0.0), "fs:neg": ("sampling", -100.0), "fs:-fs": ("sampling", "-current"),
            "fs:nan": ("sampling", float("nan")), "fs:inf": ("sampling", float("inf")), "fs:-inf": ("sampling", float("-inf")),
            "fs:str": ("sampling", "fast"), "fs:none": ("sampling", None),
            "nfft:-3": ("NFFT", -3), "nfft:str": ("NFFT", "many"), "scale:yes": ("scale_by_freq", "yes"), "scale:none": ("scale_by_freq", None)}
HIST_TRY_FS = ("fs:0", "fs:0.0", "fs:neg", "fs:-fs", "fs:nan", "fs:inf", "fs:-inf", "fs:str", "fs:none")


def _hist_try(o, name, read, st):
    attr, v = HIST_TRY[name]
    if isinstance(v, str) and v == "-current":
        v = -st["fs"]
    last_valid = {"sampling": st["fs"], "NFFT": st["nfft_arg"], "scale_by_freq": st["scale"]}[attr]
    with np.errstate(all="ignore"):
        try:
            setattr(o, attr, v)
            if read:
                o.psd
        except Exception:
            pass
    setattr(o, attr, last_valid)         # valid: must not raise, and must bring the object back whether or not v had been accepted


def hist_tags(p):
    """what the history does, by a replay of the ops on the documented state machine (layout reset by a recomputation / NFFT change)"""
    isreal = np.isrealobj(p["x"])
    dflt = "onesided" if isreal else "twosided"
    lay, upd, scale, fs = dflt, False, p["scale"], p["fs"]
    tags = set(["hist", "hist:" + (p.get("opt") or p["cls"]), "hist:" + ("real" if isreal else "complex"), "hist:tmpl-" + p.get("tmpl", "?")])
    for op in p["ops"]:
        w = op[0]
        if w in ("read", "call", "run", "obs", "conv"):
            if not upd:
                lay = dflt
            upd = True
            if w == "obs":
                tags.add("hist:obs@" + lay)
        elif w == "sides":
            lay = dflt if op[1] == "default" else op[1]
            upd = True
        elif w in ("scale", "fs"):
            new = op[1]
            same = (new == scale) if w == "scale" else (new == fs)
            tags.add("hist:%s%s@%s/%s" % ("scale-flip" if w == "scale" else "sampling", "(same value)" if same else "", lay,
                                          "up-to-date" if upd else "pending" if lay != dflt or scale != p["scale"] or fs != p["fs"] else "before-first"))
            if not same:
                upd = False
            if w == "scale":
                scale = new
            else:
                fs = new
        elif w == "nfft":
            tags.add("hist:nfft@%s" % lay)
            lay, upd = dflt, False
        elif w == "bad":
            tags.add("hist:rejected-" + op[1])
        elif w == "try":
            tags.add("hist:try-" + op[1] + ("+read" if len(op) > 2 else ""))
            tags.add("hist:try@%s/%s" % (lay, "up-to-date" if upd else "pending"))
            if op[1].startswith("fs:"):          # accepted or half-stored by the unchanged tree, then re-assigned: recomputation pending
                upd = False
    return sorted(tags)


def oracle_hist(p):
    x = np.asarray(p["x"])
    cls, cfg, fs0 = p.get("opt") or p["cls"], p.get("cfg"), p["fs"]          # "opt": one of OPTS (option values other than the defaults)
    isreal = np.isrealobj(x)
    dflt = "onesided" if isreal else "twosided"
    layouts = SIDES if isreal else SIDES[:2]
    st = {"fs": fs0, "scale": p["scale"], "nfft_arg": p["nfft"], "nfft": C.resolved_nfft(x, p["nfft"])}
    tag = "%s (%s, N=%d, NFFT=%s, sampling=%g, scale_by_freq=%s) history" % (cls, "real" if isreal else "complex", len(x), p["nfft"], fs0, p["scale"])
    out = []
    measure = bool(__import__("os").environ.get("C08_HIST_MEASURE"))
    base = {}

    def make(nfft_arg, fs, scale):
        return opt_make(p["opt"], x, nfft_arg, fs, scale) if p.get("opt") else C.make(cls, x, nfft_arg, fs, scale, cfg)

    def a0(nfft_arg):
        """fresh, unscaled, original sampling frequency, default layout: the reference of the formula"""
        k = str(nfft_arg)
        if k not in base:
            base[k] = np.array(make(nfft_arg, fs0, False).psd)
        return base[k]

    def formula(sd):
        nfft, fs = st["nfft"], float(st["fs"])
        f = samp_factor(cls, fs / fs0) if fs != fs0 else 1.0
        if st["scale"]:
            f = f * (C.TWO_PI / (fs / nfft))
        return to_layout(a0(st["nfft_arg"]) * f, isreal, nfft, sd)

    def done(i):
        return "after %s" % ", ".join("%s" % (op[0] if len(op) == 1 else "%s=%r" % (op[0], op[1])) for op in p["ops"][:i + 1])

    def cmp(i, what, got, ref, src):
        got = np.asarray(got)
        if measure and got.shape == np.shape(ref):
            _HIST_DEV[src] = max(_HIST_DEV[src], _devs(got, ref))
            _HIST_DEV["n"] += 1
        if not close(got, ref, HIST_TOL):
            out.append("%s: %s is not %s (%s) [%s]" % (tag, what, "what a fresh object with the final attribute values gives" if src == "a" else
                                                       "the fresh unscaled estimate times %s, value by value at the matching frequency" % (
                                                           "the sampling factor, times 2*pi/df once" if st["scale"] else "the sampling factor"),
                                                       worst(got, ref), done(i)))

    o = make(p["nfft"], fs0, p["scale"])
    # a second object of the same class, alive and in a non-default layout during the whole history: it must not notice anything
    sib = make(p["nfft"], fs0, p["scale"])
    sib.psd
    sib.sides = layouts[1]
    sib_psd = np.array(sib.psd)
    i = -1
    try:          # an operation with valid arguments (or an observation at valid attribute values) that raises is reported, with the history so far
        for i, op in enumerate(p["ops"]):
            w = op[0]
            if w == "read":
                o.psd
            elif w == "call":
                o()
            elif w == "run":
                o.run()
            elif w == "sides":
                o.sides = op[1]
            elif w == "scale":
                o.scale_by_freq = op[1]
                st["scale"] = op[1]
            elif w == "fs":
                o.sampling = op[1]
                st["fs"] = op[1]
            elif w == "nfft":
                o.NFFT = op[1]
                st["nfft_arg"] = op[1]
                st["nfft"] = C.resolved_nfft(x, op[1])
            elif w == "freq":
                # RULING (DESIGN 0.9: frequencies() follows the current `sides` attribute and does not recompute; a psd read that recomputes resets `sides`; the properties observe psd first) (/tmp/finding_C08.py): on the unchanged tree frequencies() called BETWEEN an assignment of scale_by_freq /
                # sampling to an object in a non-default layout and the next read of psd still returns the axis of the old layout, while the
                # psd read right after it comes back in the default layout (`plot(p.frequencies(), p.psd)` pairs them wrongly).  Until that
                # is ruled on, the call is made (it must not disturb anything) but its value is compared only inside "obs", after psd was read.
                o.frequencies()
            elif w == "bad":
                _hist_bad(o, op[1], isreal)
            elif w == "try":
                try:
                    _hist_try(o, op[1], len(op) > 2, st)
                except Exception as e:
                    out.append("%s: re-assigning the last valid value after the questionable assignment %s raises %s: %s [%s]" % (
                        tag, op[1], type(e).__name__, e, done(i)))
                    break
            elif w == "conv":
                g = np.array(o.get_converted_psd(op[1]))
                cmp(i, "get_converted_psd(%r)" % op[1], g, formula(op[1]), "b")
            elif w == "obs":
                nfft, fs = st["nfft"], float(st["fs"])
                psd = np.array(o.psd)                    # psd first: the snapshot is what the object reports once it is up to date
                sd = o.sides
                f = np.asarray(o.frequencies(), dtype=float)
                if sd not in layouts:
                    out.append("%s: sides is %r [%s]" % (tag, sd, done(i)))
                    break
                if o.scale_by_freq is not st["scale"] or o.sampling != st["fs"] or o.NFFT != nfft or not abs(o.df - fs / nfft) <= 1e-12 * fs / nfft:   # "not <=": a nan df is reported
                    out.append("%s: attributes read back scale_by_freq=%r sampling=%r NFFT=%r df=%r, assigned %r, %r, %r (df %r) [%s]" % (
                        tag, o.scale_by_freq, o.sampling, o.NFFT, o.df, st["scale"], st["fs"], nfft, fs / nfft, done(i)))
                if psd.shape != f.shape:
                    out.append("%s: psd has %d values but frequencies() %d (sides %r, NFFT=%d) [%s]" % (tag, psd.size, f.size, sd, nfft, done(i)))
                else:
                    # pair the values with the frequencies the object reports: {frequency bin mod NFFT: value}
                    kb = np.rint(f / (fs / nfft)).astype(int) % nfft
                    ref = formula(sd)
                    rb = axis_bins(sd, nfft) % nfft
                    if len(set(kb.tolist())) != kb.size or set(kb.tolist()) != set(rb.tolist()):
                        out.append("%s: frequencies() (sides %r) does not name the bins of that layout once each [%s]" % (tag, sd, done(i)))
                    else:
                        want_at = dict(zip(rb.tolist(), ref.tolist()))
                        refv = np.array([want_at[k] for k in kb.tolist()])
                        if measure:
                            _HIST_DEV["b"] = max(_HIST_DEV["b"], _devs(psd, refv))
                        if not close(psd, refv, HIST_TOL):
                            with np.errstate(all="ignore"):
                                j = int(np.nanargmax(np.abs(psd - refv) / np.abs(refv)))
                            out.append("%s: psd paired with frequencies() (sides now %r): the value reported at frequency bin %d is %.9g, but the fresh unscaled "
                                       "estimate times %s there is %.9g (%s) [%s]" % (
                                           tag, sd, int(kb[j]) if sd != "centerdc" or kb[j] < nfft - nfft // 2 else int(kb[j]) - nfft, psd[j],
                                           "%.6g * 2*pi/df" % samp_factor(cls, fs / fs0) if st["scale"] else "%.6g" % samp_factor(cls, fs / fs0),
                                           refv[j], worst(psd, refv), done(i)))
                # absolute frequency axes: bin * sampling / NFFT for the claimed layout and for every layout asked by name
                for L, fL in [(sd, f)] + [(L, np.asarray(o.frequencies(L), dtype=float)) for L in SIDES]:
                    axis = axis_bins(L, nfft) * fs / nfft
                    if fL.shape != axis.shape or not np.all(np.abs(fL - axis) <= 1e-12 * abs(fs)):
                        out.append("%s: frequencies(%s) at sampling=%r, NFFT=%d (sides now %r) is not bin*sampling/NFFT (%s) [%s]" % (
                            tag, "" if fL is f else repr(L), st["fs"], nfft, sd, "length %d, expected %d" % (fL.size, axis.size) if fL.shape != axis.shape else
                            "max deviation %.3e" % float(np.max(np.abs(fL - axis))), done(i)))
                # (a) a fresh object with the final attribute values, brought to the same layout
                fr = make(st["nfft_arg"], st["fs"], st["scale"])
                fr.psd
                if sd != dflt:
                    fr.sides = sd
                cmp(i, "psd (sides now %r)" % sd, psd, np.array(fr.psd), "a")
                # every layout, read through get_converted_psd, against (b) and (a)
                for L in layouts:
                    g = np.array(o.get_converted_psd(L))
                    cmp(i, "get_converted_psd(%r) (sides now %r)" % (L, sd), g, formula(L), "b")
                    cmp(i, "get_converted_psd(%r) (sides now %r)" % (L, sd), g, np.array(fr.get_converted_psd(L)), "a")
                    if g.size != np.size(o.frequencies(L)):
                        out.append("%s: get_converted_psd(%r) has %d values, frequencies(%r) %d [%s]" % (tag, L, g.size, L, np.size(o.frequencies(L)), done(i)))
                if o.sides != sd or not np.array_equal(np.array(o.psd), psd):
                    out.append("%s: reading get_converted_psd / frequencies changed psd or sides (%r -> %r) [%s]" % (tag, sd, o.sides, done(i)))
            else:
                raise ValueError(op)
            if len(out) >= 4:
                break
    except Exception as e:
        out.append("%s: %s raises %s: %s although every attribute has a valid value (sampling=%r, NFFT=%r, scale_by_freq=%r) [%s]" % (
            tag, "the observation (psd / frequencies / get_converted_psd)" if 0 <= i < len(p["ops"]) and p["ops"][i][0] == "obs" else "the operation",
            type(e).__name__, e, st["fs"], st["nfft"], st["scale"], done(max(i, 0))))
    if sib.sides != layouts[1] or not np.array_equal(np.array(sib.psd), sib_psd):
        out.append("%s: a second %s object (sides %r), untouched during the history, reports another psd / sides (%r) afterwards [%s]" % (
            tag, cls, layouts[1], sib.sides, done(len(p["ops"]) - 1)))
    return out


def _hist_templates(nrng, isreal, s, fs, cfac, nfft_int, nfft2):
    """histories as lists of ops; L1, L2: the non-default layouts (complex data has one: the second is 'centerdc' again / 'default')"""
    if isreal:
        L1, L2 = ("twosided", "centerdc") if nrng.integers(0, 2) else ("centerdc", "twosided")
    else:
        L1, L2 = "centerdc", ("centerdc", "default")[int(nrng.integers(0, 2))]
    Lc = "twosided" if L2 == "default" else L2          # a layout name get_converted_psd accepts
    n = not s
    if not 1e-2 < fs * cfac < 1e5:
        cfac = 1.0 / cfac                                # stay inside the quantifier: sampling in (1e-2, 1e5)
    fs2 = [int(max(1, round(fs * cfac))), float(fs * cfac)][int(nrng.integers(0, 2))]
    T = {}
    # flip scale_by_freq on an up-to-date object in a non-default layout: once, twice without a read in between, and back
    T["flip"] = [["read"], ["sides", L1], ["scale", n], ["obs"], ["sides", L2], ["scale", s], ["scale", n], ["obs"],
                 ["sides", L1], ["scale", s], ["obs"], ["sides", L2], ["scale", s], ["obs"]]
    # re-assign sampling in a non-default layout; together with a flip; back to the original value; an integer value
    T["sampling"] = [["call"], ["sides", L1], ["fs", fs * cfac], ["obs"], ["sides", L2], ["scale", n], ["fs", fs], ["obs"],
                     ["sides", L1], ["scale", s], ["obs"], ["sides", L2], ["fs", fs2], ["obs"], ["sides", L1], ["fs", fs], ["scale", n], ["obs"]]
    # flips and layout assignments before the first computation, two flips between reads, reads through get_converted_psd only
    T["first"] = [["scale", n], ["sides", L1], ["obs"], ["scale", s], ["obs"], ["sides", L2], ["conv", L1], ["scale", n], ["conv", L1], ["obs"],
                  ["sides", L1], ["scale", s], ["scale", n], ["conv", Lc], ["obs"]]
    # after an NFFT change (which resets the layout), then again in a non-default layout at the new NFFT, then back
    T["nfft"] = [["read"], ["sides", L1], ["nfft", nfft2], ["scale", n], ["obs"], ["sides", L1], ["obs"], ["scale", s], ["conv", L1], ["obs"],
                 ["sides", L2], ["nfft", nfft_int], ["obs"], ["sides", L1], ["scale", n], ["obs"]]
    # interleaved with reads of every sort
    T["reads"] = [["read"], ["sides", L1], ["conv", Lc], ["freq"], ["scale", n], ["freq"], ["conv", L1], ["obs"],
                  ["sides", L2], ["read"], ["scale", s], ["read"], ["sides", L1], ["obs"], ["run"], ["sides", L1], ["scale", n], ["call"], ["obs"]]
    # assignments / calls the library rejects in between
    T["rejected"] = [["read"], ["sides", L1], ["bad", "sides"], ["scale", n], ["bad", "nfft0"], ["obs"], ["sides", L2], ["bad", "conv"], ["scale", s],
                     ["bad", "freq"], ["obs"], ["sides", L1], ["bad", "nfftf"], ["fs", fs * cfac], ["bad", "sides"], ["obs"]]
    # random walk over the same alphabet
    ops = [["read"]] if nrng.integers(0, 3) else []
    cur_s, cur_fs = s, fs
    for t in range(int(nrng.integers(8, 15))):
        r = int(nrng.integers(0, 20))
        if r < 6:
            ops.append(["sides", [L1, L2, "centerdc", "default", "twosided"][int(nrng.integers(0, 5))]])
        elif r < 11:
            cur_s = not cur_s if nrng.integers(0, 5) else cur_s
            ops.append(["scale", cur_s])
        elif r < 14:
            cur_fs = [fs, fs * cfac, fs2][int(nrng.integers(0, 3))]
            ops.append(["fs", cur_fs])
        elif r < 15:
            ops.append(["nfft", [nfft2, nfft_int][int(nrng.integers(0, 2))]])
        elif r < 17:
            ops.append([["read"], ["call"], ["run"], ["freq"]][int(nrng.integers(0, 4))])
        elif r < 18:
            ops.append(["conv", [L1, "twosided"][int(nrng.integers(0, 2))]])
        else:
            ops.append(["obs"])
    T["random"] = ops + [["obs"]]
    # questionable assignments (accepted or refused, see HIST_TRY), each followed by the re-assignment of the last valid value; then an NFFT
    # change / a flip / nothing, then an observation; a random walk with such assignments in between.  Its random choices come from a
    # generator of its own (seeded by the case's sampling frequency), so the streams of the other templates are the ones they had before.
    lr = np.random.default_rng([int(fs * 1e6) & 0xFFFFFFFF, int(nfft_int), int(nfft2)])
    pk = lambda names: names[int(lr.integers(0, len(names)))]
    allq = tuple(HIST_TRY)
    tr = [["read"], ["sides", L1], ["try", pk(HIST_TRY_FS[:5])], ["nfft", nfft2], ["obs"],
          ["sides", L2], ["try", pk(allq), "read"], ["scale", n], ["obs"],
          ["fs", fs2], ["read"], ["sides", L1], ["try", pk(HIST_TRY_FS)], ["nfft", nfft_int], ["obs"],
          ["try", pk(HIST_TRY_FS)], ["obs"], ["sides", L2], ["try", pk(allq)], ["try", pk(allq)], ["fs", fs], ["try", pk(HIST_TRY_FS), "read"],
          ["nfft", nfft2], ["scale", s], ["obs"]]
    cur_s = s
    for t in range(int(lr.integers(6, 12))):
        r = int(lr.integers(0, 16))
        if r < 6:
            tr.append(["try", pk(allq)] + (["read"] if lr.integers(0, 3) == 0 else []))
        elif r < 8:
            tr.append(["sides", [L1, L2, "default"][int(lr.integers(0, 3))]])
        elif r < 10:
            cur_s = not cur_s
            tr.append(["scale", cur_s])
        elif r < 11:
            tr.append(["fs", [fs, fs * cfac, fs2][int(lr.integers(0, 3))]])
        elif r < 14:
            tr.append(["nfft", [nfft2, nfft_int][int(lr.integers(0, 2))]])
        else:
            tr.append(["obs"])
    T["try"] = tr + [["obs"]]
    return T


HIST_TMPL = ("flip", "sampling", "first", "nfft", "reads", "rejected", "random")


def gen_hist(nrng, thorough):
    """quick: every class variant x real/complex gets the flip history and one other (rotating with the seed); thorough: all seven"""
    rot = int(nrng.integers(0, 6))
    k = 0
    for rep in range(1 if not thorough else 3):
        for ic, cls in enumerate(C.CLASSES):
            for cplx in (False, True):
                k += 1
                N = 40 if rep == 0 else [30, 31, 40][k % 3]
                x = C.test_data(nrng, N, cplx)
                nfft = [64, 45, None, "nextpow2", 127, 48][(k + rep) % 2 + 2 * rep]
                cfg = None
                if rep == 2:
                    cfg = C.random_cfg(nrng, cls, N, boundary=(k % 5 == 4))
                need = C.min_nfft(cls, N, cfg or C.default_cfg(cls, N, cplx))
                if C.resolved_nfft(x, nfft) < need:
                    nfft = need
                nfft_int = C.resolved_nfft(x, nfft)
                nfft2 = max([48, 51, 80, 41][k % 4], need)
                if nfft2 == nfft_int:
                    nfft2 += 3
                fs = float(10 ** nrng.uniform(-2, 5))
                cfac = [4.0, 0.5, 250.0, 2.0][(k // 2) % 4]
                s = bool((k // 2 + ic) % 2)
                T = _hist_templates(nrng, not cplx, s, fs, cfac, nfft_int, nfft2)
                names = HIST_TMPL + ("try",) if thorough else ("flip", HIST_TMPL[1 + (k + rot) % 6], "try")
                for nm in names:
                    q = {"cls": cls, "x": x, "nfft": nfft, "fs": fs, "scale": s, "c": cfac, "tmpl": nm, "ops": T[nm]}
                    if cfg is not None:
                        q["cfg"] = cfg
                    yield ("hist", q)
    # option values other than the defaults (OPTS; N = 40, NFFT >= N): quick 6 of the 34 variant x real/complex combinations, thorough all
    k = 0
    pick = int(nrng.integers(0, 6))
    for io, opt in enumerate(OPTS):
        for cplx in (False, True):
            k += 1
            if not thorough and k % 6 != pick:
                continue
            x = C.test_data(nrng, 40, cplx)
            nfft = [64, 45, None, "nextpow2"][(k // 2) % 4]
            nfft_int = C.resolved_nfft(x, nfft)
            fs = float(10 ** nrng.uniform(-2, 5))
            cfac = [4.0, 0.5, 250.0, 2.0][k % 4]
            s = bool((k // 3) % 2)
            T = _hist_templates(nrng, not cplx, s, fs, cfac, nfft_int, [48, 51, 80, 41][k % 4])
            for nm in (HIST_TMPL + ("try",) if thorough else ("flip", HIST_TMPL[1 + (k // 6 + rot) % 6], "try")):
                yield ("hist", {"cls": opt.split(":")[0], "opt": opt, "x": x, "nfft": nfft, "fs": fs, "scale": s, "c": cfac, "tmpl": nm, "ops": T[nm]})


# ---- option values other than the defaults ---------------------------------------------------------------

OPTS = (["pyule:biased", "pyule:unbiased"] + ["pburg:" + k for k in ("AIC", "AICc", "KIC", "FPE", "AKICc", "MDL")] +
        ["MT-unity:ev", "MT-eigen:ev", "MT-adapt:ev", "pmusic:thr", "pev:mdl", "pmusic:mdl", "pev:thr", "Periodogram:mean", "Periodogram:linear"])


def opt_make(opt, x, nfft, fs, scale):
    s = C.sp()
    cls, o = opt.split(":")
    kw = dict(NFFT=nfft, sampling=fs, scale_by_freq=scale)
    if cls == "pyule":
        return s.pyule(x, 4, norm=o, **kw)
    if cls == "pburg":
        return s.pburg(x, 8, criteria=o, **kw)
    if cls.startswith("MT-"):
        tap, eig = s.dpss(len(x), 2.5, 4)
        return s.MultiTapering(x, e=eig, v=tap, method=cls[3:], **kw)
    if cls in ("pmusic", "pev"):
        f = s.pmusic if cls == "pmusic" else s.pev
        return f(x, 6, threshold=1.5, **kw) if o == "thr" else f(x, 6, criteria="mdl", **kw)
    if cls == "Periodogram":
        return s.Periodogram(x, detrend=o, **kw)
    raise ValueError(opt)


def opt_raw(opt, x, nfft, fs):
    """raw two-sided unscaled estimate through the functional API called with the same option (None: oracle only)"""
    s = C.sp()
    cls, o = opt.split(":")
    if cls == "pyule":
        a, rho, k = s.aryule(x, 4, norm=o)
        return np.asarray(s.arma2psd(A=a, rho=rho, T=fs, NFFT=nfft))
    if cls == "pburg":
        a, rho, k = s.arburg(x, 8, o)
        return np.asarray(s.arma2psd(A=a, rho=rho, T=fs, NFFT=nfft))
    if cls.startswith("MT-"):
        tap, eig = s.dpss(len(x), 2.5, 4)
        Sk, w, e = s.pmtm(x, e=eig, v=tap, NFFT=nfft, method=cls[3:], show=False)
        SkA = np.abs(np.asarray(Sk)) ** 2
        w = np.asarray(w)
        return np.mean(SkA.T * w, axis=1) if cls == "MT-adapt" else np.mean(SkA * w, axis=0)
    if cls in ("pmusic", "pev"):
        f = s.music if cls == "pmusic" else s.ev
        kw = {"threshold": 1.5} if o == "thr" else {"criteria": "mdl"}
        return np.asarray(f(x, 6, NSIG=None, NFFT=nfft, **kw)[0])
    return None


def impl_opts(p):
    return [np.asarray(opt_make(p["opt"], p["x"], p["nfft"], p["fs"], p["scale"]).psd)]


def model_opts(p):
    x = np.asarray(p["x"])
    nfft = C.resolved_nfft(x, p["nfft"])
    raw = opt_raw(p["opt"], x, nfft, p["fs"])
    if raw is None:
        return None
    return C.glue_request(p["opt"].split(":")[0], raw, np.isrealobj(x), nfft, p["scale"], p["fs"])


def oracle_opts(p):
    x = np.asarray(p["x"])
    nfft = C.resolved_nfft(x, p["nfft"])
    return check_class("%s, %s data" % (p["opt"], "real" if np.isrealobj(x) else "complex"), p["opt"],
                       lambda f, sc: opt_make(p["opt"], x, p["nfft"], f, sc), np.isrealobj(x), nfft, p["fs"], p["c"])


def _fs_input(p):
    """the data handed to speriodogram: the 1-D record, or a 2-D matrix whose columns are records derived from it"""
    x = np.asarray(p["x"])
    nc = p.get("ncol", 0)
    if not nc:
        return x
    cols = [x, 2 * x[::-1], x + 1, -0.5 * x, x * x][:nc]
    return np.stack(cols, axis=1)


NP_WINDOWS = {"hamming": np.hamming, "hann": np.hanning, "blackman": np.blackman, "rectangular": np.ones}


def oracle_funcscale(p):
    """speriodogram(scale_by_freq=True) and FourierSpectrum(...).periodogram(): the unscaled estimate times 2*pi/df once"""
    sp = C.sp()
    x = np.asarray(p["x"])
    X = _fs_input(p)
    N = len(x)
    nfft_arg, fs = p["nfft"], p["fs"]
    nfft = N if nfft_arg is None else nfft_arg
    win, det = p.get("win", "hamming"), p.get("detrend", False)
    out = []
    kw = dict(detrend=det, sampling=fs, window=win)
    if nfft_arg is not None or not p.get("defaults"):
        kw["NFFT"] = nfft_arg
    a0 = np.asarray(sp.speriodogram(X, scale_by_freq=False, **kw))
    if p.get("defaults"):
        a1 = np.asarray(sp.speriodogram(X, **kw))         # scale_by_freq omitted: the documented default is True
    else:
        a1 = np.asarray(sp.speriodogram(X, scale_by_freq=True, **kw))
    fac = C.TWO_PI / (fs / nfft)
    what = "N=%d, %s, NFFT=%s, sampling=%g, window=%s, detrend=%s%s" % (
        N, "1-D" if X.ndim == 1 else "%dx%d matrix" % X.shape, nfft_arg, fs, win, det, ", scale_by_freq / NFFT defaults" if p.get("defaults") else "")
    if a0.shape != a1.shape or rel(a1, a0 * fac) > 1e-10:
        out.append("speriodogram(scale_by_freq=True, N=%d, NFFT=%d, sampling=%g) is not the unscaled periodogram times 2*pi/df "
                   "(observed/expected factor %.6f)" % (len(x), nfft, fs, float(np.median(a1 / a0)) / fac if a0.shape == a1.shape else float("nan")))
    if not close(a1, a0 * fac):
        out.append("speriodogram(%s): scaled is not unscaled times 2*pi/df bin-wise (%s)" % (what, worst(a1, a0 * fac)))
    # changing the sampling frequency: unscaled values unchanged, scaled ones follow 2*pi*NFFT/sampling
    cfac = p.get("c", 4.0)
    kw2 = dict(kw, sampling=cfac * fs)
    if not close(np.asarray(sp.speriodogram(X, scale_by_freq=False, **kw2)), a0, 1e-12):
        out.append("speriodogram(%s): unscaled values change with the sampling frequency" % what)
    if not close(np.asarray(sp.speriodogram(X, scale_by_freq=True, **kw2)), a0 * fac / cfac):
        out.append("speriodogram(%s): scaled values at %g*sampling are not the unscaled ones times 2*pi/df'" % (what, cfac))
    # independent reference of the scaled estimate: numpy window, numpy fft, |.|^2 / N, times 2*pi*NFFT/sampling
    if win in NP_WINDOWS:
        w = NP_WINDOWS[win](N)
        cols = X.reshape(N, -1)
        ref = []
        for j in range(cols.shape[1]):
            v = cols[:, j] * w
            v = v - (np.mean(cols[:, j]) if det else 0)
            F = np.fft.rfft(v, nfft) if np.isrealobj(X) else np.fft.fft(v, nfft)
            ref.append(np.abs(F) ** 2 / N * (C.TWO_PI * nfft / fs))
        ref = ref[0] if X.ndim == 1 else np.stack(ref, axis=1)
        if a1.shape != ref.shape or rel(a1, ref) > 1e-9:
            out.append("speriodogram(%s, scale_by_freq=True) is not |FFT((x*w) - mean)|^2/N * 2*pi*NFFT/sampling (%s)" % (
                what, "%.2e" % rel(a1, ref) if a1.shape == ref.shape else "shape %s, expected %s" % (a1.shape, ref.shape)))
    if X.ndim != 1:
        return out
    fkw = {} if (nfft_arg is None and p.get("defaults")) else {"NFFT": nfft_arg}
    f0 = sp.FourierSpectrum(x, sampling=fs, window=win, scale_by_freq=False, **fkw)
    f0.periodogram()
    if p.get("defaults"):
        f1 = sp.FourierSpectrum(x, sampling=fs, window=win, **fkw)      # FourierSpectrum: scale_by_freq defaults to True
    else:
        f1 = sp.FourierSpectrum(x, sampling=fs, window=win, scale_by_freq=True, **fkw)
    f1.periodogram()
    b0, b1 = np.asarray(f0.psd), np.asarray(f1.psd)
    if b0.shape != b1.shape or rel(b1, b0 * fac) > 1e-10:
        out.append("FourierSpectrum.periodogram() with scale_by_freq=True is not the unscaled estimate times 2*pi/df (N=%d NFFT=%d)" % (len(x), nfft))
    if not close(b1, b0 * fac):
        out.append("FourierSpectrum.periodogram() (%s): scaled is not unscaled times 2*pi/df bin-wise (%s)" % (what, worst(b1, b0 * fac)))
    return out


def TWO_PI_over(df):
    return C.TWO_PI / df


def _crc(*arrs):
    h = 0
    for a in arrs:
        if a is not None:
            a = np.asarray(a)
            h = zlib.crc32(repr(a.tolist()).encode() if a.dtype == object else np.ascontiguousarray(a).tobytes(), h)
    return h & 0xFFFFFF


def _key(p):
    if "cls" in p:
        x = np.asarray(p["x"])
        return "%s|%d|%s|%s|%s|%s|%d" % (p["cls"], len(x), p["nfft"], p["fs"], p["scale"], np.iscomplexobj(x), hash(x.tobytes()) & 0xFFFFF)
    return "a2p|%s|%s|%s|%s" % (p["nfft"], None if p["A"] is None else np.asarray(p["A"]).tobytes().hex()[:16],
                                None if p["B"] is None else np.asarray(p["B"]).tobytes().hex()[:16], p["rho"])


def _key_x(p):
    x = np.asarray(p["x"])
    return "|".join(str(v) for v in (p.get("cls", p.get("opt", p.get("order"))), len(x), p["nfft"], p["fs"], p.get("scale"), p.get("c"),
                                     p.get("cfg"), p.get("ifs"), np.iscomplexobj(x), _crc(x)))


def _nfft_tag(p):
    n, N = p["nfft"], len(p["x"])
    if not isinstance(n, int):
        return "nfft:%s" % n
    return "nfft:%s%s" % ("odd" if n % 2 else "even", "<N" if n < N else "")


KINDS = {
    "funcscale": {"oracle": oracle_funcscale,
                  "key": lambda p: "fs|%d|%s|%g|%s|%s|%s|%s|%d" % (len(p["x"]), p["nfft"], p["fs"], p.get("win"), p.get("detrend"), p.get("ncol"),
                                                                  p.get("defaults"), _crc(p["x"])),
                  "tags": lambda p: ["funcscale", "funcscale:%s" % ("2-D" if p.get("ncol") else "1-D"), "funcscale:win-%s" % p.get("win", "hamming"),
                                     "funcscale:detrend-%s" % p.get("detrend", False),
                                     "funcscale:nfft-%s" % ("default" if p["nfft"] is None else "<N" if p["nfft"] < len(p["x"]) else ">=N")]},
    "arma2psd": {"impl": impl_a2p, "model": model_a2p, "oracle": oracle_a2p, "rtol": 1e-9, "atol": 1e-300, "key": _key,
                 "tags": lambda p: ["a2p:A-%s/B-%s" % ("None" if p["A"] is None else np.asarray(p["A"]).dtype.kind,
                                                      "None" if p["B"] is None else np.asarray(p["B"]).dtype.kind)]},
    "a2pform": {"impl": impl_a2pform, "model": model_a2pform, "oracle": oracle_a2pform, "rtol": 1e-9, "atol": 1e-300,
                "key": lambda p: "a2pf|%s|%s|%r|%r|%d" % (p["form"], p["nfft"], p["rho"], p["T"], _crc(p["A"], p["B"])),
                "tags": lambda p: ["a2pform:" + p["form"],
                                   "a2pform:A-%s/B-%s" % ("None" if p["A"] is None else np.asarray(p["A"]).dtype.kind,
                                                         "None" if p["B"] is None else np.asarray(p["B"]).dtype.kind),
                                   "a2pform:rho-%s/T-%s" % (type(p["rho"]).__name__, type(p["T"]).__name__)] + (
                    ["a2pform:nfft=maxlen+1"] if p["nfft"] == max(0 if p["A"] is None else len(p["A"]), 0 if p["B"] is None else len(p["B"])) + 1 else [])},
    "a2pbin": {"oracle": oracle_a2pbin,
               "key": lambda p: "a2pb|%s|%d|%r|%r|%s|%d" % (p.get("fam"), p["nfft"], p["rho"], p["T"], p.get("aslist"), _crc(p["A"], p["B"])),
               "tags": lambda p: ["a2pbin", "a2pbin:" + p.get("fam", "?"), "a2pbin:margin-%s" % p.get("gap", "?"),
                                  "a2pbin:angle-%s" % p.get("where", "?"), "a2pbin:nfft-%s" % ("<=64" if p["nfft"] <= 64 else ">=1000" if p["nfft"] >= 1000 else "mid"),
                                  "a2pbin:%s" % ("complex" if any(v is not None and np.iscomplexobj(v) for v in (p["A"], p["B"])) else "real"),
                                  "a2pbin:A-%s/B-%s" % ("None" if p["A"] is None else "given", "None" if p["B"] is None else "given")]},
    "glue": {"impl": impl_glue, "model": model_glue, "oracle": oracle_glue, "rtol": 1e-9, "atol": 1e-300, "key": _key,
             "tags": lambda p: ["cls:" + p["cls"], "complex" if np.iscomplexobj(p["x"]) else "real", "nfft:%s" % (
                 p["nfft"] if not isinstance(p["nfft"], int) else ("odd" if p["nfft"] % 2 else "even")), "scale:%s" % p["scale"],
                 "N:%d" % len(p["x"])] + (["nfft<N", "nfft<N:" + p["cls"]] if C.resolved_nfft(p["x"], p["nfft"]) < len(p["x"]) else [])},
    "mvglue": {"impl": impl_mvglue, "model": model_mvglue, "oracle": oracle_mvglue, "rtol": 1e-7, "atol": 1e-300, "key": _key_x,
               "tags": lambda p: ["mvglue", "mvglue:" + ("complex" if np.iscomplexobj(p["x"]) else "real"), "mvglue:" + _nfft_tag(p),
                                  "mvglue:scale-%s" % p["scale"]]},
    "entry": {"oracle": oracle_entry, "key": _key_x,
              "tags": lambda p: ["entry:" + p["cls"], "entry:" + ("complex" if np.iscomplexobj(p["x"]) else "real"), "entry:" + _nfft_tag(p)]},
    "hist": {"oracle": oracle_hist,
             "key": lambda p: "%s|%s|%s|%d" % (_key_x(p), p.get("opt"), p.get("tmpl"), zlib.crc32(repr(to_plain(p["ops"])).encode()) & 0xFFFFFF),
             "tags": hist_tags},
    "opts": {"impl": impl_opts, "model": model_opts, "oracle": oracle_opts, "rtol": 1e-9, "atol": 1e-300, "key": _key_x,
             "tags": lambda p: ["opt:" + p["opt"], "opt:" + ("complex" if np.iscomplexobj(p["x"]) else "real"), "opt:" + _nfft_tag(p)]},
}


def gen(rng, nrng, tier):
    n = 120 if tier == "quick" else 1500
    for i in range(n):
        pa = int(nrng.integers(1, 6))
        qa = int(nrng.integers(1, 6))
        kindA = i % 4   # 0 real, 1 complex, 2 None, 3 real
        kindB = (i // 4) % 4
        A = None if kindA == 2 else (nrng.standard_normal(pa) * 0.4 + (1j * nrng.standard_normal(pa) * 0.4 if kindA == 1 else 0))
        B = None if kindB == 2 else (nrng.standard_normal(qa) * 0.4 + (1j * nrng.standard_normal(qa) * 0.4 if kindB == 1 else 0))
        if A is None and B is None:
            A = nrng.standard_normal(pa) * 0.4
        nfft = int(nrng.integers(max(pa, qa) + 1, 40))
        yield ("arma2psd", {"A": A, "B": B, "rho": float(nrng.uniform(0.1, 3)), "T": float(10 ** nrng.uniform(-2, 2)), "nfft": nfft})
    # long FFTs, the same NFFT requested repeatedly with shrinking / growing coefficient vectors (work buffers must not leak)
    for nfft in ((1024, 1025) if tier == "quick" else (1024, 1025, 2048)):
        for ln in (6, 3, 1, 4, 2, 5):
            A = nrng.standard_normal(ln) * 0.3
            B = nrng.standard_normal(max(1, 7 - ln)) * 0.3
            yield ("arma2psd", {"A": A, "B": B, "rho": 1.5, "T": 2.0, "nfft": nfft})
            yield ("arma2psd", {"A": A, "B": None, "rho": 1.0, "T": 1.0, "nfft": nfft})
    # coefficient vectors with exact zeros at the front, at the back and inside (a zero coefficient is a coefficient)
    for i in range(12 if tier == "quick" else 120):
        pa = int(nrng.integers(2, 6))
        A = nrng.standard_normal(pa) * 0.4 + (1j * nrng.standard_normal(pa) * 0.4 if i % 2 else 0)
        B = nrng.standard_normal(pa) * 0.4
        tgt = [A, B][(i // 2) % 2]
        pos = [0, pa - 1, pa // 2][(i // 4) % 3]
        tgt[pos] = 0
        if i % 6 == 5:
            tgt[: pa - 1] = 0
        yield ("arma2psd", {"A": A, "B": B if i % 3 else None, "rho": 1.0, "T": 1.0, "nfft": [16, 17, 33][i % 3]})
    # exactly real coefficients stored in complex arrays, odd and even NFFT
    for i in range(12 if tier == "quick" else 100):
        pa = int(nrng.integers(1, 6))
        A = (nrng.standard_normal(pa) * 0.4).astype(complex)
        B = (nrng.standard_normal(pa) * 0.4).astype(complex) if i % 2 else None
        yield ("arma2psd", {"A": A, "B": B, "rho": 1.0, "T": 1.0, "nfft": [31, 32, 45, 64, 49, 98][i % 6]})
    for i in range(10 if tier == "quick" else 100):
        cplx = bool(i % 2)
        N = [30, 31, 64][i % 3]
        yield ("funcscale", {"x": C.test_data(nrng, N, cplx), "nfft": [N, 2 * N, 2 * N + 1, N + 7][i % 4], "fs": float(10 ** nrng.uniform(-2, 5))})
    m = 84 if tier == "quick" else 1200
    for i in range(m):
        cls = C.CLASSES[i % len(C.CLASSES)]
        cplx = bool((i // len(C.CLASSES)) % 2)
        N = [30, 31, 40][i % 3]
        x = C.test_data(nrng, N, cplx)
        nfft = [None, "nextpow2", 64, 45, 127, 48][(i // 2) % 6]
        fs = float(10 ** nrng.uniform(-2, 5))
        # scale alternates with i, flipped every 28 cases: every class meets both values, real and complex, in the correspondence
        q = {"cls": cls, "x": x, "nfft": nfft, "fs": fs, "scale": bool((i + i // 28) % 2), "c": float(nrng.choice([2.0, 250.0, 0.5]))}
        if (i // 7) % 2:
            q["cfg"] = C.random_cfg(nrng, cls, N, boundary=(i % 5 == 4))
            need = C.min_nfft(cls, N, q["cfg"])
            if isinstance(nfft, int) and nfft < need:
                q["nfft"] = need
            elif not isinstance(nfft, int) and C.resolved_nfft(x, nfft) < need:
                q["nfft"] = need
        yield ("glue", q)

    thorough = tier != "quick"
    # ---- NFFT below the record length (N = 40): AR / MA / ARMA, correlogram, minimum variance, subspace, periodogram, multitaper
    for j, (cls, cfg, nffts) in enumerate(SMALL_NFFT):
        for k, nfft in enumerate(nffts):
            for cplx in (False, True):
                for scale in ((False, True) if thorough else (bool((j + k + cplx) % 2),)):
                    yield ("glue", {"cls": cls, "x": C.test_data(nrng, 40, cplx), "nfft": nfft, "fs": float(10 ** nrng.uniform(-2, 5)),
                                    "scale": scale, "c": [2.0, 250.0, 0.5][(j + 2 * k + cplx) % 3], "cfg": dict(cfg)})
    # ---- short records and records whose length is a power of two (nextpow2 == N), NFFT None / 'nextpow2'
    pick = int(nrng.integers(0, 4))
    cnt = 0
    for iN, N in enumerate((8, 9, 32, 64)):
        for ic, cls in enumerate(C.CLASSES):
            for cplx in (False, True):
                for im, nfft in enumerate((None, "nextpow2")):
                    cnt += 1
                    if not thorough and (iN + ic + 2 * cplx + im) % 4 != pick:
                        continue
                    for scale in ((False, True) if thorough else (bool((cnt // 5) % 2),)):
                        yield ("glue", {"cls": cls, "x": C.test_data(nrng, N, cplx), "nfft": nfft, "fs": float(10 ** nrng.uniform(-2, 5)),
                                        "scale": scale, "c": [0.5, 2.0, 250.0][cnt % 3], "cfg": dict(SMALL_CFG["MT" if cls.startswith("MT") else cls])})
    # ---- pminvar against the model's own minimum-variance estimator (the dependence on the sampling frequency is the model's)
    for i in range(16 if not thorough else 160):
        cplx = bool(i % 2)
        N = [40, 30, 31][(i // 2) % 3]
        order = int(nrng.integers(2, min(N // 2, 8) + 1))
        nfft = [64, 45, None, "nextpow2", 2 * order, 2 * order + 1, 127, 2 * order + 2][(i // 2) % 8]
        yield ("mvglue", {"x": C.test_data(nrng, N, cplx), "order": order, "nfft": nfft, "fs": float(10 ** nrng.uniform(-2, 5)),
                          "scale": bool((i // 4) % 2), "c": [2.0, 0.5, 250.0][(i // 3) % 3]})
    # ---- entry points other than constructor keywords: 14 variants x real/complex x NFFT {64, 45} (+ None / nextpow2 / random cfg)
    ifss = [1024, 1, 44100, 8000, 2, 99999, 48, 360]
    k = 0
    for rep in range(1 if not thorough else 4):
        for cls in C.CLASSES:
            for cplx in (False, True):
                for nfft in (64, 45):
                    k += 1
                    N = 40 if rep == 0 else [30, 31, 40][k % 3]
                    x = C.test_data(nrng, N, cplx)
                    q = {"cls": cls, "x": x, "nfft": nfft if rep < 2 else [None, "nextpow2"][nfft % 2], "fs": float(10 ** nrng.uniform(-2, 5)),
                         "c": [4.0, 0.5, 250.0, 2.0][(k // 2) % 4], "ifs": ifss[k % 8] if rep % 2 == 0 else int(nrng.integers(1, 100000))}
                    if rep % 2:
                        q["cfg"] = C.random_cfg(nrng, cls, N, boundary=(k % 5 == 4))
                        if C.resolved_nfft(x, q["nfft"]) < C.min_nfft(cls, N, q["cfg"]):
                            q["nfft"] = C.min_nfft(cls, N, q["cfg"])
                    yield ("entry", q)
    # ---- option values other than the defaults
    k = 0
    for rep in range(1 if not thorough else 4):
        for io, opt in enumerate(OPTS):
            for cplx in (False, True):
                k += 1
                N = 40 if rep < 2 else 31
                nfft = [64, 45, None, "nextpow2"][(io + cplx + rep) % 2 + 2 * (rep % 2)]
                yield ("opts", {"opt": opt, "x": C.test_data(nrng, N, cplx), "nfft": nfft, "fs": float(10 ** nrng.uniform(-2, 5)),
                                "scale": bool((k // 2 + rep // 2) % 2), "c": [3.0, 0.5, 250.0][k % 3]})
    # ---- speriodogram: 1-D / 2-D column matrices, detrend, four windows, NFFT below N / default / above N, default scale_by_freq
    combos = 2 * 4 * 2 * 3 * 4
    start = int(nrng.integers(0, combos))
    for t in range(48 if not thorough else combos):
        j = (start + 37 * t) % combos
        cplx, j = bool(j % 2), j // 2
        win, j = ["hamming", "hann", "rectangular", "blackman"][j % 4], j // 4
        det, j = bool(j % 2), j // 2
        ncol, j = [0, 3, 1][j % 3], j // 3
        mode = j % 4
        N = [30, 31, 40][t % 3]
        q = {"x": C.test_data(nrng, N, cplx), "nfft": [16, None, N + 7, None][mode], "fs": float(10 ** nrng.uniform(-2, 5)), "win": win,
             "detrend": det, "ncol": ncol, "c": [4.0, 0.5, 250.0][(t // 3) % 3]}
        if mode == 3:
            q["defaults"] = True
        yield ("funcscale", q)
    # ---- arma2psd: other input forms
    yield from gen_a2pform(nrng, thorough)
    # ---- arma2psd bin by bin: zeros / poles next to the unit circle at (or a fraction of a bin away from) a grid frequency
    yield from gen_a2pbin(nrng, thorough)
    # ---- histories on one object: non-default layout, then scale_by_freq / sampling / NFFT assignments (LAST: the random streams of
    #      all the cases above are the ones they had before this kind existed)
    yield from gen_hist(nrng, thorough)


SMALL_NFFT = [("pburg", {"order": 4}, (16, 5)), ("pyule", {"order": 4}, (5, 6)), ("pcovar", {"order": 4}, (9, 5)), ("pmodcovar", {"order": 3}, (4, 7)),
              ("parma", {"order": 3, "Q": 3, "lag": 8}, (4, 5)), ("pma", {"Q": 3, "M": 7}, (4, 5)), ("pminvar", {"order": 4}, (8, 9)),
              ("pcorrelogram", {"lag": 5, "window": "hamming"}, (11, 12)), ("pmusic", {"order": 6, "nsig": 2}, (7, 8)),
              ("pev", {"order": 6, "nsig": 2}, (8, 7)), ("Periodogram", {"window": "hann"}, (16, 15)), ("MT-unity", {"NW": 2.5, "k": 4}, (16, 15)),
              ("MT-eigen", {"NW": 2.5, "k": 4}, (16, 15)), ("MT-adapt", {"NW": 2.5, "k": 4}, (16, 15))]
SMALL_CFG = {"pmusic": {"order": 3, "nsig": 1}, "pev": {"order": 3, "nsig": 1}, "parma": {"order": 1, "Q": 1, "lag": 4}, "pma": {"Q": 1, "M": 3},
             "pcorrelogram": {"lag": 3, "window": "hamming"}, "Periodogram": {"window": "hann"}, "MT": {"NW": 2.5, "k": 3},
             "pburg": {"order": 2}, "pyule": {"order": 2}, "pcovar": {"order": 2}, "pmodcovar": {"order": 2}, "pminvar": {"order": 2}}


def _well_posed(A, nfft):
    """|A(f)| stays away from zero on the grid k/NFFT (a zero of A on the grid is a pole of the spectrum: no value to compare)"""
    if A is None or len(A) == 0:
        return True
    z = np.exp(-2j * np.pi * np.arange(nfft) / nfft)
    Af = 1 + sum(complex(A[i]) * z ** (i + 1) for i in range(len(A)))
    return float(np.min(np.abs(Af))) >= 0.05


def _coef(nrng, n, kind):
    """kind 0 float64, 1 complex128, 2 int64, 3 object (Python ints and floats mixed), 4 float64 empty, 5 None"""
    if kind == 5:
        return None
    if kind == 4:
        return np.array([])
    if kind == 2:
        return nrng.integers(-3, 4, n).astype(np.int64)
    if kind == 3:
        v = [int(t) if i % 2 == 0 else float(t) / 4 for i, t in enumerate(nrng.integers(-3, 4, n))]
        a = np.empty(n, dtype=object)
        a[:] = v
        return a
    v = nrng.standard_normal(n) * 0.4
    return v + 1j * nrng.standard_normal(n) * 0.4 if kind == 1 else v


def gen_a2pform(nrng, thorough):
    obj = lambda v: np.array(v, dtype=object)
    # the documented / audited calls
    yield ("a2pform", {"A": obj([1, .5]), "B": obj([.5, .5]), "rho": 2, "T": 4, "nfft": 8, "form": "list/list/kw"})
    yield ("a2pform", {"A": obj([1, .5]), "B": obj([.5, .5]), "rho": 2., "T": 4., "nfft": 8, "form": "list/list/pos"})
    yield ("a2pform", {"A": obj([1, .5]), "B": obj([.5, .5]), "rho": 2., "T": 4., "nfft": 4096, "form": "list/list/default"})
    yield ("a2pform", {"A": obj([1, .5]), "B": None, "rho": 1., "T": 1., "nfft": 4096, "form": "list/list/default"})
    yield ("a2pform", {"A": None, "B": obj([.5, .5]), "rho": 1., "T": 1., "nfft": 4096, "form": "list/list/none"})
    yield ("a2pform", {"A": np.array([1, -3]), "B": np.array([3]), "rho": 1, "T": 3, "nfft": 3, "form": "array/array/kw"})
    yield ("a2pform", {"A": np.array([0.2 + 0.1j]), "B": np.array([0.3j]), "rho": .5, "T": 1e5, "nfft": 2, "form": "tuple/list/kw"})
    yield ("a2pform", {"A": np.array([]), "B": obj([.5, .5]), "rho": 1, "T": 1, "nfft": 3, "form": "array/list/kw"})
    yield ("a2pform", {"A": np.array([]), "B": None, "rho": 3, "T": 1e-2, "nfft": 1, "form": "array/array/kw"})
    for nfft, T, rho in ((51, 1e-2, 1e-6), (64, 1e5, 1e3)) + (((52, 1.0, 1.0), (127, 3e4, 2)) if thorough else ()):
        for t in range(20):
            A50 = nrng.standard_normal(50) * 0.1
            if _well_posed(A50, nfft):
                break
        B30 = (nrng.standard_normal(30) + 1j * nrng.standard_normal(30)) * 0.1
        yield ("a2pform", {"A": A50, "B": B30, "rho": rho, "T": T, "nfft": nfft, "form": "array/array/kw"})
        yield ("a2pform", {"A": B30, "B": A50, "rho": rho, "T": T, "nfft": nfft, "form": "list/tuple/pos"} if _well_posed(B30, nfft) else
               {"A": A50, "B": None, "rho": rho, "T": T, "nfft": nfft, "form": "tuple/array/pos"})
    forms = ("array", "list", "tuple")
    Ts = (4, 1e-2, 1e5, None, 1, None)
    for i in range(60 if not thorough else 600):
        fa, fb, call = forms[i % 3], forms[(i // 3) % 3], ("kw", "pos")[(i // 9) % 2]
        ka = [0, 1, 2, 3, 2, 3, 1, 0, 4, 5][(i // 2) % 10]
        kb = [2, 3, 0, 1, 5, 2, 3, 4, 0, 1][(i // 5) % 10]
        if ka == 5 and kb == 5:
            kb = 2
        la, lb = int(nrng.integers(1, 7)), int(nrng.integers(1, 7))
        B = _coef(nrng, lb, kb)
        mx = max(0 if ka in (4, 5) else la, 0 if B is None else len(B))
        nfft = mx + 1 if i % 3 == 0 else int(nrng.integers(mx + 1, 40))
        for t in range(50):
            A = _coef(nrng, la, ka)
            if _well_posed(A, nfft):
                break
        else:
            continue
        rho = int(nrng.integers(1, 6)) if (i // 4) % 2 else float(10 ** nrng.uniform(-6, 3))
        T = Ts[i % 6] if Ts[i % 6] is not None else float(10 ** nrng.uniform(-2, 5))
        q = {"A": A, "B": B, "rho": rho, "T": T, "nfft": nfft, "form": "%s/%s/%s" % (fa, fb, call)}
        if i % 20 == 19:
            q["form"] = "%s/%s/%s" % (fa, fb, ("default", "none")[(i // 20) % 2])
            q["nfft"] = 4096
        yield ("a2pform", q)


# ---- arma2psd bin by bin ---------------------------------------------------------------------------------------------------------------

A2PBIN_FAMS = ("ma-notch", "ma-real-zero", "ma-cplx-zero", "arma-notch", "arma-cplx", "ar-pole", "arma-pole-zero", "ma-zero-x-random",
               "ma-on-circle", "arma-on-circle", "random")
A2PBIN_NFFT = (8, 16, 17, 31, 32, 45, 64, 100, 127, 256, 1000, 1024, 4096, 4097)
A2PBIN_OFF = (0.0, 0.0, 0.0, 1e-6, -1e-4, 1e-3, 1e-2, 0.1, -0.37, 0.5)       # distance of the angle from the grid frequency, in bins


def _notch(r, th):
    """1 - 2 r cos(th) z^-1 + r^2 z^-2: zeros r e^{+-j th}"""
    return np.array([-2.0 * r * np.cos(th), r * r])


def _min_mod(cf, nfft):
    z = np.exp(-2j * np.pi * np.arange(nfft) / nfft)
    return float(np.min(np.abs(1 + sum(complex(cf[i]) * z ** (i + 1) for i in range(len(cf))))))


def gen_a2pbin(nrng, thorough):
    """All inside the quantifier: any coefficient vectors (real / complex), rho > 0, T > 0, NFFT > max(len(A), len(B)).
    AR parts whose |A(f)| comes below 2e-10 on the grid are redrawn (a pole ON a grid frequency leaves no value to compare)."""
    n = 8 * len(A2PBIN_FAMS) if not thorough else 60 * len(A2PBIN_FAMS)
    fixed_gaps = (1e-2, 1e-4, 1e-6, 1e-9, 1e-5, 1e-7, 1e-3, 1e-8)
    for i in range(n):
        fam = A2PBIN_FAMS[i % len(A2PBIN_FAMS)]
        rep = i // len(A2PBIN_FAMS)
        for attempt in range(20):
            nfft = int(A2PBIN_NFFT[int(nrng.integers(0, len(A2PBIN_NFFT)))]) if rep % 4 else int(nrng.integers(4, 65))
            gap = float(fixed_gaps[rep % 8]) if rep < 8 else float(10.0 ** -nrng.uniform(2, 9))
            r = 1.0 - gap
            k0 = [0, nfft // 2, nfft // 4, 1][rep % 4] if rep % 3 == 0 else int(nrng.integers(0, nfft))
            off = float(A2PBIN_OFF[int(nrng.integers(0, len(A2PBIN_OFF)))])
            th = 2 * np.pi * (k0 + off) / nfft
            z0 = r * np.exp(1j * th)
            na = int(nrng.integers(1, 5))
            ar = nrng.standard_normal(na) * 0.3
            arc = ar + 1j * nrng.standard_normal(na) * 0.3
            A = B = None
            if fam == "ma-notch":
                B = _notch(r, th)
            elif fam == "ma-real-zero":                       # leaky differencer (zero at DC) / leaky summer (zero at Nyquist)
                B = np.array([-r if rep % 2 == 0 else r])
                off = 0.0 if (rep % 2 == 0 or nfft % 2 == 0) else 0.5
            elif fam == "ma-cplx-zero":
                B = np.array([-z0])
            elif fam == "arma-notch":                         # notch filter: zeros at the circle, poles pulled in (or a random AR part)
                B = _notch(r, th)
                A = _notch(float(nrng.uniform(0.5, 0.95)), th) if rep % 2 else ar
            elif fam == "arma-cplx":
                B, A = np.array([-z0]), arc
            elif fam == "ar-pole":                            # resonance next to the unit circle: the PEAK bin is the ill-conditioned one
                A = _notch(r, th) if rep % 2 else np.array([-z0])
            elif fam == "arma-pole-zero":
                k1 = (k0 + 1 + int(nrng.integers(0, max(1, nfft - 1)))) % nfft
                A = _notch(1.0 - 3 * gap, 2 * np.pi * (k1 + off) / nfft)
                B = _notch(r, th)
            elif fam == "ma-zero-x-random":                   # the near-circle zero is one factor of a longer polynomial
                f2 = np.r_[1.0, nrng.standard_normal(int(nrng.integers(1, 6))) * 0.5]
                B = (np.convolve(np.r_[1.0, -z0], f2 + 0j) if rep % 2 else np.convolve(np.r_[1.0, _notch(r, th)], f2))[1:]
            elif fam in ("ma-on-circle", "arma-on-circle"):   # zero ON the circle at a grid frequency, irrational coefficients: the null is
                gap, off = 0.0, 0.0                           # an exact 0 in exact arithmetic, ~1e-32 for the rounded coefficients
                th = 2 * np.pi * k0 / nfft
                B = _notch(1.0, th) if rep % 2 else np.array([-np.exp(1j * th)])
                A = None if fam == "ma-on-circle" else (arc if rep % 2 == 0 else ar)
            else:
                p_, q_ = int(nrng.integers(0, 12)), int(nrng.integers(0, 12))
                cplx = bool(rep % 2)
                A = None if p_ == 0 else nrng.standard_normal(p_) * 0.3 + (1j * nrng.standard_normal(p_) * 0.3 if cplx else 0)
                B = None if q_ == 0 and p_ else nrng.standard_normal(max(q_, 1)) * 0.5 + (1j * nrng.standard_normal(max(q_, 1)) * 0.5 if rep % 4 == 3 else 0)
                gap, off = None, None
            ln = max(0 if A is None else len(A), 0 if B is None else len(B))
            if nfft <= ln:
                continue
            if A is not None and _min_mod(A, nfft) < 2e-10:
                continue
            break
        else:
            continue
        q = {"A": A, "B": B, "rho": float(10 ** nrng.uniform(-6, 3)) if rep % 3 else 1.0,
             "T": float(10 ** nrng.uniform(-2, 5)) if rep % 3 else 1.0, "nfft": nfft, "fam": fam,
             "gap": "none" if gap is None else "0" if gap == 0 else "1e-%d" % int(np.ceil(-np.log10(gap) - 1e-9)),
             "where": "none" if off is None else "on-grid" if off == 0 else "off-grid", "c": [4.0, 0.5, 250.0, 3.0][rep % 4]}
        if rep % 5 == 4:
            q["aslist"] = True
        yield ("a2pbin", q)
