"""C06  Side conversions are lossless, length-consistent and axis-aligned."""
import itertools

import numpy as np

import classes as C
import proto
from common import rel, dyadic

TRUSTED_BASE = [
    "numpy.fft.fftshift / ifftshift are modelled by their index rule (rotation by floor(n/2))",
    "exact mode: PSD vectors are basis vectors and small dyadic rationals; the model computes in exact rationals; "
    "agreement required to rtol 1e-13",
    "estimator objects ('est' histories): the PSD an estimator computes is taken from a FRESH object of the same class / "
    "data / NFFT / sampling (the property quantifies over stored PSDs, not over how they are estimated); the conversions "
    "of that PSD are specified by spec_S / spec_rep / spec_freqs of this file and by the model in double precision",
    "walks: the PSD an estimator stores after an NFFT / sampling / data change (explicit call or lazy recomputation) is taken "
    "from a FRESH object of the same class in the configuration then in force; the model sees the operations after the last "
    "stored PSD only (exact rationals when that PSD was set by hand, doubles when it was computed); the conversions of the "
    "earlier segments are specified by spec_S / spec_rep / spec_freqs of this file",
    "arma2psd(sides='centerdc'): the model's two-sided arma2psd (double precision, rtol 1e-9 as in C08) re-indexed by the "
    "centre-DC index rule of this file; the oracle evaluates rho/T |B(f)|^2/|A(f)|^2 directly at the centre-DC axis",
]
PARTIAL = []
ASSUMPTIONS = ["tools.twosided_2_onesided is specified for symmetric two-sided input (the two-sided PSD of real data); on other "
               "vectors only the model/implementation correspondence is checked",
               "a stored one-sided PSD has NFFT/2+1 (NFFT even) or (NFFT+1)/2 (NFFT odd) values; a stored PSD of complex "
               "data is two-sided with NFFT values (what the estimators store)",
               "tools.onesided_2_twosided has no NFFT argument and is specified for an even two-sided length 2(L-1), L >= 2",
               "complex data has no one-sided form: a one-sided target on a complex object with a stored PSD is rejected "
               "(AssertionError) and must leave sides and psd untouched (the rest of the history is then checked as if the "
               "rejected operation were absent); on a complex object that has NO stored PSD yet `sides = 'onesided'` is "
               "accepted until the first read resets it (recorded quirk, not generated)",
               "a `sides` assignment made before the first computation of an estimator is not a conversion of a stored PSD: "
               "only a following get_converted_psd is checked (against the PSD of a fresh object), not the psd attribute",
               "only the three names of the statement are passed as `sides` argument: get_converted_psd('default') / "
               "('bogus') return the two-sided vector silently and frequencies('default') returns None (not asserted)",
               "walks: on a plain Spectrum an NFFT or sampling change is always followed by `psd = vector` before the next "
               "conversion (the class cannot recompute; converting the out-of-date vector is not a conversion of a stored PSD), "
               "the vector set by hand on real data has the one-sided length of the NFFT in force (the psd setter does not keep "
               "NFFT in step), estimator NFFTs are never below the record length, an estimator's first conversion before anything "
               "was computed is a get (see above), and each stored PSD sees at most 4 conversions (plus a rejected one)",
               "'total power' of the statement is the sum of the PSD values; Spectrum.power() is the library's own quantity "
               "(sum * len(psd) without scale_by_freq, so it differs between one- and two-sided forms) and is not asserted",
               "arma2psd accepts sides in {'default', 'centerdc'} only (anything else raises AssertionError): only these two "
               "are generated; cshift offsets are ints or floats (floats truncate toward zero, as documented)"]
RULE = ("Spectrum objects with a stored PSD: real/complex x NFFT 1..33 (quick: 1..20) x every history of up to 4 "
        "operations over {sides = one|two|center|default, get_converted_psd(one|two|center)} (exhaustive to length 2 in "
        "quick, sampled beyond; exhaustive to length 3 in thorough) x basis vectors and random vectors (stored as float / "
        "int64 arrays and Python lists); every complex history of length <= 2 that contains the rejected one-sided target; "
        "estimator objects (Periodogram, pburg, pcorrelogram, pmusic, MultiTapering plus two seed-dependent other classes in "
        "quick, all fourteen in thorough) x real/complex data x N 24|25 x NFFT None|nextpow2|32|33|40|41 x sampling 1|8000 x "
        "{all length-2 histories on a current PSD, set a / data or NFFT change / get|set b, set a before the first "
        "computation / get b} (a seed-dependent 1/6 of them, 1/12 for the two other classes, in quick; 1/2 resp. 1/8 per "
        "round in thorough); tools helpers and cshift on random vectors of every length (arrays, lists, tuples, integers); "
        "arma2psd(sides='centerdc') for NFFT 4..101 (..256 in thorough) x real/complex/absent A, B x norm; "
        "walks (330 per quick run, 789 per thorough round): ONE object (plain Spectrum real/complex NFFT 1..24 with the PSD "
        "set by hand; Periodogram, pburg, pcorrelogram, pmusic, MultiTapering plus two seed-dependent other classes in quick, "
        "all fourteen in thorough, real/complex data N 16|17, NFFT N..44) taken through 2..4 segments of [NFFT change (half of "
        "them to the parity neighbour with the same one-sided length 2m <-> 2m+1, else double / odd -> odd / neighbour with "
        "another one-sided length / any; for complex data also implied by the length of the vector handed to the psd setter) "
        "and / or sampling change or data change] + [new stored PSD: psd = vector by hand, explicit call, or lazily by the "
        "next conversion] + [1..4 conversions; on real data half of the segments fold back to one-sided and half of the "
        "following segments start by unfolding; complex data: now and then a rejected one-sided target], the object replaced "
        "by its deep copy / pickle round trip / shallow copy in a quarter of the walks, and in every fourth walk ANOTHER "
        "short-lived object of the same class folding a PSD at the parity-neighbour NFFT before every conversion; after EVERY "
        "conversion the exposed vector is checked (length = frequencies(sides) of the object and of the specification for the "
        "CURRENT NFFT, values, total power, the reported axis for the current NFFT and sampling), the final state as in the "
        "other histories, and the operations after the last stored PSD against the model; "
        "non-trivial = NFFT >= 3 and at least one real conversion in the history")

# "est" cases carry the data record as `x`: amplitude and strided variants are derived by the runner; the degenerate
# variants (dominant DC / Nyquist tone, zero ends) say nothing about conversions and may leave an estimator's domain
NO_DEGEN = {"est", "walk"}

SIDES = ["onesided", "twosided", "centerdc"]


_FS = {"fs": 1.0}


def _make(cplx, nfft, vals, nd=None, store=None):
    from spectrum import Spectrum
    data = np.arange(1, (nd or nfft) + 1).astype(complex if cplx else float)
    s = Spectrum(data, NFFT=nfft, sampling=_FS["fs"], scale_by_freq=False)
    # the container handed to the psd setter: float64 array (default), Python list of floats / of ints, int64 array
    if store == "list":
        s.psd = [float(v) for v in vals]
    elif store == "intlist":
        s.psd = [int(v) for v in vals]
    elif store == "int64":
        s.psd = np.array([int(v) for v in vals], dtype=np.int64)
    else:
        s.psd = np.array(vals, dtype=float)
    return s


def _L(cplx, nfft):
    return nfft if cplx else (nfft // 2 + 1 if nfft % 2 == 0 else (nfft + 1) // 2)


def _default(cplx):
    return "twosided" if cplx else "onesided"


# ---- specification: the two-sided spectrum S on Z_n and its three representations ------------------

def spec_S(cplx, nfft, vals):
    vals = np.asarray(vals, dtype=float)
    if cplx:
        return vals.copy()
    S = np.zeros(nfft)
    h = nfft // 2
    for k in range(len(vals)):
        if k == 0 or (nfft % 2 == 0 and k == h):
            S[k] = vals[k]
        else:
            S[k] = vals[k] / 2
            S[nfft - k] = vals[k] / 2
    return S


def spec_rep(side, S):
    n = len(S)
    h = n // 2
    if side == "twosided":
        return S.copy()
    if side == "centerdc":
        return np.array([S[(a - h) % n] for a in range(n)])
    L = h + 1 if n % 2 == 0 else (n + 1) // 2
    out = np.zeros(L)
    for k in range(L):
        if k == 0 or (n % 2 == 0 and k == h):
            out[k] = S[k]
        else:
            out[k] = S[k] + S[n - k]
    return out


def spec_freqs(side, n, fs=1.0):
    df = fs / n
    if side == "twosided":
        return np.arange(n) * df
    if side == "centerdc":
        return (np.arange(n) - n // 2) * df
    L = n // 2 + 1 if n % 2 == 0 else (n + 1) // 2
    return np.arange(L) * df


# ---- histories -------------------------------------------------------------------------------------

def _bytes(a):
    a = np.asarray(a)
    return (a.dtype.str, a.shape, a.tobytes())


def _step(s, op, side, cplx, notes, tag, current=True):
    """one set / get on the object; returns the exposed vector (stored psd after an assignment, returned vector of a get).
    With `notes` (a list) the aliasing / no-side-effect clauses are evaluated, and an AssertionError of a one-sided target on
    complex data is tolerated: the operation must then have left sides and psd untouched, None is returned.
    current=False: the stored PSD is known to be out of date (reading it beforehand would change the scenario)."""
    before = sides0 = None
    if notes is not None and current:
        sides0 = s.sides
        before = _bytes(s.psd)
    try:
        if op == "set":
            s.sides = side
            r = s.psd
        else:
            r = s.get_converted_psd(side)
    except AssertionError:
        if notes is None or not (cplx and side == "onesided"):
            raise
        if before is not None and (s.sides != sides0 or _bytes(s.psd) != before):
            notes.append("rejected one-sided target on complex data changed the object: sides %s -> %s, psd %s (%s)" % (
                sides0, s.sides, "changed" if _bytes(s.psd) != before else "unchanged", tag))
        return None
    if notes is not None:
        # the vector is as long as the axis the object itself reports for these sides, at this moment
        sd = s._default_sides() if side == "default" else side
        fa = s.frequencies(sd)
        if fa is None or len(fa) != len(r):
            notes.append("length %d != len(frequencies('%s')) = %s on the object (%s)" % (
                len(r), sd, None if fa is None else len(fa), tag))
    if notes is not None and op == "get":
        # a get never changes the object; a genuine conversion returns new memory (writing into the returned vector must
        # not reach the stored PSD); asking for the current sides hands out the stored array itself (not asserted)
        if before is not None and (s.sides != sides0 or _bytes(s.psd) != before):
            notes.append("get_converted_psd('%s') changed the object: sides %s -> %s, stored psd %s (%s)" % (
                side, sides0, s.sides, "changed" if _bytes(s.psd) != before else "bit-identical", tag))
        if side != s.sides and isinstance(r, np.ndarray) and np.shares_memory(r, s.psd):
            notes.append("get_converted_psd('%s') on a '%s' object returns memory shared with the stored psd (%s)" % (
                side, s.sides, tag))
    return np.array(r, dtype=float)


def run_hist(p, notes=None):
    """returns the vector exposed by each op (stored psd after an assignment, returned vector of a get)"""
    _FS["fs"] = p.get("fs", 1.0)
    try:
        # the record length is independent of NFFT: half of the histories run on an object whose data length has the other
        # parity (N = NFFT - 1), a third of those on N = NFFT - 3 (deterministic in the parameters, so replays agree)
        nfft = p["nfft"]
        h = (len(p["ops"]) + nfft + int(round(float(np.sum(np.asarray(p["vals"])) * 8)))) % 6
        nd = nfft if h < 3 or nfft < 2 else (nfft - 1 if h < 5 or nfft < 4 else nfft - 3)
        s = _make(p["cplx"], nfft, p["vals"], nd, p.get("store"))
    finally:
        _FS["fs"] = 1.0
    outs = []
    for op, side in p["ops"]:
        outs.append(_step(s, op, side, p["cplx"], notes, "%s NFFT=%d history %s at %s:%s" % (
            "complex" if p["cplx"] else "real", nfft, p["ops"], op, side)))
    return s, outs


def impl_hist(p):
    return run_hist(p)[1]


def model_hist(p):
    dflt = _default(p["cplx"])
    toks = ["%s:%s" % (op, dflt if side == "default" else side) for op, side in p["ops"]]
    return ("Q", proto.request("convhist", "Q", [1 if p["cplx"] else 0, p["nfft"], dflt] + toks, [p["vals"]]))


def _check_exposed(ops, outs, cplx, S_of, n_of, fs, who, floor=1.0):
    """every exposed vector is the representation (for its sides) of the two-sided spectrum S stored at that moment"""
    out = []
    for i, ((op, side), got) in enumerate(zip(ops, outs)):
        if got is None:          # rejected operation (state checked in _step) or an operation that exposes nothing
            continue
        S, nfft = S_of(i), n_of(i)
        total = float(np.sum(S))
        sd = _default(cplx) if side == "default" else side
        exp = spec_rep(sd, S)
        fr = spec_freqs(sd, nfft, fs)
        tag = "%s NFFT=%d history %s at %s:%s" % (who, nfft, ops, op, side)
        if len(got) != len(fr):
            out.append("length %d != len(frequencies('%s')) = %d (%s)" % (len(got), sd, len(fr), tag))
            break
        if rel(got, exp) > 1e-12:
            out.append("values not carried to their frequencies / path dependent: got %s expected %s (%s)" % (
                np.round(got, 4).tolist()[:10], np.round(exp, 4).tolist()[:10], tag))
            break
        # "total power" of the statement = the sum of the PSD values.  (Spectrum.power() is the library's own quantity:
        # sum(psd) * len(psd) when scale_by_freq is False -- the docstring says N * sum --, e.g. 4.49 one-sided against
        # 7.98 two-sided for the same spectrum; it is not invariant under conversions and not what the property names.)
        if abs(float(np.sum(got)) - total) > 1e-12 * max(abs(total), floor):
            out.append("total power changed: %.6g -> %.6g (%s)" % (total, float(np.sum(got)), tag))
            break
    return out


def _check_axes(s, cplx, nfft, fs, ops):
    out = []
    # the object's own frequencies() for its final sides matches the PSD length and the specified axis
    f = np.asarray(s.frequencies())
    if len(f) != len(s.psd):
        out.append("len(frequencies()) = %d but len(psd) = %d after %s" % (len(f), len(s.psd), ops))
    elif rel(f, spec_freqs(s.sides, nfft, fs)) > 1e-12:
        out.append("frequencies('%s') is not the specified axis for NFFT=%d: %s" % (s.sides, nfft, np.round(f, 4).tolist()[:8]))
    # every axis the object can report, whatever its current sides, is the specified one ("length = its frequency axis")
    # (only the three names of the statement: frequencies('default') returns None and get_converted_psd('default') /
    #  ('bogus') silently return the two-sided vector -- outside the statement, not asserted)
    for sd in (["twosided", "centerdc"] if cplx else ["onesided", "twosided", "centerdc"]):
        fa = np.asarray(s.frequencies(sd))
        fx = spec_freqs(sd, nfft, fs)
        if len(fa) != len(fx) or rel(fa, fx) > 1e-12:
            out.append("frequencies('%s') has %d entries, the %s representation has %d (NFFT=%d sampling=%s)" % (
                sd, len(fa), sd, len(fx), nfft, fs))
            break
    return out


def oracle_hist(p):
    cplx, nfft = p["cplx"], p["nfft"]
    S = spec_S(cplx, nfft, p["vals"])
    out = []
    notes = []
    try:
        s, outs = run_hist(p, notes)
    except AssertionError:
        # (complex data cannot be made one-sided: that assertion is tolerated inside run_hist, operation by operation)
        return ["conversion history %s raised AssertionError (real=%s NFFT=%d)" % (p["ops"], not cplx, nfft)]
    except Exception as e:
        return ["conversion history %s raised %r (%s NFFT=%d)" % (p["ops"], e, "complex" if cplx else "real", nfft)]
    out += notes
    out += _check_exposed(p["ops"], outs, cplx, lambda i: S, lambda i: nfft, p.get("fs", 1.0), "complex" if cplx else "real")
    if not out:
        out += _check_axes(s, cplx, nfft, p.get("fs", 1.0), p["ops"])
        # returning to the original sides restores the original values exactly
        s.sides = "default"
        back = np.asarray(s.psd, dtype=float)
        orig = np.asarray(p["vals"], dtype=float)
        if back.shape != orig.shape or rel(back, orig) > 1e-12:
            out.append("returning to the default sides does not restore the stored PSD (%s NFFT=%d history %s)" % (
                "complex" if cplx else "real", nfft, p["ops"]))
    return out


# ---- histories on estimator objects ----------------------------------------------------------------

_FRESH = {}


def _x2(x):
    """the second data record of a history (same length and type, different spectrum)"""
    x = np.asarray(x)
    return x[::-1] * 1.5 + 0.25 * x


def _fresh(cls, x, nfft, fs):
    """the PSD (default sides) a fresh estimator object computes for this configuration, and the resolved NFFT"""
    x = np.ascontiguousarray(x)
    key = (cls, x.dtype.str, x.tobytes(), str(nfft), float(fs))
    if key not in _FRESH:
        if len(_FRESH) > 64:
            _FRESH.clear()
        q = C.make(cls, x, nfft, fs, False)
        v = np.array(q.psd, dtype=float)
        _FRESH[key] = (v, int(q.NFFT))
    v, n = _FRESH[key]
    return v.copy(), n


def _est_configs(p):
    """(data, NFFT argument) in force at each op of the history"""
    x, nf = np.asarray(p["x"]), p["nfft"]
    cfgs = []
    for op, arg in p["ops"]:
        if op == "data":
            x = _x2(x)
        elif op == "nfft":
            nf = arg
        cfgs.append((x, nf))
    return cfgs


def run_est(p, notes=None):
    """the exposed vector of each op (None for data / NFFT changes and for a sides assignment made before the first
    computation, which exposes nothing: reading psd there would compute it)"""
    x = np.asarray(p["x"])
    cplx = np.iscomplexobj(x)
    s = C.make(p["cls"], x, p["nfft"], p.get("fs", 1.0), False)
    computed = bool(p.get("warm", True))
    if computed:
        s.psd
    current = computed
    outs = []
    for op, arg in p["ops"]:
        if op == "data":
            x = _x2(x)
            s.data = x
            current = False
            outs.append(None)
        elif op == "nfft":
            s.NFFT = arg
            current = False
            outs.append(None)
        elif op == "set" and not computed:
            s.sides = arg
            outs.append(None)
        else:
            outs.append(_step(s, op, arg, cplx, notes, "%s %s NFFT=%s history %s at %s:%s" % (
                p["cls"], "complex" if cplx else "real", p["nfft"], p["ops"], op, arg), current=current))
            computed = current = True
    return s, outs


def _est_tail(p):
    """index of the first op whose exposed vector only depends on the final configuration (after the last data / NFFT
    change; after the assignments that precede the first computation)"""
    ops = p["ops"]
    start = 0
    for i, (op, _) in enumerate(ops):
        if op in ("data", "nfft"):
            start = i + 1
    if not p.get("warm", True) and start == 0:
        while start < len(ops) and ops[start][0] == "set":
            start += 1
    return start


def impl_est(p):
    outs = run_est(p)[1]
    return [o for o in outs[_est_tail(p):] if o is not None]


def model_est(p):
    # a recomputation stores the default sides: the model runs the operations that follow it on the fresh object's PSD
    x = np.asarray(p["x"])
    cplx = np.iscomplexobj(x)
    dflt = _default(cplx)
    t = _est_tail(p)
    xc, nf = _est_configs(p)[t - 1] if t > 0 else (x, p["nfft"])
    vals, n = _fresh(p["cls"], xc, nf, p.get("fs", 1.0))
    toks = ["%s:%s" % (op, dflt if side == "default" else side) for op, side in p["ops"][t:]]
    return ("F", proto.request("convhist", "F", [1 if cplx else 0, n, dflt] + toks, [vals]))


def oracle_est(p):
    x = np.asarray(p["x"])
    cplx = np.iscomplexobj(x)
    fs = p.get("fs", 1.0)
    who = "%s(%s N=%d NFFT=%s sampling=%s%s)" % (p["cls"], "complex" if cplx else "real", len(x), p["nfft"], fs,
                                                 "" if p.get("warm", True) else ", nothing computed yet")
    cfgs = _est_configs(p)
    fresh = [_fresh(p["cls"], xc, nf, fs) for xc, nf in cfgs] if cfgs else []
    notes = []
    try:
        s, outs = run_est(p, notes)
    except Exception as e:
        return ["conversion history %s on %s raised %r" % (p["ops"], who, e)]
    out = list(notes)
    out += _check_exposed(p["ops"], outs, cplx, lambda i: spec_S(cplx, fresh[i][1], fresh[i][0]), lambda i: fresh[i][1], fs, who,
                          floor=0.0)
    if not out:
        v, n = fresh[-1] if fresh else _fresh(p["cls"], x, p["nfft"], fs)
        out += _check_axes(s, cplx, n, fs, p["ops"])
        for sd in (SIDES[1:] if cplx else SIDES):
            r = np.asarray(s.get_converted_psd(sd))
            if len(r) != len(s.frequencies(sd)):
                out.append("len(get_converted_psd('%s')) = %d but len(frequencies('%s')) = %d after %s on %s" % (
                    sd, len(r), sd, len(s.frequencies(sd)), p["ops"], who))
        # returning to the original sides restores the original values exactly
        s.sides = "default"
        back = np.asarray(s.psd)
        if s.sides != _default(cplx) or back.shape != v.shape or not np.array_equal(back, v):
            out.append("returning to the default sides does not restore the computed PSD exactly after %s on %s (max rel. "
                       "difference %.3g)" % (p["ops"], who, rel(back, v)))
    return out


# ---- one object, several layouts: conversions interleaved with NFFT / sampling / data changes and newly stored PSDs ----
#
# The histories above run at ONE NFFT per object (the "est" kind changes it once, before any fold).  A "walk" takes one object
# (a plain Spectrum whose PSD is set by hand, or an estimator) through several SEGMENTS: [changes that invalidate the stored
# PSD: NFFT (to the neighbour of the other parity that has the same one-sided length 2m <-> 2m+1, to the double, odd -> odd,
# anything), sampling, data] + [a new PSD is stored: `p.psd = vector` by hand, explicit `p()`, or lazily by the next
# conversion] + [up to 4 conversions].  After EVERY conversion the exposed vector must be the representation, for the CURRENT
# NFFT and sampling, of the PSD stored at that moment: nothing the object remembers from an earlier layout may leak.

_INVALIDATE = ("nfft", "fs", "data")
_STORE = ("psd", "call")


def _walk_states(p):
    """specification side.  For every op: (NFFT, sampling, stored PSD in the default sides or None, was the stored PSD
    current before the op) -- the configuration in force once the op is done.  A PSD computed by an estimator (explicit
    call, or lazily by the first conversion after a change) is the PSD of a FRESH object of that configuration."""
    x = np.asarray(p["x"])
    cplx = np.iscomplexobj(x)
    nfft, fs = int(p["nfft"]), float(p.get("fs", 1.0))
    vals, current = None, False
    st = []
    for op, arg in p["ops"]:
        was = current
        if op == "nfft":
            if int(arg) != nfft:           # assigning the value in force is a no-op of the NFFT setter
                nfft, current = int(arg), False
        elif op == "fs":
            if float(arg) != fs:
                fs, current = float(arg), False
        elif op == "data":
            x, current = _x2(x), False
        elif op == "psd":
            vals, current = np.asarray(arg, dtype=float), True
            if cplx:
                nfft = len(vals)          # the psd setter of a complex object takes NFFT from the vector
        elif op == "call" or not current:
            vals, n = _fresh(p["cls"], x, nfft, fs)
            current = True
        st.append((nfft, fs, vals, was))
    return st


def _walk_tail(p):
    start = 0
    for i, (op, _) in enumerate(p["ops"]):
        if op in _INVALIDATE or op in _STORE:
            start = i + 1
    return start


def _shadow(p, s, x):
    """ANOTHER, short-lived object of the same class and data folds a PSD at the NFFT that is the parity neighbour of the
    main object's (same one-sided length), or for complex data goes to centre-DC and back, and is dropped: objects share no
    conversion state (class attributes, module-level memos, tables keyed by id())"""
    n = int(s.NFFT)
    nb = n + 1 if n % 2 == 0 else n - 1
    if nb < max(1, len(x) if p["cls"] != "Spectrum" else 1):
        nb = n + 2
    cplx = np.iscomplexobj(x)
    if p["cls"] == "Spectrum":
        from spectrum import Spectrum
        t = Spectrum(x, NFFT=nb, sampling=float(s.sampling), scale_by_freq=False)
        t.psd = np.arange(1.0, _L(cplx, nb) + 1)
    else:
        t = C.make(p["cls"], x, nb, float(s.sampling), False)
        t.psd
    t.sides = "centerdc" if cplx else "twosided"
    t.sides = "default"
    del t


def run_walk(p, notes=None, axes=None):
    """the exposed vector of each op (None for the ops that are not conversions).  With `axes` (a list) the frequency axis the
    object reports for the sides of each conversion, right after it, is recorded."""
    x = np.asarray(p["x"])
    cplx = np.iscomplexobj(x)
    fs = float(p.get("fs", 1.0))
    if p["cls"] == "Spectrum":
        from spectrum import Spectrum
        s = Spectrum(x, NFFT=int(p["nfft"]), sampling=fs, scale_by_freq=False)
    else:
        s = C.make(p["cls"], x, int(p["nfft"]), fs, False)
    tail = _walk_tail(p)
    current = False
    outs = []
    for i, (op, arg) in enumerate(p["ops"]):
        if op == "nfft":
            if int(arg) != s.NFFT:
                current = False
            s.NFFT = int(arg)
        elif op == "fs":
            if float(arg) != s.sampling:
                current = False
            s.sampling = float(arg)
        elif op == "data":
            x = _x2(x)
            s.data = x
            current = False
        elif op == "psd":
            s.psd = np.array(arg, dtype=float)
            current = True
        elif op == "call":
            s()
            current = True
        elif op == "copy":
            # the object is replaced by its deep copy / pickle round trip / shallow copy (the original is dropped): the copy
            # holds the same stored PSD in the same sides, or is out of date in the same way
            import copy
            import pickle
            s = copy.deepcopy(s) if arg == "deep" else pickle.loads(pickle.dumps(s)) if arg == "pickle" else copy.copy(s)
        else:
            if p.get("shadow"):
                _shadow(p, s, x)
            # (a rejected one-sided target on complex data in an earlier segment is tolerated by the plain runner too: the
            #  model only sees the operations after the last stored PSD)
            nt = notes if notes is not None else ([] if i < tail and cplx and arg == "onesided" else None)
            r = _step(s, op, arg, cplx, nt, "%s %s NFFT=%s walk step %d %s:%s" % (
                p["cls"], "complex" if cplx else "real", s.NFFT, i, op, arg), current=current)
            current = True
            outs.append(r)
            if axes is not None:
                sd = s._default_sides() if arg == "default" else arg
                axes.append(None if r is None else np.asarray(s.frequencies(sd), dtype=float))
            continue
        outs.append(None)
        if axes is not None:
            axes.append(None)
    return s, outs


def impl_walk(p):
    outs = run_walk(p)[1]
    return [o for o in outs[_walk_tail(p):] if o is not None]


def model_walk(p):
    # the model converts the PSD stored last (by hand: exact rationals; computed: the fresh object's PSD, doubles) with the
    # operations that follow it, at the NFFT then in force
    cplx = np.iscomplexobj(np.asarray(p["x"]))
    dflt = _default(cplx)
    t = _walk_tail(p)
    nfft, fs, vals, _ = _walk_states(p)[-1]
    hand = [op for op, _ in p["ops"][:t] if op in _STORE or op in _INVALIDATE][-1:] == ["psd"]
    mode = "Q" if hand else "F"
    toks = ["%s:%s" % (op, dflt if side == "default" else side) for op, side in p["ops"][t:] if op in ("set", "get")]
    return (mode, proto.request("convhist", mode, [1 if cplx else 0, nfft, dflt] + toks, [vals]))


def _ops_text(ops):
    return " ".join("%s:%s" % (op, "[%d values]" % len(arg) if op == "psd" else arg) for op, arg in ops)


def oracle_walk(p):
    x = np.asarray(p["x"])
    cplx = np.iscomplexobj(x)
    ops = [(op, arg) for op, arg in p["ops"]]
    who = "%s(%s N=%d NFFT=%s sampling=%s) walk [%s]" % (p["cls"], "complex" if cplx else "real", len(x), p["nfft"],
                                                        p.get("fs", 1.0), _ops_text(ops))
    st = _walk_states(p)
    notes, axes = [], []
    try:
        s, outs = run_walk(p, notes, axes)
    except Exception as e:
        return ["%s raised %r" % (who, e)]
    out = list(notes)
    conv = [i for i, (op, _) in enumerate(ops) if op in ("set", "get")]
    if not out:
        # the module's oracle for an exposed vector, applied after every conversion with the NFFT / sampling / stored PSD in
        # force at that moment
        cops = [ops[i] for i in conv]
        out += _check_exposed(cops, [outs[i] for i in conv], cplx,
                              lambda j: spec_S(cplx, st[conv[j]][0], st[conv[j]][2]), lambda j: st[conv[j]][0],
                              1.0, who, floor=0.0 if p["cls"] != "Spectrum" else 1.0)
    if not out:
        # ... and the axis the object reports for those sides at that moment is the specified axis of the CURRENT NFFT and
        # sampling (1e-12: the axes are k * sampling / NFFT, at most an ulp or two apart)
        for i in conv:
            if outs[i] is None:
                continue
            sd = _default(cplx) if ops[i][1] == "default" else ops[i][1]
            fx = spec_freqs(sd, st[i][0], st[i][1])
            if axes[i] is None or len(axes[i]) != len(fx) or rel(axes[i], fx) > 1e-12:
                out.append("frequencies('%s') after step %d (%s:%s) is not the axis of NFFT=%d sampling=%s: %d entries, %d "
                           "expected (%s)" % (sd, i, ops[i][0], ops[i][1], st[i][0], st[i][1],
                                              -1 if axes[i] is None else len(axes[i]), len(fx), who))
                break
    if not out and st and st[-1][2] is not None:
        nfft, fs, vals, _ = st[-1]
        out += _check_axes(s, cplx, nfft, fs, _ops_text(ops))
        for sd in (SIDES[1:] if cplx else SIDES):
            r = np.asarray(s.get_converted_psd(sd), dtype=float)
            e = spec_rep(sd, spec_S(cplx, nfft, vals))
            if len(r) != len(s.frequencies(sd)) or len(r) != len(e) or rel(r, e) > 1e-12:
                out.append("final get_converted_psd('%s') has %d values, frequencies('%s') %d, expected %d; rel. difference %s (%s)" % (
                    sd, len(r), sd, len(s.frequencies(sd)), len(e), "%.3g" % rel(r, e) if len(r) == len(e) else "n/a", who))
        # returning to the original sides restores the values stored last (exactly when they were computed, as in the "est"
        # histories; to 1e-12 when set by hand, as in the "hist" histories)
        s.sides = "default"
        back = np.asarray(s.psd, dtype=float)
        hand = [op for op, _ in ops if op in _STORE or op in _INVALIDATE][-1:] == ["psd"]
        ok = back.shape == vals.shape and (rel(back, vals) <= 1e-12 if hand else np.array_equal(back, vals))
        if s.sides != _default(cplx) or not ok:
            out.append("returning to the default sides does not restore the PSD stored last (%s)" % who)
    return out


def _key_walk(p):
    import zlib
    txt = "|".join("%s:%s" % (op, _h(np.asarray(arg, dtype=float)) if op == "psd" else arg) for op, arg in p["ops"])
    return "walk|%s|%s|%s|%s|%s|%08x" % (p["cls"], p["nfft"], p.get("fs"), bool(p.get("shadow")), _h(p["x"]), zlib.crc32(txt.encode()))


def _L_same(a, b):
    return a != b and _L(False, a) == _L(False, b)


def _tags_walk(p):
    cplx = np.iscomplexobj(np.asarray(p["x"]))
    tags = ["walk:" + ("Spectrum" if p["cls"] == "Spectrum" else "estimator"), "walk:" + ("complex" if cplx else "real"),
            "walk-class:" + p["cls"]]
    n = int(p["nfft"])
    sides, pending = _default(cplx), None
    folded, seen_fold, kinds = set(), False, set()
    for op, arg in p["ops"]:
        if op == "nfft":
            a = int(arg)
            kinds.add("neighbour-same-onesided-length" if _L_same(n, a) else "double" if a == 2 * n else
                      "odd-to-odd" if n % 2 and a % 2 else "same" if a == n else "other")
            n = a
            sides = _default(cplx)
        elif op == "psd":
            if cplx:
                if len(arg) != n:
                    kinds.add("implicit-by-psd-length")
                n = len(arg)
            kinds.add("store:by-hand")
            sides = _default(cplx)
        elif op == "call":
            kinds.add("store:call")
            sides = _default(cplx)
        elif op in ("fs", "data"):
            kinds.add("change:" + op)
            sides = _default(cplx)
        elif op == "copy":
            kinds.add("change:object-replaced-by-its-%s-copy" % arg)
        elif op == "set":
            sd = _default(cplx) if arg == "default" else arg
            if not (cplx and sd == "onesided"):
                if sd == "onesided" and sides != "onesided":
                    folded.add(n)
                if sides == "onesided" and sd != "onesided" and any(_L_same(n, f) for f in folded):
                    seen_fold = True
                sides = sd
        elif op == "get":
            if sides == "onesided" and arg != "onesided" and any(_L_same(n, f) for f in folded):
                seen_fold = True
    tags += ["walk-nfft:" + k if not k.startswith(("store", "change")) else "walk-" + k for k in sorted(kinds)]
    if seen_fold:
        tags.append("walk:unfold-after-fold-at-the-parity-neighbour")
    if p.get("shadow"):
        tags.append("walk:another-object-folds-at-the-parity-neighbour-before-every-conversion")
    return tags


# ---- tools helpers ---------------------------------------------------------------------------------

def _as_input(x, form):
    """the container handed to a tools helper: the array itself (float64 / int64 / complex128), a Python list or a tuple
    of Python numbers (the docstring examples pass lists of ints)"""
    x = np.asarray(x)
    if form in ("list", "tuple"):
        v = [int(t) for t in x] if x.dtype.kind == "i" else ([complex(t) for t in x] if x.dtype.kind == "c" else [float(t) for t in x])
        return v if form == "list" else tuple(v)
    return np.array(x)


def _untouched(arg, x):
    if isinstance(arg, np.ndarray):
        return np.array_equal(arg, np.asarray(x)) and arg.dtype == np.asarray(x).dtype
    return type(arg)(_as_input(x, "list")) == arg


def impl_helper(p):
    from spectrum import tools
    f = {"t2o": tools.twosided_2_onesided, "o2t": tools.onesided_2_twosided,
         "t2c": tools.twosided_2_centerdc, "c2t": tools.centerdc_2_twosided}[p["fn"]]
    x = np.array(p["x"]) if np.asarray(p["x"]).dtype.kind == "i" else np.array(p["x"], dtype=float)
    arg = _as_input(x, p.get("as"))
    r = np.array(f(arg), dtype=float)
    if not _untouched(arg, x):
        raise RuntimeError("helper modified its argument in place")
    return [r]


def model_helper(p):
    return ("Q", proto.request(p["fn"], "Q", [], [np.asarray(p["x"], dtype=float)]))


def oracle_helper(p):
    x = np.asarray(p["x"], dtype=float)
    n = len(x)
    try:
        got = impl_helper(p)[0]
    except Exception as e:
        return ["tools helper %s raised %r on a %s of length %d" % (p["fn"], e, p.get("as") or "vector", n)]
    if p["fn"] == "t2o":
        # specified for the (symmetric) two-sided PSD of real data; other vectors: correspondence only
        if not all(x[k] == x[(n - k) % n] for k in range(n)):
            return []
        exp = spec_rep("onesided", x)
    elif p["fn"] == "t2c":
        exp = spec_rep("centerdc", x)
    elif p["fn"] == "c2t":
        h = n // 2
        exp = np.array([x[(k + h) % n] for k in range(n)])
    else:
        exp = spec_S(False, 2 * (n - 1), x)
    if got.shape != exp.shape or rel(got, exp) > 1e-12:
        return ["tools helper %s([..%d values..]) = %s, expected %s" % (p["fn"], n, np.round(got, 4).tolist()[:10], np.round(exp, 4).tolist()[:10])]
    return []


# ---- tools.cshift ----------------------------------------------------------------------------------

def impl_cshift(p):
    from spectrum import tools
    x = np.array(p["x"])
    arg = _as_input(x, p.get("as"))
    r = np.array(tools.cshift(arg, p["k"]))
    if not _untouched(arg, x):
        raise RuntimeError("cshift modified its argument in place")
    return [r]


def model_cshift(p):
    # the model takes a natural offset: a circular shift by k is the shift by k mod n (k truncated toward zero first)
    n = len(p["x"])
    return ("Q", proto.request("cshift", "Q", [int(p["k"]) % n], [np.asarray(p["x"])]))


def oracle_cshift(p):
    from spectrum import tools
    x = np.asarray(p["x"])
    n = len(x)
    k = p["k"]
    ki = int(k)                     # "circular shift to the right by a given offset"; a float offset is truncated
    try:
        got = impl_cshift(p)[0]
    except Exception as e:
        return ["cshift(%s of %d values, %r) raised %r" % (p.get("as") or "array", n, k, e)]
    out = []
    exp = np.array([x[(i - ki) % n] for i in range(n)])
    if got.shape != exp.shape or not np.array_equal(got, exp):
        out.append("cshift(x, %r) on %d values is not the circular right shift by %d: %s expected %s" % (
            k, n, ki, got.tolist()[:10], exp.tolist()[:10]))
    if not np.array_equal(exp, np.roll(x, ki)):
        out.append("harness: index rule and numpy.roll differ")
    # the two centre-DC conversions are the shifts by +floor(n/2) and -floor(n/2)
    if ki == n // 2:
        t = np.asarray(tools.twosided_2_centerdc(_as_input(x, p.get("as"))))
        if t.shape != got.shape or not np.array_equal(t, got) or not np.array_equal(got, spec_rep("centerdc", x)):
            out.append("cshift(x, %r) != twosided_2_centerdc(x) for %d values: %s vs %s" % (k, n, got.tolist()[:10], t.tolist()[:10]))
    if ki == -(n // 2):
        t = np.asarray(tools.centerdc_2_twosided(_as_input(x, p.get("as"))))
        back = np.array([x[(i + n // 2) % n] for i in range(n)])
        if t.shape != got.shape or not np.array_equal(t, got) or not np.array_equal(got, back):
            out.append("cshift(x, %r) != centerdc_2_twosided(x) for %d values: %s vs %s" % (k, n, got.tolist()[:10], t.tolist()[:10]))
    return out


# ---- arma2psd(sides='centerdc') --------------------------------------------------------------------

def _arma_call(p, sides):
    from spectrum import arma2psd
    A = None if p["A"] is None else np.array(p["A"])
    B = None if p["B"] is None else np.array(p["B"])
    return np.asarray(arma2psd(A=A, B=B, rho=p["rho"], T=p["T"], NFFT=p["nfft"], sides=sides, norm=p["norm"]))


def _center(d):
    n = len(d)
    return np.array([d[(a - n // 2) % n] for a in range(n)])


def impl_armac(p):
    return [_arma_call(p, "centerdc")]


def model_armac(p):
    A, B = p["A"], p["B"]
    return ("F", proto.request("arma2psd", "F", [p["nfft"], 0 if A is None else 1, 0 if B is None else 1],
                               [np.asarray(A, dtype=complex) if A is not None else [],
                                np.asarray(B, dtype=complex) if B is not None else [], [float(p["rho"])], [float(p["T"])]]))


def post_armac(p, iv, mv):
    # the model command returns the two-sided PSD: the centre-DC form is its re-indexing (and norm divides by the maximum)
    m = _center(np.asarray(mv[0]))
    if p["norm"]:
        m = m / np.max(m.real)
    return iv, [m]


def oracle_armac(p):
    n = p["nfft"]
    try:
        c = _arma_call(p, "centerdc")
        d = _arma_call(p, "default")
    except Exception as e:
        return ["arma2psd(NFFT=%d, norm=%s, sides=...) raised %r" % (n, p["norm"], e)]
    out = []
    tag = "NFFT=%d norm=%s A=%s B=%s" % (n, p["norm"], None if p["A"] is None else np.asarray(p["A"]).dtype.kind + str(len(p["A"])),
                                        None if p["B"] is None else np.asarray(p["B"]).dtype.kind + str(len(p["B"])))
    if c.shape != (n,) or d.shape != (n,) or np.iscomplexobj(c):
        return ["arma2psd(sides='centerdc') returns shape %s dtype %s, the default sides %s (%s)" % (c.shape, c.dtype, d.shape, tag)]
    # (a) the centre-DC result is the two-sided result carried to the centre-DC axis, value by value
    if not np.array_equal(c, _center(d)):
        out.append("arma2psd(sides='centerdc') is not the two-sided result re-indexed by (a - NFFT//2) mod NFFT: %s vs %s (%s)" % (
            np.round(c, 5).tolist()[:8], np.round(_center(d), 5).tolist()[:8], tag))
    # (b) each entry is the ARMA spectrum at the frequency the centre-DC axis gives to that entry
    f = spec_freqs("centerdc", n, 1.0)          # cycles per sample
    Af = np.ones(n, dtype=complex)
    Bf = np.ones(n, dtype=complex)
    if p["A"] is not None:
        for i, a in enumerate(np.asarray(p["A"])):
            Af = Af + a * np.exp(-2j * np.pi * f * (i + 1))
    if p["B"] is not None:
        for i, b in enumerate(np.asarray(p["B"])):
            Bf = Bf + b * np.exp(-2j * np.pi * f * (i + 1))
    ref = p["rho"] / p["T"] * np.abs(Bf) ** 2 / np.abs(Af) ** 2
    if p["norm"]:
        ref = ref / np.max(ref)
    if rel(c, ref) > 1e-9:
        out.append("arma2psd(sides='centerdc')[a] is not the ARMA spectrum at frequency (a - NFFT//2)/NFFT: rel. error %.3g (%s)" % (
            rel(c, ref), tag))
    if abs(float(np.sum(c)) - float(np.sum(d))) > 1e-12 * abs(float(np.sum(d))):
        out.append("arma2psd: total power differs between the two-sided and the centre-DC result (%s)" % tag)
    return out


def _h(a):
    return None if a is None else hash(np.ascontiguousarray(a).tobytes()) & 0xFFFFFF


def _key(p):
    return "%s|%s|%s|%s|%s|%s|%s|%d" % (p.get("cplx"), p.get("nfft"), p.get("fs"), p.get("ops"), p.get("fn"), p.get("store"),
                                    p.get("as"), hash(np.asarray(p.get("vals", p.get("x"))).tobytes()) & 0xFFFFFF)


def _key_est(p):
    return "%s|%s|%s|%s|%s|%s" % (p["cls"], p["nfft"], p.get("fs"), p.get("warm", True), p["ops"], _h(p["x"]))


def _nontrivial_hist(p):
    return p["nfft"] >= 3 and len(p["ops"]) >= 1


def _tags_est(p):
    ops = [o for o, _ in p["ops"]]
    return ["est:" + p["cls"], "est:" + ("complex" if np.iscomplexobj(p["x"]) else "real"), "est-nfft:%s" % p["nfft"],
            "est:" + ("data-change" if "data" in ops else "nfft-change" if "nfft" in ops else
                      "current" if p.get("warm", True) else "before-first-compute")]


KINDS = {
    "hist": {"impl": impl_hist, "model": model_hist, "oracle": oracle_hist, "rtol": 1e-13, "atol": 0.0, "key": _key,
             "nontrivial": _nontrivial_hist,
             "tags": lambda p: ["complex" if p["cplx"] else "real", "nfft:" + ("odd" if p["nfft"] % 2 else "even"),
                                "histlen:%d" % len(p["ops"])] + (["store:" + p["store"]] if p.get("store") else [])},
    "helper": {"impl": impl_helper, "model": model_helper, "oracle": oracle_helper, "rtol": 1e-13, "atol": 0.0, "key": _key,
               "nontrivial": lambda p: len(p["x"]) >= 3,
               "tags": lambda p: ["helper:" + p["fn"], "len:" + ("odd" if len(p["x"]) % 2 else "even")] + (
                   ["helper-input:%s/%s" % (p.get("as") or "array", np.asarray(p["x"]).dtype.kind)]
                   if p.get("as") or np.asarray(p["x"]).dtype.kind != "f" else [])},
    "est": {"impl": impl_est, "model": model_est, "oracle": oracle_est, "rtol": 1e-13, "atol": 0.0, "key": _key_est,
            "tags": _tags_est},
    "cshift": {"impl": impl_cshift, "model": model_cshift, "oracle": oracle_cshift, "rtol": 1e-13, "atol": 0.0,
               "key": lambda p: "cshift|%r|%s|%s" % (p["k"], p.get("as"), _h(p["x"])),
               "nontrivial": lambda p: len(p["x"]) >= 3 and int(p["k"]) % len(p["x"]) != 0,
               "tags": lambda p: ["cshift:" + ("float" if isinstance(p["k"], float) else "int") + "-offset",
                                  "cshift:" + (p.get("as") or "array")]},
    "walk": {"impl": impl_walk, "model": model_walk, "oracle": oracle_walk, "rtol": 1e-13, "atol": 0.0, "key": _key_walk,
             "tags": _tags_walk},
    "armac": {"impl": impl_armac, "model": model_armac, "post": post_armac, "oracle": oracle_armac, "rtol": 1e-9, "atol": 1e-300,
              "key": lambda p: "armac|%d|%s|%s|%s|%s" % (p["nfft"], p["norm"], _h(p["A"]), _h(p["B"]), p["rho"]),
              "tags": lambda p: ["arma2psd-centerdc:nfft-" + ("odd" if p["nfft"] % 2 else "even"), "arma2psd-centerdc:norm-%s" % p["norm"]]},
}


def _vals(nrng, L, j):
    if j == 0:
        return (np.arange(1, L + 1)).astype(float)
    if j == 1:
        v = np.zeros(L)
        v[int(nrng.integers(0, L))] = 1.0
        return v
    return np.abs(dyadic(nrng, L)) + 0.125


def gen(rng, nrng, tier):
    ops_all = [("set", s) for s in SIDES + ["default"]] + [("get", s) for s in SIDES]
    maxn = 20 if tier == "quick" else 33
    ex_len = 2 if tier == "quick" else 3
    for cplx in (False, True):
        ops = [o for o in ops_all if not (cplx and o[1] == "onesided")]
        for nfft in range(1, maxn + 1):
            L = _L(cplx, nfft)
            # exhaustive short histories on the ramp vector; basis vectors on length-1 histories
            for ln in range(1, ex_len + 1):
                if ln == 3 and nfft > 12:
                    continue
                for h in itertools.product(ops, repeat=ln):
                    yield ("hist", {"cplx": cplx, "nfft": nfft, "vals": _vals(nrng, L, 0), "ops": list(h)})
            for k in range(L):
                v = np.zeros(L)
                v[k] = 1.0
                for t in ops:
                    yield ("hist", {"cplx": cplx, "nfft": nfft, "vals": v, "ops": [t]})
        # sampled longer histories (length 3..4, and up to 8 in thorough) incl. the forbidden one-sided target
        n_rand = 300 if tier == "quick" else 6000
        for i in range(n_rand):
            nfft = int(nrng.integers(1, maxn + 1))
            L = _L(cplx, nfft)
            ln = int(nrng.integers(3, 5 if tier == "quick" else 9))
            pool = ops_all if i % 10 == 0 else ops
            h = [pool[int(nrng.integers(0, len(pool)))] for _ in range(ln)]
            yield ("hist", {"cplx": cplx, "nfft": nfft, "vals": _vals(nrng, L, i % 3), "ops": h})
    # larger NFFT at several sampling rates: the conversions depend on NFFT's parity only, never on floating-point axis values
    rates = [1.0, 8000.0, 250.0, 44100.0, 100.0, 0.1]
    big = list(range(34, 131)) + [196, 206, 214, 256, 322, 500] if tier == "thorough" else [38, 58, 60, 76, 98, 102, 122, 196, 206, 97, 99, 128]
    for nfft in big:
        for fs in (rates if tier == "thorough" else [1.0, 8000.0, rates[nfft % len(rates)]]):
            L = _L(False, nfft)
            yield ("hist", {"cplx": False, "nfft": nfft, "fs": fs, "vals": _vals(nrng, L, 0), "ops": [("get", "twosided"), ("set", "centerdc"), ("get", "onesided")]})
            yield ("hist", {"cplx": True, "nfft": nfft, "fs": fs, "vals": _vals(nrng, nfft, 0), "ops": [("get", "centerdc"), ("set", "centerdc"), ("get", "twosided")]})
    for n in range(1, (24 if tier == "quick" else 64) + 1):
        for fn in ("t2o", "t2c", "c2t", "o2t"):
            if fn == "o2t" and n < 2:
                continue
            for j in range(3):
                x = _vals(nrng, n, j)
                yield ("helper", {"fn": fn, "x": x})
                if fn == "t2o":
                    xs = np.array([x[min(k, n - k)] for k in range(n)])
                    yield ("helper", {"fn": fn, "x": xs})
    # ---- gaps closed after the audit (appended: the streams of the cases above are unchanged) -------------------------
    # complex data and the one-sided target: every short history that contains it (the operations before the rejected one,
    # the untouched state after it and the rest of the history are all checked)
    for nfft in range(1, maxn + 1):
        for ln in (1, 2, 3):
            if ln == 3 and (tier == "quick" or nfft > 8):
                continue
            for h in itertools.product(ops_all, repeat=ln):
                if any(sd == "onesided" for _, sd in h):
                    yield ("hist", {"cplx": True, "nfft": nfft, "vals": _vals(nrng, nfft, 0 if ln < 3 else 2), "ops": list(h)})
    # the stored PSD handed over as a Python list (of floats / of ints, as range(1, L+1)) or as an int64 array
    for cplx in (False, True):
        ops = [o for o in ops_all if not (cplx and o[1] == "onesided")]
        for nfft in range(1, (12 if tier == "quick" else 25) + 1):
            L = _L(cplx, nfft)
            for si, store in enumerate(("list", "intlist", "int64")):
                for t in ops:
                    yield ("hist", {"cplx": cplx, "nfft": nfft, "vals": _vals(nrng, L, 0), "store": store, "ops": [t]})
                for hi, h in enumerate(itertools.product(ops, repeat=2)):
                    if tier == "quick" and (hi + nfft + si) % 4:
                        continue
                    yield ("hist", {"cplx": cplx, "nfft": nfft, "vals": _vals(nrng, L, 0), "store": store, "ops": list(h)})
            yield ("hist", {"cplx": cplx, "nfft": nfft, "vals": _vals(nrng, L, 2), "store": "list",
                            "ops": [ops[(nfft + j) % len(ops)] for j in (0, 3, 5)]})
    for c in _gen_est(nrng, tier):
        yield c
    for c in _gen_tools(nrng, tier):
        yield c
    for c in _gen_armac(nrng, tier):
        yield c
    for c in _gen_walk(nrng, tier):
        yield c


EST_MAIN = ["Periodogram", "pburg", "pcorrelogram", "pmusic", "MT-unity"]
EST_NFFT = [None, "nextpow2", 32, 33, 40, 41]


def _est_histories(cplx, n0, ci):
    sides = SIDES[1:] if cplx else SIDES
    ops_all = [("set", s) for s in SIDES + ["default"]] + [("get", s) for s in SIDES]
    # (a) a current PSD: every history of length 2 (complex data: including the rejected one-sided targets)
    H = [(True, [a, b]) for a in ops_all for b in ops_all]
    # (b) the estimate goes out of date between the assignment and the read; (c) the assignment precedes the first computation
    alt = [v for v in (32, 33, 40, 41) if v != n0]
    j = 0
    for a in sides:
        for b in sides:
            for fin in ("get", "set"):
                H.append((True, [("set", a), ("data", None), (fin, b)]))
                H.append((True, [("set", a), ("nfft", alt[(j + ci) % len(alt)]), (fin, b)]))
                j += 1
            H.append((False, [("set", a), ("get", b)]))
    return H


def _gen_est(nrng, tier):
    others = [c for c in C.CLASSES if c not in EST_MAIN]
    r0 = int(nrng.integers(0, len(others)))
    off = int(nrng.integers(0, 24))
    if tier == "quick":
        classes = [(c, 6) for c in EST_MAIN] + [(others[(r0 + 4 * j) % len(others)], 12) for j in range(2)]
    else:
        classes = [(c, 2) for c in EST_MAIN] + [(c, 8) for c in others]
    ci = 0
    for cls, k in classes:
        for cplx in (False, True):
            for N in (24, 25):
                x = C.test_data(nrng, N, cplx)
                for nfft in EST_NFFT:
                    for fs in (1.0, 8000.0):
                        ci += 1
                        H = _est_histories(cplx, C.resolved_nfft(x, nfft), ci)
                        for hi, (warm, ops) in enumerate(H):
                            if (hi + 5 * ci + off) % k:
                                continue
                            yield ("est", {"cls": cls, "x": x, "nfft": nfft, "fs": fs, "warm": warm, "ops": ops})


def _sym(x):
    n = len(x)
    return np.array([x[min(k, n - k)] for k in range(n)])


def _gen_tools(nrng, tier):
    # the docstring examples (Python lists of ints) and a tuple
    yield ("helper", {"fn": "t2o", "x": np.array([10, 2, 3, 8, 3, 2], dtype=np.int64), "as": "list"})
    yield ("helper", {"fn": "o2t", "x": np.array([10, 4, 6, 8], dtype=np.int64), "as": "list"})
    yield ("helper", {"fn": "t2c", "x": np.array([1, 2, 3, 4], dtype=np.int64), "as": "tuple"})
    yield ("helper", {"fn": "c2t", "x": np.array([1, 2, 3, 4, 5], dtype=np.int64), "as": "tuple"})
    yield ("cshift", {"x": np.array([0, 1, 2, 3, -2, -1], dtype=np.int64), "k": 2, "as": "list"})
    forms = [("list", "f"), ("tuple", "f"), (None, "i"), ("list", "i"), ("tuple", "i")]
    for n in range(1, (12 if tier == "quick" else 40) + 1):
        for fn in ("t2o", "t2c", "c2t", "o2t"):
            if fn == "o2t" and n < 2:
                continue
            for fi, (form, kind) in enumerate(forms):
                x = _vals(nrng, n, 2 * ((n + fi) % 2)) if kind == "f" else nrng.integers(1, 40, n).astype(np.int64)
                if fn == "t2o":
                    x = _sym(x)
                q = {"fn": fn, "x": x}
                if form:
                    q["as"] = form
                yield ("helper", q)
    # tools.cshift: the circular right shift (numpy.roll), the two centre-DC conversions as shifts by +-floor(n/2), the float
    # offset len(psd)/2 of the documentation (truncated toward zero), list / integer / complex input
    for n in range(1, (11 if tier == "quick" else 24) + 1):
        offs = [0, 1, -1, n // 2, -(n // 2), n, n + 1, -n, n / 2, -(n / 2), float(n // 2)]
        seen = []
        for oi, k in enumerate(offs):
            if any(type(k) is type(s) and k == s for s in seen):
                continue
            seen.append(k)
            j = (n + oi) % 5
            if j == 3:
                x = nrng.integers(-9, 10, n).astype(np.int64)
            elif j == 4:
                x = dyadic(nrng, n) + 1j * dyadic(nrng, n)
            else:
                x = _vals(nrng, n, 2)
            q = {"x": x, "k": k}
            if (n + oi // 2) % 3 == 0:
                q["as"] = "list"
            yield ("cshift", q)


def _gen_armac(nrng, tier):
    # arma2psd(sides='centerdc') (the only other value it accepts is 'default'); coefficient vectors with sum |a_k| < 1, so
    # that the spectrum is well conditioned
    def coef(n, cplx):
        a = nrng.standard_normal(n) * 0.4 + (1j * nrng.standard_normal(n) * 0.4 if cplx else 0)
        return a * min(1.0, 0.9 / float(np.sum(np.abs(a))))
    shapes = [("r", None), (None, "r"), ("r", "r"), ("c", "c"), ("c", None), ("r", "c")]
    nffts = [4, 5, 7, 8, 9, 16, 17, 33, 64, 101] + ([6, 11, 32, 100, 127, 128, 255, 256] if tier == "thorough" else [])
    for ni, nfft in enumerate(nffts):
        for si, (ka, kb) in enumerate(shapes):
            for norm in (False, True):
                la = 1 + (ni + si) % 3
                lb = 1 + (ni + si // 2 + int(norm)) % 3
                A = None if ka is None else coef(la, ka == "c")
                B = None if kb is None else coef(lb, kb == "c")
                yield ("armac", {"A": A, "B": B, "nfft": nfft, "norm": norm, "rho": float(nrng.uniform(0.1, 3)),
                                 "T": [1.0, 0.5, 8.0][(ni + si) % 3]})


# ---- walks: one object through several NFFTs (see the "walk" kind) ----------------------------------------------------

WALK_EST = ["Periodogram", "pburg", "pcorrelogram", "pmusic", "MT-unity"]
WALK_FS = [1.0, 8000.0, 250.0, 0.1]


def _next_nfft(nrng, n, lo, hi):
    """the next NFFT of a walk: half of the time the neighbour of the other parity that shares the one-sided length
    (2m <-> 2m+1), else the double, the next / previous value of the same parity (odd -> odd), the neighbour with another
    one-sided length (2m -> 2m-1, 2m+1 -> 2m+2), or any value in range"""
    nb = n + 1 if n % 2 == 0 else n - 1
    r = int(nrng.integers(0, 10))
    c = nb if r < 5 else (2 * n if r == 5 else n + 2 if r == 6 else n - 2 if r == 7 else (n - 1 if n % 2 == 0 else n + 1) if r == 8
                          else int(nrng.integers(lo, hi + 1)))
    if c < lo or c > hi or c == n:
        c = nb if lo <= nb <= hi else n + 1
    return c


def _walk_ops(nrng, cls, cplx, n0, lo, hi, nseg):
    plain = cls == "Spectrum"
    every = [("set", sd) for sd in SIDES + ["default"]] + [("get", sd) for sd in SIDES]
    conv = [o for o in every if not (cplx and o[1] == "onesided")]
    away = [sd for sd in SIDES if sd != "onesided"]
    ops, n, fs = [], n0, 1.0
    for k in range(nseg):
        changed = False
        hand = plain or int(nrng.integers(0, 10)) < 3
        if k > 0:
            r = int(nrng.integers(0, 20))
            if r < 16 or (plain and r >= 18):
                n2 = _next_nfft(nrng, n, lo, hi)
                # (the psd setter of a complex object takes NFFT from the vector: half of the time the length alone says it)
                if not (cplx and hand and int(nrng.integers(0, 2))):
                    ops.append(("nfft", n2))
                n = n2
                changed = True
            if r in (14, 15, 16, 17):
                fs = [v for v in WALK_FS if v != fs][int(nrng.integers(0, len(WALK_FS) - 1))]
                ops.append(("fs", fs))
                changed = True
            if r == 18 and not plain:
                ops.append(("data", None))
                changed = True
        # the new PSD: by hand, by an explicit call, or (estimators, after a change / at the start) lazily by the next conversion
        if hand:
            ops.append(("psd", _vals(nrng, _L(cplx, n), int(nrng.integers(0, 3)))))
        elif int(nrng.integers(0, 2)) or not (changed or k == 0):
            ops.append(("call", None))
        lazy_first = not hand and k == 0 and ops[-1:] != [("call", None)]
        # up to four conversions of that PSD; on real data half of the segments fold back to one-sided (and the next segment
        # starts, as often, by unfolding)
        if not cplx and int(nrng.integers(0, 2)):
            seg = [("set", away[int(nrng.integers(0, 2))])]
            if int(nrng.integers(0, 2)):
                seg.append(conv[int(nrng.integers(0, len(conv)))])
            seg.append(("set", ["onesided", "default"][int(nrng.integers(0, 2))]))
            if int(nrng.integers(0, 2)):
                seg.append((["set", "get"][int(nrng.integers(0, 2))], away[int(nrng.integers(0, 2))]))
        else:
            seg = [conv[int(nrng.integers(0, len(conv)))] for _ in range(int(nrng.integers(1, 5)))]
            if not cplx and k > 0 and int(nrng.integers(0, 2)):
                seg[0] = (seg[0][0], away[int(nrng.integers(0, 2))])
            if cplx and k < nseg - 1 and len(seg) < 4 and int(nrng.integers(0, 6)) == 0:
                # the rejected one-sided target (after a conversion: the PSD is current), then the history goes on
                seg.insert(int(nrng.integers(1, len(seg) + 1)), (["set", "get"][int(nrng.integers(0, 2))], "onesided"))
        if k > 0 and int(nrng.integers(0, 8)) == 0:
            # the object goes through copy / pickle between two segments, or in the middle of this one
            seg.insert(int(nrng.integers(0, len(seg))), ("copy", ["deep", "pickle", "shallow"][int(nrng.integers(0, 3))]))
        if lazy_first and seg[0][0] == "set":
            # an assignment made before the first computation is not a conversion of a stored PSD (see ASSUMPTIONS)
            seg[0] = ("get", seg[0][1] if seg[0][1] != "default" else _default(cplx))
        ops += seg
    return ops


def _gen_walk(nrng, tier):
    q = tier == "quick"
    # plain Spectrum objects, the PSD set by hand: NFFT 1..24
    for cplx, cnt in ((False, 90 if q else 200), (True, 50 if q else 100)):
        for i in range(cnt):
            n0 = int(nrng.integers(1, 21))
            N = max(2, n0 - i % 3)
            yield ("walk", {"cls": "Spectrum", "x": C.test_data(nrng, N, cplx), "nfft": n0, "fs": 1.0, "shadow": i % 4 == 3,
                            "ops": _walk_ops(nrng, "Spectrum", cplx, n0, 1, 24, 2 + i % 3)})
    # estimator objects: NFFT N..44 (never below the record length)
    others = [c for c in C.CLASSES if c not in WALK_EST]
    r0 = int(nrng.integers(0, len(others)))
    if q:
        classes = [(c, 22, 10) for c in WALK_EST] + [(others[(r0 + 5 * j) % len(others)], 10, 5) for j in range(2)]
    else:
        classes = [(c, 40, 20) for c in WALK_EST] + [(c, 14, 7) for c in others]
    for cls, nr, nc in classes:
        for cplx, cnt in ((False, nr), (True, nc)):
            for i in range(cnt):
                N = 16 + i % 2
                n0 = int(nrng.integers(N, 34))
                yield ("walk", {"cls": cls, "x": C.test_data(nrng, N, cplx), "nfft": n0, "fs": 1.0, "shadow": i % 4 == 3,
                                "ops": _walk_ops(nrng, cls, cplx, n0, N, 44, 2 + i % 3)})
