"""C06  Side conversions are lossless, length-consistent and axis-aligned."""
import itertools

import numpy as np

import proto
from common import rel, dyadic

TRUSTED_BASE = [
    "numpy.fft.fftshift / ifftshift are modelled by their index rule (rotation by floor(n/2))",
    "exact mode: PSD vectors are basis vectors and small dyadic rationals; the model computes in exact rationals; "
    "agreement required to rtol 1e-13",
]
PARTIAL = []
ASSUMPTIONS = ["tools.twosided_2_onesided is specified for symmetric two-sided input (the two-sided PSD of real data); on other "
               "vectors only the model/implementation correspondence is checked",
               "a stored one-sided PSD has NFFT/2+1 (NFFT even) or (NFFT+1)/2 (NFFT odd) values; a stored PSD of complex "
               "data is two-sided with NFFT values (what the estimators store)",
               "tools.onesided_2_twosided has no NFFT argument and is specified for an even two-sided length 2(L-1), L >= 2"]
RULE = ("Spectrum objects with a stored PSD: real/complex x NFFT 1..33 (quick: 1..20) x every history of up to 4 "
        "operations over {sides = one|two|center|default, get_converted_psd(one|two|center)} (exhaustive to length 2 in "
        "quick, sampled beyond; exhaustive to length 3 in thorough) x basis vectors and random vectors; tools helpers on "
        "random vectors of every length; non-trivial = NFFT >= 3 and at least one real conversion in the history")

SIDES = ["onesided", "twosided", "centerdc"]


_FS = {"fs": 1.0}


def _make(cplx, nfft, vals, nd=None):
    from spectrum import Spectrum
    data = np.arange(1, (nd or nfft) + 1).astype(complex if cplx else float)
    s = Spectrum(data, NFFT=nfft, sampling=_FS["fs"], scale_by_freq=False)
    s.psd = np.array(vals, dtype=float)
    return s


def _L(cplx, nfft):
    return nfft if cplx else (nfft // 2 + 1 if nfft % 2 == 0 else (nfft + 1) // 2)


def _default(cplx):
    return "twosided" if cplx else "onesided"


# ---- specification: the two-sided spectrum S on Z_n and its three representations ------------------

def spec_S(cplx, nfft, vals):
    vals = np.asarray(vals, dtype=float)
    if cplx:
        return vals.copy()
    S = np.zeros(nfft)
    h = nfft // 2
    for k in range(len(vals)):
        if k == 0 or (nfft % 2 == 0 and k == h):
            S[k] = vals[k]
        else:
            S[k] = vals[k] / 2
            S[nfft - k] = vals[k] / 2
    return S


def spec_rep(side, S):
    n = len(S)
    h = n // 2
    if side == "twosided":
        return S.copy()
    if side == "centerdc":
        return np.array([S[(a - h) % n] for a in range(n)])
    L = h + 1 if n % 2 == 0 else (n + 1) // 2
    out = np.zeros(L)
    for k in range(L):
        if k == 0 or (n % 2 == 0 and k == h):
            out[k] = S[k]
        else:
            out[k] = S[k] + S[n - k]
    return out


def spec_freqs(side, n, fs=1.0):
    df = fs / n
    if side == "twosided":
        return np.arange(n) * df
    if side == "centerdc":
        return (np.arange(n) - n // 2) * df
    L = n // 2 + 1 if n % 2 == 0 else (n + 1) // 2
    return np.arange(L) * df


# ---- histories -------------------------------------------------------------------------------------

def run_hist(p):
    """returns the vector exposed by each op (stored psd after an assignment, returned vector of a get)"""
    _FS["fs"] = p.get("fs", 1.0)
    try:
        # the record length is independent of NFFT: half of the histories run on an object whose data length has the other
        # parity (N = NFFT - 1), a third of those on N = NFFT - 3 (deterministic in the parameters, so replays agree)
        nfft = p["nfft"]
        h = (len(p["ops"]) + nfft + int(round(float(np.sum(np.asarray(p["vals"])) * 8)))) % 6
        nd = nfft if h < 3 or nfft < 2 else (nfft - 1 if h < 5 or nfft < 4 else nfft - 3)
        s = _make(p["cplx"], nfft, p["vals"], nd)
    finally:
        _FS["fs"] = 1.0
    outs = []
    for op, side in p["ops"]:
        if op == "set":
            s.sides = side
            outs.append(np.array(s.psd, dtype=float))
        else:
            outs.append(np.array(s.get_converted_psd(side), dtype=float))
    return s, outs


def impl_hist(p):
    return run_hist(p)[1]


def model_hist(p):
    dflt = _default(p["cplx"])
    toks = ["%s:%s" % (op, dflt if side == "default" else side) for op, side in p["ops"]]
    return ("Q", proto.request("convhist", "Q", [1 if p["cplx"] else 0, p["nfft"], dflt] + toks, [p["vals"]]))


def oracle_hist(p):
    cplx, nfft = p["cplx"], p["nfft"]
    S = spec_S(cplx, nfft, p["vals"])
    total = float(np.sum(S))
    out = []
    try:
        s, outs = run_hist(p)
    except AssertionError:
        # complex data cannot be made one-sided: the only admissible assertion
        if cplx and any(sd == "onesided" for _, sd in p["ops"]):
            return []
        return ["conversion history %s raised AssertionError (real=%s NFFT=%d)" % (p["ops"], not cplx, nfft)]
    except Exception as e:
        return ["conversion history %s raised %r (%s NFFT=%d)" % (p["ops"], e, "complex" if cplx else "real", nfft)]
    for (op, side), got in zip(p["ops"], outs):
        sd = _default(cplx) if side == "default" else side
        exp = spec_rep(sd, S)
        fr = spec_freqs(sd, nfft, p.get("fs", 1.0))
        tag = "%s NFFT=%d history %s at %s:%s" % ("complex" if cplx else "real", nfft, p["ops"], op, side)
        if len(got) != len(fr):
            out.append("length %d != len(frequencies('%s')) = %d (%s)" % (len(got), sd, len(fr), tag))
            break
        if rel(got, exp) > 1e-12:
            out.append("values not carried to their frequencies / path dependent: got %s expected %s (%s)" % (
                np.round(got, 4).tolist()[:10], np.round(exp, 4).tolist()[:10], tag))
            break
        if abs(float(np.sum(got)) - total) > 1e-12 * max(abs(total), 1.0):
            out.append("total power changed: %.6g -> %.6g (%s)" % (total, float(np.sum(got)), tag))
            break
    if not out:
        # the object's own frequencies() for its final sides matches the PSD length and the specified axis
        f = np.asarray(s.frequencies())
        if len(f) != len(s.psd):
            out.append("len(frequencies()) = %d but len(psd) = %d after %s" % (len(f), len(s.psd), p["ops"]))
        elif rel(f, spec_freqs(s.sides, nfft, p.get("fs", 1.0))) > 1e-12:
            out.append("frequencies('%s') is not the specified axis for NFFT=%d: %s" % (s.sides, nfft, np.round(f, 4).tolist()[:8]))
        # every axis the object can report, whatever its current sides, is the specified one ("length = its frequency axis")
        for sd in (["twosided", "centerdc"] if cplx else ["onesided", "twosided", "centerdc"]):
            fa = np.asarray(s.frequencies(sd))
            fx = spec_freqs(sd, nfft, p.get("fs", 1.0))
            if len(fa) != len(fx) or rel(fa, fx) > 1e-12:
                out.append("frequencies('%s') has %d entries, the %s representation has %d (NFFT=%d sampling=%s)" % (
                    sd, len(fa), sd, len(fx), nfft, p.get("fs", 1.0)))
                break
        # returning to the original sides restores the original values exactly
        s.sides = "default"
        back = np.asarray(s.psd, dtype=float)
        orig = np.asarray(p["vals"], dtype=float)
        if back.shape != orig.shape or rel(back, orig) > 1e-12:
            out.append("returning to the default sides does not restore the stored PSD (%s NFFT=%d history %s)" % (
                "complex" if cplx else "real", nfft, p["ops"]))
    return out


# ---- tools helpers ---------------------------------------------------------------------------------

def impl_helper(p):
    from spectrum import tools
    f = {"t2o": tools.twosided_2_onesided, "o2t": tools.onesided_2_twosided,
         "t2c": tools.twosided_2_centerdc, "c2t": tools.centerdc_2_twosided}[p["fn"]]
    x = np.array(p["x"], dtype=float)
    x0 = x.copy()
    r = np.array(f(x), dtype=float)
    if not np.array_equal(x, x0):
        raise RuntimeError("helper modified its argument in place")
    return [r]


def model_helper(p):
    return ("Q", proto.request(p["fn"], "Q", [], [p["x"]]))


def oracle_helper(p):
    x = np.asarray(p["x"], dtype=float)
    n = len(x)
    try:
        got = impl_helper(p)[0]
    except Exception as e:
        return ["tools helper %s raised %r on a vector of length %d" % (p["fn"], e, n)]
    if p["fn"] == "t2o":
        # specified for the (symmetric) two-sided PSD of real data; other vectors: correspondence only
        if not all(x[k] == x[(n - k) % n] for k in range(n)):
            return []
        exp = spec_rep("onesided", x)
    elif p["fn"] == "t2c":
        exp = spec_rep("centerdc", x)
    elif p["fn"] == "c2t":
        h = n // 2
        exp = np.array([x[(k + h) % n] for k in range(n)])
    else:
        exp = spec_S(False, 2 * (n - 1), x)
    if got.shape != exp.shape or rel(got, exp) > 1e-12:
        return ["tools helper %s([..%d values..]) = %s, expected %s" % (p["fn"], n, np.round(got, 4).tolist()[:10], np.round(exp, 4).tolist()[:10])]
    return []


def _key(p):
    return "%s|%s|%s|%s|%s|%d" % (p.get("cplx"), p.get("nfft"), p.get("fs"), p.get("ops"), p.get("fn"),
                              hash(np.asarray(p.get("vals", p.get("x"))).tobytes()) & 0xFFFFFF)


def _nontrivial_hist(p):
    return p["nfft"] >= 3 and len(p["ops"]) >= 1


KINDS = {
    "hist": {"impl": impl_hist, "model": model_hist, "oracle": oracle_hist, "rtol": 1e-13, "atol": 0.0, "key": _key,
             "nontrivial": _nontrivial_hist,
             "tags": lambda p: ["complex" if p["cplx"] else "real", "nfft:" + ("odd" if p["nfft"] % 2 else "even"),
                                "histlen:%d" % len(p["ops"])]},
    "helper": {"impl": impl_helper, "model": model_helper, "oracle": oracle_helper, "rtol": 1e-13, "atol": 0.0, "key": _key,
               "nontrivial": lambda p: len(p["x"]) >= 3, "tags": lambda p: ["helper:" + p["fn"], "len:" + ("odd" if len(p["x"]) % 2 else "even")]},
}


def _vals(nrng, L, j):
    if j == 0:
        return (np.arange(1, L + 1)).astype(float)
    if j == 1:
        v = np.zeros(L)
        v[int(nrng.integers(0, L))] = 1.0
        return v
    return np.abs(dyadic(nrng, L)) + 0.125


def gen(rng, nrng, tier):
    ops_all = [("set", s) for s in SIDES + ["default"]] + [("get", s) for s in SIDES]
    maxn = 20 if tier == "quick" else 33
    ex_len = 2 if tier == "quick" else 3
    for cplx in (False, True):
        ops = [o for o in ops_all if not (cplx and o[1] == "onesided")]
        for nfft in range(1, maxn + 1):
            L = _L(cplx, nfft)
            # exhaustive short histories on the ramp vector; basis vectors on length-1 histories
            for ln in range(1, ex_len + 1):
                if ln == 3 and nfft > 12:
                    continue
                for h in itertools.product(ops, repeat=ln):
                    yield ("hist", {"cplx": cplx, "nfft": nfft, "vals": _vals(nrng, L, 0), "ops": list(h)})
            for k in range(L):
                v = np.zeros(L)
                v[k] = 1.0
                for t in ops:
                    yield ("hist", {"cplx": cplx, "nfft": nfft, "vals": v, "ops": [t]})
        # sampled longer histories (length 3..4, and up to 8 in thorough) incl. the forbidden one-sided target
        n_rand = 300 if tier == "quick" else 6000
        for i in range(n_rand):
            nfft = int(nrng.integers(1, maxn + 1))
            L = _L(cplx, nfft)
            ln = int(nrng.integers(3, 5 if tier == "quick" else 9))
            pool = ops_all if i % 10 == 0 else ops
            h = [pool[int(nrng.integers(0, len(pool)))] for _ in range(ln)]
            yield ("hist", {"cplx": cplx, "nfft": nfft, "vals": _vals(nrng, L, i % 3), "ops": h})
    # larger NFFT at several sampling rates: the conversions depend on NFFT's parity only, never on floating-point axis values
    rates = [1.0, 8000.0, 250.0, 44100.0, 100.0, 0.1]
    big = list(range(34, 131)) + [196, 206, 214, 256, 322, 500] if tier == "thorough" else [38, 58, 60, 76, 98, 102, 122, 196, 206, 97, 99, 128]
    for nfft in big:
        for fs in (rates if tier == "thorough" else [1.0, 8000.0, rates[nfft % len(rates)]]):
            L = _L(False, nfft)
            yield ("hist", {"cplx": False, "nfft": nfft, "fs": fs, "vals": _vals(nrng, L, 0), "ops": [("get", "twosided"), ("set", "centerdc"), ("get", "onesided")]})
            yield ("hist", {"cplx": True, "nfft": nfft, "fs": fs, "vals": _vals(nrng, nfft, 0), "ops": [("get", "centerdc"), ("set", "centerdc"), ("get", "twosided")]})
    for n in range(1, (24 if tier == "quick" else 64) + 1):
        for fn in ("t2o", "t2c", "c2t", "o2t"):
            if fn == "o2t" and n < 2:
                continue
            for j in range(3):
                x = _vals(nrng, n, j)
                yield ("helper", {"fn": fn, "x": x})
                if fn == "t2o":
                    xs = np.array([x[min(k, n - k)] for k in range(n)])
                    yield ("helper", {"fn": fn, "x": xs})
