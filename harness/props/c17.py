"""C17  MUSIC / EV resolve exact sinusoids and expose the data-matrix spectrum."""
import numpy as np

import single

import proto
from common import rel

TRUSTED_BASE = [
    "numpy.linalg.svd is a parameter of the model: the harness performs the same call on the forward-backward matrix and hands "
    "S and V to the model (the pseudo-spectra are invariant under the phase freedom of the singular vectors when the noise "
    "singular values are distinct: correspondence cases add noise; noiseless cases are evaluated by the oracle)",
    "AIC/MDL argmin (logs and fractional powers of singular values) is a parameter; numpy.fft is the DFT parameter",
    "float mode, rtol 1e-7",
]
PARTIAL = ["'the K largest local maxima lie at the true frequencies' is proved as: the noise-subspace denominator vanishes exactly at "
           "the output index whose reported frequency is that of each exponential (null-vector / Vandermonde argument) relative to "
           "the SVD contract; the numerical peak search is evaluated by the oracle"]
ASSUMPTIONS = ["tone bins are at least 3 bins apart (and real sinusoids at least 3 bins from 0 and NFFT/2), so that 'the K largest local "
               "maxima' is well defined on the grid",
               "N - P <= 100 or more (the code caps the number of rows at 100 per half; both regimes are generated)"]
RULE = ("noiseless sums of K distinct on-grid complex exponentials (incl. bin 0 and negative bins) or K/2 real sinusoids, random "
        "amplitudes/phases, N in 2P..128 (and N - P > 100), P in K+1..16, NFFT even/odd, music and ev; noisy data for the "
        "model correspondence; argument-validation cases")


def _sp():
    import spectrum
    return spectrum


def fb_matrix(x, P):
    """forward-backward data matrix from its definition: FB[I,K] = x[I-K+P-1], FB[I+NP,K] = conj(x[I+K+1]), NP = min(N-P, 100)"""
    x = np.asarray(x).astype(complex)
    N = len(x)
    NP = min(N - P, 100)
    I = np.arange(NP)[:, None]
    K = np.arange(P)[None, :]
    return np.vstack((x[I - K + P - 1], np.conj(x[I + K + 1])))


# ---- correspondence: function output given the SVD -------------------------------------------------

def impl_psd(p):
    sp = _sp()
    f = sp.music if p["method"] == "music" else sp.ev
    psd, S = f(p["x"], p["P"], NSIG=p["nsig"], NFFT=p["nfft"])
    return [np.asarray(psd)]


def model_psd(p):
    FB = fb_matrix(p["x"], p["P"])
    _U, S, Vh = np.linalg.svd(FB)
    cols = [-Vh[i, :] for i in range(p["P"])]
    Se = np.concatenate((S, [np.finfo(float).eps]))   # singular values + the epsilon of the EV divisor floor
    return ("F", proto.request("eigenpsd", "F", [p["P"], p["nfft"], p["nsig"], 1 if p["method"] == "ev" else 0], [Se] + cols))


def impl_fb(p):
    sp = _sp()
    psd, S = sp.music(p["x"], p["P"], NSIG=1, NFFT=16)
    return [np.asarray(S)]


def model_fb(p):
    return ("F", proto.request("fb", "F", [p["P"]], [np.asarray(p["x"])]))


def post_fb(p, iv, mv):
    dims = mv[0]
    rows = int(round(dims[0].real))
    M = np.array([mv[1 + i] for i in range(rows)])
    return iv, [np.linalg.svd(M, compute_uv=False)]


def impl_class(p):
    sp = _sp()
    cls = sp.pmusic if p["method"] == "music" else sp.pev
    o = cls(p["x"], p["P"], NSIG=p["nsig"], NFFT=p["nfft"], sampling=p.get("fs", 1.0))
    return [np.asarray(o.psd)]


def model_class(p):
    sp = _sp()
    f = sp.music if p["method"] == "music" else sp.ev
    x = np.asarray(p["x"])
    nfft = p["nfft"] if p["nfft"] is not None else len(x)
    psd, S = f(p["x"], p["P"], NSIG=p["nsig"], NFFT=nfft)
    return ("F", proto.request("eigenclass", "F", [1 if np.isrealobj(x) else 0, nfft], [np.asarray(psd)]))


# ---- oracle ----------------------------------------------------------------------------------------

def _local_max(psd, circular):
    n = len(psd)
    idx = []
    for i in range(n):
        l = psd[(i - 1) % n] if (circular or i > 0) else -np.inf
        r = psd[(i + 1) % n] if (circular or i < n - 1) else -np.inf
        if psd[i] >= l and psd[i] >= r and (psd[i] > l or psd[i] > r):
            idx.append(i)
    return idx


def oracle_tones(p):
    sp = _sp()
    x = np.asarray(p["x"])
    P, K, nfft = p["P"], p["K"], p["nfft"]
    out = []
    FB = fb_matrix(x, P)
    Sref = np.linalg.svd(FB, compute_uv=False)
    for method in ("music", "ev"):
        f = sp.music if method == "music" else sp.ev
        with np.errstate(all="ignore"):
            psd, S = f(p["x"], P, NSIG=K, NFFT=nfft)
        psd, S = np.asarray(psd), np.asarray(S)
        if len(psd) != nfft:
            out.append("%s returned %d values for NFFT=%d" % (method, len(psd), nfft))
            continue
        if np.any(np.isnan(psd)) or np.any(psd <= 0):
            out.append("%s pseudo-spectrum is not positive everywhere" % method)
        if np.any(np.diff(S) > 1e-9 * S[0]):
            out.append("singular values are not non-increasing")
        if rel(S, Sref) > 1e-8:
            out.append("returned singular values are not those of the forward-backward data matrix (N=%d P=%d): %.2e" % (len(x), P, rel(S, Sref)))
        if np.sum(S > 1e-8 * S[0]) != K:
            out.append("%d non-negligible singular values for K=%d exponentials (N=%d P=%d)" % (int(np.sum(S > 1e-8 * S[0])), K, len(x), P))
        # function output is centre-DC ordered: index j has frequency bin j - NFFT//2
        finite = np.where(np.isfinite(psd), psd, np.inf)
        lm = _local_max(finite, True)
        lm = sorted(lm, key=lambda i: -finite[i])[:K]
        got = sorted(((i - nfft // 2) % nfft) for i in lm)
        exp = sorted(b % nfft for b in p["bins"])
        ok = len(got) == len(exp) and all(min(abs(g - e), nfft - abs(g - e)) <= 1 for g, e in zip(got, exp))
        if not ok:
            out.append("%s: the %d largest local maxima are at bins %s, true bins %s (NFFT=%d, N=%d, P=%d, %s)" % (
                method, K, got, exp, nfft, len(x), P, "complex" if np.iscomplexobj(x) else "real"))
        # class output: the maximum sits at the entry whose reported frequency is a true frequency
        cls = sp.pmusic if method == "music" else sp.pev
        with np.errstate(all="ignore"):
            o = cls(p["x"], P, NSIG=K, NFFT=nfft, sampling=2.0)
            cp = np.asarray(o.psd)
        fr = np.asarray(o.frequencies())
        if len(cp) != len(fr):
            out.append("%s class: %d values but %d frequencies" % (method, len(cp), len(fr)))
        else:
            am = int(np.argmax(np.where(np.isfinite(cp), cp, np.inf)))
            fexp = [(b % nfft) * 2.0 / nfft for b in p["bins"]]
            if np.isrealobj(x):
                fexp = [min(f, 2.0 - f) for f in fexp]
            d = min(abs(fr[am] - f) for f in fexp) / (2.0 / nfft)
            if d > 1 + 1e-9:
                out.append("%s class: maximum at frequency %.4f, %.2f bins from the nearest true frequency" % (method, fr[am], d))
    return out


def oracle_validate(p):
    sp = _sp()
    x = np.asarray(p["x"])
    P = p["P"]
    out = []
    entries = [("music", lambda **kw: sp.music(x, P, NFFT=32, **kw)), ("ev", lambda **kw: sp.ev(x, P, NFFT=32, **kw)),
               ("eigen", lambda **kw: sp.eigen(x, P, NFFT=32, method="ev", **kw)),
               ("pmusic", lambda **kw: sp.pmusic(x, P, NFFT=32, **kw).psd), ("pev", lambda **kw: sp.pev(x, P, NFFT=32, **kw).psd)]
    # out-of-range values: a negative or too large dimension, both rules at once, a threshold below 1 (it keeps every singular
    # value, i.e. the dimension P that an explicit NSIG=P rejects), an unknown criterion name
    for kw, should in [(dict(NSIG=2, threshold=3.0), "value"), (dict(NSIG=-1), "value"), (dict(NSIG=P), "value"),
                       (dict(NSIG=P + 2), "value"), (dict(NSIG=0, threshold=2.0), "value"), (dict(NSIG=3, threshold=0), "value"),
                       (dict(NSIG=0, threshold=0.0), "value"), (dict(threshold=0.5), "value"), (dict(threshold=-2.0), "value"),
                       (dict(criteria="foo"), "value")]:
        for name, call in entries:
            try:
                call(**kw)
                out.append("%s accepted %s (P=%d)" % (name, kw, P))
            except ValueError:
                pass
            except Exception as e:
                out.append("%s raised %r for %s instead of ValueError" % (name, e, kw))
            if out:
                break
    # every entry point applies the same rule
    for kw in (dict(NSIG=2), dict(threshold=3.0), dict(criteria="mdl"), dict(threshold=1e9)):
        ref = np.asarray(sp.eigen(x, P, NFFT=32, method="music", **kw)[0])
        got = np.asarray(sp.music(x, P, NFFT=32, **kw)[0])
        cls = sp.pmusic(x, P, NFFT=32, **kw)
        cps = np.asarray(cls.psd)
        if rel(got, ref) > 1e-12:
            out.append("music(%s) differs from eigen(method='music', %s)" % (kw, kw))
        if not np.all(np.isfinite(got)) or not np.all(got > 0):
            out.append("music(%s) pseudo-spectrum is not finite and positive" % (kw,))
    try:
        sp.eigen(x, P, method="foo", NFFT=32)
        out.append("eigen accepted method='foo'")
    except ValueError:
        pass
    # the three subspace rules are alternatives: explicit NSIG is used as given; threshold / criteria otherwise
    psd1, S = sp.music(x, P, NSIG=2, NFFT=32)
    psd2, _ = sp.music(x, P, NSIG=2, NFFT=32, criteria="mdl")
    if rel(np.asarray(psd1), np.asarray(psd2)) > 1e-12:
        out.append("an explicit NSIG is not used as given when a criterion name is also passed")
    S = np.asarray(S)
    t = 3.0
    n_thr = max(1, int(np.sum(S > t * S.min())))
    if n_thr < P:
        pt, _ = sp.music(x, P, threshold=t, NFFT=32)
        pn, _ = sp.music(x, P, NSIG=n_thr, NFFT=32)
        if rel(np.asarray(pt), np.asarray(pn)) > 1e-12:
            out.append("threshold rule does not select the singular values above threshold*min(S)")
    from spectrum.criteria import aic_eigen, mdl_eigen
    NP = min(len(x) - P, 100)
    for crit, fn in (("aic", aic_eigen), ("mdl", mdl_eigen)):
        n_c = int(np.argmin(fn(S, 4 * NP))) + 1
        if n_c < P:
            pc, _ = sp.music(x, P, criteria=crit, NFFT=32)
            pn, _ = sp.music(x, P, NSIG=n_c, NFFT=32)
            if rel(np.asarray(pc), np.asarray(pn)) > 1e-12:
                out.append("criteria='%s' does not select argmin+1 singular values" % crit)
    return out


# ---- argument validation and the threshold rule: implementation vs model ---------------------------------------------

def impl_valid(p):
    sp = _sp()
    kw = {}
    if p["nsig"] is not None:
        kw["NSIG"] = p["nsig"]
    if p["thr"] is not None:
        kw["threshold"] = p["thr"]
    sp.eigen(np.asarray(p["x"]), p["P"], method=p["method"], criteria=p["crit"], NFFT=32, **kw)
    return []


def model_valid(p):
    args_ok = (p["method"] in ("music", "ev") and (p["thr"] is None or p["thr"] >= 1)
               and (p["nsig"] is not None or p["thr"] is not None or p["crit"] in ("aic", "mdl")))
    ns = p["nsig"]
    head = [1 if args_ok else 0, 0 if ns is None else 1, 1 if (ns is not None and ns < 0) else 0, abs(ns) if ns is not None else 0,
            0 if p["thr"] is None else 1, len(p["x"]), p["P"]]
    return ("Q", proto.request("eigenvalidate", "Q", head, []))


def impl_thr(p):
    from spectrum.eigenfre import _get_signal_space
    S = np.asarray(p["S"], dtype=float)
    return [np.array([float(_get_signal_space(S, 20, threshold=p["thr"]))])]


def model_thr(p):
    return ("Q", proto.request("nsigthr", "Q", [], [np.asarray(p["S"], dtype=float), [p["thr"]]]))


def _key(p):
    if "S" in p:
        return "thr|%s|%s" % (p["thr"], hash(np.asarray(p["S"]).tobytes()) & 0xFFFFFF)
    if "crit" in p:
        return "valid|%s|%s|%s|%s|%d|%d" % (p["method"], p["nsig"], p["thr"], p["crit"], len(p["x"]), p["P"])
    x = np.asarray(p["x"])
    return "%s|%d|%s|%s|%s|%s|%d" % (p.get("method"), len(x), p.get("P"), p.get("nsig", p.get("K")), p.get("nfft"),
                                   np.iscomplexobj(x), hash(x.tobytes()) & 0xFFFFFF)


def _tags(p):
    x = np.asarray(p["x"])
    n = p.get("nfft")
    return ["complex" if np.iscomplexobj(x) else "real", "method:%s" % p.get("method", "both"),
            "nfft:" + ("None" if n is None else ("odd" if n % 2 else "even")), "rows:" + ("capped" if len(x) - p["P"] > 100 else "full")]


# kinds whose parameters describe the content of x: no derived degenerate records
NO_DEGEN = {"tones"}

KINDS = {
    "psd": {"impl": impl_psd, "model": model_psd, "rtol": 1e-7, "atol": 1e-300, "key": _key, "tags": _tags},
    "fb": {"impl": impl_fb, "model": model_fb, "post": post_fb, "rtol": 1e-9, "atol": 1e-300, "key": _key, "tags": _tags},
    "class": {"impl": impl_class, "model": model_class, "rtol": 1e-12, "atol": 0.0, "key": _key, "tags": _tags},
    "tones": {"oracle": oracle_tones, "key": _key, "tags": _tags},
    "validate": {"oracle": oracle_validate, "key": _key, "tags": lambda p: ["validate"]},
    # which arguments eigen() rejects (ValueError), which sizes it asserts on, and the threshold rule itself, against the model's
    # eigenValidate / signalSpace (the objects of theorems eigenValidate_rules, nsig_rules)
    "valid": {"impl": impl_valid, "model": model_valid, "strict_errors": True, "rtol": 0, "atol": 0, "key": _key,
              "tags": lambda p: ["valid:" + ("nsig" if p["nsig"] is not None else "-") + ("+thr" if p["thr"] is not None else "")]},
    "thr": {"impl": impl_thr, "model": model_thr, "rtol": 0, "atol": 0, "key": _key, "tags": lambda p: ["thr"]},
}
NO_VARY = {"valid", "thr"}


def _noisy(nrng, N, cplx):
    n = np.arange(N)
    if cplx:
        return (np.exp(2j * np.pi * 0.11 * n) + 0.5 * np.exp(-2j * np.pi * 0.23 * n)
                + 0.3 * (nrng.standard_normal(N) + 1j * nrng.standard_normal(N)))
    return np.cos(0.7 * n + 0.3) + 0.3 * nrng.standard_normal(N)


KINDS["single"] = single.kind("C17")

def gen(rng, nrng, tier):
    yield from single.gen("C17", nrng, tier)
    for i in range(60 if tier == "quick" else 600):
        P = int(nrng.integers(2, 9))
        N = int(nrng.integers(P + 1, 3 * P + 4)) if i % 5 == 0 else int(nrng.integers(2 * P, 40))   # some sizes hit the assertion
        x = _noisy(nrng, N, bool(i % 2))
        yield ("valid", {"x": x, "P": P, "method": ["music", "ev", "music", "foo"][(i // 3) % 4] if i % 11 else "MUSIC",
                         "nsig": [None, None, 1, P - 1, P, P + 2, -1, 0][int(nrng.integers(0, 8))],
                         "thr": [None, None, 3.0, 1.0, 0.5, -2.0, 1e9][int(nrng.integers(0, 7))],
                         "crit": ["aic", "mdl", "aic", "foo"][int(nrng.integers(0, 4))]})
    for i in range(30 if tier == "quick" else 300):
        n = int(nrng.integers(2, 9))
        S = np.sort(nrng.integers(1, 40, n).astype(float))[::-1] / 4.0
        if i % 4 == 0:
            S[-1] = S[-2]                      # tied smallest singular values
        yield ("thr", {"S": S, "thr": [1.0, 1.5, 2.0, 3.0, 100.0, 1.25][i % 6]})
    n = 50 if tier == "quick" else 700
    for i in range(n):
        cplx = bool(i % 2)
        P = int(nrng.integers(3, 13))
        N = int(nrng.integers(2 * P, 129)) if i % 7 else int(nrng.integers(P + 101, P + 140))
        x = _noisy(nrng, N, cplx)
        nfft = [32, 33, 64, 49, 128][i % 5]
        if nfft < P:
            nfft = 2 * P + 1
        method = ["music", "ev"][(i // 2) % 2]
        nsig = int(nrng.integers(0, P))
        yield ("psd", {"x": x, "P": P, "nsig": nsig, "nfft": nfft, "method": method})
        yield ("fb", {"x": x, "P": P})
        yield ("class", {"x": x, "P": P, "nsig": max(1, nsig), "nfft": [nfft, None][i % 2], "method": method, "fs": [1.0, 3.0][i % 2]})
    nt = 50 if tier == "quick" else 700
    for i in range(nt):
        cplx = bool(i % 3)
        nfft = [64, 63, 128, 45, 96][i % 5]
        if cplx:
            K = int(nrng.integers(1, 5))
            # distinct on-grid bins at least 3 bins apart (circularly), so that every tone is its own local maximum
            cand = list(range(-(nfft // 2) + 1, nfft // 2))
            bins = [0] if i % 6 == 1 else []
            while len(bins) < K:
                b = int(cand[int(nrng.integers(0, len(cand)))])
                if all(min(abs(b - c) % nfft, nfft - abs(b - c) % nfft) >= 3 for c in bins):
                    bins.append(b)
            bins = sorted(bins)
        else:
            K2 = int(nrng.integers(1, 3))
            pos = []
            while len(pos) < K2:
                b = int(nrng.integers(3, nfft // 2 - 3))
                if all(abs(b - c) >= 3 for c in pos):
                    pos.append(b)
            pos = sorted(pos)
            bins = pos + [-b for b in pos]
            K = 2 * K2
        P = int(nrng.integers(K + 1, 17))
        N = int(nrng.integers(2 * P, 129)) if i % 9 else int(nrng.integers(P + 101, P + 130))
        t = np.arange(N)
        if cplx:
            x = sum((1 + nrng.uniform(0, 2)) * np.exp(2j * np.pi * b * t / nfft + 1j * nrng.uniform(0, 6)) for b in bins)
        else:
            x = sum((1 + nrng.uniform(0, 2)) * np.cos(2 * np.pi * b * t / nfft + nrng.uniform(0, 6)) for b in bins if b > 0)
        yield ("tones", {"x": x, "P": P, "K": K, "bins": bins, "nfft": nfft})
    for i in range(6 if tier == "quick" else 40):
        cplx = bool(i % 2)
        P = int(nrng.integers(4, 10))
        x = _noisy(nrng, int(nrng.integers(2 * P + 4, 80)), cplx)
        yield ("validate", {"x": x, "P": P})
