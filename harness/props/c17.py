"""C17  MUSIC / EV resolve exact sinusoids and expose the data-matrix spectrum."""
import numpy as np

import single

import proto
from common import rel

TRUSTED_BASE = [
    "numpy.linalg.svd is a parameter of the model: the harness performs the same call on the forward-backward matrix and hands "
    "S and V to the model (the pseudo-spectra are invariant under the phase freedom of the singular vectors when the noise "
    "singular values are distinct: correspondence cases add noise; noiseless cases are evaluated by the oracle)",
    "numpy.fft is the DFT parameter.  spectrum.criteria.aic_eigen / mdl_eigen and the rule NSIG = argmin + 1 are modelled "
    "(Model/EigenCrit.lean, float mode: logarithms; kind 'eigcrit' compares the criterion values at 1e-9 and the dimension "
    "exactly); in the pseudo-spectrum kinds the dimension is still handed to the model as a number.  The oracle additionally "
    "evaluates the library's own two functions (on data selected, with a generation-time copy of the two formulas, so that "
    "their argmins differ) and checks which of the two each criteria name uses",
    "float mode, rtol 1e-7",
    "the oracle's reference pseudo-spectrum (ref_psd: steering-vector sums written from the definition, no FFT / reordering) uses "
    "numpy.linalg.svd of the forward-backward matrix built from its definition; element-wise tolerance 1e-8 .. 1e-7 on noisy data",
]
PARTIAL = ["'the K largest local maxima lie at the true frequencies' is proved as: the noise-subspace denominator vanishes exactly at "
           "the output index whose reported frequency is that of each exponential (null-vector / Vandermonde argument) relative to "
           "the SVD contract; the numerical peak search is evaluated by the oracle"]
ASSUMPTIONS = ["tone bins are at least 3 bins apart (for a real sinusoid at bin b the pair +-b counts: 2 <= b <= NFFT/2 - 2), so that 'the K "
               "largest local maxima' is well defined on the grid; cases with tones 2 bins apart (incl. real sinusoids at bins 1 and NFFT/2-1) are "
               "generated for the positivity / singular-value / rank clauses only",
               "N - P <= 100 or more (the code caps the number of rows at 100 per half; both regimes are generated)",
               "the frequencies are ON the NFFT grid, so the maxima are required at the exact bins / exact reported frequencies "
               "(the 'within one bin' slack of the statement is what off-grid frequencies need; it is kept as the first test)",
               "many-tone records (K >= 5) are kept only when the K-th singular value of the forward-backward matrix exceeds 1e-5 of "
               "the largest (closely packed tones over a short record are numerically rank deficient in double precision; the "
               "'exactly K non-negligible' clause uses the line 1e-8)",
               "NFFT >= P (the functions reject NFFT < P); the default NFFT of the functions is 4096, of the classes the data length",
               "numeric types of P / NSIG / NFFT / threshold: only the (argument, type) pairs the unchanged tree accepts are generated "
               "(measured under NumPy 2.5: an unsigned P raises OverflowError, an int8 P only works while N <= 127 and N - P <= 63, the "
               "classes reject a 0-d array as NFFT, a float NSIG raises TypeError); an accepted type must give the result of the python "
               "int / float of the same value (bit-identical on the unchanged tree; compared at 1e-12 per entry)"]
RULE = ("noiseless sums of K distinct on-grid complex exponentials (K 1..15, incl. bins 0 and +-NFFT/2) or K/2 real sinusoids (K/2 "
        "1..7, incl. bins 1, 2, NFFT/2-2, NFFT/2-1), random amplitudes/phases, N in 2P..128 (and N - P > 100), P in K+1..16 (P = K+1 "
        "over-weighted), NFFT even/odd and the default 4096, music and ev, functions and classes (.psd, .frequencies(), "
        ".eigenvalues); noisy data with random frequencies (float arrays, python lists, integer arrays; NFFT from P upwards; "
        "scale_by_freq; sampling) for the model correspondence and the class fold; argument-validation cases; low-noise records "
        "on which the AIC, MDL dimensions and P-1 differ; thresholds 1, 1.5, 3, 10, 1e9; eigcrit: sorted positive singular-value "
        "lists (n 2..12 and 40..100, k signal values 0.5..4 decades above a noise floor with 30 % spread, amplitudes 1, 2^-30, 2^25) "
        "through aic_eigen / mdl_eigen / _get_signal_space against the model, and re-scaled by t, 2^-20, 2^20 (same dimension); "
        "the numeric TYPE of the integer arguments: P, NSIG and NFFT as numpy scalars int8..int64, uint8..uint64, intp, uintp, as "
        "elements of an integer numpy.arange (an order sweep) and as 0-d integer arrays -- every (argument, type) pair the unchanged "
        "tree accepts (unsigned P and 0-d NFFT of the classes are rejected there and not generated) -- in the noiseless tone cases "
        "(peaks, positivity, finiteness away from the true bins, same values as the python-int call), in the psd / class / valid "
        "correspondence cases (the model gets the python ints), and kind 'argtype': one record x one entry point (eigen, music / "
        "ev, pmusic / pev) x every accepted type of each argument, all three at once, a dimension sweep over "
        "numpy.arange(0, P, dtype), thresholds as python int / float16 / float32 / longdouble / integer scalars / 0-d arrays "
        "against the python float, integral floats as NSIG (rejected, or the int result), out-of-range NSIG in numpy types (ValueError); "
        "tones: every entry 2 or more bins away from all true bins is finite")


def _sp():
    import spectrum
    return spectrum


def fb_matrix(x, P):
    """forward-backward data matrix from its definition: FB[I,K] = x[I-K+P-1], FB[I+NP,K] = conj(x[I+K+1]), NP = min(N-P, 100)"""
    x = np.asarray(x).astype(complex)
    N = len(x)
    NP = min(N - P, 100)
    I = np.arange(NP)[:, None]
    K = np.arange(P)[None, :]
    return np.vstack((x[I - K + P - 1], np.conj(x[I + K + 1])))


def ref_psd(x, P, nsig, nfft, method):
    """the pseudo-spectrum written from its definition (no FFT, no reordering): with the right singular vectors v_i of the
    forward-backward matrix and the steering vector e(w)[k] = exp(j w k),
        MUSIC(w) = 1 / sum_{i >= nsig} |e(w)^H v_i|^2,      EV(w) = 1 / sum_{i >= nsig} |e(w)^H v_i|^2 / S_i,
    on the grid w_j = 2 pi (j - NFFT//2) / NFFT (centre-DC order of the function output).  Returns (psd, S)."""
    FB = fb_matrix(x, P)
    _U, S, Vh = np.linalg.svd(FB)
    b = np.arange(nfft) - nfft // 2
    EH = np.exp(-2j * np.pi * np.outer(b, np.arange(P)) / nfft)
    den = np.zeros(nfft)
    for i in range(nsig, P):
        t = np.abs(EH @ np.conj(Vh[i, :])) ** 2
        den = den + (t / max(S[i], np.finfo(float).eps * S[0]) if method == "ev" else t)
    with np.errstate(all="ignore"):
        return 1.0 / den, S


def ref_fold(psd, real, nfft):
    """what the classes report, from the centre-DC function output: real data -> the bins 0..NFFT//2 (odd: (NFFT-1)/2) doubled
    (entry b is the value at frequency -b = the value at +b for real data); complex -> bins 0..NFFT-1 (two-sided)"""
    psd = np.asarray(psd)
    h = nfft // 2
    if real:
        L = h + 1 if nfft % 2 == 0 else (nfft + 1) // 2
        return 2.0 * np.array([psd[h - b] for b in range(L)])
    return np.array([psd[(m + h) % nfft] for m in range(nfft)])


def relw(a, b):
    """element-wise relative deviation (the pseudo-spectra span many decades: a max-norm comparison only sees the peaks)"""
    a, b = np.asarray(a, dtype=float), np.asarray(b, dtype=float)
    if a.shape != b.shape or not (np.all(np.isfinite(a)) and np.all(np.isfinite(b))) or np.any(b == 0):
        return float("inf")
    return float(np.max(np.abs(a / b - 1.0))) if a.size else 0.0


def crit_dims(S, Nc):
    """generation-time copy of the two order-selection formulas (used ONLY to pick data on which the two criteria disagree;
    the oracle evaluates the library's own criteria functions, which are a parameter of the property)"""
    S = np.asarray(S, dtype=float)
    n = len(S)
    a, m = [], []
    with np.errstate(all="ignore"):
        for k in range(n - 1):
            ak = np.sum(S[k + 1:]) / (n - k)
            gk = np.prod(S[k + 1:] ** (1.0 / (n - k)))
            a.append(-2.0 * (n - k) * Nc * np.log(gk / ak) + 2.0 * k * (2.0 * n - k))
            m.append(-(n - k) * Nc * np.log(gk / ak) + 0.5 * k * (2.0 * n - k) * np.log(Nc))
    return int(np.argmin(a)) + 1, int(np.argmin(m)) + 1


def _as_input(p):
    """the container in which the samples are handed to the library: ndarray (default), python list, integer ndarray"""
    x = p["x"]
    c = p.get("container")
    if c == "list":
        return np.asarray(x).tolist()
    if c:
        a = np.asarray(x)
        if np.isrealobj(a) and np.all(a == np.round(a)) and np.max(np.abs(a)) < 100:
            return a.astype(c)
        return a              # derived variants (scaled samples) are no longer integers: plain array
    return x


# ---- the numeric TYPE in which the integer arguments P, NSIG, NFFT (and the threshold) are handed over -------------------
# A case may carry p["types"] = {"P": t, "nsig": t, "nfft": t, "threshold": t}; the VALUES in the params stay python ints /
# floats (replays are JSON), the typed object is built at call time by `_ty`.  Type names: "int8" .. "uint64", "intp", "uintp"
# (numpy scalars), "arange:<dtype>" (an element of numpy.arange(.., dtype): what an order / dimension sweep hands over),
# "0d:<dtype>" (0-d array), "float" / "float32" / "float64" / "float16" / "longdouble" / "int" (python / numpy scalars).
# The lists below are what the UNCHANGED tree accepts (measured, NumPy 2.5: 6 x 3 entry points x every type, and 60 records x
# 7 thresholds x 10 types): the result was bit-identical to the python-int (python-float) call in every accepted case.
#   NSIG : every integer scalar type and every 0-d integer array, all five entry points (floats: TypeError)
#   P    : signed types only (an unsigned P raises OverflowError inside the data-matrix loops: rejected, not generated);
#          int8 only while N <= 127 and N - P <= 63 (beyond that N - P / 2*(N-P) leave int8: OverflowError / AssertionError)
#   NFFT : every integer scalar type that holds the value; 0-d arrays for the functions only (the classes reject them: ValueError)
#   threshold : python int, numpy float16/32, longdouble, integer scalars, 0-d arrays
_SCALARS = ["int8", "int16", "int32", "int64", "uint8", "uint16", "uint32", "uint64", "intp", "uintp"]
NSIG_TYPES = _SCALARS + ["arange:uint8", "arange:uint16", "arange:uint32", "arange:int64", "0d:int64", "0d:uint8", "0d:int32", "0d:uint64"]
P_TYPES = ["int8", "int16", "int32", "int64", "intp", "arange:int64", "arange:int16", "0d:int64", "0d:int32"]
NFFT_TYPES = NSIG_TYPES
UNSIGNED = ["uint8", "uint16", "uint32", "uint64", "uintp", "arange:uint8", "arange:uint16", "arange:uint32", "0d:uint8", "0d:uint64"]
THR_TYPES = ["int", "float32", "float16", "longdouble", "int64", "uint8", "int8", "0d:float64", "0d:float32", "0d:int64"]
FLOAT_TYPES = ["float", "float32", "float64", "0d:float64"]
# a typed result against the python-int result of the same value: bit-identical in every measured case (worst deviation 0);
# the comparison allows 1e-12 per entry (the line the module uses for 'the same rule through another entry point')
TYPE_RTOL = 1e-12


def _ty(v, t):
    """the value v as an object of the type named t"""
    if t is None:
        return v
    if t == "int":
        return int(v)
    if t == "float":
        return float(v)
    if t.startswith("0d:"):
        return np.array(v, dtype=t[3:])
    if t.startswith("arange:"):
        return np.arange(int(v), int(v) + 1, dtype=t[7:])[0]
    return np.dtype(t).type(v)


def _fits(v, t, what=None, N=None, P=None, cls=False):
    """can the value be held by the type, and is the (argument, type) pair one the unchanged tree accepts"""
    if t is None:
        return True
    d = t.split(":")[-1]
    if d in ("int", "float"):
        return True
    dt = np.dtype(d)
    if dt.kind in "iu" and not (np.iinfo(dt).min <= v <= np.iinfo(dt).max):
        return False
    if dt.kind in "iu" and v != int(v):
        return False
    if what == "P":
        if dt.kind == "u":
            return False
        if d == "int8" and not (N is not None and N <= 127 and N - v <= 63):
            return False
    if what == "nfft" and cls and t.startswith("0d:"):
        return False
    return True


def _targs(p, cls=False):
    """(P, NSIG or K, NFFT) in the types named by p['types'] (python ints without); for the classes a 0-d NFFT (which they
    reject) is handed over as the numpy scalar of the same dtype"""
    ty = p.get("types") or {}
    ns = p.get("nsig", p.get("K"))
    nf = p.get("nfft")
    tn = ty.get("nfft")
    if cls and tn and tn.startswith("0d:"):
        tn = tn[3:]
    return (_ty(p["P"], ty.get("P")), None if ns is None else _ty(ns, ty.get("nsig")), None if nf is None else _ty(nf, tn))


def _same_psd(a, b, rtol=TYPE_RTOL):
    """two pseudo-spectra agree entry by entry (non-finite entries -- exact zeros of a noiseless denominator -- at the same places)"""
    a, b = np.asarray(a, dtype=float), np.asarray(b, dtype=float)
    if a.shape != b.shape or np.any(np.isnan(a)) or np.any(np.isnan(b)):
        return False
    fa, fb = np.isfinite(a), np.isfinite(b)
    if not np.array_equal(fa, fb) or not np.array_equal(a[~fa], b[~fb]):
        return False
    if np.any(b[fb] == 0):
        return bool(np.array_equal(a[fa], b[fb]))
    return bool(np.all(np.abs(a[fa] / b[fb] - 1.0) <= rtol))


def _sel_kw(p, typed=False):
    """keyword arguments selecting the subspace rule of a 'class' case (typed: in the types named by p['types'])"""
    kw = {}
    ty = (p.get("types") or {}) if typed else {}
    if p.get("nsig") is not None:
        kw["NSIG"] = _ty(p["nsig"], ty.get("nsig"))
    if p.get("threshold") is not None:
        kw["threshold"] = _ty(p["threshold"], ty.get("threshold"))
    if p.get("criteria") is not None:
        kw["criteria"] = p["criteria"]
    return kw


# ---- correspondence: function output given the SVD -------------------------------------------------

def impl_psd(p):
    sp = _sp()
    f = sp.music if p["method"] == "music" else sp.ev
    Pt, nt, ft = _targs(p)
    psd, S = f(_as_input(p), Pt, NSIG=nt, NFFT=ft)
    return [np.asarray(psd)]


def model_psd(p):
    FB = fb_matrix(p["x"], p["P"])
    _U, S, Vh = np.linalg.svd(FB)
    cols = [-Vh[i, :] for i in range(p["P"])]
    Se = np.concatenate((S, [np.finfo(float).eps]))   # singular values + the epsilon of the EV divisor floor
    return ("F", proto.request("eigenpsd", "F", [p["P"], p["nfft"], p["nsig"], 1 if p["method"] == "ev" else 0], [Se] + cols))


def impl_fb(p):
    sp = _sp()
    psd, S = sp.music(p["x"], p["P"], NSIG=1, NFFT=16)
    return [np.asarray(S)]


def model_fb(p):
    return ("F", proto.request("fb", "F", [p["P"]], [np.asarray(p["x"])]))


def post_fb(p, iv, mv):
    dims = mv[0]
    rows = int(round(dims[0].real))
    M = np.array([mv[1 + i] for i in range(rows)])
    return iv, [np.linalg.svd(M, compute_uv=False)]


def impl_class(p):
    sp = _sp()
    cls = sp.pmusic if p["method"] == "music" else sp.pev
    kw = _sel_kw(p, typed=True)
    if p.get("sbf"):
        kw["scale_by_freq"] = True
    Pt, _nt, ft = _targs(p, cls=True)
    o = cls(_as_input(p), Pt, NFFT=ft, sampling=p.get("fs", 1.0), **kw)
    return [np.asarray(o.psd), np.asarray(o.eigenvalues)]


def model_class(p):
    sp = _sp()
    f = sp.music if p["method"] == "music" else sp.ev
    x = np.asarray(p["x"])
    nfft = p["nfft"] if p["nfft"] is not None else len(x)
    psd, S = f(p["x"], p["P"], NFFT=nfft, **_sel_kw(p))
    return ("F", proto.request("eigenclass", "F", [1 if np.isrealobj(x) else 0, nfft], [np.asarray(psd)]))


def post_class(p, iv, mv):
    # scale(): scale_by_freq multiplies the folded values by 2 pi / df, df = sampling / NFFT; the second output of the class is
    # `.eigenvalues`: the singular values of the forward-backward matrix (computed here from its definition)
    x = np.asarray(p["x"])
    nfft = p["nfft"] if p["nfft"] is not None else len(x)
    fac = 2 * np.pi / (p.get("fs", 1.0) / nfft) if p.get("sbf") else 1.0
    return iv, [np.asarray(mv[0]) * fac, np.linalg.svd(fb_matrix(x, p["P"]), compute_uv=False)]


def expected_dim(p, S, N):
    """the signal-subspace dimension the three alternative rules define, from the singular values S"""
    P = p["P"]
    if p.get("nsig") is not None:
        return p["nsig"]
    if p.get("threshold") is not None:
        return max(1, int(np.sum(S > p["threshold"] * np.min(S))))
    from spectrum.criteria import aic_eigen, mdl_eigen          # the criteria values are a parameter of the property
    fn = aic_eigen if p.get("criteria", "aic") == "aic" else mdl_eigen
    return int(np.argmin(fn(S, 4 * min(N - P, 100)))) + 1


def oracle_class(p):
    """pmusic / pev against the definition: `.psd` is the fold of the pseudo-spectrum of the selected dimension, `.eigenvalues`
    are the singular values the function returns"""
    sp = _sp()
    out = []
    x = np.asarray(p["x"])
    P, method = p["P"], p["method"]
    nfft = p["nfft"] if p["nfft"] is not None else len(x)
    cls = sp.pmusic if method == "music" else sp.pev
    f = sp.music if method == "music" else sp.ev
    kw = _sel_kw(p)
    fs = p.get("fs", 1.0)
    # (a case with p['types'] hands P / NSIG / NFFT / threshold to the class in those types; the function reference below and
    # the definition get the python ints of the same values)
    Pt, _nt, ft = _targs(p, cls=True)
    o = cls(_as_input(p), Pt, NFFT=ft, sampling=fs, scale_by_freq=bool(p.get("sbf")), **_sel_kw(p, typed=True))
    cp = np.asarray(o.psd)
    ev = np.asarray(o.eigenvalues)
    fpsd, S = f(_as_input(p), P, NFFT=nfft, **kw)
    S = np.asarray(S)
    if not np.array_equal(ev, S):
        out.append("%s class: .eigenvalues differ from the singular values returned by the function" % method)
    if rel(cp, ref_fold(np.asarray(fpsd), np.isrealobj(x), nfft) * (2 * np.pi / (fs / nfft) if p.get("sbf") else 1.0)) > 1e-12:
        out.append("%s class: .psd is not the fold of the function output" % method)
    if p.get("container"):
        # the same sample values held in a python list / an integer array: same result as for the float array
        fp2, S2 = f(p["x"], P, NFFT=nfft, **kw)
        if rel(np.asarray(fp2), np.asarray(fpsd)) > 1e-12 or rel(np.asarray(S2), S) > 1e-12:
            out.append("%s: result for %s samples differs from the result for the same values as a float array" % (method, p["container"]))
    Sref = np.linalg.svd(fb_matrix(x, P), compute_uv=False)
    if rel(ev, Sref) > 1e-8:
        out.append("%s class: .eigenvalues are not the singular values of the forward-backward matrix: %.2e" % (method, rel(ev, Sref)))
    n = expected_dim(p, Sref, len(x))
    if not (0 <= n < P):
        return out
    ref, _ = ref_psd(x, P, n, nfft, method)
    fac = 2 * np.pi / (fs / nfft) if p.get("sbf") else 1.0
    want = ref_fold(ref, np.isrealobj(x), nfft) * fac
    fr = o.frequencies()
    if len(cp) != len(want) or len(cp) != len(fr):
        out.append("%s class: %d values, %d frequencies, %d expected (NFFT=%d)" % (method, len(cp), len(fr), len(want), nfft))
    elif relw(cp, want) > 1e-7:
        out.append("%s class (%s, sampling=%s, scale_by_freq=%s): .psd differs from the folded pseudo-spectrum of dimension %d "
                   "by %.2e" % (method, _sel_kw(p), fs, bool(p.get("sbf")), n, relw(cp, want)))
    return out


# ---- oracle ----------------------------------------------------------------------------------------

def _types_text(p):
    ty = p.get("types") or {}
    return ", ".join("%s as %s" % ({"nsig": "NSIG", "nfft": "NFFT"}.get(k, k), ty[k]) for k in sorted(ty) if ty[k])


def _local_max(psd, circular):
    n = len(psd)
    idx = []
    for i in range(n):
        l = psd[(i - 1) % n] if (circular or i > 0) else -np.inf
        r = psd[(i + 1) % n] if (circular or i < n - 1) else -np.inf
        if psd[i] >= l and psd[i] >= r and (psd[i] > l or psd[i] > r):
            idx.append(i)
    return idx


def _min_sep(bins, nfft):
    b = sorted(c % nfft for c in bins)
    if len(b) < 2:
        return nfft
    return min(min((b[(i + 1) % len(b)] - b[i]) % nfft for i in range(len(b))), nfft)


def oracle_tones(p):
    sp = _sp()
    x = np.asarray(p["x"])
    P, K, nfft = p["P"], p["K"], p["nfft"]
    out = []
    FB = fb_matrix(x, P)
    Sref = np.linalg.svd(FB, compute_uv=False)
    # 'the K largest local maxima' needs every tone to be its own local maximum on the grid: tones >= 3 bins apart; cases with
    # tones 2 bins apart carry peaks=False and are evaluated on the positivity / singular-value clauses only
    peaks = p.get("peaks", True) and _min_sep(p["bins"], nfft) >= 3
    real = np.isrealobj(x)
    # the order, the dimension and NFFT in the numeric types named by p['types'] (python ints without)
    typed = bool(p.get("types"))
    Pt, Kt, nfft_t = _targs(p)
    _Pc, _Kc, nfft_c = _targs(p, cls=True)
    for method in ("music", "ev"):
        f = sp.music if method == "music" else sp.ev
        with np.errstate(all="ignore"):
            psd, S = f(p["x"], Pt, NSIG=Kt, NFFT=nfft_t)
            if typed:
                psd_i, S_i = f(p["x"], P, NSIG=K, NFFT=nfft)
                if not _same_psd(psd, psd_i) or not np.array_equal(np.asarray(S), np.asarray(S_i)):
                    out.append("%s with %s differs from the call with the python ints of the same values (P=%d, NSIG=%d, NFFT=%d)" % (
                        method, _types_text(p), P, K, nfft))
                e = np.asarray(sp.eigen(p["x"], Pt, NSIG=Kt, NFFT=nfft_t, method=method)[0])
                if not _same_psd(e, psd_i):
                    out.append("eigen(method=%r) with %s differs from %s with the python ints of the same values (P=%d, NSIG=%d, NFFT=%d)" % (
                        method, _types_text(p), method, P, K, nfft))
        psd, S = np.asarray(psd), np.asarray(S)
        if len(psd) != nfft:
            out.append("%s returned %d values for NFFT=%d" % (method, len(psd), nfft))
            continue
        if np.any(np.isnan(psd)) or np.any(psd <= 0):
            out.append("%s pseudo-spectrum is not positive everywhere" % method)
        if np.any(np.diff(S) > 1e-9 * S[0]):
            out.append("singular values are not non-increasing")
        if len(S) != P:
            out.append("%s returned %d singular values for order P=%d" % (method, len(S), P))
        if rel(S, Sref) > 1e-8:
            out.append("returned singular values are not those of the forward-backward data matrix (N=%d P=%d): %.2e" % (len(x), P, rel(S, Sref)))
        line = 1e-12 if p.get("weak") else 1e-8
        if np.sum(S > line * S[0]) != K:
            out.append("%d non-negligible singular values for K=%d exponentials (N=%d P=%d)" % (int(np.sum(S > line * S[0])), K, len(x), P))
        # function output is centre-DC ordered: index j has frequency bin j - NFFT//2
        finite = np.where(np.isfinite(psd), psd, np.inf)
        exp = sorted(b % nfft for b in p["bins"])
        # 'finite wherever the noise-subspace projection does not vanish': it vanishes at the K true bins only (an infinite value
        # needs a denominator that is exactly 0.0), so every entry 2 or more bins away from all of them is finite
        far = [j for j in range(nfft) if all(min((j - nfft // 2 - e) % nfft, (e - j + nfft // 2) % nfft) >= 2 for e in exp)]
        if far and not np.all(np.isfinite(psd[far])):
            out.append("%s pseudo-spectrum is not finite at %d of the %d bins 2 or more bins away from every true frequency (NFFT=%d, P=%d, K=%d%s)" % (
                method, int(np.sum(~np.isfinite(psd[far]))), len(far), nfft, P, K, (", " + _types_text(p)) if typed else ""))
        if peaks:
            lm = _local_max(finite, True)
            lm = sorted(lm, key=lambda i: -finite[i])[:K]
            got = sorted(((i - nfft // 2) % nfft) for i in lm)
            ok = len(got) == len(exp) and all(min(abs(g - e), nfft - abs(g - e)) <= 1 for g, e in zip(got, exp))
            if not ok:
                out.append("%s: the %d largest local maxima are at bins %s, true bins %s (NFFT=%d, N=%d, P=%d, %s)" % (
                    method, K, got, exp, nfft, len(x), P, "complex" if np.iscomplexobj(x) else "real"))
            elif got != exp:
                # the frequencies are ON the NFFT grid: the noise-subspace projection vanishes at those very bins, so the
                # maxima are at the exact bins (one bin of slack is only needed for off-grid frequencies)
                out.append("%s: on-grid tones at bins %s but the %d largest local maxima are at bins %s (NFFT=%d, N=%d, P=%d, %s)" % (
                    method, exp, K, got, nfft, len(x), P, "real" if real else "complex"))
            # the K largest VALUES as well (no other entry comes near a vanishing denominator)
            top = sorted(((int(i) - nfft // 2) % nfft) for i in np.argsort(-finite, kind="stable")[:K])
            if top != exp:
                out.append("%s: the %d largest values are at bins %s, true bins %s (NFFT=%d)" % (method, K, top, exp, nfft))
        # class output: the maximum sits at the entry whose reported frequency is a true frequency
        cls = sp.pmusic if method == "music" else sp.pev
        with np.errstate(all="ignore"):
            o = cls(p["x"], _Pc, NSIG=_Kc, NFFT=nfft_c, sampling=2.0)
            cp = np.asarray(o.psd)
        if typed and not _same_psd(cp, ref_fold(psd, real, nfft)):
            out.append("%s class with %s: .psd is not the fold of the function output" % (method, _types_text(p)))
        fr = np.asarray(o.frequencies())
        ev = np.asarray(o.eigenvalues)
        if not np.array_equal(ev, S):
            out.append("%s class: .eigenvalues differ from the singular values returned by the function" % method)
        nexp = nfft if not real else (nfft // 2 + 1 if nfft % 2 == 0 else (nfft + 1) // 2)
        if len(cp) != nexp:
            out.append("%s class: %d values for NFFT=%d (%s data)" % (method, len(cp), nfft, "real" if real else "complex"))
        if len(cp) != len(fr):
            out.append("%s class: %d values but %d frequencies" % (method, len(cp), len(fr)))
        elif peaks:
            cfin = np.where(np.isfinite(cp), cp, np.inf)
            if np.any(np.isnan(cp)) or np.any(cp <= 0):
                out.append("%s class: pseudo-spectrum is not positive everywhere" % method)
            am = int(np.argmax(cfin))
            fexp = [(b % nfft) * 2.0 / nfft for b in p["bins"]]
            if real:
                fexp = [min(f, 2.0 - f) for f in fexp]
            d = min(abs(fr[am] - f) for f in fexp) / (2.0 / nfft)
            if d > 1 + 1e-9:
                out.append("%s class: maximum at frequency %.4f, %.2f bins from the nearest true frequency" % (method, fr[am], d))
            # all of them, exactly: the K (complex; K/2 for real sinusoids) largest entries of .psd are reported at the true
            # frequencies (a one-bin shift of the class axis against its values is a violation for on-grid tones)
            ftrue = sorted(set(round(f, 12) for f in fexp))
            kk = len(ftrue)
            fgot = sorted(float(fr[int(i)]) for i in np.argsort(-cfin, kind="stable")[:kk])
            if len(fgot) != kk or max(abs(a - b) for a, b in zip(fgot, ftrue)) > 1e-9:
                out.append("%s class: the %d largest entries are reported at frequencies %s, true frequencies %s (sampling 2, NFFT=%d)" % (
                    method, kk, [round(v, 5) for v in fgot], [round(v, 5) for v in ftrue], nfft))
        if p.get("default_nfft") and peaks:
            # NFFT omitted: the documented default of the functions is 4096 points
            with np.errstate(all="ignore"):
                psd4 = np.asarray(f(p["x"], Pt, NSIG=Kt)[0])
            if len(psd4) != 4096:
                out.append("%s without NFFT returned %d values (documented default 4096)" % (method, len(psd4)))
            else:
                if np.any(np.isnan(psd4)) or np.any(psd4 <= 0):
                    out.append("%s (default NFFT) pseudo-spectrum is not positive everywhere" % method)
                f4 = np.where(np.isfinite(psd4), psd4, np.inf)
                lm = sorted(_local_max(f4, True), key=lambda i: -f4[i])[:K]
                got = sorted(((i - 2048) % 4096) for i in lm)
                want = sorted((b % nfft) * 4096.0 / nfft for b in p["bins"])
                slack = 1e-9 if 4096 % nfft == 0 else 1.0
                if len(got) != len(want) or any(min(abs(g - e), 4096 - abs(g - e)) > slack for g, e in zip(got, want)):
                    out.append("%s (default NFFT=4096): the %d largest local maxima are at bins %s, true positions %s" % (method, K, got, want))
    return out


def oracle_validate(p):
    sp = _sp()
    x = np.asarray(p["x"])
    P = p["P"]
    out = []
    entries = [("music", lambda **kw: sp.music(x, P, NFFT=32, **kw)), ("ev", lambda **kw: sp.ev(x, P, NFFT=32, **kw)),
               ("eigen", lambda **kw: sp.eigen(x, P, NFFT=32, method="ev", **kw)),
               ("pmusic", lambda **kw: sp.pmusic(x, P, NFFT=32, **kw).psd), ("pev", lambda **kw: sp.pev(x, P, NFFT=32, **kw).psd)]
    # out-of-range values: a negative or too large dimension, both rules at once, a threshold below 1 (it keeps every singular
    # value, i.e. the dimension P that an explicit NSIG=P rejects), an unknown criterion name
    for kw, should in [(dict(NSIG=2, threshold=3.0), "value"), (dict(NSIG=-1), "value"), (dict(NSIG=P), "value"),
                       (dict(NSIG=P + 2), "value"), (dict(NSIG=0, threshold=2.0), "value"), (dict(NSIG=3, threshold=0), "value"),
                       (dict(NSIG=0, threshold=0.0), "value"), (dict(threshold=0.5), "value"), (dict(threshold=-2.0), "value"),
                       (dict(criteria="foo"), "value")]:
        for name, call in entries:
            try:
                call(**kw)
                out.append("%s accepted %s (P=%d)" % (name, kw, P))
            except ValueError:
                pass
            except Exception as e:
                out.append("%s raised %r for %s instead of ValueError" % (name, e, kw))
            if out:
                break
    # every entry point applies the same rule
    for kw in (dict(NSIG=2), dict(threshold=3.0), dict(criteria="mdl"), dict(threshold=1e9)):
        ref = np.asarray(sp.eigen(x, P, NFFT=32, method="music", **kw)[0])
        got = np.asarray(sp.music(x, P, NFFT=32, **kw)[0])
        cls = sp.pmusic(x, P, NFFT=32, **kw)
        cps = np.asarray(cls.psd)
        if rel(got, ref) > 1e-12:
            out.append("music(%s) differs from eigen(method='music', %s)" % (kw, kw))
        if not np.all(np.isfinite(got)) or not np.all(got > 0):
            out.append("music(%s) pseudo-spectrum is not finite and positive" % (kw,))
        if rel(cps, ref_fold(got, np.isrealobj(x), 32)) > 1e-12:
            out.append("pmusic(%s).psd is not the fold of music(%s)" % (kw, kw))
        refe = np.asarray(sp.eigen(x, P, NFFT=32, method="ev", **kw)[0])
        if rel(np.asarray(sp.ev(x, P, NFFT=32, **kw)[0]), refe) > 1e-12:
            out.append("ev(%s) differs from eigen(method='ev', %s)" % (kw, kw))
        if rel(np.asarray(sp.pev(x, P, NFFT=32, **kw).psd), ref_fold(refe, np.isrealobj(x), 32)) > 1e-12:
            out.append("pev(%s).psd is not the fold of ev(%s)" % (kw, kw))
    try:
        sp.eigen(x, P, method="foo", NFFT=32)
        out.append("eigen accepted method='foo'")
    except ValueError:
        pass
    # the three subspace rules are alternatives: explicit NSIG is used as given; threshold / criteria otherwise
    psd1, S = sp.music(x, P, NSIG=2, NFFT=32)
    psd2, _ = sp.music(x, P, NSIG=2, NFFT=32, criteria="mdl")
    if rel(np.asarray(psd1), np.asarray(psd2)) > 1e-12:
        out.append("an explicit NSIG is not used as given when a criterion name is also passed")
    S = np.asarray(S)
    t = 3.0
    n_thr = max(1, int(np.sum(S > t * S.min())))
    if n_thr < P:
        pt, _ = sp.music(x, P, threshold=t, NFFT=32)
        pn, _ = sp.music(x, P, NSIG=n_thr, NFFT=32)
        if rel(np.asarray(pt), np.asarray(pn)) > 1e-12:
            out.append("threshold rule does not select the singular values above threshold*min(S)")
    from spectrum.criteria import aic_eigen, mdl_eigen
    NP = min(len(x) - P, 100)
    for crit, fn in (("aic", aic_eigen), ("mdl", mdl_eigen)):
        n_c = int(np.argmin(fn(S, 4 * NP))) + 1
        if n_c < P:
            pc, _ = sp.music(x, P, criteria=crit, NFFT=32)
            pn, _ = sp.music(x, P, NSIG=n_c, NFFT=32)
            if rel(np.asarray(pc), np.asarray(pn)) > 1e-12:
                out.append("criteria='%s' does not select argmin+1 singular values" % crit)
    # ---- the three rules against the definition of the pseudo-spectrum (independent reference: ref_psd) --------------------
    Sref = np.linalg.svd(fb_matrix(x, P), compute_uv=False)
    if len(S) != P or rel(S, Sref) > 1e-12:
        out.append("returned singular values are not those of the forward-backward data matrix")
        return out
    dims = {}
    for t in (1.0, 1.5, 3.0, 10.0, 1e9):
        # 'the singular values larger than threshold x the smallest one' (never fewer than one)
        dims[("threshold", t)] = max(1, int(np.sum(Sref > t * np.min(Sref))))
    if dims[("threshold", 1.0)] >= P:
        out.append("harness: more than P-1 singular values strictly above the smallest one")
    n_aic = int(np.argmin(aic_eigen(S, 4 * NP))) + 1        # the criteria values themselves are a parameter of the property
    n_mdl = int(np.argmin(mdl_eigen(S, 4 * NP))) + 1
    dims[("criteria", "aic")] = n_aic
    dims[("criteria", "mdl")] = n_mdl
    dims[("NSIG", 0)] = 0
    dims[("NSIG", 1)] = 1
    dims[("NSIG", P - 1)] = P - 1
    if not (1 <= n_aic < P and 1 <= n_mdl < P):
        out.append("harness: criteria argmin outside 1..P-1")
        return out
    real = np.isrealobj(x)
    for (name, val), n in dims.items():
        kw = {name: val}
        for method, f, cls in (("music", sp.music, sp.pmusic), ("ev", sp.ev, sp.pev)):
            got = np.asarray(f(x, P, NFFT=32, **kw)[0])
            same = np.asarray(f(x, P, NFFT=32, NSIG=n)[0])
            ref = ref_psd(x, P, n, 32, method)[0]
            if not np.array_equal(got, same):
                out.append("%s(%s=%r) is not %s(NSIG=%d) (P=%d, N=%d; dimensions aic %d mdl %d)" % (
                    method, name, val, method, n, P, len(x), n_aic, n_mdl))
            if relw(got, ref) > 1e-8:
                out.append("%s(%s=%r): pseudo-spectrum differs from the definition with signal dimension %d by %.2e (P=%d, N=%d; "
                           "dimensions aic %d mdl %d)" % (method, name, val, n, relw(got, ref), P, len(x), n_aic, n_mdl))
            cp = np.asarray(cls(x, P, NFFT=32, **kw).psd)
            if relw(cp, ref_fold(ref, real, 32)) > 1e-8:
                out.append("%s class (%s=%r): .psd differs from the folded definition with signal dimension %d by %.2e" % (
                    method, name, val, n, relw(cp, ref_fold(ref, real, 32))))
    # the default rule (nothing passed) is the AIC one
    if not np.array_equal(np.asarray(sp.music(x, P, NFFT=32)[0]), np.asarray(sp.music(x, P, NFFT=32, criteria="aic")[0])):
        out.append("music without NSIG/threshold/criteria is not the documented default criteria='aic'")
    if relw(np.asarray(sp.eigen(x, P, NFFT=32)[0]), ref_psd(x, P, n_aic, 32, "music")[0]) > 1e-8:
        out.append("eigen with all defaults is not MUSIC with the AIC dimension %d" % n_aic)
    return out


# ---- the numeric type of P / NSIG / NFFT / threshold: every accepted type gives the python-int result --------------------------

def oracle_argtype(p):
    """one record (noiseless on-grid tones with NSIG = K, or tones in noise), one entry point, one method: P, NSIG and NFFT in
    every integer type the unchanged tree accepts (one argument at a time, and all three at once), a dimension sweep
    `for k in numpy.arange(0, P, dtype=t)`, thresholds in other numeric types, integral floats as NSIG, out-of-range NSIG in
    numpy types.  A type that is accepted gives the pseudo-spectrum and the singular values of the python int of the same value."""
    sp = _sp()
    x = np.asarray(p["x"])
    P, nsig, nfft, method, entry = p["P"], p["nsig"], p["nfft"], p["method"], p["entry"]
    N = len(x)
    iscls = entry == "class"
    real = np.isrealobj(x)

    def call(Pv, nfv, **kw):
        with np.errstate(all="ignore"):
            if entry == "eigen":
                r = sp.eigen(p["x"], Pv, NFFT=nfv, method=method, **kw)
                return np.asarray(r[0]), np.asarray(r[1])
            if entry == "func":
                r = (sp.music if method == "music" else sp.ev)(p["x"], Pv, NFFT=nfv, **kw)
                return np.asarray(r[0]), np.asarray(r[1])
            o = (sp.pmusic if method == "music" else sp.pev)(p["x"], Pv, NFFT=nfv, **kw)
            return np.asarray(o.psd), np.asarray(o.eigenvalues)

    out = []
    name = {"eigen": "eigen(method=%r)" % method, "func": method, "class": "p" + method}[entry]
    base, Sb = call(P, nfft, NSIG=nsig)
    # the python-int result itself against the definition (noisy records: the tolerance of the 'class' oracle on the same data)
    if p.get("noisy"):
        ref = ref_psd(x, P, nsig, nfft, method)[0]
        want = ref_fold(ref, real, nfft) if iscls else ref
        if relw(base, want) > 1e-7:
            out.append("%s: pseudo-spectrum differs from the definition with signal dimension %d by %.2e" % (name, nsig, relw(base, want)))

    def check(what, got, ref=None, Sref=None):
        ref = base if ref is None else ref
        Sref = Sb if Sref is None else Sref
        if not _same_psd(got[0], ref) or not np.array_equal(got[1], Sref):
            g = np.asarray(got[0], dtype=float)
            out.append("%s with %s differs from the call with the python int / float of the same value (P=%d, NSIG=%d, NFFT=%d, N=%d): %d of "
                       "%d values finite, %d expected" % (name, what, P, nsig, nfft, N, int(np.sum(np.isfinite(g))), g.size,
                                                          int(np.sum(np.isfinite(ref)))))

    def attempt(what, fn, ref=None, Sref=None):
        try:
            got = fn()
        except Exception as e:
            out.append("%s with %s raised %s (%s); the python int / float of the same value is accepted" % (name, what, type(e).__name__, str(e)[:80]))
            return
        check(what, got, ref, Sref)

    for t in NSIG_TYPES:
        if _fits(nsig, t):
            attempt("NSIG=%s(%d)" % (t, nsig), lambda: call(P, nfft, NSIG=_ty(nsig, t)))
    for t in P_TYPES:
        if _fits(P, t, "P", N=N):
            attempt("P=%s(%d)" % (t, P), lambda: call(_ty(P, t), nfft, NSIG=nsig))
    for t in NFFT_TYPES:
        if _fits(nfft, t, "nfft", cls=iscls):
            attempt("NFFT=%s(%d)" % (t, nfft), lambda: call(P, _ty(nfft, t), NSIG=nsig))
    # all three at once (P in the signed companion of an unsigned type)
    for t in NSIG_TYPES:
        tp = t.replace("uint", "int")
        if tp in P_TYPES and _fits(nsig, t) and _fits(P, tp, "P", N=N) and _fits(nfft, t, "nfft", cls=iscls):
            attempt("P=%s, NSIG=%s, NFFT=%s" % (tp, t, t), lambda: call(_ty(P, tp), _ty(nfft, t), NSIG=_ty(nsig, t)))
    if len(out) > 6:
        return out[:6] + ["(%d more)" % (len(out) - 6)]
    # a dimension sweep in the dtype p['sweep']: every k of numpy.arange(0, P, dtype) against the python int k
    for k in np.arange(0, P, dtype=p["sweep"]):
        if int(k) == nsig:
            continue
        try:
            ri = call(P, nfft, NSIG=int(k))
        except Exception as e:
            out.append("%s raised %r for NSIG=%d" % (name, e, int(k)))
            break
        n0 = len(out)
        attempt("NSIG=%d as an element of numpy.arange(0, %d, dtype=%s)" % (int(k), P, p["sweep"]), lambda: call(P, nfft, NSIG=k), ri[0], ri[1])
        if len(out) > n0:
            break
    # the threshold in other numeric types (1 vs 1.0, numpy.float32(1.5), ...): the result of the python float of the same value
    for v in (1, 1.5, 3, 10, p.get("thr", 2.0)):
        try:
            rf = call(P, nfft, threshold=float(v))
        except Exception as e:
            out.append("%s raised %r for threshold=%r" % (name, e, float(v)))
            break
        for t in THR_TYPES:
            d = t.split(":")[-1]
            if d in ("int", "int64", "uint8", "int8") and v != int(v):
                continue
            tv = _ty(v, t)
            if float(tv) != float(v):
                rf2 = call(P, nfft, threshold=float(tv))     # (float16 / float32 round the random threshold)
            else:
                rf2 = rf
            attempt("threshold=%s(%r)" % (t, v), lambda: call(P, nfft, threshold=tv), rf2[0], rf2[1])
    # NSIG as a float with an integral value: rejected (the unchanged tree raises TypeError), never a different pseudo-spectrum
    for t in FLOAT_TYPES:
        try:
            got = call(P, nfft, NSIG=_ty(float(nsig), t))
        except (TypeError, ValueError):
            continue
        except Exception as e:
            out.append("%s with NSIG=%s(%d.0) raised %s instead of TypeError / ValueError" % (name, t, nsig, type(e).__name__))
            continue
        check("NSIG=%s(%d.0) (accepted)" % (t, nsig), got)
    # out-of-range dimensions in numpy types are rejected as the python ints are
    for t in NSIG_TYPES[:10] + ["0d:int64", "arange:uint8"]:
        for v in (P, P + 2, -1):
            if not _fits(v, t):
                continue
            try:
                call(P, nfft, NSIG=_ty(v, t))
                out.append("%s accepted NSIG=%s(%d) (P=%d)" % (name, t, v, P))
            except ValueError:
                pass
            except Exception as e:
                out.append("%s raised %s for NSIG=%s(%d) instead of ValueError" % (name, type(e).__name__, t, v))
    return out[:8]


# ---- argument validation and the threshold rule: implementation vs model ---------------------------------------------

def impl_valid(p):
    sp = _sp()
    kw = {}
    ty = p.get("types") or {}
    if p["nsig"] is not None:
        kw["NSIG"] = _ty(p["nsig"], ty.get("nsig"))
    if p["thr"] is not None:
        kw["threshold"] = _ty(p["thr"], ty.get("threshold"))
    sp.eigen(np.asarray(p["x"]), _ty(p["P"], ty.get("P")), method=p["method"], criteria=p["crit"], NFFT=_ty(32, ty.get("nfft")), **kw)
    return []


def model_valid(p):
    args_ok = (p["method"] in ("music", "ev") and (p["thr"] is None or p["thr"] >= 1)
               and (p["nsig"] is not None or p["thr"] is not None or p["crit"] in ("aic", "mdl")))
    ns = p["nsig"]
    head = [1 if args_ok else 0, 0 if ns is None else 1, 1 if (ns is not None and ns < 0) else 0, abs(ns) if ns is not None else 0,
            0 if p["thr"] is None else 1, len(p["x"]), p["P"]]
    return ("Q", proto.request("eigenvalidate", "Q", head, []))


def impl_thr(p):
    from spectrum.eigenfre import _get_signal_space
    S = np.asarray(p["S"], dtype=float)
    return [np.array([float(_get_signal_space(S, 20, threshold=p["thr"]))])]


def model_thr(p):
    return ("Q", proto.request("nsigthr", "Q", [], [np.asarray(p["S"], dtype=float), [p["thr"]]]))


def impl_crit(p):
    """criterion values and the dimension `_get_signal_space` derives from them (neither NSIG nor a threshold given)"""
    from spectrum.criteria import aic_eigen, mdl_eigen
    from spectrum.eigenfre import _get_signal_space
    S = np.asarray(p["S"], dtype=float)
    vals = (mdl_eigen if p["cr"] == "mdl" else aic_eigen)(S, 2 * p["NP"])
    return [np.asarray(vals, dtype=float), np.array([float(_get_signal_space(S, p["NP"], criteria=p["cr"]))])]


def model_crit(p):
    return ("F", proto.request("eigcrit", "F", [p["cr"], p["NP"]], [np.asarray(p["S"], dtype=float)]))


def oracle_crit(p):
    """C03/C17: the order decision must not depend on the amplitude (theorem signal_space_crit_scale): scaling the singular
    values by t > 0 moves every criterion value by the same constant, so NSIG is unchanged"""
    from spectrum.eigenfre import _get_signal_space
    S = np.asarray(p["S"], dtype=float)
    out = []
    n0 = _get_signal_space(S, p["NP"], criteria=p["cr"])
    if not (1 <= n0 <= len(S) - 1):
        out.append("NSIG chosen by %s is %r, outside 1..%d" % (p["cr"], n0, len(S) - 1))
    for t in (p.get("t", 3.0), 2.0 ** -20, 2.0 ** 20):
        n1 = _get_signal_space(S * t, p["NP"], criteria=p["cr"])
        if n1 != n0 and not p.get("tie"):
            out.append("NSIG chosen by %s changes from %d to %d when the singular values are scaled by %g (n=%d, NP=%d)"
                       % (p["cr"], n0, n1, t, len(S), p["NP"]))
    return out


def _key(p):
    if "cr" in p:
        return "crit|%s|%d|%s" % (p["cr"], p["NP"], hash(np.asarray(p["S"]).tobytes()) & 0xFFFFFF)
    if "S" in p:
        return "thr|%s|%s" % (p["thr"], hash(np.asarray(p["S"]).tobytes()) & 0xFFFFFF)
    if "crit" in p:
        return "valid|%s|%s|%s|%s|%d|%d|%s" % (p["method"], p["nsig"], p["thr"], p["crit"], len(p["x"]), p["P"], _types_text(p))
    x = np.asarray(p["x"])
    more = ("|" + _types_text(p) if p.get("types") else "") + ("|%s|%s" % (p["entry"], p["sweep"]) if "entry" in p else "")
    more += "".join("|%s=%s" % (k, p[k]) for k in ("criteria", "threshold", "sbf", "fs", "container", "peaks", "default_nfft")
                   if p.get(k) not in (None, False))
    return "%s|%d|%s|%s|%s|%s|%d%s" % (p.get("method"), len(x), p.get("P"), p.get("nsig", p.get("K")), p.get("nfft"),
                                     np.iscomplexobj(x), hash(x.tobytes()) & 0xFFFFFF, more)


def _type_tags(p):
    ty = p.get("types") or {}
    t = []
    for k in sorted(ty):
        if ty[k]:
            d = ty[k].split(":")[-1]
            fam = "unsigned" if d.startswith("uint") else "signed" if d.startswith("int") and d != "int" else d
            t.append("type:%s:%s%s" % (k, fam, " (0-d array)" if ty[k].startswith("0d:") else " (arange element)" if ty[k].startswith("arange:") else ""))
    return t


def _tags(p):
    x = np.asarray(p["x"])
    n = p.get("nfft")
    t = ["complex" if np.iscomplexobj(x) else "real", "method:%s" % p.get("method", "both"),
         "nfft:" + ("None" if n is None else ("odd" if n % 2 else "even")), "rows:" + ("capped" if len(x) - p["P"] > 100 else "full")]
    if n is not None and n <= p["P"] + 1:
        t.append("nfft:P..P+1")
    for k in ("criteria", "threshold", "container"):
        if p.get(k) is not None:
            t.append("%s:%s" % (k, p[k]))
    if p.get("sbf"):
        t.append("scale_by_freq")
    t.extend(_type_tags(p))
    if "entry" in p:
        t.extend(["argtype:" + p["entry"], "argtype:" + ("noisy" if p.get("noisy") else "noiseless tones"), "argtype:sweep " + p["sweep"]])
    if "K" in p:
        K, h = p["K"], p["nfft"] // 2
        t.append("tones:K%s" % ("<=4" if K <= 4 else "5..9" if K <= 9 else "10..15"))
        if p["P"] == K + 1:
            t.append("tones:P=K+1")
        if not p.get("peaks", True):
            t.append("tones:2 bins apart (no peak clause)")
        if p.get("default_nfft"):
            t.append("tones:default NFFT")
        if any(abs(b) in (h, 1, h - 1) or b == 0 for b in p["bins"]):
            t.append("tones:edge bin (0, +-1, +-(NFFT//2-1), +-NFFT//2)")
    elif "nsig" in p and p["nsig"] == 0:
        t.append("nsig:0")
    return t


# kinds whose parameters describe the content of x: no derived degenerate records
NO_DEGEN = {"tones", "argtype"}

KINDS = {
    "psd": {"impl": impl_psd, "model": model_psd, "rtol": 1e-7, "atol": 1e-300, "key": _key, "tags": _tags},
    "fb": {"impl": impl_fb, "model": model_fb, "post": post_fb, "rtol": 1e-9, "atol": 1e-300, "key": _key, "tags": _tags},
    "class": {"impl": impl_class, "model": model_class, "post": post_class, "oracle": oracle_class, "rtol": 1e-12, "atol": 0.0,
              "key": _key, "tags": _tags},
    "tones": {"oracle": oracle_tones, "key": _key, "tags": _tags},
    # P / NSIG / NFFT / threshold in every numeric type the unchanged tree accepts, against the python-int call
    "argtype": {"oracle": oracle_argtype, "key": _key, "tags": _tags},
    "validate": {"oracle": oracle_validate, "key": _key,
                 "tags": lambda p: ["validate"] + (["validate:aic%smdl" % ("!=" if p["n_aic"] != p["n_mdl"] else "==")] if "n_aic" in p else [])
                 + (["validate:aic,mdl,P-1 all differ"] if "n_aic" in p and len({p["n_aic"], p["n_mdl"], p["P"] - 1}) == 3 else [])},
    # which arguments eigen() rejects (ValueError), which sizes it asserts on, and the threshold rule itself, against the model's
    # eigenValidate / signalSpace (the objects of theorems eigenValidate_rules, nsig_rules)
    "valid": {"impl": impl_valid, "model": model_valid, "strict_errors": True, "rtol": 0, "atol": 0, "key": _key,
              "tags": lambda p: ["valid:" + ("nsig" if p["nsig"] is not None else "-") + ("+thr" if p["thr"] is not None else "")]
              + ["valid:" + t for t in _type_tags(p)]},
    "thr": {"impl": impl_thr, "model": model_thr, "rtol": 0, "atol": 0, "key": _key, "tags": lambda p: ["thr"]},
    # aic_eigen / mdl_eigen and NSIG = argmin + 1 against Model/EigenCrit.lean (float mode: logarithms); the values are compared
    # at 1e-9 of the largest one, the dimension exactly (the generated spectra have a clear minimum: see `_crit_cases`)
    "eigcrit": {"impl": impl_crit, "model": model_crit, "oracle": oracle_crit, "rtol": 1e-9, "atol": 0, "key": _key,
                "tags": lambda p: ["eigcrit:" + p["cr"], "eigcrit:n=%d" % min(len(p["S"]), 16)]},
}
NO_VARY = {"valid", "thr", "eigcrit"}


def _crit_cases(nrng, count):
    """sorted positive singular values: k 'signal' values well above a noise floor with a small spread, so that the criterion
    has a clear minimum (first-minimum ties between the float implementation and the float model are avoided by construction:
    a case is kept only if the two smallest criterion values differ by more than 1e-6 relative)"""
    from spectrum.criteria import aic_eigen, mdl_eigen
    made = 0
    i = 0
    while made < count and i < 20 * count:
        i += 1
        n = int(nrng.integers(2, 13)) if i % 9 else int(nrng.integers(40, 101))
        k = int(nrng.integers(0, n))
        floor = 10.0 ** float(nrng.uniform(-3, 1))
        S = np.concatenate([floor * 10.0 ** nrng.uniform(0.5, 4, k), floor * (1 + 0.3 * nrng.random(n - k))])
        S = np.sort(S)[::-1] * [1.0, 2.0 ** -30, 2.0 ** 25][i % 3]
        NP = int(nrng.integers(n, 101))
        cr = "mdl" if i % 2 else "aic"
        v = np.sort(np.asarray((mdl_eigen if cr == "mdl" else aic_eigen)(S, 2 * NP), dtype=float))
        if v.size >= 2 and not (v[1] - v[0] > 1e-6 * max(1.0, abs(v[0]))):
            continue
        made += 1
        yield ("eigcrit", {"S": S, "NP": NP, "cr": cr, "t": float(10.0 ** nrng.uniform(-3, 3))})


def _noisy(nrng, N, cplx, sigma=0.3, freqs=None):
    """two complex exponentials / one real sinusoid in white noise; freqs None -> the fixed pair (0.11, -0.23) / 0.7 rad"""
    n = np.arange(N)
    if cplx:
        f1, f2 = (0.11, -0.23) if freqs is None else freqs
        return (np.exp(2j * np.pi * f1 * n) + 0.5 * np.exp(2j * np.pi * f2 * n)
                + sigma * (nrng.standard_normal(N) + 1j * nrng.standard_normal(N)))
    w = 0.7 if freqs is None else freqs[0]
    return np.cos(w * n + 0.3) + sigma * nrng.standard_normal(N)


def _rand_freqs(nrng, cplx):
    if cplx:
        f1 = float(nrng.uniform(-0.5, 0.5))
        f2 = f1 + float(nrng.uniform(0.03, 0.97))        # distinct (mod 1)
        return (f1, f2 - round(f2))
    return (float(nrng.uniform(0.15, 3.0)),)


def _centre(v, nfft):
    h = nfft // 2
    return int((v + h) % nfft) - h


def _spread_bins(nrng, K, nfft, minsep=3):
    """K distinct bins, circularly at least `minsep` apart: random composition of the NFFT circle into K gaps >= minsep"""
    free = nfft - minsep * K
    assert free >= 0
    cuts = np.sort(nrng.integers(0, free + 1, K - 1)) if K > 1 else np.zeros(0, dtype=int)
    extra = np.diff(np.concatenate(([0], cuts, [free])))
    gaps = minsep + extra
    v = int(nrng.integers(0, nfft))
    out = []
    for g in gaps:
        out.append(_centre(v, nfft))
        v += int(g)
    return sorted(out)


def _tones(nrng, bins, nfft, cplx, N):
    t = np.arange(N)
    if cplx:
        return sum((1 + nrng.uniform(0, 2)) * np.exp(2j * np.pi * b * t / nfft + 1j * nrng.uniform(0, 6)) for b in bins)
    return sum((1 + nrng.uniform(0, 2)) * np.cos(2 * np.pi * b * t / nfft + nrng.uniform(0, 6)) for b in bins if b > 0)


def _conditioned(x, P, K):
    """the K signal singular values stand clear of the 1e-8 'negligible' line used by the oracle (closely packed tones observed
    over a short record are numerically rank deficient in double precision: not an input the clause can be evaluated on)"""
    S = np.linalg.svd(fb_matrix(x, P), compute_uv=False)
    return K <= len(S) and S[K - 1] > 1e-5 * S[0]


KINDS["single"] = single.kind("C17")

def gen(rng, nrng, tier):
    yield from single.gen("C17", nrng, tier)
    for i in range(60 if tier == "quick" else 600):
        P = int(nrng.integers(2, 9))
        N = int(nrng.integers(P + 1, 3 * P + 4)) if i % 5 == 0 else int(nrng.integers(2 * P, 40))   # some sizes hit the assertion
        x = _noisy(nrng, N, bool(i % 2))
        yield ("valid", {"x": x, "P": P, "method": ["music", "ev", "music", "foo"][(i // 3) % 4] if i % 11 else "MUSIC",
                         "nsig": [None, None, 1, P - 1, P, P + 2, -1, 0][int(nrng.integers(0, 8))],
                         "thr": [None, None, 3.0, 1.0, 0.5, -2.0, 1e9][int(nrng.integers(0, 7))],
                         "crit": ["aic", "mdl", "aic", "foo"][int(nrng.integers(0, 4))]})
    for i in range(30 if tier == "quick" else 300):
        n = int(nrng.integers(2, 9))
        S = np.sort(nrng.integers(1, 40, n).astype(float))[::-1] / 4.0
        if i % 3 == 0:
            S[-1] = S[-2]                      # tied smallest singular values (3 and the 8 thresholds are coprime)
        yield ("thr", {"S": S, "thr": [1.0, 1.5, 2.0, 3.0, 100.0, 1.25, 10.0, 1e9][i % 8]})
    for c in _crit_cases(nrng, 40 if tier == "quick" else 600):
        yield c
    n = 50 if tier == "quick" else 700
    for i in range(n):
        cplx = bool(i % 2)
        P = int(nrng.integers(3, 13))
        N = int(nrng.integers(2 * P, 129)) if i % 7 else int(nrng.integers(P + 101, P + 140))
        # the fixed frequency pair every third case, random frequencies otherwise
        x = _noisy(nrng, N, cplx, freqs=None if i % 3 == 0 else _rand_freqs(nrng, cplx))
        nfft = [32, 33, 64, 49, 128][i % 5]
        if nfft < P:
            nfft = 2 * P + 1
        method = ["music", "ev"][(i // 2) % 2]
        nsig = int(nrng.integers(0, P))
        # the samples as a python list / an integer array (integer-valued samples) for some cases
        cont = [None, "list", "int64", None, "int8"][(i // 3) % 5]
        if cont and cont.startswith("int"):
            if cplx:
                cont = "list"
            else:
                x = np.round(16 * x) + 0.0        # (+0.0: no negative zeros, which an integer array cannot hold)
        extra = {"container": cont} if cont else {}
        yield ("psd", {"x": x, "P": P, "nsig": nsig, "nfft": nfft, "method": method, **extra})
        yield ("fb", {"x": x, "P": P})
        yield ("class", {"x": x, "P": P, "nsig": max(1, nsig), "nfft": [nfft, None][i % 2], "method": method, "fs": [1.0, 3.0][i % 2]})
        # the classes under every way of choosing the dimension, scale_by_freq, other sampling rates, list / integer samples
        mode = (i // 2) % 6
        sel = [{"criteria": "aic"}, {"criteria": "mdl"}, {"threshold": [3.0, 1.5, 10.0, 1.0][(i // 12) % 4]}, {"nsig": 0},
               {"threshold": 1e9}, {"nsig": nsig}][mode]
        yield ("class", {"x": x, "P": P, "nsig": None, "nfft": [nfft, None][(i // 4) % 2], "method": ["music", "ev"][i % 2 ^ (i // 12) % 2],
                         "fs": [1.0, 3.0, 0.5][i % 3], "sbf": bool((i // 3) % 2), **sel, **extra})
    # NFFT equal to / just above the order P (NFFT < P is rejected by the functions: not generated)
    small = [(8, 8), (8, 9), (5, 5), (3, 4), (2, 2), (2, 3)]
    for i in range(12 if tier == "quick" else 120):
        P, nfft = small[i % 6]
        cplx = bool((i // 6) % 2)
        N = int(nrng.integers(2 * P, 41))
        x = _noisy(nrng, N, cplx, freqs=_rand_freqs(nrng, cplx))
        method = ["music", "ev"][(i // 3) % 2]
        nsig = int(nrng.integers(0, P))
        yield ("psd", {"x": x, "P": P, "nsig": nsig, "nfft": nfft, "method": method})
        yield ("class", {"x": x, "P": P, "nsig": nsig, "nfft": nfft, "method": method, "fs": 1.0, "sbf": bool(i % 2)})
    nt = 50 if tier == "quick" else 700
    for i in range(nt):
        cplx = bool(i % 3)
        nfft = [64, 63, 128, 45, 96][i % 5]
        if cplx:
            K = int(nrng.integers(1, 5))
            # distinct on-grid bins at least 3 bins apart (circularly), so that every tone is its own local maximum
            cand = list(range(-(nfft // 2) + 1, nfft // 2))
            bins = [0] if i % 6 == 1 else []
            while len(bins) < K:
                b = int(cand[int(nrng.integers(0, len(cand)))])
                if all(min(abs(b - c) % nfft, nfft - abs(b - c) % nfft) >= 3 for c in bins):
                    bins.append(b)
            bins = sorted(bins)
        else:
            K2 = int(nrng.integers(1, 3))
            pos = []
            while len(pos) < K2:
                b = int(nrng.integers(3, nfft // 2 - 3))
                if all(abs(b - c) >= 3 for c in pos):
                    pos.append(b)
            pos = sorted(pos)
            bins = pos + [-b for b in pos]
            K = 2 * K2
        P = int(nrng.integers(K + 1, 17))
        N = int(nrng.integers(2 * P, 129)) if i % 9 else int(nrng.integers(P + 101, P + 130))
        t = np.arange(N)
        # "all sets of frequencies, AMPLITUDES and phases": every fourth case has one component 3 .. 6.5 decades below the others
        # (measured on the unchanged tree: the K largest values sit at the true bins in 40/40 trials at every level down to 1e-10,
        # where the weak singular value is still 1e5 x the round-off of a double-precision SVD of the data matrix; for these
        # cases the 'negligible' line of the rank clause is 1e-12 instead of 1e-8)
        weak = 10.0 ** -float(nrng.uniform(3, 9.5)) if (i % 4 == 3 and K >= 2) else 1.0
        wb = bins[int(nrng.integers(0, len(bins)))] if weak != 1.0 else None
        amp = lambda b: (1 + nrng.uniform(0, 2)) * (weak if (wb is not None and abs(b) == abs(wb)) else 1.0)
        if cplx:
            x = sum(amp(b) * np.exp(2j * np.pi * b * t / nfft + 1j * nrng.uniform(0, 6)) for b in bins)
        else:
            x = sum(amp(b) * np.cos(2 * np.pi * b * t / nfft + nrng.uniform(0, 6)) for b in bins if b > 0)
        extra = {"default_nfft": True} if (i % 50 in (0, 2, 5)) else {}     # NFFT 64 / 128: the tones are on the 4096 grid too
        if weak != 1.0:
            extra["weak"] = weak
        yield ("tones", {"x": x, "P": P, "K": K, "bins": bins, "nfft": nfft, **extra})
    # ---- the rest of the quantifier: K up to 15 (P = K+1 .. 16), tones at the edge bins, tones 2 bins apart ----------------
    for i in range(48 if tier == "quick" else 600):
        fam = i % 6
        nfft = [64, 63, 128, 45, 96][(i // 6) % 5]
        h = nfft // 2
        for attempt in range(40):
            peaks = True
            if fam in (0, 1):
                # many complex exponentials, P = K+1 (the smallest admissible order) two times out of three
                cplx = True
                K = int(nrng.integers(5, 16))
                bins = _spread_bins(nrng, K, nfft, 3) if attempt < 30 else sorted(_centre(round(j * nfft / K), nfft) for j in range(K))
            elif fam == 2:
                # many real sinusoids (K/2 up to 7), positive bins from 2 to NFFT//2 - 2
                cplx = False
                K2 = int(nrng.integers(3, 8))
                free = (h - 2 - 2) - 3 * (K2 - 1)            # positive bins 2 .. h-2, at least 3 apart: random gaps
                cuts = np.sort(nrng.integers(0, free + 1, K2))
                pos = [int(2 + cuts[j] + 3 * j) for j in range(K2)]
                bins = pos + [-b for b in pos]
                K = 2 * K2
            elif fam == 3:
                # complex exponentials at the edge of the grid: bin -NFFT/2 (even NFFT: the Nyquist bin) or +-(NFFT-1)/2 (odd)
                cplx = True
                K = int(nrng.integers(1, 5))
                edge = [-h] if nfft % 2 == 0 else [[-h], [h], [-h, h - 3]][(i // 30) % 3]
                bins = list(edge[:K])
                if (i // 12) % 2 and len(bins) < K:
                    bins.append(0)
                while len(bins) < K:
                    b = int(nrng.integers(-h + (1 if nfft % 2 == 0 else 0), h + (0 if nfft % 2 == 0 else 1)))
                    if all(min(abs(b - c) % nfft, nfft - abs(b - c) % nfft) >= 3 for c in bins):
                        bins.append(b)
                bins = sorted(bins)
            elif fam == 4:
                # real sinusoids next to DC / next to NFFT/2: the pair +-b is 2 bins apart around 0 (b = 1) or around the Nyquist
                # bin (even NFFT, b = NFFT/2 - 1): singular-value and positivity clauses only; 3 apart for odd NFFT (all clauses)
                cplx = False
                pos = [[1], [h - 1], [1, h - 1], [2], [h - 2]][(i // 30) % 5]
                if (i // 12) % 2:
                    b = int(nrng.integers(5, h - 5))
                    pos = sorted(pos + [b])
                bins = pos + [-b for b in pos]
                K = len(bins)
            else:
                # complex exponentials 2 bins apart: rank / singular-value / positivity clauses only
                cplx = True
                K = int(nrng.integers(2, 5))
                b0 = int(nrng.integers(-h + 1, h - 2))
                bins = [b0, b0 + 2]
                while len(bins) < K:
                    b = int(nrng.integers(-h + 1, h))
                    if all(min(abs(b - c) % nfft, nfft - abs(b - c) % nfft) >= 2 for c in bins):
                        bins.append(b)
                bins = sorted(bins)
                peaks = False
            if fam in (0, 1, 2) and (i // 6) % 3:
                P = K + 1
            else:
                P = int(nrng.integers(K + 1, 17))
            N = int(nrng.integers(2 * P, 129)) if (i // 6) % 9 else int(nrng.integers(P + 101, P + 130))
            x = _tones(nrng, bins, nfft, cplx, N)
            if _conditioned(x, P, K):
                break
        else:
            continue
        yield ("tones", {"x": x, "P": P, "K": K, "bins": bins, "nfft": nfft, "peaks": peaks and _min_sep(bins, nfft) >= 3})
    for i in range(6 if tier == "quick" else 40):
        cplx = bool(i % 2)
        P = int(nrng.integers(4, 10))
        x = _noisy(nrng, int(nrng.integers(2 * P + 4, 80)), cplx)
        yield ("validate", {"x": x, "P": P})
    # low noise, larger orders, random frequencies: data on which the AIC and the MDL dimensions differ from each other (and, when
    # the search finds it, both from P-1), so that each criteria name is tied to its own rule
    for i in range(6 if tier == "quick" else 60):
        cplx = bool(i % 2)
        best = None
        for attempt in range(80):
            P = int(nrng.integers(8, 13))
            N = int(nrng.integers(2 * P, 2 * P + 7)) if attempt % 2 == 0 else int(nrng.integers(2 * P, 101))
            sigma = float(nrng.uniform(0.01, 0.05))
            Kt = int(nrng.integers(1, 4))
            t = np.arange(N)
            if cplx:
                x = sum((0.5 + nrng.uniform(0, 1)) * np.exp(2j * np.pi * nrng.uniform(-0.45, 0.45) * t + 1j * nrng.uniform(0, 6)) for _ in range(Kt))
                x = x + sigma * (nrng.standard_normal(N) + 1j * nrng.standard_normal(N))
            else:
                x = sum((0.5 + nrng.uniform(0, 1)) * np.cos(2 * np.pi * nrng.uniform(0.05, 0.45) * t + nrng.uniform(0, 6)) for _ in range(Kt))
                x = x + sigma * nrng.standard_normal(N)
            S = np.linalg.svd(fb_matrix(x, P), compute_uv=False)
            a, m = crit_dims(S, 4 * min(N - P, 100))
            score = (a != m) + (a != m and a != P - 1 and m != P - 1)
            if best is None or score > best[0]:
                best = (score, x, P, a, m)
            if score == 2 or (score == 1 and i % 3 == 2):
                break
        _sc, x, P, a, m = best
        yield ("validate", {"x": x, "P": P, "n_aic": a, "n_mdl": m})
    # ---- the numeric TYPE of the integer arguments (appended: the cases above are drawn exactly as before) ---------------------
    yield from _typed_cases(nrng, tier)


def _tone_record(nrng, i, nfft, int8_P=False):
    """noiseless on-grid record as in the first 'tones' loop: K 1..4 complex exponentials or 1..2 real sinusoids, bins >= 3 apart"""
    cplx = bool(i % 3)
    h = nfft // 2
    if cplx:
        K = int(nrng.integers(1, 5))
        bins = _spread_bins(nrng, K, nfft, 3)
    else:
        K2 = int(nrng.integers(1, 3))
        pos = []
        while len(pos) < K2:
            b = int(nrng.integers(3, h - 3))
            if all(abs(b - c) >= 3 for c in pos):
                pos.append(b)
        pos = sorted(pos)
        bins = pos + [-b for b in pos]
        K = 2 * K2
    for _attempt in range(40):
        P = int(nrng.integers(K + 1, 17))
        N = int(nrng.integers(2 * P, 129))
        if int8_P:
            N = int(nrng.integers(2 * P, min(127, P + 63) + 1))      # N - P and 2 (N - P) stay inside int8
        x = _tones(nrng, bins, nfft, cplx, N)
        if _conditioned(x, P, K):
            break
    return x, P, K, bins


def _typed_cases(nrng, tier):
    """P / NSIG / NFFT (and the threshold) handed over as numpy scalars of every integer width and signedness, as elements of an
    integer `arange` (an order sweep), as 0-d arrays -- the types the unchanged tree accepts (see NSIG_TYPES .. THR_TYPES)"""
    q = tier == "quick"
    # (1) noiseless tones, main clause: one argument typed, or all three (the unsigned NSIG types come first in the rotation)
    order = UNSIGNED + [t for t in NSIG_TYPES if t not in UNSIGNED]
    for i in range(36 if q else 150):
        t = order[i % len(order)]
        which = ["nsig", "all", "nsig", "nfft", "P"][(i // len(order) + i) % 5] if i >= len(UNSIGNED) else "nsig"
        nfft = [64, 63, 128, 45, 96, 255, 256][i % 7]
        if which in ("nfft", "all") and not _fits(nfft, t):
            nfft = [64, 63, 96, 45][i % 4]
        tp = t.replace("uint", "int")
        if tp not in P_TYPES:
            tp = P_TYPES[i % len(P_TYPES)]
        x, P, K, bins = _tone_record(nrng, i, nfft, int8_P=(tp == "int8"))
        types = {"nsig": t} if which == "nsig" else {"nfft": t} if which == "nfft" else {"P": tp} if which == "P" else {"P": tp, "nsig": t, "nfft": t}
        yield ("tones", {"x": x, "P": P, "K": K, "bins": bins, "nfft": nfft, "types": types})
    # (2) noisy records against the Lean model (eigenpsd / eigenclass) and the definition, typed arguments
    for i in range(30 if q else 120):
        cplx = bool(i % 2)
        t = order[(i + 3) % len(order)]
        tp = t.replace("uint", "int")
        if tp not in P_TYPES:
            tp = P_TYPES[i % len(P_TYPES)]
        P = int(nrng.integers(3, 13))
        N = int(nrng.integers(2 * P, 129)) if i % 7 else int(nrng.integers(P + 101, P + 140))
        if tp == "int8":
            N = int(nrng.integers(2 * P, min(127, P + 63) + 1))
        x = _noisy(nrng, N, cplx, freqs=_rand_freqs(nrng, cplx))
        nfft = [32, 33, 64, 49, 128, 255, 256][i % 7]
        if not _fits(nfft, t):
            nfft = [32, 33, 64, 49][i % 4]
        method = ["music", "ev"][(i // 2) % 2]
        nsig = int(nrng.integers(0, P))
        types = [{"nsig": t}, {"P": tp, "nsig": t, "nfft": t}, {"nsig": t, "nfft": t}][i % 3]
        yield ("psd", {"x": x, "P": P, "nsig": nsig, "nfft": nfft, "method": method, "types": types})
        ct = dict(types)
        if ct.get("nfft", "").startswith("0d:") and i % 2:
            ct.pop("nfft")
        sel = [{"nsig": max(1, nsig)}, {"nsig": nsig}, {"threshold": [3.0, 1.5, 10.0, 1.0][(i // 3) % 4], "nsig": None}][i % 3]
        if "threshold" in sel:
            ct.pop("nsig", None)
            ct["threshold"] = THR_TYPES[(i // 3) % len(THR_TYPES)]
            if ct["threshold"].split(":")[-1] in ("int", "int64", "uint8", "int8") and sel["threshold"] != int(sel["threshold"]):
                ct["threshold"] = "float32"
        yield ("class", {"x": x, "P": P, "nfft": nfft, "method": method, "fs": [1.0, 3.0][i % 2], "sbf": bool((i // 3) % 2), "types": ct, **sel})
    # (3) argument validation against the model's eigenValidate, NSIG / threshold / P / NFFT in numpy types
    for i in range(30 if q else 120):
        P = int(nrng.integers(2, 9))
        N = int(nrng.integers(P + 1, 3 * P + 4)) if i % 5 == 0 else int(nrng.integers(2 * P, 40))
        x = _noisy(nrng, N, bool(i % 2))
        t = order[(i + 5) % len(order)]
        nsig = [1, P - 1, P, P + 2, -1, 0, None][int(nrng.integers(0, 7))]
        if nsig is not None and not _fits(nsig, t):
            t = ["int8", "int64", "0d:int64", "int16"][i % 4]
        thr = [None, None, None, 3.0, 1.0, 0.5, -2.0, 1e9][int(nrng.integers(0, 8))]
        tt = ["float32", "int", "0d:float64", "longdouble"][i % 4]
        if tt == "int" and thr is not None and thr != int(thr):
            tt = "float32"
        types = {"nsig": t if nsig is not None else None, "threshold": tt if thr is not None else None,
                 "P": [None, "int16", "0d:int64", "intp"][(i // 2) % 4], "nfft": [None, "uint8", "0d:uint8", "int64"][(i // 3) % 4]}
        yield ("valid", {"x": x, "P": P, "method": ["music", "ev"][i % 2], "nsig": nsig, "thr": thr, "crit": ["aic", "mdl"][(i // 2) % 2],
                         "types": {k: v for k, v in types.items() if v}})
    # (4) one record, one entry point: every accepted type of every argument against the python-int call, a typed dimension
    # sweep, typed thresholds, integral floats, out-of-range values in numpy types
    for i in range(12 if q else 24):
        noisy = bool(i % 2)
        nfft = [64, 63, 120, 45, 96, 255, 256, 100][i % 8]
        if noisy:
            cplx = bool((i // 2) % 2)
            P = int(nrng.integers(3, 13))
            N = int(nrng.integers(2 * P, 129)) if i % 3 else int(nrng.integers(2 * P, min(127, P + 63) + 1))
            x = _noisy(nrng, N, cplx, freqs=_rand_freqs(nrng, cplx))
            nsig = int(nrng.integers(0, P))
            extra = {"noisy": True}
        else:
            x, P, nsig, bins = _tone_record(nrng, i // 2, nfft, int8_P=(i % 3 == 0))
            extra = {"bins": bins}
        yield ("argtype", {"x": x, "P": P, "nsig": nsig, "nfft": nfft, "method": ["music", "ev"][(i // 2) % 2],
                           "entry": ["func", "class", "eigen"][i % 3], "sweep": ["uint8", "uint16", "int8", "uint64", "int64", "uint32"][i % 6],
                           "thr": float(np.round(nrng.uniform(1.0, 50.0), 3)), **extra})
