"""Line protocol between the Python harness and the Lean model driver (lean/.lake/build/bin/specmodel).

request : <cmd> <F|Q> <head tokens...> | <re im>* | <re im>* ...
reply   : ok | <re im>* | ...        or   err <kind>

F: every real number is the decimal UInt64 bit pattern of an IEEE double (exact both ways).
Q: every real number is p/q (exact rationals; inputs must be exactly representable doubles).
"""
import os
import struct
import sys
import subprocess
from fractions import Fraction

import numpy as np

if hasattr(sys, 'set_int_max_str_digits'):
    sys.set_int_max_str_digits(0)

HERE = os.path.dirname(os.path.abspath(__file__))
ROOT = os.path.dirname(HERE)
LEAN_DIR = os.path.join(ROOT, "lean")
DRIVER = os.path.join(LEAN_DIR, ".lake", "build", "bin", "specmodel")


def f2bits(x):
    return str(struct.unpack("<Q", struct.pack("<d", float(x)))[0])


def bits2f(s):
    return struct.unpack("<d", struct.pack("<Q", int(s)))[0]


def q2s(x):
    fr = Fraction(x) if not isinstance(x, Fraction) else x
    return str(fr.numerator) if fr.denominator == 1 else "%d/%d" % (fr.numerator, fr.denominator)


def enc_vec(v, mode):
    """v: iterable of complex (or real) numbers, or of (Fraction, Fraction) pairs in Q mode."""
    toks = []
    for z in v:
        if mode == "F":
            z = complex(z)
            toks.append(f2bits(z.real))
            toks.append(f2bits(z.imag))
        else:
            if isinstance(z, tuple):
                re, im = z
            else:
                z = complex(z)
                re, im = Fraction(z.real), Fraction(z.imag)
            toks.append(q2s(re))
            toks.append(q2s(im))
    return " ".join(toks)


def request(cmd, mode, head, vecs):
    parts = [" ".join([cmd, mode] + [str(h) for h in head])]
    for v in vecs:
        parts.append(enc_vec(v, mode))
    return " | ".join(parts)


def parse_reply(line, mode):
    """-> ('ok', [vec, ...]) with numpy complex arrays (F) or lists of (Fraction, Fraction) (Q);
       ('err', kind)"""
    line = line.strip()
    if line.startswith("err"):
        return ("err", line[3:].strip())
    if mode == "O":   # object-history replies: `ok ; n n n ; n n n ...` (plain naturals)
        if not line.startswith("ok"):
            return ("err", "protocol:" + line[:40])
        return ("ok", [np.array([float(t) for t in s.split()]) for s in line.split(";")[1:]])
    if not line.startswith("ok"):
        return ("err", "protocol:" + line[:40])
    secs = line.split("|")[1:]
    out = []
    for s in secs:
        toks = s.split()
        if mode == "F":
            vals = [bits2f(t) for t in toks]
            out.append(np.array([complex(vals[i], vals[i + 1]) for i in range(0, len(vals), 2)],
                                dtype=complex))
        else:
            vals = [Fraction(t) for t in toks]
            out.append([(vals[i], vals[i + 1]) for i in range(0, len(vals), 2)])
    return ("ok", out)


def q2c(v):
    """list of (Fraction, Fraction) -> numpy complex array (rounded to double)"""
    return np.array([complex(float(a), float(b)) for a, b in v], dtype=complex)


def run_driver(lines, shards=1, timeout=3600):
    """Send the request lines to the model driver; returns the reply lines (same order)."""
    if not lines:
        return []
    if shards <= 1 or len(lines) < 4 * shards:
        p = subprocess.run([DRIVER], input="\n".join(lines) + "\n", capture_output=True, text=True,
                           timeout=timeout)
        if p.returncode != 0:
            raise RuntimeError("model driver failed: rc=%s %s" % (p.returncode, p.stderr[:500]))
        out = p.stdout.split("\n")
        if out and out[-1] == "":
            out = out[:-1]
        if len(out) != len(lines):
            raise RuntimeError("model driver returned %d lines for %d requests" % (len(out), len(lines)))
        return out
    # shard round-robin over several driver processes
    procs = []
    for s in range(shards):
        chunk = lines[s::shards]
        procs.append((s, subprocess.Popen([DRIVER], stdin=subprocess.PIPE, stdout=subprocess.PIPE,
                                          stderr=subprocess.PIPE, text=True), chunk))
    import threading
    results = {}

    def work(s, pr, chunk):
        o, e = pr.communicate("\n".join(chunk) + "\n", timeout=timeout)
        results[s] = (pr.returncode, o, e)
    ths = [threading.Thread(target=work, args=a) for a in procs]
    for t in ths:
        t.start()
    for t in ths:
        t.join()
    out = [None] * len(lines)
    for s, _, chunk in procs:
        rc, o, e = results[s]
        if rc != 0:
            raise RuntimeError("model driver failed: rc=%s %s" % (rc, e[:500]))
        ol = o.split("\n")
        if ol and ol[-1] == "":
            ol = ol[:-1]
        if len(ol) != len(chunk):
            raise RuntimeError("model driver returned %d lines for %d requests" % (len(ol), len(chunk)))
        out[s::shards] = ol
    return out
