"""Single-precision inputs (float32 / complex64).  Every property quantifies over "all real/complex data"; numpy arrays of
single precision are such data.  The estimators may then work in single precision, so the value-level comparisons of the
property files (1e-9 .. 1e-6) do not apply; what does follow from each property is that the result for single-precision
samples agrees, to single precision, with the result for THE SAME sample values held in doubles (both are the defined
quantity up to rounding).  Found D18 (corrmtx dropped the imaginary part of complex64 data)."""
import numpy as np

from common import rel


def _sp():
    import spectrum
    return spectrum


def _flat(r):
    out = []

    def rec(v):
        if isinstance(v, (tuple, list)):
            for t in v:
                rec(t)
        elif v is not None:
            out.append(np.asarray(v, dtype=complex).ravel())
    rec(r)
    return np.concatenate(out) if out else np.zeros(0, dtype=complex)


def _corr_r(x, m):
    return np.asarray(_sp().CORRELATION(x.astype(complex if np.iscomplexobj(x) else float), maxlags=m, norm="biased"))


def _lev(x):
    r = _corr_r(x, 5)
    if x.dtype in (np.float32, np.complex64):
        r = r.astype(np.complex64 if np.iscomplexobj(r) else np.float32)
    return _sp().LEVINSON(r, 4)


FUNCS = {
    "C01": {
        "speriodogram": lambda x: _sp().speriodogram(x, NFFT=64, detrend=False, scale_by_freq=False, window="hamming"),
        "Periodogram": lambda x: _sp().Periodogram(x, NFFT=65, window="hann").psd,
    },
    "C09": {
        "CORRELATION": lambda x: _sp().CORRELATION(x, x[::-1].copy(), maxlags=10, norm="biased"),
        "CORRELATION-auto-unbiased": lambda x: _sp().CORRELATION(x, maxlags=7, norm="unbiased"),
        "xcorr": lambda x: _sp().xcorr(x, x[::-1].copy(), maxlags=10)[0],
        "corrmtx-autocorrelation": lambda x: _sp().corrmtx(x, 4, "autocorrelation"),
        "corrmtx-prewindowed": lambda x: _sp().corrmtx(x, 4, "prewindowed"),
        "corrmtx-postwindowed": lambda x: _sp().corrmtx(x, 4, "postwindowed"),
        "corrmtx-covariance": lambda x: _sp().corrmtx(x, 4, "covariance"),
        "corrmtx-modified": lambda x: _sp().corrmtx(x, 4, "modified"),
    },
    "C10": {
        "LEVINSON": lambda x: _lev(x),
    },
    "C12": {
        "aryule": lambda x: _sp().aryule(x, 4),
        "pyule": lambda x: _sp().pyule(x, 4, NFFT=64).psd,
        "lpc": lambda x: _sp().lpc(x, 4),
    },
    "C13": {
        "arburg": lambda x: _sp().arburg(x, 4),
        "pburg": lambda x: _sp().pburg(x, 4, NFFT=64).psd,
    },
    "C14": {
        "arcovar": lambda x: _sp().arcovar(x, 4),
        "modcovar": lambda x: _sp().modcovar(x, 4),
        "arcovar_marple": lambda x: _sp().arcovar_marple(x, 4)[:2],
        "modcovar_marple": lambda x: _sp().modcovar_marple(x, 4)[:2],
        "pmodcovar": lambda x: _sp().pmodcovar(x, 4, NFFT=64).psd,
        "pcovar": lambda x: _sp().pcovar(x, 4, NFFT=64).psd,
    },
    "C15": {
        "arma_estimate": lambda x: _sp().arma_estimate(x, 3, 3, 10),
        "ma": lambda x: _sp().ma(x, 3, 8),
        "parma": lambda x: _sp().parma(x, 3, 3, 10, NFFT=64).psd,
    },
    "C16": {
        "minvar": lambda x: _sp().minvar(x, 4, NFFT=32)[0],
        "pminvar": lambda x: _sp().pminvar(x, 4, NFFT=33).psd,
    },
    "C17": {
        "music": lambda x: _sp().music(x, 6, NSIG=2, NFFT=32)[0],
        "ev": lambda x: _sp().ev(x, 6, NSIG=2, NFFT=32)[0],
    },
    "C19": {
        "pmtm-adapt": lambda x: _sp().pmtm(x, NW=2.5, k=4, NFFT=64, show=False)[:2],
        "pmtm-eigen": lambda x: _sp().pmtm(x, NW=2.5, k=4, NFFT=64, method="eigen", show=False)[:2],
        "MultiTapering": lambda x: _sp().MultiTapering(x, NW=2.5, k=4, NFFT=64, method="unity").psd,
    },
}


# C01 states its tolerance (1e-9 of the output's max-norm) for every data class of its quantifier: the periodogram of
# single-precision samples is still |DFT(x*w)|^2/N of those sample values to double-precision accuracy.
TOL = {"C01": 1e-9}


def oracle(pid):
    def run(p):
        x32 = np.asarray(p["x"])
        x64 = x32.astype(complex if np.iscomplexobj(x32) else float)
        integer = x32.dtype.kind in "iu"
        f = FUNCS[pid][p["fn"]]
        try:
            a = _flat(f(x32))
        except Exception as e:          # noqa: BLE001 - an exception on valid data is a finding as well
            return ["%s raises %s on %s data (N=%d) but accepts the same samples in double precision: %s" % (
                p["fn"], type(e).__name__, x32.dtype, len(x32), str(e)[:120])]
        b = _flat(f(x64))
        if a.shape != b.shape:
            return ["%s returns %d values for %s data and %d for the same samples in double precision" % (
                p["fn"], a.size, x32.dtype, b.size)]
        # integer samples are exact in doubles: the result must be that of the same values held as floats
        tol = 1e-9 if integer else TOL.get(pid, 2e-3)
        if not np.all(np.isfinite(a)) or rel(a, b) > tol:
            return ["%s on %s data differs from the result for the same sample values in double precision: rel err %.2e (N=%d)" % (
                p["fn"], x32.dtype, rel(a, b) if np.all(np.isfinite(a)) else float("inf"), len(x32))]
        return []
    return run


def kind(pid):
    return {"oracle": oracle(pid),
            "key": lambda p: "single|%s|%s|%d|%d" % (p["fn"], np.asarray(p["x"]).dtype, len(p["x"]),
                                                   hash(np.asarray(p["x"]).tobytes()) & 0xFFFFF),
            "tags": lambda p: ["single:%s" % p["fn"], "dtype:%s" % np.asarray(p["x"]).dtype]}


def gen(pid, nrng, tier):
    reps = 1 if tier == "quick" else 12
    for r in range(reps):
        for fn in sorted(FUNCS[pid]):
            for cplx in (False, True):
                N = int(nrng.integers(40, 72))
                n = np.arange(N)
                x = nrng.standard_normal(N) + 2 * np.cos(0.9 * n + 0.3)
                if cplx:
                    x = x + 1j * nrng.standard_normal(N) + 1.5 * np.exp(2j * np.pi * 0.21 * n)
                yield ("single", {"x": x.astype(np.complex64 if cplx else np.float32), "fn": fn})
            # narrow integer dtypes at realistic amplitudes (16-bit audio, 8-bit images, 32-bit counters): products of two
            # samples do not fit the sample type
            N = int(nrng.integers(40, 72))
            n = np.arange(N)
            for dt, amp in ((np.int16, 8000.0), (np.int8, 100.0), (np.uint8, 100.0), (np.int32, 1e5)):
                xi = amp * (0.6 * np.cos(0.9 * n + 0.3) + 0.15 * nrng.standard_normal(N))
                if dt is np.uint8:
                    xi = xi + 128
                xi = np.clip(np.round(xi), np.iinfo(dt).min, np.iinfo(dt).max).astype(dt)
                yield ("single", {"x": xi, "fn": fn})
