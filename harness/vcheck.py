#!/venv/bin/python
"""Runner for one property check:  vcheck.py <Cnn> <quick|thorough> [--replay file]

What a run does (DESIGN.md §3.5):
  0 read known_findings.json (never written at run time)
  1 regenerate lean/SpecVerif/Generated/Registry.lean from the imported package
  2 lake build (library incl. proofs, and the model driver)            [under a file lock]
  3 audit: `#print axioms` of every property theorem of Proofs/Cnn.lean, forbidden-token grep
  4 corpus, then generated cases: implementation vs model + property oracle on the same cases
  5 classify failures (known finding / violation with failing input / violation no-failing-input-found)
  6 write evidence/Cnn.json; exit 0 / 1 (2 = harness error or timeout)
"""
import fcntl
import hashlib
import importlib
import json
import os
import random
import re
import subprocess
import sys
import time
import traceback
import warnings

warnings.filterwarnings("ignore")
os.environ.setdefault("SPECTRUM_VERIF", "1")
os.environ.setdefault("MPLBACKEND", "Agg")

HERE = os.path.dirname(os.path.abspath(__file__))
ROOT = os.path.dirname(HERE)
sys.path.insert(0, HERE)

import numpy as np  # noqa: E402

import proto  # noqa: E402

LEAN_DIR = os.path.join(ROOT, "lean")
# the seeded-change runner redirects both so that a run on a changed copy never overwrites the evidence of the real tree
EVID_DIR = os.environ.get("VERIF_EVIDENCE_DIR") or os.path.join(ROOT, "evidence")
REPLAY_DIR = os.environ.get("VERIF_REPLAY_DIR") or os.path.join(ROOT, "replays")
CORPUS_DIR = os.path.join(HERE, "corpus")
ALLOWED_AXIOMS = {"propext", "Classical.choice", "Quot.sound"}
FORBIDDEN = re.compile(r"\bsorry\b|\badmit\b|^\s*axiom\s|native_decide|bv_decide|implemented_by|"
                       r"\bunsafe\s|maxHeartbeats\s+0\b", re.M)


# --------------------------------------------------------------------------------------------------
# JSON helpers for replays (complex numbers as [re, im])

def to_jsonable(o):
    if isinstance(o, dict):
        return {str(k): to_jsonable(v) for k, v in o.items() if not str(k).startswith("_")}
    if isinstance(o, (list, tuple)):
        return [to_jsonable(v) for v in o]
    if isinstance(o, np.ndarray):
        if np.iscomplexobj(o):
            return {"__c__": [[float(z.real), float(z.imag)] for z in o.ravel()],
                    "shape": list(o.shape), "dtype": str(o.dtype)}
        return {"__a__": [to_jsonable(v) for v in o.ravel().tolist()], "shape": list(o.shape),
                "dtype": str(o.dtype)}
    if isinstance(o, (np.integer,)):
        return int(o)
    if isinstance(o, (np.floating,)):
        return float(o)
    if isinstance(o, (np.bool_,)):
        return bool(o)
    if isinstance(o, complex):
        return {"__z__": [o.real, o.imag]}
    if o is None or isinstance(o, (bool, int, float, str)):
        return o
    return repr(o)


def from_jsonable(o):
    if isinstance(o, dict):
        if "__c__" in o:
            return np.array([complex(a, b) for a, b in o["__c__"]], dtype=o.get("dtype", "complex128")).reshape(o["shape"])
        if "__a__" in o:
            return np.array(o["__a__"], dtype=o.get("dtype", "float64")).reshape(o["shape"])
        if "__z__" in o:
            return complex(*o["__z__"])
        return {k: from_jsonable(v) for k, v in o.items()}
    if isinstance(o, list):
        return [from_jsonable(v) for v in o]
    return o


# --------------------------------------------------------------------------------------------------
# build + audit

def lean_sources():
    out = []
    for d, _, fs in os.walk(os.path.join(LEAN_DIR, "SpecVerif")):
        for f in fs:
            if f.endswith(".lean"):
                out.append(os.path.join(d, f))
    out.append(os.path.join(LEAN_DIR, "lakefile.toml"))
    out.append(os.path.join(LEAN_DIR, "SpecVerif.lean"))
    return sorted(out)


def sources_hash():
    h = hashlib.sha256()
    for p in lean_sources():
        h.update(p.encode())
        with open(p, "rb") as f:
            h.update(f.read())
    return h.hexdigest()[:24]


def strip_comments(src):
    src = re.sub(r"/-.*?-/", "", src, flags=re.S)
    src = re.sub(r"--.*", "", src)
    return src


def theorem_names(prop):
    path = os.path.join(LEAN_DIR, "SpecVerif", "Proofs", prop + ".lean")
    if not os.path.exists(path):
        return []
    src = strip_comments(open(path).read())
    return re.findall(r"^\s*theorem\s+([A-Za-z_][A-Za-z0-9_'.]*)", src, flags=re.M)


def all_props():
    d = os.path.join(LEAN_DIR, "SpecVerif", "Proofs")
    return sorted(f[:-5] for f in os.listdir(d) if re.fullmatch(r"C\d\d\.lean", f))


def write_registry():
    """Regenerate Generated/Registry.lean from the live package (introspection, not text parsing)."""
    import registry_gen
    txt = registry_gen.generate()
    path = os.path.join(LEAN_DIR, "SpecVerif", "Generated", "Registry.lean")
    os.makedirs(os.path.dirname(path), exist_ok=True)
    old = open(path).read() if os.path.exists(path) else None
    changed = False
    if old != txt:
        with open(path, "w") as f:
            f.write(txt)
        changed = True
    # formula functions translated from their source (harness/srcgen.py): Generated/CriteriaSrc.lean
    import srcgen
    txt2 = srcgen.generate_criteria()
    path2 = os.path.join(LEAN_DIR, "SpecVerif", "Generated", "CriteriaSrc.lean")
    old2 = open(path2).read() if os.path.exists(path2) else None
    if old2 != txt2:
        with open(path2, "w") as f:
            f.write(txt2)
        changed = True
    txt3 = srcgen.generate_range()
    path3 = os.path.join(LEAN_DIR, "SpecVerif", "Generated", "RangeSrc.lean")
    old3 = open(path3).read() if os.path.exists(path3) else None
    if old3 != txt3:
        with open(path3, "w") as f:
            f.write(txt3)
        changed = True
    return changed


def build_and_audit(log):
    """Returns dict(ok, build_output, audit: {prop: {thm: [axioms]}}, forbidden: [...])"""
    os.makedirs(os.path.join(LEAN_DIR, ".lake"), exist_ok=True)
    lock = open(os.path.join(LEAN_DIR, ".lake", "verif.lock"), "w")
    fcntl.flock(lock, fcntl.LOCK_EX)
    try:
        reg_err = None
        try:
            write_registry()
        except Exception as e:  # registry generation failing is itself a broken tie
            reg_err = "registry generation failed: %r" % (e,)
        h = sources_hash()
        cache = os.path.join(LEAN_DIR, ".lake", "audit-%s.json" % h)
        if os.path.exists(cache) and os.path.exists(proto.DRIVER) and reg_err is None:
            res = json.load(open(cache))
            res["cached"] = True
            return res
        t0 = time.time()
        p = subprocess.run(["lake", "build"], cwd=LEAN_DIR, capture_output=True, text=True)
        out = (p.stdout + p.stderr)
        res = {"ok": p.returncode == 0 and reg_err is None, "build_output": out[-6000:],
               "build_s": time.time() - t0, "audit": {}, "forbidden": [], "hash": h,
               "registry_error": reg_err, "failed_modules": re.findall(r"✖ \[\d+/\d+\] \w+ (\S+)", out)}
        # forbidden tokens
        for sp in lean_sources():
            if sp.endswith(".lean"):
                src = strip_comments(open(sp).read())
                for m in FORBIDDEN.finditer(src):
                    res["forbidden"].append("%s: %s" % (os.path.relpath(sp, LEAN_DIR), m.group(0).strip()))
        # axioms audit for every property, in one lean invocation
        props = all_props()
        lines = []
        good_props = []
        for pr in props:
            mod = "SpecVerif.Proofs." + pr
            if mod in res["failed_modules"]:
                continue
            olean = os.path.join(LEAN_DIR, ".lake", "build", "lib", "lean", "SpecVerif", "Proofs", pr + ".olean")
            if not os.path.exists(olean):
                continue
            good_props.append(pr)
        for pr in good_props:
            lines.append("import SpecVerif.Proofs.%s" % pr)
        for pr in good_props:
            for th in theorem_names(pr):
                lines.append("#print axioms SpecVerif.%s.%s" % (pr, th))
        audit_file = os.path.join(LEAN_DIR, ".lake", "AuditRun.lean")
        with open(audit_file, "w") as f:
            f.write("\n".join(lines) + "\n")
        if good_props:
            pa = subprocess.run(["lake", "env", "lean", audit_file], cwd=LEAN_DIR, capture_output=True, text=True)
            txt = pa.stdout + pa.stderr
            res["audit_raw_tail"] = txt[-2000:]
            # "'SpecVerif.C01.foo' depends on axioms: [propext, ...]" / "does not depend on any axioms"
            for m in re.finditer(r"'SpecVerif\.(C\d\d)\.(\S+)' (depends on axioms: \[([^\]]*)\]|does not depend on any axioms)", txt, flags=re.S):
                pr, th, _, axs = m.groups()
                axl = [a.strip() for a in axs.replace("\n", " ").split(",")] if axs else []
                res["audit"].setdefault(pr, {})[th] = [a for a in axl if a]
        if res["ok"]:
            json.dump(res, open(cache, "w"))
        res["cached"] = False
        return res
    finally:
        fcntl.flock(lock, fcntl.LOCK_UN)
        lock.close()


# --------------------------------------------------------------------------------------------------
# comparison

def err_kind(e):
    if isinstance(e, AssertionError):
        return "assert"
    if isinstance(e, (ValueError,)):
        return "value"
    if isinstance(e, (TypeError,)):
        return "type"
    if isinstance(e, (IndexError, KeyError)):
        return "index"
    if isinstance(e, (ZeroDivisionError, FloatingPointError, np.linalg.LinAlgError)):
        return "singular"
    return "other:" + type(e).__name__


def compare_vectors(impl, model, rtol, atol=0.0):
    """impl/model: lists of 1-D complex arrays. Returns None if they agree, else a reason string."""
    if len(impl) != len(model):
        return "number of outputs %d vs model %d" % (len(impl), len(model))
    for i, (a, b) in enumerate(zip(impl, model)):
        a = np.atleast_1d(np.asarray(a)).astype(complex).ravel()
        b = np.atleast_1d(np.asarray(b)).astype(complex).ravel()
        if a.shape != b.shape:
            return "output %d: length %d vs model %d" % (i, a.size, b.size)
        if a.size == 0:
            continue
        if not (np.all(np.isfinite(a)) and np.all(np.isfinite(b))):
            if np.array_equal(np.isfinite(a), np.isfinite(b)) and np.allclose(a[np.isfinite(a)], b[np.isfinite(b)], rtol=rtol, atol=atol):
                # same non-finite pattern on both sides: counted as agreement only if patterns match
                return "output %d: non-finite values on both sides" % i
            return "output %d: non-finite values" % i
        scale = max(float(np.max(np.abs(b))), float(np.max(np.abs(a))))
        d = float(np.max(np.abs(a - b)))
        if d > rtol * scale + atol:
            j = int(np.argmax(np.abs(a - b)))
            return "output %d: max |impl-model| = %.3e at index %d (scale %.3e, rtol %.1e): impl %r model %r" % (
                i, d, j, scale, rtol, complex(a[j]), complex(b[j]))
    return None


# --------------------------------------------------------------------------------------------------

class Result:
    def __init__(self):
        self.failures = []   # dicts: kind, params, what, source ('oracle'|'correspondence'|'proof')
        self.n_cases = 0
        self.n_model = 0
        self.n_oracle = 0
        self.keys = set()
        self.dist = {}
        self.samples = []
        self.excluded = {}

    def count(self, k, v=1):
        self.dist[k] = self.dist.get(k, 0) + v


# --------------------------------------------------------------------------------------------------
# input variants: the properties quantify over "all data"; every generated case whose data is a 1-D array `x` is also run,
# for a share of the cases, (a) at very small / very large amplitude (powers of two: exact, so exact-mode model cases
# stay exact) and (b) as a non-contiguous view of the same sample values (positive and negative strides).  A module
# opts kinds out with NO_VARY = {"kind", ...} (e.g. kinds whose other parameters depend on the amplitude).

AMPS = [2.0 ** -30, 2.0 ** 17, 2.0 ** -40, 2.0 ** 23]
DEGEN = ["imag", "zends", "nyq", "dc", "zstuff"]

# how many times the thorough tier runs each property's generator (chosen so that a property takes a few minutes)
THOROUGH_ROUNDS = {"C01": 10, "C02": 6, "C03": 10, "C04": 10, "C05": 15, "C06": 4, "C07": 1, "C08": 2, "C09": 6, "C10": 2,
                   "C11": 10, "C12": 5, "C13": 5, "C14": 8, "C15": 1, "C16": 8, "C17": 10, "C18": 6, "C19": 2, "C20": 2}


def vary(mod, cases, tier):
    skip = getattr(mod, "NO_VARY", set())
    every = getattr(mod, "VARY_EVERY", 6 if tier == "quick" else 4)
    out = list(cases)
    cnt = {}
    for kind, params in cases:
        x = params.get("x")
        if kind in skip or kind == "single" or not isinstance(x, np.ndarray) or x.ndim != 1 or x.size < 2:
            continue
        if x.dtype not in (np.float64, np.complex128) or params.get("variant"):
            continue
        c = cnt[kind] = cnt.get(kind, 0) + 1
        if c % every:
            continue
        w = (c // every) % (len(AMPS) + 3 + len(DEGEN))
        q = dict(params)
        if w == len(AMPS) + 2 + len(DEGEN):
            # the same sample values stored in the non-native byte order (as numpy.fromfile / frombuffer of foreign data give):
            # exactly the same numbers, a dtype that is neither `float64` nor `complex128` by identity
            q["x"] = x.astype(x.dtype.newbyteorder("S"))
            if isinstance(q.get("y"), np.ndarray) and q["y"].dtype in (np.float64, np.complex128):
                q["y"] = q["y"].astype(q["y"].dtype.newbyteorder("S"))
            q["variant"] = "byteorder:swapped"
        elif w >= len(AMPS) + 2:
            # degenerate-but-valid records derived from the case's own samples (same length, same real/complex class);
            # kinds whose other parameters describe the content of x (tone positions, number of exponentials) opt out
            if kind in getattr(mod, "NO_DEGEN", set()):
                continue
            d = DEGEN[w - len(AMPS) - 2]
            if d in getattr(mod, "NO_DEGEN_TYPES", ()):
                continue                                  # a module opts out of ONE degenerate type (documented in the module)
            n = np.arange(x.size)
            if d == "imag":
                if not np.iscomplexobj(x):
                    continue
                q["x"] = 1j * x.real                      # purely imaginary samples
            elif d == "zends":
                xx = x.copy()
                xx[0] = 0
                xx[-1] = 0
                if x.size < 4 or not np.any(xx):
                    continue                              # never an all-zero record
                q["x"] = xx                               # exact zeros at both ends
            elif d == "nyq":
                q["x"] = x + 4 * np.max(np.abs(x)) * (-1.0) ** n     # dominant alternating-sign (Nyquist) tone
            elif d == "zstuff":
                if x.size < 8:
                    continue
                xx = x.copy()
                xx[1::2] = 0                              # zero-inserted (upsampled) record: exact zeros in intermediate quantities
                if np.count_nonzero(xx) < 3:
                    continue                              # never an (almost) all-zero record
                q["x"] = xx
            elif d == "dc":
                q["x"] = x + 4 * np.max(np.abs(x))        # dominant tone exactly at DC
            q["variant"] = "degen:" + d
        elif w < len(AMPS):
            q["x"] = x * AMPS[w]
            if isinstance(q.get("y"), np.ndarray):
                q["y"] = q["y"] * AMPS[w]
            q["variant"] = "amp:2^%d" % int(round(np.log2(AMPS[w])))
        else:
            q["variant"] = "strided:+2" if w == len(AMPS) else "strided:-1"
        out.append((kind, q))
    return out


def materialize(params):
    """the parameters handed to the implementation / oracle / model: strided variants get their non-contiguous views here
    (replay files store plain arrays plus the variant tag)"""
    v = params.get("variant") if isinstance(params, dict) else None
    if not v or not v.startswith("strided"):
        return params
    q = dict(params)
    for k in ("x", "y"):
        a = q.get(k)
        if isinstance(a, np.ndarray) and a.ndim == 1:
            if v == "strided:+2":
                buf = np.empty(2 * a.size, dtype=a.dtype)
                buf[1::2] = 7.25e3          # neighbouring memory holds other (finite) numbers
                buf[::2] = a
                q[k] = buf[::2]
            else:
                q[k] = a[::-1].copy()[::-1]
    return q



# --------------------------------------------------------------------------------------------------
# results must not alias shared state: generic protocol applied to every implementation call of every kind.
# After a call, the arrays it returned are copied (the copies are what gets compared) and the ORIGINALS are overwritten
# in place with NaN, as a caller post-processing its results in place would do.  Then
#   * the arrays returned by the previous calls must STILL be all NaN after every later call (a later call that writes into
#     them handed out a view of a shared work buffer), and
#   * for a share of the cases the same call is made a second time: it must return what the first call returned before its
#     results were overwritten (a result that is a view of a memo / cache comes back poisoned).
# A failure is reported as the kind "__seq__" whose params hold the two (kind, params) steps: that is the replay.

ALIAS_EVERY = 5
ALIAS_RING = 24


def _float_arrays(out):
    arrs = []
    for a in (out if isinstance(out, (list, tuple)) else [out]):
        if isinstance(a, np.ndarray) and a.dtype.kind in "fc" and a.size:
            arrs.append(a)
    return arrs


def _param_arrays(o, acc=None):
    acc = [] if acc is None else acc
    if isinstance(o, np.ndarray):
        acc.append(o)
    elif isinstance(o, dict):
        for v in o.values():
            _param_arrays(v, acc)
    elif isinstance(o, (list, tuple)):
        for v in o:
            _param_arrays(v, acc)
    return acc


def _poison(out, params):
    """copy the outputs, overwrite the originals with NaN; returns (copies, list of poisoned originals)"""
    copies = [np.array(a, copy=True) if isinstance(a, np.ndarray) else a for a in (out if isinstance(out, (list, tuple)) else [out])]
    pars = _param_arrays(params)
    poisoned = []
    for a in _float_arrays(out):
        try:
            if not a.flags.writeable or any(np.shares_memory(a, q) for q in pars):
                continue
            a[...] = np.nan
            poisoned.append(a)
        except Exception:
            pass
    return copies, poisoned


def _same(a, b):
    if len(a) != len(b):
        return False
    for u, v in zip(a, b):
        if isinstance(u, np.ndarray) or isinstance(v, np.ndarray):
            u = np.asarray(u)
            v = np.asarray(v)
            if u.shape != v.shape or not np.array_equal(u, v, equal_nan=(u.dtype.kind in "fc" and v.dtype.kind in "fc")):
                return False
        elif isinstance(u, float) and isinstance(v, float) and u != u and v != v:
            continue
        elif u != v:
            return False
    return True


class AliasProbe:
    def __init__(self, kinds):
        self.kinds = kinds
        self.ring = []          # (kind, params0, poisoned originals)
        self.n = 0
        self.failures = []
        self.checked = 0

    def call(self, kind, params0, params):
        """run the implementation of one case under the protocol; returns the COPIES of its outputs (or raises what it raises)"""
        spec = self.kinds[kind]
        out = spec["impl"](params)
        # a result must not be (a view of) an array an earlier call already handed to the caller, who has since overwritten it
        for (k0, p0, arrs) in self.ring:
            hit = False
            for b in arrs:
                for a in _float_arrays(out):
                    try:
                        if np.shares_memory(a, b) and np.any(np.isnan(a.real) if a.dtype.kind == "c" else np.isnan(a)):
                            hit = True
                    except Exception:
                        pass
            if hit:
                self.failures.append({"kind": "__seq__", "params": {"steps": [[k0, p0], [kind, params0]], "what": "handed-out"},
                                      "what": "a call (%s) returned an array that an earlier call (%s) had already returned and the caller "
                                              "had overwritten in place: results are views of a cache" % (kind, k0), "source": "oracle"})
                break
        copies, poisoned = _poison(out, params)
        # earlier results must still be as the caller left them
        for (k0, p0, arrs) in self.ring:
            for a in arrs:
                if not np.all(np.isnan(a.real) if a.dtype.kind == "c" else np.isnan(a)):
                    self.failures.append({"kind": "__seq__", "params": {"steps": [[k0, p0], [kind, params0]], "what": "kept"},
                                          "what": "an array returned by an earlier call (%s) was overwritten by a later call (%s): results "
                                                  "share a work buffer" % (k0, kind), "source": "oracle"})
                    arrs.remove(a)
                    break
        self.n += 1
        if poisoned and not spec.get("no_repeat") and self.n % ALIAS_EVERY == 0:
            self.checked += 1
            try:
                out2 = spec["impl"](params)
                c2, p2 = _poison(out2, params)
                poisoned = poisoned + p2
                if not _same(copies, c2):
                    self.failures.append({"kind": "__seq__", "params": {"steps": [[kind, params0], [kind, params0]], "what": "repeat"},
                                          "what": "the same call (%s) made a second time, after the caller overwrote the first call's "
                                                  "results in place, does not return the first call's values: results alias a "
                                                  "cache" % kind, "source": "oracle"})
            except Exception as e:
                self.failures.append({"kind": "__seq__", "params": {"steps": [[kind, params0], [kind, params0]], "what": "repeat"},
                                      "what": "the same call (%s) made a second time raised %s: %s" % (kind, type(e).__name__, str(e)[:120]),
                                      "source": "oracle"})
        if poisoned:
            self.ring.append((kind, params0, poisoned))
            self.ring = self.ring[-ALIAS_RING:]
        return copies


def run_seq(mod, params, res):
    """replay of a '__seq__' failure: the steps under the same protocol (second step forced to be checked)"""
    probe = AliasProbe(mod.KINDS)
    steps = params["steps"]
    for j, (k, p) in enumerate(steps):
        if params.get("what") == "repeat" and j == 1:
            break
        probe.n = ALIAS_EVERY - 1 if params.get("what") == "repeat" else 0
        try:
            probe.call(k, p, materialize(p))
        except Exception as e:
            res.failures.append({"kind": "__seq__", "params": params, "what": "step %d raised %r" % (j, e), "source": "oracle"})
    res.failures.extend(probe.failures)


def run_cases(mod, cases, res, tier):
    """cases: list of (kind, params).  For each: oracle on the real code, and implementation vs model."""
    kinds = mod.KINDS
    reqs = []   # (case index, mode, line)
    impl_out = {}
    probe = AliasProbe(kinds)
    for idx, (kind, params0) in enumerate(cases):
        if kind == "__seq__":
            res.n_cases += 1
            res.n_oracle += 1
            run_seq(mod, params0, res)
            continue
        spec = kinds[kind]
        params = materialize(params0)
        res.n_cases += 1
        res.count("kind:" + kind)
        if params0.get("variant"):
            res.count("variant:" + params0["variant"].split(":")[0])
        key = spec.get("key", lambda p: json.dumps(to_jsonable(p), sort_keys=True)[:400])(params)
        if spec.get("nontrivial", lambda p: True)(params):
            res.keys.add((kind, key))
        for tag in spec.get("tags", lambda p: [])(params):
            res.count(tag)
        if len(res.samples) < 6 and (idx % max(1, len(cases) // 6) == 0):
            res.samples.append({"kind": kind, "params": abbreviate(to_jsonable(params))})
        # oracle (property statement evaluated on the real code)
        if "oracle" in spec:
            try:
                fails = spec["oracle"](params) or []
                res.n_oracle += 1
            except Exception as e:
                fails = ["oracle raised %s: %s" % (type(e).__name__, str(e)[:200])]
                if os.environ.get("VERIF_DEBUG"):
                    traceback.print_exc()
            for f in fails:
                res.failures.append({"kind": kind, "params": params0, "what": f, "source": "oracle"})
        # implementation vs model
        if "model" in spec:
            try:
                r = spec["model"](params)
            except Exception as e:
                r = None
                res.failures.append({"kind": kind, "params": params0, "source": "correspondence",
                                     "what": "harness could not build the model request: %r" % (e,)})
            if r is not None:
                mode, line = r
                try:
                    out = probe.call(kind, params0, params)
                    impl_out[idx] = ("ok", out)
                except Exception as e:
                    impl_out[idx] = ("err", err_kind(e), repr(e)[:200])
                reqs.append((idx, mode, line))
    res.failures.extend(probe.failures)
    res.count("alias-protocol:calls", probe.n)
    res.count("alias-protocol:repeated", probe.checked)
    if reqs:
        shards = 8 if len(reqs) > 64 else 1
        replies = proto.run_driver([l for _, _, l in reqs], shards=shards)
        for (idx, mode, _), rep in zip(reqs, replies):
            kind, params = cases[idx]
            spec = kinds[kind]
            res.n_model += 1
            st, val = proto.parse_reply(rep, mode)
            io = impl_out[idx]
            if st == "err" and val == "unsupported":
                res.count("model-unsupported")
                continue
            why = None
            if st == "err":
                if io[0] == "err":
                    res.count("both-error:" + val)
                    if spec.get("strict_errors", False) and io[1] != val:
                        why = "error kinds differ: impl %s (%s) model %s" % (io[1], io[2], val)
                else:
                    why = "model rejects the input (%s) but the implementation returns a value" % val
            else:
                if io[0] == "err":
                    why = "implementation raised %s (%s) but the model returns a value" % (io[1], io[2])
                else:
                    mv = [proto.q2c(v) for v in val] if mode == "Q" else val
                    post = spec.get("post", None)
                    iv = io[1]
                    if post:
                        iv, mv = post(params, iv, mv)
                    why = compare_vectors(iv, mv, spec.get("rtol", 1e-9), spec.get("atol", 0.0))
            if why:
                res.failures.append({"kind": kind, "params": params, "what": "model/implementation disagree: " + why,
                                     "source": "correspondence"})


def abbreviate(o, n=12):
    if isinstance(o, dict):
        if "__c__" in o and len(o["__c__"]) > n:
            return {"__c__": o["__c__"][:n], "shape": o["shape"], "truncated": True}
        if "__a__" in o and len(o["__a__"]) > n:
            return {"__a__": o["__a__"][:n], "shape": o["shape"], "truncated": True}
        return {k: abbreviate(v, n) for k, v in o.items()}
    if isinstance(o, list):
        return [abbreviate(v, n) for v in o[:n]]
    return o


def load_known():
    p = os.path.join(ROOT, "known_findings.json")
    if not os.path.exists(p):
        return []
    return json.load(open(p)).get("findings", [])


def matches_known(entry, prop, failure):
    if entry.get("property") != prop or entry.get("status") != "known":
        return False
    m = entry.get("match", {})
    if m.get("kind") and m["kind"] != failure["kind"]:
        return False
    for k, v in m.get("params", {}).items():
        if to_jsonable(failure["params"].get(k)) != v:
            return False
    if m.get("what_contains") and m["what_contains"] not in failure.get("what", ""):
        return False            # a DIFFERENT failure at the same call site is still a violation
    return True


def main(argv):
    if len(argv) < 2:
        print("usage: vcheck.py Cnn quick|thorough [--replay file]")
        return 2
    prop = argv[0]
    tier = argv[1]
    replay = None
    if "--replay" in argv:
        replay = argv[argv.index("--replay") + 1]
    seed = int(os.environ.get("VERIF_SEED", "0"))
    t0 = time.time()
    os.makedirs(EVID_DIR, exist_ok=True)
    evid_path = os.path.join(EVID_DIR, prop + ".json")
    mod = importlib.import_module("props." + prop.lower())
    known = load_known()
    import linecov
    linecov.start()          # which library lines do this run's cases execute? (reported in the evidence)

    # 1-3 build, audit
    ba = build_and_audit(None)
    thms = theorem_names(prop)
    audit = ba.get("audit", {}).get(prop, {})
    discharged = [t for t in thms if t in audit and set(audit[t]) <= ALLOWED_AXIOMS]
    bad_axioms = {t: audit[t] for t in thms if t in audit and not set(audit[t]) <= ALLOWED_AXIOMS}
    missing = [t for t in thms if t not in audit]
    proof_problems = []
    if not ba.get("ok"):
        fm = ba.get("failed_modules", [])
        mine = getattr(mod, "LEAN_MODULES", []) + ["SpecVerif.Proofs." + prop]
        if ba.get("registry_error"):
            proof_problems.append(ba["registry_error"])
        if not fm or any(m in fm or m.startswith("SpecVerif.Generated") for m in mine) or any(
                m.startswith("SpecVerif.Model") or m.startswith("SpecVerif.Generated") or m.startswith("SpecVerif.Proofs.Lemmas") or m == "SpecVerif.Driver" for m in fm):
            proof_problems.append("lake build failed: modules %s" % (fm,))
    if missing and ba.get("ok"):
        proof_problems.append("theorems without audit result: %s" % missing)
    if bad_axioms:
        proof_problems.append("theorems depending on non-standard axioms: %s" % bad_axioms)
    if ba.get("forbidden"):
        proof_problems.append("forbidden tokens in Lean sources: %s" % ba["forbidden"][:5])

    res = Result()
    rng = random.Random(seed * 1000003 + int(prop[1:]))
    nrng = np.random.default_rng(seed * 1000003 + int(prop[1:]))

    driver_ok = os.path.exists(proto.DRIVER)
    if replay:
        rp = from_jsonable(json.load(open(replay)))
        cases = [(rp["kind"], rp["params"])]
    else:
        cases = []
        cdir = os.path.join(CORPUS_DIR, prop)
        if os.path.isdir(cdir):
            for f in sorted(os.listdir(cdir)):
                if f.endswith(".json"):
                    rp = from_jsonable(json.load(open(os.path.join(cdir, f))))
                    cases.append((rp["kind"], rp["params"]))
        n_corpus = len(cases)
        res.count("corpus", n_corpus)
        cases += list(mod.gen(rng, nrng, tier))
        if tier == "thorough":
            # the thorough tier repeats the generator with fresh random streams (cases with an already seen key are dropped:
            # the exhaustive parts of a generator are the same in every round)
            seen = set()
            for k, p_ in cases:
                seen.add((k, mod.KINDS[k].get("key", lambda q: id(q))(p_)))
            for r in range(1, THOROUGH_ROUNDS.get(prop, 1)):
                rng_r = random.Random(seed * 1000003 + int(prop[1:]) + 7919 * r)
                nrng_r = np.random.default_rng(seed * 1000003 + int(prop[1:]) + 7919 * r)
                for k, p_ in mod.gen(rng_r, nrng_r, tier):
                    key = (k, mod.KINDS[k].get("key", lambda q: id(q))(p_))
                    if key not in seen:
                        seen.add(key)
                        cases.append((k, p_))
            res.count("thorough-rounds", THOROUGH_ROUNDS.get(prop, 1))
        cases = vary(mod, cases, tier)
    if not driver_ok:
        # the model cannot be executed: oracle only, and the broken build is reported below
        for k in mod.KINDS.values():
            k.pop("model", None)
    try:
        run_cases(mod, cases, res, tier)
    except Exception as e:
        traceback.print_exc()
        print("HARNESS-ERROR %r" % (e,))
        return 2

    # 5 classify
    os.makedirs(os.path.join(REPLAY_DIR, prop), exist_ok=True)
    violations = []
    known_hits = {}
    oracle_fail = [f for f in res.failures if f["source"] == "oracle"]
    corr_fail = [f for f in res.failures if f["source"] == "correspondence"]

    def write_replay(f, idx, extra=None):
        path = os.path.join(REPLAY_DIR, prop, "%s-%d-%d.json" % (tier, seed, idx))
        d = {"property": prop, "kind": f.get("kind"), "params": to_jsonable(f.get("params")),
             "what": f["what"], "source": f["source"]}
        if extra:
            d.update(extra)
        json.dump(d, open(path, "w"), indent=1)
        return os.path.relpath(path, ROOT)

    # shrink: keep, per (kind, message class), the smallest failing case
    def size_of(f):
        return len(json.dumps(to_jsonable(f["params"])))
    seen_classes = {}
    unlisted = []
    for f in oracle_fail:
        # listed findings first (every failing case is matched on its own: two call sites may share a message class)
        ke = [e for e in known if matches_known(e, prop, f)]
        if ke:
            known_hits[ke[0]["what"]] = known_hits.get(ke[0]["what"], 0) + 1
        else:
            unlisted.append(f)
    for f in sorted(unlisted, key=lambda f_: (0 if f_["kind"] == "__seq__" else 1, size_of(f_))):
        cls = (f["kind"], re.sub(r"[-+]?\d+\.?\d*(e[-+]?\d+)?", "#", f["what"])[:80])
        if cls in seen_classes:
            continue
        seen_classes[cls] = f
    idx = 0
    for cls, f in seen_classes.items():
        if idx >= 3:
            break
        path = write_replay(f, idx)
        idx += 1
        violations.append((path, f["what"], ""))
    if corr_fail and not violations:
        # correspondence broken but the oracle found no failing input on the real code for these cases:
        # widen the search around the disagreeing cases
        found = None
        if hasattr(mod, "search"):
            try:
                found = mod.search(rng, nrng, corr_fail[:5])
            except Exception:
                found = None
        if found:
            f = {"kind": found[0], "params": found[1], "what": found[2], "source": "oracle"}
            violations.append((write_replay(f, idx), found[2], ""))
        else:
            f = sorted(corr_fail, key=size_of)[0]
            path = write_replay(f, idx, {"broken": "correspondence case '%s' of property %s (model %s) no longer checks" % (
                f["kind"], prop, "lean/SpecVerif/Model"), "n_disagreements": len(corr_fail)})
            violations.append((path, f["what"], " no-failing-input-found"))
    if proof_problems and not violations:
        f = {"kind": "proof", "params": {}, "what": "; ".join(proof_problems), "source": "proof"}
        path = write_replay(f, idx, {"broken": proof_problems, "build_output_tail": ba.get("build_output", "")[-3000:]})
        violations.append((path, f["what"], " no-failing-input-found"))

    for w, n in known_hits.items():
        print("KNOWN-FINDING: property=%s %s (%d cases)" % (prop, w, n))
    for path, what, suffix in violations:
        print("  violation detail: %s" % what[:300])
        print("VIOLATION property=%s replay=%s%s" % (prop, path, suffix))

    # 6 evidence
    wall = time.time() - t0
    n_obl = len(thms)
    coverage = {
        "obligations": n_obl,
        "discharged": len(discharged),
        "theorems": thms,
        "axioms": {t: audit.get(t) for t in thms},
        "checker_cmd": "cd lean && lake build && lake env lean .lake/AuditRun.lean   # '#print axioms' of every theorem in SpecVerif/Proofs/%s.lean; thorough tier adds: lake env leanchecker SpecVerif.Proofs.%s" % (prop, prop),
        "trusted_base": getattr(mod, "TRUSTED_BASE", []) + [
            "Lean 4.33.0 kernel; Mathlib v4.33.0 modules imported by the proof files",
            "axioms allowed: propext, Classical.choice, Quot.sound (audited per theorem on every run)",
            "hand-written Lean model lean/SpecVerif/Model/*.lean, tied to /repo by the correspondence run reported below",
            "Python harness (harness/*.py), line protocol, tolerances stated per case kind",
            "registry generator and source translator (harness/registry_gen.py, harness/srcgen.py): Generated/*.lean are rewritten from the "
            "imported package on every run; the equality theorems of C06 / C13 are about the translator's output",
        ],
        "partial_clauses": getattr(mod, "PARTIAL", []),
        "evaluations": res.n_cases,
        "distinct_nontrivial": len(res.keys),
        "rule": getattr(mod, "RULE", "cases generated from one PRNG seeded by VERIF_SEED; distinct = distinct (kind, input) pairs; non-trivial per kind as documented in harness/props"),
        "programs": res.n_model,
        "disagreements_checked": res.n_model,
        "disagreements_found": len(corr_fail),
        "oracle_evaluations": res.n_oracle,
        "oracle_failures": len(oracle_fail),
        "samples": res.samples[:6] if res.samples else [{"note": "no cases"}],
        "input_distribution": dict(sorted(res.dist.items())),
        "build": {"ok": bool(ba.get("ok")), "cached": bool(ba.get("cached")), "sources_hash": ba.get("hash")},
        "proof_problems": proof_problems,
        "exhaustive": False,
    }
    try:
        anchors = []
        for ln in open(os.path.join(ROOT, "properties.jsonl")):
            if ln.strip() and json.loads(ln)["id"] == prop:
                anchors = json.loads(ln)["anchors"].get("files", [])
        coverage["code_lines"] = linecov.report(anchors + getattr(mod, "EXTRA_FILES", []))
    except Exception as e:
        coverage["code_lines"] = {"available": False, "error": repr(e)}
    if tier == "thorough" and getattr(mod, "LEANCHECKER", True) and ba.get("ok") and not replay:
        try:
            pc = subprocess.run(["lake", "env", "leanchecker", "SpecVerif.Proofs." + prop], cwd=LEAN_DIR,
                                capture_output=True, text=True, timeout=1500)
            coverage["leanchecker"] = {"rc": pc.returncode, "tail": (pc.stdout + pc.stderr)[-300:]}
            if pc.returncode != 0:
                print("  leanchecker failed: %s" % (pc.stdout + pc.stderr)[-300:])
        except Exception as e:
            coverage["leanchecker"] = {"error": repr(e)}
    ev = {
        "property_id": prop, "tier": tier if tier in ("quick", "thorough") else "quick", "seed": seed,
        "level": "proof", "coverage": coverage,
        "assumptions": getattr(mod, "ASSUMPTIONS", []),
        "wall_s": round(time.time() - t0, 2),
        "violations": len(violations),
        "known_findings_hit": known_hits,
    }
    if not replay:
        json.dump(ev, open(evid_path, "w"), indent=1)
    print("%s %s: %d cases (%d distinct non-trivial), %d model comparisons, %d oracle evaluations, theorems %d/%d audited, %.1fs%s" % (
        prop, tier, res.n_cases, len(res.keys), res.n_model, res.n_oracle, len(discharged), n_obl, wall,
        "" if not violations else " -- %d VIOLATION(S)" % len(violations)))
    return 1 if violations else 0


if __name__ == "__main__":
    try:
        rc = main(sys.argv[1:])
    except SystemExit:
        raise
    except Exception:
        traceback.print_exc()
        rc = 2
    sys.exit(rc)
