"""The twelve estimator classes (MultiTapering with its three methods) behind one factory, the raw two-sided
unscaled estimate each class's functional estimator produces, and the class-glue model request."""
import numpy as np

import proto

TWO_PI = 2 * np.pi

CLASSES = ["Periodogram", "pcorrelogram", "pburg", "pyule", "pcovar", "pmodcovar", "parma", "pma", "pminvar",
           "pmusic", "pev", "MT-unity", "MT-eigen", "MT-adapt"]
AR_FAMILY = ["pburg", "pyule", "pcovar", "pmodcovar", "parma", "pma"]
FOURIER_FAMILY = ["Periodogram", "pcorrelogram", "MT-unity", "MT-eigen", "MT-adapt", "pmusic", "pev"]
GLUE = {"Periodogram": "take", "pmusic": "eigen", "pev": "eigen"}


def sp():
    import spectrum
    return spectrum


def default_cfg(cls, N, cplx):
    """estimator-specific parameters in the documented domain for data of length N"""
    order = 4
    if cls in ("pmusic", "pev"):
        return {"order": 6, "nsig": 2}
    if cls == "parma":
        return {"order": 3, "Q": 3, "lag": 8}
    if cls == "pma":
        return {"Q": 3, "M": 7}
    if cls == "pcorrelogram":
        return {"lag": 5, "window": "hamming"}
    if cls == "Periodogram":
        return {"window": "hann"}
    if cls.startswith("MT"):
        return {"NW": 2.5, "k": 4}
    return {"order": order}


def random_cfg(nrng, cls, N, boundary=False):
    """a configuration drawn from the estimator's documented domain; boundary=True picks the extreme admissible values"""
    from spectrum.window import window_names
    wn = sorted(window_names)
    if cls == "Periodogram":
        return {"window": wn[int(nrng.integers(0, len(wn)))]}
    if cls == "pcorrelogram":
        lag = (N - 1) if boundary else int(nrng.integers(1, max(2, N // 2)))
        return {"lag": lag, "window": wn[int(nrng.integers(0, len(wn)))]}
    if cls in ("pburg", "pyule", "pminvar"):
        hi = {"pburg": N - 2, "pyule": N - 1, "pminvar": N // 2}[cls]
        hi = max(2 if cls == "pminvar" else 1, min(hi, 12))
        lo = 2 if cls == "pminvar" else 1
        return {"order": hi if boundary else int(nrng.integers(lo, hi + 1))}
    if cls in ("pcovar", "pmodcovar"):
        hi = max(1, min(N // 2 - 1, 10))
        return {"order": hi if boundary else int(nrng.integers(1, hi + 1))}
    if cls == "parma":
        P = int(nrng.integers(1, 4))
        Q = int(nrng.integers(1, 4))
        lag = (N - 2 * P + Q) if boundary else int(nrng.integers(max(Q, 2 * P) + 1, max(Q, 2 * P) + 6))
        lag = min(lag, N - 1)
        return {"order": P, "Q": Q, "lag": lag}
    if cls == "pma":
        Q = int(nrng.integers(1, 4))
        M = (N - 1) if boundary else int(nrng.integers(Q + 1, Q + 6))
        return {"Q": Q, "M": min(M, N - 1)}
    if cls in ("pmusic", "pev"):
        P = int(nrng.integers(3, 9))
        return {"order": P, "nsig": (P - 1) if boundary else int(nrng.integers(1, P))}
    if cls.startswith("MT"):
        NW = [1.5, 2.0, 2.5, 3.0, 4.0][int(nrng.integers(0, 5))]
        kmax = int(2 * NW)
        lo = 2 if cls == "MT-adapt" else 1
        return {"NW": NW, "k": kmax if boundary else int(nrng.integers(lo, kmax + 1))}
    return default_cfg(cls, N, False)


def min_nfft(cls, N, cfg):
    """smallest admissible NFFT (C05): N for periodogram / multitaper, 2*lag+1, 2*order, model order + 1"""
    if cls == "pcorrelogram":
        return 2 * cfg["lag"] + 1
    if cls == "pminvar":
        return 2 * cfg["order"]
    if cls == "Periodogram" or cls.startswith("MT"):
        return N
    if cls == "pma":
        return cfg["Q"] + 1
    if cls == "parma":
        return max(cfg["order"], cfg["Q"]) + 1
    return cfg["order"] + 1


_MAKE_COUNT = [0]


def make(cls, x, nfft=None, fs=1.0, scale=False, cfg=None):
    """construct the estimator object.  Every second construction from a float / complex array hands the constructor a private
    copy and then OVERWRITES that copy in place (as a caller re-using its acquisition buffer does) before anything is computed:
    the classes compute lazily, so an object that kept a reference to the caller's array instead of its own copy of the data
    would estimate the overwritten buffer."""
    _MAKE_COUNT[0] += 1
    c = _MAKE_COUNT[0]
    if isinstance(x, np.ndarray) and x.dtype.kind in "fc" and x.ndim == 1 and c % 2 == 0:
        xin = x.copy()
        o = _make(cls, xin, nfft, fs, scale, cfg)
        xin *= 3
        xin[...] = np.nan
    else:
        o = _make(cls, x, nfft, fs, scale, cfg)
    # an estimator object that went through copy.copy / copy.deepcopy / a pickle round trip is the same estimator (every
    # seventh construction hands out such a copy instead of the original; the original is dropped)
    if c % 7 == 3:
        import copy
        o = copy.deepcopy(o)
    elif c % 7 == 5:
        import pickle
        o = pickle.loads(pickle.dumps(o))
    elif c % 7 == 6:
        import copy
        o = copy.copy(o)
    return o


def _make(cls, x, nfft=None, fs=1.0, scale=False, cfg=None):
    s = sp()
    cfg = cfg or default_cfg(cls, len(x), np.iscomplexobj(x))
    kw = dict(NFFT=nfft, sampling=fs, scale_by_freq=scale)
    if cls == "Periodogram":
        return s.Periodogram(x, window=cfg.get("window", "hann"), **kw)
    if cls == "pcorrelogram":
        return s.pcorrelogram(x, lag=cfg["lag"], window=cfg.get("window", "hamming"), **kw)
    if cls == "pburg":
        return s.pburg(x, cfg["order"], criteria=cfg.get("criteria"), **kw)
    if cls == "pyule":
        return s.pyule(x, cfg["order"], **kw)
    if cls == "pcovar":
        return s.pcovar(x, cfg["order"], **kw)
    if cls == "pmodcovar":
        return s.pmodcovar(x, cfg["order"], **kw)
    if cls == "parma":
        return s.parma(x, cfg["order"], cfg["Q"], cfg["lag"], **kw)
    if cls == "pma":
        return s.pma(x, cfg["Q"], cfg["M"], **kw)
    if cls == "pminvar":
        return s.pminvar(x, cfg["order"], **kw)
    if cls == "pmusic":
        return s.pmusic(x, cfg["order"], NSIG=cfg.get("nsig"), **kw)
    if cls == "pev":
        return s.pev(x, cfg["order"], NSIG=cfg.get("nsig"), **kw)
    if cls.startswith("MT-"):
        return s.MultiTapering(x, NW=cfg.get("NW", 2.5), k=cfg.get("k"), method=cls[3:], **kw)
    raise ValueError(cls)


def resolved_nfft(x, nfft):
    N = len(x)
    if nfft is None:
        return N
    if nfft == "nextpow2":
        n = 1
        while n < N:
            n *= 2
        return n
    return nfft


def raw_two_sided(cls, x, nfft, fs, cfg=None):
    """the raw, unscaled estimate the class's functional estimator produces on NFFT points (two-sided; centre-DC ordered
    for the subspace methods), computed through the functional API"""
    s = sp()
    x = np.asarray(x)
    N = len(x)
    cfg = cfg or default_cfg(cls, N, np.iscomplexobj(x))
    if cls == "Periodogram":
        return np.asarray(s.speriodogram(x.astype(complex), NFFT=nfft, window=cfg.get("window", "hann"), detrend=False,
                                         scale_by_freq=False))
    if cls == "pcorrelogram":
        return np.asarray(s.CORRELOGRAMPSD(x, None, lag=cfg["lag"], window=cfg.get("window", "hamming"), NFFT=nfft))
    if cls == "pburg":
        a, rho, k = s.arburg(x, cfg["order"], cfg.get("criteria"))
        return np.asarray(s.arma2psd(A=a, rho=rho, T=fs, NFFT=nfft))
    if cls == "pyule":
        a, rho, k = s.aryule(x, cfg["order"])
        return np.asarray(s.arma2psd(A=a, rho=rho, T=fs, NFFT=nfft))
    if cls == "pcovar":
        a, e = s.arcovar(x, cfg["order"])
        return np.asarray(s.arma2psd(A=a, rho=e / float(N - cfg["order"]), T=fs, NFFT=nfft))
    if cls == "pmodcovar":
        a, e = s.modcovar(x, cfg["order"])
        return np.asarray(s.arma2psd(A=a, rho=e / float(2 * (N - cfg["order"])), T=fs, NFFT=nfft))
    if cls == "parma":
        a, b, rho = s.arma_estimate(x, cfg["order"], cfg["Q"], cfg["lag"])
        return np.asarray(s.arma2psd(A=a, B=b, rho=rho, T=fs, NFFT=nfft))
    if cls == "pma":
        b, rho = s.ma(x, cfg["Q"], cfg["M"])
        return np.asarray(s.arma2psd(B=b, rho=rho, T=fs, NFFT=nfft))
    if cls == "pminvar":
        return np.asarray(s.minvar(x, cfg["order"], sampling=fs, NFFT=nfft)[0])
    if cls in ("pmusic", "pev"):
        f = s.music if cls == "pmusic" else s.ev
        return np.asarray(f(x, cfg["order"], NSIG=cfg.get("nsig"), NFFT=nfft)[0])
    if cls.startswith("MT-"):
        m = cls[3:]
        Sk, w, e = s.pmtm(x, NW=cfg.get("NW", 2.5), k=cfg.get("k"), NFFT=nfft, method=m, show=False)
        SkA = np.abs(np.asarray(Sk)) ** 2
        w = np.asarray(w)
        if m == "adapt":
            return np.mean(SkA.T * w, axis=1)
        return np.mean(SkA * w, axis=0)
    raise ValueError(cls)


def glue_request(cls, raw, isreal, nfft, scale, fs):
    return ("F", proto.request("classglue", "F", [GLUE.get(cls, "fold2"), 1 if isreal else 0, nfft, 1 if scale else 0],
                               [raw, [TWO_PI], [fs]]))


def expected_len(isreal, nfft):
    if not isreal:
        return nfft
    return nfft // 2 + 1 if nfft % 2 == 0 else (nfft + 1) // 2


def test_data(nrng, N, cplx, kind="mix"):
    n = np.arange(N)
    x = nrng.standard_normal(N) + np.cos(0.9 * n + 0.4)
    if cplx:
        x = x + 1j * nrng.standard_normal(N) + 0.7 * np.exp(-2j * np.pi * 0.31 * n)
    return x
