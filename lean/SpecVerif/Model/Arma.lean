import SpecVerif.Model.DFT
import SpecVerif.Model.Periodogram
/-
  arma.py `arma2psd`, minvar.py (the Musicus ψ sequence and the final inversion), and the class-level
  glue shared by every estimator class (`__call__` = raw two-sided spectrum → one-sided slice ×2 for real
  data → `scale()`).
-/
namespace SpecVerif
variable {K : Type} [Add K] [Sub K] [Mul K] [Div K] [OfNat K 0] [OfNat K 1] [NatCast K] [Conj K]

/-- the zero-padded coefficient sequence `[1, c_1, …, c_p, 0, …]` of length `nfft` that `arma2psd`
    hands to the FFT (a coefficient beyond `nfft-1` would be an index error in the code) -/
def polySeq (c : List K) (nfft : Nat) : List K :=
  vec nfft (fun i => if i = 0 then 1 else nth c (i - 1))

/-- `arma2psd(A, B, rho, T, NFFT)`; `A`/`B` = `none` ↔ Python `None` -/
def arma2psd (tw : List K) (A B : Option (List K)) (rho T : K) (nfft : Nat) : List K :=
  vec nfft (fun k =>
    let num := match B with
      | some b => abs2 (dftBin tw nfft (polySeq b nfft) k)
      | none => 1
    let den := match A with
      | some a => abs2 (dftBin tw nfft (polySeq a nfft) k)
      | none => 1
    rho / T * num / den)

/-- one-sided slice of a two-sided spectrum for real data, every value doubled
    (`psd[0:NFFT/2+1]*2` for even NFFT, `psd[0:(NFFT+1)/2]*2` for odd) -/
def foldReal (raw : List K) (nfft : Nat) : List K :=
  vec (if nfft % 2 = 0 then nfft / 2 + 1 else (nfft + 1) / 2) (fun k => ((2 : Nat) : K) * nth raw k)

/-- `Spectrum.scale()`: multiply by `2π/df`, `df = sampling/NFFT`, only when `scale_by_freq` -/
def scalePsd (psd : List K) (scaleByFreq : Bool) (twoPi sampling : K) (nfft : Nat) : List K :=
  if scaleByFreq then psd.map (fun v => v * (twoPi / (sampling / (nfft : K)))) else psd

/-- the `__call__` glue of pburg / pyule / pcovar / pmodcovar / parma / pma / pminvar / pcorrelogram /
    MultiTapering: store the raw two-sided estimate (folded for real data), then `scale()` once -/
def classPsd (raw : List K) (isReal : Bool) (nfft : Nat) (scaleByFreq : Bool) (twoPi sampling : K) :
    List K :=
  scalePsd (if isReal then foldReal raw nfft else raw) scaleByFreq twoPi sampling nfft

/-- `minvar`: the ψ sequence of Musicus' algorithm from the Burg polynomial `a` (with leading 1,
    length `m`) and error `P`: ψ[K] = Σ_{i<m-K} (m-K-2i)·conj(a_i)·a_{i+K} / P, ψ[NFFT-K] = conj ψ[K].
    `psi[K]` is written after `psi[NFFT-K]`, so it wins where they overlap. -/
def minvarPsi [Neg K] (a : List K) (P : K) (nfft : Nat) : List K :=
  let m := a.length
  let s := fun (k : Nat) =>
    sumR (m - k) (fun i =>
      (if 2 * i ≤ m - k then (((m - k - 2 * i : Nat) : K)) else -(((2 * i - (m - k) : Nat) : K)))
        * conj (nth a i) * nth a (i + k)) / P
  vec nfft (fun j =>
    if j < m then s j
    else if 0 < nfft - j ∧ nfft - j < m then conj (s (nfft - j))
    else 0)

/-- `minvar` PSD: `sampling / Re(FFT(ψ))` -/
def minvarPsd [Neg K] (tw : List K) (a : List K) (P sampling : K) (nfft : Nat) : List K :=
  let psi := minvarPsi a P nfft
  vec nfft (fun k => sampling / rePart (dftBin tw nfft psi k))

end SpecVerif
