import SpecVerif.Model.Basic
/-
  Real transcendental functions used by the code (windows, log-area ratios, inverse-sine parameters,
  order-selection criteria) as a *parameter class*: `Float` for execution, `ℝ` (Mathlib's `Real.cos`, …)
  in the theorems.
-/
namespace SpecVerif

class RealFn (R : Type) where
  pi : R
  cos : R → R
  sin : R → R
  exp : R → R
  log : R → R
  sqrt : R → R
  tanh : R → R
  artanh : R → R
  arcsin : R → R
  abs : R → R
  /-- normalised sinc: `sin(πx)/(πx)`, `1` at `0` (numpy.sinc) -/
  sinc : R → R
  /-- strict order test -/
  lt : R → R → Bool

instance : NatCast Float := ⟨Float.ofNat⟩

instance : RealFn Float where
  pi := 3.14159265358979323846
  cos := Float.cos
  sin := Float.sin
  exp := Float.exp
  log := Float.log
  sqrt := Float.sqrt
  tanh := Float.tanh
  artanh := Float.atanh
  arcsin := Float.asin
  abs := Float.abs
  sinc := fun x => if x == 0.0 then 1.0 else Float.sin (3.14159265358979323846 * x) / (3.14159265358979323846 * x)
  lt := fun a b => a < b

section
variable {R : Type} [Add R] [Sub R] [Mul R] [Div R] [Neg R] [NatCast R] [RealFn R]

/-- `rc2lar(k) = -2·artanh(-k)` -/
def rc2lar (k : R) : R := -(((2 : Nat) : R)) * RealFn.artanh (-k)
/-- `lar2rc(g) = -tanh(-g/2)` -/
def lar2rc (g : R) : R := -(RealFn.tanh (-g / ((2 : Nat) : R)))
/-- `rc2is(k) = (2/π)·arcsin k` -/
def rc2is (k : R) : R := (((2 : Nat) : R) / RealFn.pi) * RealFn.arcsin k
/-- `is2rc(s) = sin(s·π/2)` -/
def is2rc (s : R) : R := RealFn.sin (s * RealFn.pi / ((2 : Nat) : R))

end
end SpecVerif
