import SpecVerif.Model.Object
/-
  psd.py, continued: the same attribute-and-cache state machine when the estimator can FAIL.

  `ok a = false` means that `self()` raises for the attribute snapshot `a` (order too large for the record, lag ≥ N, …).
  Every `__call__` of the library computes first and stores afterwards, so a failing computation stores nothing; and
  `_getPSD` clears `modified` only after `self()` has returned.  Hence a failing read / call / `sides` assignment leaves the
  object exactly as it was — in particular still marked `modified`, so that the next read tries again instead of handing out
  the stored (stale) array.  `ok` is an uninterpreted function of the snapshot: the theorems hold whatever makes an
  estimator fail.  With `ok = fun _ => true` this is `objStep` (`Proofs/C07.lean`, `objStepF_total`).
-/
namespace SpecVerif

/-- `self()` + psd setter when the estimator may raise -/
def recomputeF (ok : Attrs → Bool) (s : ObjState) : ObjState × Bool :=
  if ok s.a then (recompute s, false) else (s, true)

/-- one operation; `true` = the operation raised -/
def objStepF (ok : Attrs → Bool) (s : ObjState) : ObjOp → ObjState × Bool
  | .setSides arg =>
      match s.cache with
      | none => objStep s (.setSides arg)           -- nothing stored: the side is recorded, nothing is computed
      | some _ =>
        -- a stored PSD that is not current is recomputed first (`self.psd`); if that raises, nothing has been assigned
        if s.modified && !ok s.a then (s, true) else objStep s (.setSides arg)
  | .call => recomputeF ok s
  | .read => if s.cache.isNone || s.modified then recomputeF ok s else (s, false)
  | op => objStep s op

def objRunF (ok : Attrs → Bool) (s : ObjState) (ops : List ObjOp) : ObjState :=
  ops.foldl (fun st op => (objStepF ok st op).1) s

end SpecVerif
