import SpecVerif.Model.Arma
import SpecVerif.Model.Eigen
/-
  The `__call__` glue of the twelve estimator classes, as a function of the raw two-sided, unscaled
  estimate `raw` (length NFFT) computed by the class's functional estimator:

  * `fold2` — pburg, pyule, pcovar, pmodcovar, parma, pma, pminvar, pcorrelogram, MultiTapering:
              real data → first NFFT/2+1 (even) or (NFFT+1)/2 (odd) values, every one doubled;
  * `take`  — Periodogram: real data → bins 0..NFFT/2 (`rfft`), not doubled;
  * `eigen` — pmusic, pev: the function output is centre-DC ordered; real data → first half doubled and
              reversed, complex data → `centerdc_2_twosided`;
  then `scale()` exactly once.
-/
namespace SpecVerif
variable {K : Type} [Add K] [Sub K] [Mul K] [Div K] [Neg K] [OfNat K 0] [OfNat K 1] [NatCast K]
  [Conj K]

inductive GlueKind | fold2 | take | eigen
deriving DecidableEq, Repr

def takeReal (raw : List K) (nfft : Nat) : List K := vec (nfft / 2 + 1) (nth raw)

def classCall (kind : GlueKind) (raw : List K) (isReal : Bool) (nfft : Nat) (scaleByFreq : Bool)
    (twoPi sampling : K) : List K :=
  let stored := match kind with
    | .fold2 => if isReal then foldReal raw nfft else raw
    | .take => if isReal then takeReal raw nfft else raw
    | .eigen => eigenClassFold raw isReal nfft
  scalePsd stored scaleByFreq twoPi sampling nfft

end SpecVerif
