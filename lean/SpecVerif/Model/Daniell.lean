import SpecVerif.Model.Periodogram
/-
  periodogram.py: `DaniellPeriodogram` (and the class `pdaniell`, which stores its first return value).

  The periodogram `psd` (length `L`: odd ⇒ the code treats the data as real, even ⇒ complex) is averaged over the
  `2P+1` bins around every `(2P+1)`-th bin; bin `0` is never used ("needed to start the average") and the window is clipped
  at both ends, the divisor being the number of bins actually summed.  The number of output values follows the code's
  parity rule (an odd count for real data, an even one for complex data, falling back to the truncated quotient).
-/
namespace SpecVerif
variable {K : Type} [Add K] [Sub K] [Mul K] [Div K] [OfNat K 0] [OfNat K 1] [NatCast K] [Conj K]

/-- `int(newN)` of the code -/
def daniellLen (L P : Nat) : Nat :=
  let sl := 2 * P + 1
  let c := (L + sl - 1) / sl                    -- ceil(L / (2P+1))
  if L % 2 = 1 then (if c % 2 = 0 then L / sl else c)
  else (if c % 2 = 1 then L / sl else c)

/-- first bin (inclusive) averaged into output `i`: `max(i(2P+1) − P, 1)` -/
def daniellLo (P i : Nat) : Nat := max (i * (2 * P + 1) - P) 1

/-- last bin (exclusive): `min(i(2P+1) + P + 1, L)` -/
def daniellHi (L P i : Nat) : Nat := min (i * (2 * P + 1) + P + 1) L

/-- number of bins averaged into output `i` (`count` of the code) -/
def daniellCount (L P i : Nat) : Nat := daniellHi L P i - daniellLo P i

/-- output value `i` -/
def daniellBin (psd : List K) (P i : Nat) : K :=
  sumR (daniellCount psd.length P i) (fun j => nth psd (daniellLo P i + j)) / (daniellCount psd.length P i : K)

/-- the smoothed, decimated spectrum.  (`count = 0`, i.e. `P = 0` or a one-point periodogram, makes the code divide 0 by 0:
the driver reports that case as an error instead of evaluating the model.) -/
def daniell (psd : List K) (P : Nat) : List K :=
  vec (daniellLen psd.length P) (daniellBin psd P)

/-- `DaniellPeriodogram(x, P, NFFT, detrend=None, scale_by_freq=False, window=w)` -/
def daniellPeriodogram (tw x w : List K) (nfft P : Nat) (isReal : Bool) : List K :=
  daniell (speriodogram tw x w nfft isReal) P

end SpecVerif
