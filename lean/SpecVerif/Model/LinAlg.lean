import SpecVerif.Model.Basic
/-
  Small dense linear algebra for the exact-mode model: Gauss–Jordan elimination over a field with a
  decidable zero test, normal equations of a least-squares problem.  `scipy.linalg.lstsq` /
  `numpy.linalg.solve` / LAPACK Cholesky are *parameters* of the model (contract: "returns the minimiser /
  the solution"); for a full-column-rank data matrix the exact solution of the normal equations is a
  legitimate instance of that contract and is what the exact mode executes.
-/
namespace SpecVerif

section
variable {K : Type} [Add K] [Sub K] [Mul K] [Div K] [Neg K] [OfNat K 0] [OfNat K 1] [NatCast K]
  [Conj K] [IsZero K]

abbrev Mat (K : Type) := List (List K)

def mentryM (M : Mat K) (i j : Nat) : K := nth (M.getD i []) j

/-- `Mᴴ` for an `r × c` matrix -/
def conjT (M : Mat K) (r c : Nat) : Mat K :=
  vec c (fun j => vec r (fun i => conj (mentryM M i j)))

def matMul (A B : Mat K) (r n c : Nat) : Mat K :=
  vec r (fun i => vec c (fun j => sumR n (fun k => mentryM A i k * mentryM B k j)))

def matVec (A : Mat K) (v : List K) (r n : Nat) : List K :=
  vec r (fun i => sumR n (fun k => mentryM A i k * nth v k))

/-- one Gauss–Jordan step on the augmented matrix: make column `col` a unit column using the first row
    at or below `col` with a non-zero entry; `none` if the column is singular -/
def gjStep (n w : Nat) (M : Mat K) (col : Nat) : Option (Mat K) :=
  match (List.range n).find? (fun i => col ≤ i && !isZero (mentryM M i col)) with
  | none => none
  | some p =>
    let rowP := vec w (fun j => mentryM M p j / mentryM M p col)
    let swapped : Mat K := vec n (fun i => if i = col then rowP else if i = p then M.getD col [] else M.getD i [])
    some (vec n (fun i =>
      if i = col then rowP
      else
        let f := mentryM swapped i col
        vec w (fun j => mentryM swapped i j - f * nth rowP j)))

/-- solve `A X = B` (`A` is `n × n`, `B` is `n × m`) by Gauss–Jordan elimination -/
def solveMat (A : Mat K) (B : Mat K) (n m : Nat) : Option (Mat K) :=
  let aug : Mat K := vec n (fun i => vec (n + m) (fun j => if j < n then mentryM A i j else mentryM B i (j - n)))
  let res := (List.range n).foldl (fun (acc : Option (Mat K)) col =>
    match acc with
    | none => none
    | some M => gjStep n (n + m) M col) (some aug)
  res.map (fun M => vec n (fun i => vec m (fun j => mentryM M i (j + n))))

def solveVec (A : Mat K) (b : List K) (n : Nat) : Option (List K) :=
  (solveMat A (vec n (fun i => [nth b i])) n 1).map (fun X => vec n (fun i => mentryM X i 0))

def identity (n : Nat) : Mat K := vec n (fun i => vec n (fun j => if i = j then 1 else 0))

def inverse (A : Mat K) (n : Nat) : Option (Mat K) := solveMat A (identity n) n n

/-- the minimiser of `‖b - X a‖²` for an `r × c` matrix `X` of full column rank, through the normal
    equations `XᴴX a = Xᴴ b` -/
def lstsq (X : Mat K) (b : List K) (r c : Nat) : Option (List K) :=
  let Xh := conjT X r c
  solveVec (matMul Xh X c r c) (matVec Xh b c r) c

end
end SpecVerif
