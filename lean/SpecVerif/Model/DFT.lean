import SpecVerif.Model.Basic
/-
  Discrete Fourier transform as numpy defines it (`numpy.fft.fft(x, n)`): the input is truncated or
  zero-padded to `n` samples and bin `k` is `Σ_j x_j ω^{jk}` with `ω = e^{-2πi/n}`.

  The root of unity is a *parameter*: the caller passes the table `tw = [ω^0, …, ω^{n-1}]`
  (`twiddles ω n` in the theorems; cos/sin values in floating execution).
-/
namespace SpecVerif
variable {K : Type} [Add K] [Mul K] [OfNat K 0] [OfNat K 1]

/-- `[ω^0, …, ω^{n-1}]` -/
def twiddles (ω : K) (n : Nat) : List K := vec n (powN ω)

/-- bin `k` of the `n`-point DFT of `x` -/
def dftBin (tw : List K) (n : Nat) (x : List K) (k : Nat) : K :=
  sumR (min x.length n) (fun j => nth x j * nth tw ((j * k) % n))

/-- `numpy.fft.fft(x, n)` -/
def dft (tw : List K) (n : Nat) (x : List K) : List K := vec n (dftBin tw n x)

/-- `numpy.fft.rfft(x, n)`: bins `0 .. n/2` (length `n/2+1` for either parity) -/
def rdft (tw : List K) (n : Nat) (x : List K) : List K := vec (n / 2 + 1) (dftBin tw n x)

end SpecVerif
