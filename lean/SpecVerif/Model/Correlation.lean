import SpecVerif.Model.Basic
/-
  correlation.py (`CORRELATION`, `xcorr`) and linalg.py (`corrmtx`).
  `scipy.signal.correlate(x, y, 'full')` is modelled by its defining sum.
-/
namespace SpecVerif
variable {K : Type} [Add K] [Sub K] [Mul K] [Div K] [OfNat K 0] [OfNat K 1] [NatCast K] [Conj K]

inductive Norm | biased | unbiased | coeff | none
deriving DecidableEq, Repr

/-- raw lag-`k` sum `Σ_{j<n-k} x[j+k]·conj y[j]` over the common (zero padded) length `n` -/
def corrRaw (x y : List K) (n k : Nat) : K :=
  sumR (n - k) (fun j => nth x (j + k) * conj (nth y j))

/-- mean power `Σ|x|²/n` (= `rms(x)²`) -/
def meanPow (x : List K) (n : Nat) : K := sumR n (fun j => abs2 (nth x j)) / (n : K)

/-- `CORRELATION(x, y, maxlags, norm)`; the shorter input is zero padded.
    `coeff` is modelled for the autocorrelation (`rmsx·rmsy = meanPow`), the only case C09 specifies;
    the caller passes `rms2 = rms(x)·rms(y)`. -/
def correlation (x y : List K) (maxlags : Nat) (norm : Norm) (rms2 : K) : List K :=
  let n := max x.length y.length
  vec (maxlags + 1) (fun k =>
    let s := corrRaw x y n k
    match norm with
    | .biased => s / (n : K)
    | .unbiased => s / ((n - k : Nat) : K)
    | .none => s
    | .coeff => if k = 0 then 1 else s / rms2 / (n : K))

/-- `xcorr(x, y, maxlags, norm)` (equal lengths `n`): lags `-L..L`, entry `i` is lag `i - L`. -/
def xcorr (x y : List K) (L : Nat) (norm : Norm) (rms2 : K) : List K :=
  let n := x.length
  vec (2 * L + 1) (fun i =>
    let m := if L ≤ i then i - L else L - i
    let s := if L ≤ i then corrRaw x y n m else conj (corrRaw y x n m)
    match norm with
    | .biased => s / (n : K)
    | .unbiased => s / ((n - m : Nat) : K)
    | .none => s
    | .coeff => s / rms2 / (n : K))

inductive CorrMtx | autocorrelation | prewindowed | postwindowed | covariance | modified
deriving DecidableEq, Repr

/-- `corrmtx(x, m, method)` as a list of rows; entry `(i,j)` of the autocorrelation matrix is the
    zero-padded `x[i-j]`. -/
def corrmtx (x : List K) (m : Nat) (method : CorrMtx) : List (List K) :=
  let N := x.length
  let e := fun (i j : Nat) => if j ≤ i then nth x (i - j) else (0 : K)
  match method with
  | .autocorrelation => vec (N + m) (fun i => vec (m + 1) (e i))
  | .prewindowed => vec N (fun i => vec (m + 1) (e i))
  | .postwindowed => vec N (fun i => vec (m + 1) (e (i + m)))
  | .covariance => vec (N - m) (fun i => vec (m + 1) (e (i + m)))
  | .modified => vec (2 * (N - m)) (fun i =>
      if i < N - m then vec (m + 1) (e (i + m))
      else vec (m + 1) (fun j => conj (nth x (i - (N - m) + j))))

end SpecVerif
