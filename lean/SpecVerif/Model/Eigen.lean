import SpecVerif.Model.DFT
import SpecVerif.Model.LinAlg
import SpecVerif.Model.Sides
/-
  eigenfre.py: `eigen` (MUSIC / EV pseudo-spectra) and the `pmusic` / `pev` class glue.

  `numpy.linalg.svd` is a PARAMETER: the caller supplies the singular values `S` (non-increasing) and the
  matrix `V` whose column `i` is what the code calls `V[0:P, i]` (= minus row `i` of numpy's `Vh`), with the
  contract "rows of Vh orthonormal, `FB · conj(v_i)`-null for i ≥ rank" stated in the theorems that use it.
  The AIC / MDL argmin (fractional powers and logarithms of the singular values) is a parameter too.
-/
namespace SpecVerif
variable {K : Type} [Add K] [Sub K] [Mul K] [Div K] [Neg K] [OfNat K 0] [OfNat K 1] [NatCast K]
  [Conj K]

/-- number of rows of each half of the forward-backward matrix: `min (N-P) 100` -/
def fbNP (N P : Nat) : Nat := min (N - P) 100

/-- the forward-backward data matrix: `FB[I,K] = X[I-K+P-1]`, `FB[I+NP,K] = conj X[I+K+1]` -/
def fbMatrix (x : List K) (P : Nat) : Mat K :=
  let np := fbNP x.length P
  vec (2 * np) (fun i =>
    if i < np then vec P (fun k => nth x (i + P - 1 - k))
    else vec P (fun k => conj (nth x (i - np + k + 1))))

/-- argument validation of `eigen` (before any computation); `nsig` may be negative in the API.  `methodOk` stands for the
    value tests that do not involve `nsig`: the method name is 'music' or 'ev', a supplied threshold is `≥ 1`, and the criterion
    name is 'aic' or 'mdl' when it is the rule in force (all of them `ValueError`s raised before the size assertion) -/
def eigenValidate (methodOk : Bool) (nsig : Option Int) (hasThreshold : Bool) (N P : Nat) : Except String Unit :=
  if !methodOk then .error "value"
  else if nsig.isSome && hasThreshold then .error "value"
  else match nsig with
    | some n => if n < 0 then .error "value" else if n ≥ (P : Int) then .error "value"
                else if 2 * (N - P) ≤ P - 1 then .error "assert" else .ok ()
    | none => if 2 * (N - P) ≤ P - 1 then .error "assert" else .ok ()

/-- `_get_signal_space`: an explicit NSIG wins; else the threshold rule (number of singular values above
    `threshold · min S`, at least 1); else the AIC/MDL argmin + 1 (parameter `critArgmin`) -/
def signalSpace [ReOrd K] (S : List K) (nsig : Option Nat) (threshold : Option K) (critArgmin : Nat) : Nat :=
  match nsig with
  | some n => n
  | none =>
    match threshold with
    | some t =>
      let mn := S.foldl (fun m s => if reGt m s then s else m) (nth S 0)
      let cnt := (S.filter (fun s => reGt s (t * mn))).length
      if cnt = 0 then 1 else cnt
    | none => critArgmin + 1

/-- the divisor floor of the EV branch: `max(S[I], eps·S[0])` applied to every singular value (the code divides by a
    noise singular value; one that is exactly zero — noiseless, exactly rank-deficient data — is replaced by `eps·S[0]`).
    `eigenDenom`/`eigenPsd` below take the singular values AFTER this flooring as their argument `S`. -/
def floorS [ReOrd K] (S : List K) (eps : K) : List K :=
  let f := eps * nth S 0
  S.map (fun s => if reGt f s then f else s)

/-- the accumulated noise-subspace denominator at FFT bin `k`:
    `Σ_{i=nsig}^{P-1} |DFT(V[:,i])[k]|²` (MUSIC) or the same terms divided by `S_i` (EV) -/
def eigenDenom (tw : List K) (cols : List (List K)) (S : List K) (nsig P nfft : Nat) (ev : Bool) (k : Nat) : K :=
  sumR (P - nsig) (fun j =>
    let i := j + nsig
    let z := dftBin tw nfft (cols.getD i []) k
    if ev then abs2 z / nth S i else abs2 z)

/-- output reordering of `eigen`: `PSD[h::-1]` followed by `PSD[NFFT-1:h:-1]`, `h = NFFT/2`
    (centre-DC ordering: entry `j` is FFT bin `(h - j) mod NFFT`) -/
def eigenReorder (psd : List K) (nfft : Nat) : List K :=
  let h := nfft / 2
  vec nfft (fun j => if j ≤ h then nth psd (h - j) else nth psd (nfft + h - j))

/-- `eigen(...)[0]` given the SVD: `1 / denominator`, reordered -/
def eigenPsd (tw : List K) (cols : List (List K)) (S : List K) (nsig P nfft : Nat) (ev : Bool) : List K :=
  eigenReorder (vec nfft (fun k => 1 / eigenDenom tw cols S nsig P nfft ev k)) nfft

/-- `pmusic` / `pev` `__call__` glue on the function output (before `scale()`): real data → the first
    `NFFT/2+1` resp. `(NFFT+1)/2` values doubled and reversed; complex data → `centerdc_2_twosided` -/
def eigenClassFold (psd : List K) (isReal : Bool) (nfft : Nat) : List K :=
  if isReal then
    let L := if nfft % 2 = 0 then nfft / 2 + 1 else (nfft + 1) / 2
    vec L (fun j => ((2 : Nat) : K) * nth psd (L - 1 - j))
  else ifftshift psd

end SpecVerif
