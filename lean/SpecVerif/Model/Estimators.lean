import SpecVerif.Model.Correlation
import SpecVerif.Model.Levinson
import SpecVerif.Model.LinAlg
import SpecVerif.Model.Periodogram
/-
  yulewalker.py `aryule`, arma.py `ma` / `arma_estimate`, covar.py `arcovar`, modcovar.py `modcovar`.

  `scipy.linalg.lstsq` is a parameter with contract "returns a minimiser"; the model carries its own
  exact instance (normal equations, `LinAlg.lstsq`).  The fast recursions `arcovar_marple` /
  `modcovar_marple` are modelled at specification level: the property says they return the same
  coefficients and the same minimum normalised per sample, so their model *is* the least-squares
  solution (`arcovarMarple`, `modcovarMarple`), and the correspondence compares the recursion with it.
-/
namespace SpecVerif
variable {K : Type} [Add K] [Sub K] [Mul K] [Div K] [Neg K] [OfNat K 0] [OfNat K 1] [NatCast K]
  [Conj K]

/-- `aryule(X, order, norm)` = `LEVINSON(CORRELATION(X, maxlags=order, norm), allow_singularity=True)` -/
def aryule (x : List K) (order : Nat) (norm : Norm) : LevState K :=
  let r := correlation x x order norm 1
  levRun (rePart (nth r 0)) r.tail order

/-- `ma(X, Q, M)`: a long AR(M) fit, then an AR(Q) fit of its coefficient sequence `[1, a…]` -/
def maEstimate (x : List K) (Q M : Nat) : Except String (List K × K) :=
  if Q = 0 ∨ Q ≥ M then .error "value"
  else
    let s1 := aryule x M .biased
    let s2 := aryule ((1 : K) :: s1.A) Q .biased
    .ok (s2.A, s1.P)

section LS
variable [IsZero K]

/-- `arcovar(x, p)`: least squares on the 'covariance' data matrix; returns the coefficients and
    `e = X₁ᴴX₁ + X₁ᴴX_c a` (the minimum of the forward prediction-error energy) -/
def lsFit (X : Mat K) (rows p : Nat) : Option (List K × K) :=
  let X1 := vec rows (fun i => mentryM X i 0)
  let negXc : Mat K := vec rows (fun i => vec p (fun j => -(mentryM X i (j + 1))))
  match lstsq negXc X1 rows p with
  | none => none
  | some a =>
    let e := sumR rows (fun i => conj (nth X1 i) * nth X1 i)
           + sumR p (fun j => sumR rows (fun i => conj (nth X1 i) * mentryM X i (j + 1)) * nth a j)
    some (a, e)

def arcovar (x : List K) (p : Nat) : Option (List K × K) :=
  lsFit (corrmtx x p .covariance) (x.length - p) p

def modcovar (x : List K) (p : Nat) : Option (List K × K) :=
  lsFit (corrmtx x p .modified) (2 * (x.length - p)) p

/-- specification-level model of `arcovar_marple`: the same coefficients, the minimum per sample -/
def arcovarMarple (x : List K) (p : Nat) : Option (List K × K) :=
  (arcovar x p).map (fun ae => (ae.1, ae.2 / ((x.length - p : Nat) : K)))

/-- specification-level model of `modcovar_marple`: minimum per (forward + backward) sample -/
def modcovarMarple (x : List K) (p : Nat) : Option (List K × K) :=
  (modcovar x p).map (fun ae => (ae.1, ae.2 / ((2 * (x.length - p) : Nat) : K)))

/-- the sequence handed to the covariance solver by `arma_estimate`: `Y[K] = r(K+Q-P+1)` over the
    unbiased lags (negative lags conjugated), `K < lag-Q+P`, resized to `lag` samples -/
def armaLagSeq (R : List K) (P Q lag : Nat) : List K :=
  let mpq := lag + P - Q
  vec lag (fun k =>
    if k < mpq then
      if k + Q + 1 < P then conj (nth R (P - (k + Q + 1)))
      else nth R (k + Q + 1 - P)
    else 0)

/-- `arma_estimate(X, P, Q, lag)` -/
def armaEstimate (x : List K) (P Q lag : Nat) : Except String (List K × List K × K) :=
  let N := x.length
  if lag ≥ N then .error "assert"
  else if lag + P < Q ∨ lag + P - Q > N - P then .error "index"
  else
    let R := correlation x x lag .unbiased 1
    let Y := armaLagSeq R P Q lag
    match arcovar Y P with
    | none => .error "singular"
    | some (ar, _) =>
      let resid := vec (N - P) (fun i => nth x (i + P) + sumR P (fun j => nth ar j * nth x (i + P - j - 1)))
      match maEstimate resid Q (2 * Q) with
      | .error e => .error e
      | .ok (b, rho) => .ok (ar, b, rho)

end LS
end SpecVerif
