/-
  SpecVerif.Model.Basic — import-free foundations of the executable model.

  Every modelled function of cokelaer/spectrum is written ONCE, generically in the scalar type `K`,
  using only `+ - * /`, `0`, `1`, natural-number casts and a conjugation.  The same definitions are
  then used
    * at an arbitrary field with involution (theorems, files under `Proofs/`),
    * at `CRat`   (Gaussian rationals — exact execution),
    * at `CFloat` (pairs of IEEE doubles — floating execution; anything with a DFT or cos/exp).
-/
namespace SpecVerif

/-- conjugation on the scalar type -/
class Conj (K : Type) where
  conj : K → K
export Conj (conj)

section Generic
variable {K : Type}

/-- `Σ_{i<n} f i`, by structural recursion (bridged to `Finset.sum (range n)` in the proofs). -/
def sumR [Add K] [OfNat K 0] : Nat → (Nat → K) → K
  | 0, _ => 0
  | n + 1, f => sumR n f + f n

/-- the vector `[f 0, …, f (n-1)]` -/
def vec (n : Nat) (f : Nat → K) : List K := (List.range n).map f

/-- total indexing: out-of-range reads are `0` (numpy zero padding) -/
def nth [OfNat K 0] (l : List K) (i : Nat) : K := l.getD i 0

/-- `x ^ n` by repeated multiplication -/
def powN [Mul K] [OfNat K 1] (x : K) : Nat → K
  | 0 => 1
  | n + 1 => powN x n * x

/-- squared modulus, kept in `K` -/
def abs2 [Mul K] [Conj K] (z : K) : K := z * conj z

end Generic

/-! ### Gaussian rationals -/

structure CRat where
  re : Rat
  im : Rat
deriving BEq, Repr

namespace CRat
instance : Add CRat := ⟨fun a b => ⟨a.re + b.re, a.im + b.im⟩⟩
instance : Sub CRat := ⟨fun a b => ⟨a.re - b.re, a.im - b.im⟩⟩
instance : Neg CRat := ⟨fun a => ⟨-a.re, -a.im⟩⟩
instance : Mul CRat := ⟨fun a b => ⟨a.re * b.re - a.im * b.im, a.re * b.im + a.im * b.re⟩⟩
instance : Div CRat := ⟨fun a b =>
  let d := b.re * b.re + b.im * b.im
  ⟨(a.re * b.re + a.im * b.im) / d, (a.im * b.re - a.re * b.im) / d⟩⟩
instance : OfNat CRat 0 := ⟨⟨0, 0⟩⟩
instance : OfNat CRat 1 := ⟨⟨1, 0⟩⟩
instance : NatCast CRat := ⟨fun n => ⟨(n : Rat), 0⟩⟩
instance : Conj CRat := ⟨fun a => ⟨a.re, -a.im⟩⟩
instance : Inhabited CRat := ⟨⟨0, 0⟩⟩
end CRat

/-! ### complex doubles -/

structure CFloat where
  re : Float
  im : Float
deriving Repr

namespace CFloat
instance : Add CFloat := ⟨fun a b => ⟨a.re + b.re, a.im + b.im⟩⟩
instance : Sub CFloat := ⟨fun a b => ⟨a.re - b.re, a.im - b.im⟩⟩
instance : Neg CFloat := ⟨fun a => ⟨-a.re, -a.im⟩⟩
instance : Mul CFloat := ⟨fun a b => ⟨a.re * b.re - a.im * b.im, a.re * b.im + a.im * b.re⟩⟩
instance : Div CFloat := ⟨fun a b =>
  let d := b.re * b.re + b.im * b.im
  ⟨(a.re * b.re + a.im * b.im) / d, (a.im * b.re - a.re * b.im) / d⟩⟩
instance : OfNat CFloat 0 := ⟨⟨0.0, 0.0⟩⟩
instance : OfNat CFloat 1 := ⟨⟨1.0, 0.0⟩⟩
instance : NatCast CFloat := ⟨fun n => ⟨Float.ofNat n, 0.0⟩⟩
instance : Conj CFloat := ⟨fun a => ⟨a.re, -a.im⟩⟩
instance : Inhabited CFloat := ⟨⟨0.0, 0.0⟩⟩
end CFloat

/-- tests on the real part used by the guards of the code (`P <= 0`, criterion comparison) -/
class ReOrd (K : Type) where
  /-- real part `≤ 0` -/
  reLe0 : K → Bool
  /-- `re a > re b` -/
  reGt : K → K → Bool
export ReOrd (reLe0 reGt)

instance : ReOrd CRat := ⟨fun a => a.re ≤ 0, fun a b => a.re > b.re⟩
instance : ReOrd CFloat := ⟨fun a => a.re ≤ 0.0, fun a b => a.re > b.re⟩

/-- the exact zero test of the code (`P == 0`, pivot search) -/
class IsZero (K : Type) where
  isZero : K → Bool
export IsZero (isZero)

instance : IsZero CRat := ⟨fun z => z.re == 0 && z.im == 0⟩
instance : IsZero CFloat := ⟨fun z => z.re == 0.0 && z.im == 0.0⟩

end SpecVerif
