import SpecVerif.Model.RealFn
/-
  src/cpp/mydpss.c `multitap(num_points, nwin, lam, npi, tapers, tapsum)`: the symmetric TRIDIAGONAL matrix whose
  eigenvectors the C routine returns (lines 106–127):

      an = num_points;  ww = npi / an;  cs = cos(2π·ww);
      diag[i]    = -cs * ((an-1)/2 - i) * ((an-1)/2 - i)          i = 0 … N-1
      offdiag[i] = -i * (an - i) / 2                              i = 0 … N-1

  `jtridib_` / `jtinvit_` are EISPACK's `tridib` / `tinvit`: "d contains the diagonal elements … e contains the
  subdiagonal elements of the input matrix in its last n-1 positions; e(1) is arbitrary" — so, 0-based, `offdiag[i]`
  (1 ≤ i ≤ N-1) is the entry coupling rows `i-1` and `i`, and `offdiag[0]` (which the formula makes `0`) is unused.
  The routine asks for the `nwin` SMALLEST eigenvalues of this matrix (`m11 = 1`), i.e. the largest ones of its negative,
  Slepian's commuting second-difference matrix.  Here `W` is the C code's `ww = npi/num_points` (`NW/N` on the Python side).
-/
namespace SpecVerif
open RealFn

section
variable {R : Type} [Add R] [Sub R] [Mul R] [Div R] [Neg R] [OfNat R 0] [OfNat R 1] [NatCast R] [RealFn R]

/-- `diag[i] = -cos(2πW) · ((N-1)/2 - i) · ((N-1)/2 - i)` -/
def dpssDiag (N : Nat) (W : R) (i : Nat) : R :=
  -(cos (((2 : Nat) : R) * pi * W)) * (((N : R) - 1) / ((2 : Nat) : R) - (i : R))
    * (((N : R) - 1) / ((2 : Nat) : R) - (i : R))

/-- `offdiag[i] = -i · (N - i) / 2` (couples rows `i-1` and `i`; `0` at `i = 0`) -/
def dpssOff (N : Nat) (i : Nat) : R :=
  -(i : R) * ((N : R) - (i : R)) / ((2 : Nat) : R)

/-- entry `(i, j)` of the `N × N` matrix handed to EISPACK -/
def dpssTriEntry (N : Nat) (W : R) (i j : Nat) : R :=
  if i = j then dpssDiag N W i
  else if i + 1 = j then dpssOff N j
  else if j + 1 = i then dpssOff N i
  else 0

/-- the matrix–vector product `T v` (row `i`: `offdiag[i]·v[i-1] + diag[i]·v[i] + offdiag[i+1]·v[i+1]`, the first term
    absent in row `0` and the last in row `N-1`); `v` is read with zero padding -/
def dpssTriMul (N : Nat) (W : R) (v : List R) : List R :=
  vec N (fun i =>
    (if i = 0 then 0 else dpssOff N i * nth v (i - 1)) + dpssDiag N W i * nth v i
      + (if i + 1 < N then dpssOff N (i + 1) * nth v (i + 1) else 0))

/-- the two arrays `diag`, `offdiag` of the C routine (both of length `N`) -/
def dpssTriArrays (N : Nat) (W : R) : List R × List R :=
  (vec N (dpssDiag N W), vec N (dpssOff (R := R) N))

end
end SpecVerif
