import SpecVerif.Model.RealFn
/-
  mtm.py `dpss(N, NW, k)`: the Python glue around the C eigen-solver `multitap` (a PARAMETER: it supplies `k` raw
  tapers of length `N`, assumed mutually orthogonal with norm `√N`, and their sums).  The glue rescales by `1/√N`,
  applies the sign convention (even-index tapers: non-negative sum; odd-index tapers: non-negative first NON-NEGLIGIBLE sample,
  i.e. the first one above 1% of the largest magnitude) and
  recomputes the concentration ratios as `Σ_d acvs_d · r_d` with `r_0 = 2W`, `r_d = 4W·sinc(2W d)`, `W = NW/N`.
-/
namespace SpecVerif
open RealFn

section
variable {R : Type} [Add R] [Sub R] [Mul R] [Div R] [Neg R] [OfNat R 0] [OfNat R 1] [NatCast R] [RealFn R]

/-- largest magnitude of a list -/
def absMax (t : List R) : R := t.foldl (fun m v => if lt m (abs v) then abs v else m) 0

/-- the first sample that is not negligible (magnitude above 1% of the largest one); `0` if there is none.  The code reads
    the sign of the leading lobe of an antisymmetric taper from this sample (the very first samples of a long, wide-band
    taper are below the round-off of the eigen-solver) -/
def firstSignificant (t : List R) : R :=
  let thr := absMax t / ((100 : Nat) : R)
  (t.find? (fun v => lt thr (abs v))).getD 0

/-- one taper after scaling and the sign flip; `i` = its index, `raw` the C routine's column, `ts` its reported sum -/
def dpssTaper (N i : Nat) (raw : List R) (ts : R) : List R :=
  let t := vec N (fun n => raw.getD n 0 / sqrt (N : R))
  let flip : Bool := if i % 2 = 0 then lt ts 0 else lt (firstSignificant t) 0
  if flip then t.map (fun v => -v) else t

/-- lag-`d` autocovariance `Σ_n t[n]·t[n+d]` (the code's `_autocov(…, debias=False) * N`, an FFT convolution) -/
def acvs (t : List R) (d : Nat) : R :=
  sumR (t.length - d) (fun n => t.getD n 0 * t.getD (n + d) 0)

/-- the sinc-kernel sequence `r_0 = 2W`, `r_d = 4W·sinc(2W d)` -/
def sincSeq (W : R) (d : Nat) : R :=
  if d = 0 then ((2 : Nat) : R) * W else ((4 : Nat) : R) * W * sinc (((2 : Nat) : R) * W * (d : R))

/-- concentration ratio recomputed by the glue: `Σ_d acvs_d · r_d` -/
def dpssEigval (N : Nat) (W : R) (t : List R) : R :=
  sumR N (fun d => acvs t d * sincSeq W d)

/-- `dpss(N, NW, k)` given the C routine's output -/
def dpssGlue (N : Nat) (NW : R) (raws : List (List R)) (tapsum : List R) : List (List R) × List R :=
  let tapers := (List.range raws.length).map (fun i => dpssTaper N i (raws.getD i []) (tapsum.getD i 0))
  (tapers, tapers.map (dpssEigval N (NW / (N : R))))

end
end SpecVerif
