import SpecVerif.Model.RealFn
/-
  criteria.py `aic_eigen` / `mdl_eigen` and the rule `NSIG = argmin + 1` of `eigenfre._get_signal_space`
  (Wax–Kailath order selection from the sorted singular values `s`, sample-size argument `N`).

  For `k = 0 … n−2`, with `m = n − k` and the tail `s[k+1:]` (which has `m − 1` entries — the code divides by `m`
  all the same):  `a_k = Σ tail / m`,  `g_k = Π tail^(1/m)`,
      AIC(k) = −2·m·N·ln(g_k/a_k) + 2k(2n−k),        MDL(k) = −m·N·ln(g_k/a_k) + ½·k(2n−k)·ln N.
  `ln(g_k/a_k)` is modelled as `(Σ ln tail)/m − ln(Σ tail / m)` (equal for positive singular values).
-/
namespace SpecVerif
open RealFn

section
variable {R : Type} [Add R] [Sub R] [Mul R] [Div R] [Neg R] [OfNat R 0] [NatCast R] [RealFn R]

/-- `ln(g_k / a_k)` -/
def eigLnRatio (s : List R) (k : Nat) : R :=
  let m : R := ((s.length - k : Nat) : R)
  sumR (s.length - k - 1) (fun j => log (s.getD (k + 1 + j) 0)) / m
    - log (sumR (s.length - k - 1) (fun j => s.getD (k + 1 + j) 0) / m)

/-- `aic_eigen(s, N)`: the list of `n − 1` criterion values -/
def aicEigen (s : List R) (N : Nat) : List R :=
  vec (s.length - 1) (fun k =>
    -(((2 : Nat) : R)) * ((s.length - k : Nat) : R) * (N : R) * eigLnRatio s k
      + ((2 * k * (2 * s.length - k) : Nat) : R))

/-- `mdl_eigen(s, N)` -/
def mdlEigen (s : List R) (N : Nat) : List R :=
  vec (s.length - 1) (fun k =>
    -(((s.length - k : Nat) : R)) * (N : R) * eigLnRatio s k
      + ((k * (2 * s.length - k) : Nat) : R) / ((2 : Nat) : R) * log (N : R))

/-- `numpy.argmin`: index of the first minimal entry -/
def argminGo (best : R) (bi : Nat) : List R → Nat → Nat
  | [], _ => bi
  | x :: xs, i => if lt x best then argminGo x i xs (i + 1) else argminGo best bi xs (i + 1)

def argminFirst : List R → Nat
  | [] => 0
  | x :: xs => argminGo x 0 xs 1

/-- `_get_signal_space(S, NP, criteria=…)` with neither NSIG nor a threshold: `argmin(criterion(S, 2·NP)) + 1` -/
def signalSpaceCrit (s : List R) (NP : Nat) (mdl : Bool) : Nat :=
  argminFirst (if mdl then mdlEigen s (2 * NP) else aicEigen s (2 * NP)) + 1

end
end SpecVerif
